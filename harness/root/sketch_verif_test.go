//go:build verif

package ristretto

// White-box harness for sketch.go / tinyLFU (C18).

import (
	"fmt"
	"strings"

	"github.com/dgraph-io/ristretto/v2/z"
)

func vDumpRows(s *cmSketch) string {
	parts := make([]string, 0, cmDepth)
	for i := range s.rows {
		parts = append(parts, vhex([]byte(s.rows[i])))
	}
	return strings.Join(parts, "|")
}

func init() {
	verifComponents["rowbyte"] = func(args []string) func(op []string) string {
		return func(op []string) string {
			if op[0] == "__end" {
				return ""
			}
			b, n := byte(vu(op[0])), vu(op[1])
			r := cmRow{b}
			g := r.get(n)
			r2 := cmRow{b}
			r2.increment(n)
			r3 := cmRow{b}
			r3.reset()
			return fmt.Sprintf("%d %s %s", g, vhex(r2), vhex(r3))
		}
	}
	verifComponents["n2p"] = func(args []string) func(op []string) string {
		return func(op []string) string {
			if op[0] == "__end" {
				return ""
			}
			return fmt.Sprint(next2Power(vi(op[0])))
		}
	}
	verifComponents["sketch"] = func(args []string) func(op []string) string {
		s := newCmSketch(vi(args[0]))
		for i := 0; i < cmDepth; i++ {
			s.seed[i] = vu(args[1+i])
		}
		return func(op []string) string {
			switch op[0] {
			case "inc":
				s.Increment(vu(op[1]))
				return "ok"
			case "est":
				return fmt.Sprint(s.Estimate(vu(op[1])))
			case "reset":
				s.Reset()
				return "ok"
			case "clear":
				s.Clear()
				return "ok"
			case "dump":
				return vDumpRows(s)
			case "__end":
				return ""
			}
			return "badop"
		}
	}
	verifComponents["tlfu"] = func(args []string) func(op []string) string {
		t := newTinyLFU(vi(args[0]))
		for i := 0; i < cmDepth; i++ {
			t.freq.seed[i] = vu(args[1+i])
		}
		// The doorkeeper's size comes out of float arithmetic; the case header carries what the probe saw.
		bs := t.door.JSONMarshal()
		d2, _ := z.JSONUnmarshal(bs)
		_ = d2
		size, locs := vDoorParams(t.door)
		if size != vu(args[5]) || locs != vu(args[6]) {
			panic(fmt.Sprintf("door params differ from probe: %d %d", size, locs))
		}
		return func(op []string) string {
			switch op[0] {
			case "inc":
				t.Increment(vu(op[1]))
				return "ok"
			case "push":
				ks := make([]uint64, 0, len(op)-1)
				for _, a := range op[1:] {
					ks = append(ks, vu(a))
				}
				t.Push(ks)
				return "ok"
			case "est":
				return fmt.Sprint(t.Estimate(vu(op[1])))
			case "clear":
				t.clear()
				return "ok"
			case "dump":
				return fmt.Sprintf("%d %s %s", t.incrs, vDumpRows(t.freq), vDoorBits(t.door))
			case "__end":
				return ""
			}
			return "badop"
		}
	}
	verifComponents["probe"] = func(args []string) func(op []string) string {
		return func(op []string) string {
			switch op[0] {
			case "door":
				t := newTinyLFU(vi(op[1]))
				size, locs := vDoorParams(t.door)
				return fmt.Sprintf("%d %d", size, locs)
			case "__end":
				return ""
			}
			return "badop"
		}
	}
}
