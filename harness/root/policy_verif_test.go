//go:build verif

package ristretto

// White-box harness for defaultPolicy (C03, C09): Add / Update / Del / Cap on a policy whose frequency
// estimates are set (and read back) directly.

import (
	"fmt"
	"sort"
	"strings"
)

func init() {
	mk := func(args []string) func(op []string) string {
		p := newPolicy[uint64](1<<12, vi(args[0]))
		var m *Metrics
		if args[1] == "1" {
			m = newMetrics()
			p.CollectMetrics(m)
		}
		var known []uint64
		ref := func(h uint64) int64 {
			r := p.admit.freq.Estimate(h)
			if p.admit.door.Has(h) {
				r++
			}
			return r
		}
		return func(op []string) string {
			switch op[0] {
			case "est":
				p.Lock()
				h := vu(op[1])
				seen := false
				for _, k := range known {
					seen = seen || k == h
				}
				if !seen {
					known = append(known, h)
				}
				for i := 0; i < 40 && p.admit.Estimate(h) < vi(op[2]); i++ {
					p.admit.Increment(h)
				}
				e := p.admit.Estimate(h)
				p.Unlock()
				return fmt.Sprintf("ok %d", e)
			case "estcheck":
				p.Lock()
				e := p.admit.Estimate(vu(op[1]))
				r := ref(vu(op[1]))
				p.Unlock()
				if e != r {
					// the admission estimate is the count-min count plus the doorkeeper bit
					return fmt.Sprintf("%d ref=%d", e, r)
				}
				return fmt.Sprint(e)
			case "age":
				// the sketch ages (counters halved, doorkeeper cleared) as it does after NumCounters increments
				p.Lock()
				p.admit.reset()
				ks := make([]string, 0, len(known))
				for _, h := range known {
					ks = append(ks, fmt.Sprintf("%d:%d", h, ref(h)))
				}
				p.Unlock()
				if len(ks) == 0 {
					return "ok -"
				}
				return "ok " + strings.Join(ks, ",")
			case "add":
				victims, added := p.Add(vu(op[1]), vi(op[2]))
				vs := make([]string, 0, len(victims))
				for _, v := range victims {
					vs = append(vs, fmt.Sprintf("%d:%d", v.Key, v.Cost))
				}
				s := "-"
				if len(vs) > 0 {
					s = strings.Join(vs, ",")
				}
				return fmt.Sprintf("%v %s", added, s)
			case "upd":
				p.Update(vu(op[1]), vi(op[2]))
				return "ok"
			case "del":
				p.Del(vu(op[1]))
				return "ok"
			case "cap":
				return fmt.Sprint(p.Cap())
			case "cost":
				return fmt.Sprint(p.Cost(vu(op[1])))
			case "has":
				return fmt.Sprint(p.Has(vu(op[1])))
			case "updmax":
				p.UpdateMaxCost(vi(op[1]))
				return "ok"
			case "clear":
				p.Clear()
				return "ok"
			case "costs":
				p.Lock()
				var pc []string
				for k, c := range p.evict.keyCosts {
					pc = append(pc, fmt.Sprintf("%d:%d", k, c))
				}
				used := p.evict.used
				p.Unlock()
				sort.Strings(pc)
				s := "-"
				if len(pc) > 0 {
					s = strings.Join(pc, ",")
				}
				return fmt.Sprintf("%s used=%d max=%d", s, used, p.MaxCost())
			case "metrics":
				if m == nil {
					return "nil"
				}
				return fmt.Sprintf("%d %d %d %d %d", m.KeysUpdated(), m.KeysEvicted(), m.CostAdded(), m.CostEvicted(), m.SetsRejected())
			case "__end":
				p.Close()
				return ""
			}
			return "badop"
		}
	}
	verifComponents["policy"] = mk
	verifComponents["policybig"] = mk
}
