//go:build verif

package ristretto

// Accessors for things the public API does not show.  The Bloom filter lives in package z, so its bit
// set is read through its own JSON export (public API).

import (
	"encoding/json"

	"github.com/dgraph-io/ristretto/v2/z"
)

type vBloomJSON struct {
	FilterSet []byte
	SetLocs   uint64
}

// size in bits and number of locations of a z.Bloom
func vDoorParams(b *z.Bloom) (uint64, uint64) {
	var x vBloomJSON
	if err := json.Unmarshal(b.JSONMarshal(), &x); err != nil {
		panic(err)
	}
	return uint64(len(x.FilterSet)) * 8, x.SetLocs
}

func vDoorBits(b *z.Bloom) string {
	var x vBloomJSON
	if err := json.Unmarshal(b.JSONMarshal(), &x); err != nil {
		panic(err)
	}
	return vhex(x.FilterSet)
}
