//go:build verif

package ristretto

// Harness for z.KeyToHash (C01): the pair a key is filed under, for every kind the Key constraint admits, plain and
// as a defined type, and the default hash as NewCache installs it (end-to-end: a value set under one key must not be
// served for another).

import (
	"fmt"

	"github.com/dgraph-io/ristretto/v2/z"
)

type (
	vNStr   string
	vNBytes []byte
	vNU64   uint64
	vNByte  byte
	vNUint  uint
	vNInt   int
	vNI32   int32
	vNU32   uint32
	vNI64   int64
)

func vK2H[K z.Key](k K) (s string) {
	defer func() {
		if r := recover(); r != nil {
			s = fmt.Sprintf("panic %v", r)
		}
	}()
	h, c := z.KeyToHash(k)
	return fmt.Sprintf("%d %d", h, c)
}

// vE2E: a cache with the default KeyToHash; Set(k1), Wait, Get(k2).
func vE2E[K z.Key](k1, k2 K) (s string) {
	defer func() {
		if r := recover(); r != nil {
			s = fmt.Sprintf("panic %v", r)
		}
	}()
	cfg := &Config[K, int]{NumCounters: 100, MaxCost: 1000, BufferItems: 64, IgnoreInternalCost: true}
	c, err := NewCache(cfg)
	if err != nil {
		return "error " + err.Error()
	}
	defer c.Close()
	// the Config belongs to the caller, who may reuse it as a template: what it holds after NewCache has returned is
	// none of the running cache's business
	cfg.KeyToHash = func(K) (uint64, uint64) { return 1, 1 }
	ok := c.Set(k1, 7, 1)
	c.Wait()
	v1, f1 := c.Get(k1)
	v2, f2 := c.Get(k2)
	return fmt.Sprintf("set=%v get1=%d,%v get2=%d,%v", ok, v1, f1, v2, f2)
}

func init() {
	verifComponents["keyhash"] = func(args []string) func(op []string) string {
		return func(op []string) string {
			if op[0] == "__end" {
				return ""
			}
			named := len(op) > 2 && op[2] == "1"
			switch op[0] {
			case "k2h":
				// k2h <kind> <named> <payload>
				kind, p := op[1], op[3]
				mem := "-"
				var r string
				switch kind {
				case "string":
					b := vunhex(p)
					mem = fmt.Sprint(z.MemHash(b))
					if named {
						r = vK2H(vNStr(b))
					} else {
						r = vK2H(string(b))
					}
				case "bytes":
					b := vunhex(p)
					mem = fmt.Sprint(z.MemHash(b))
					if named {
						r = vK2H(vNBytes(b))
					} else {
						r = vK2H(b)
					}
				case "uint64":
					if named {
						r = vK2H(vNU64(vu(p)))
					} else {
						r = vK2H(vu(p))
					}
				case "byte":
					if named {
						r = vK2H(vNByte(vu(p)))
					} else {
						r = vK2H(byte(vu(p)))
					}
				case "uint":
					if named {
						r = vK2H(vNUint(vu(p)))
					} else {
						r = vK2H(uint(vu(p)))
					}
				case "int":
					if named {
						r = vK2H(vNInt(vi(p)))
					} else {
						r = vK2H(int(vi(p)))
					}
				case "int32":
					if named {
						r = vK2H(vNI32(vi(p)))
					} else {
						r = vK2H(int32(vi(p)))
					}
				case "uint32":
					if named {
						r = vK2H(vNU32(vu(p)))
					} else {
						r = vK2H(uint32(vu(p)))
					}
				case "int64":
					if named {
						r = vK2H(vNI64(vi(p)))
					} else {
						r = vK2H(vi(p))
					}
				default:
					return "badkind"
				}
				return r + " " + mem
			case "e2e":
				// e2e <kind> <named> <payload1> <payload2>
				kind, p1, p2 := op[1], op[3], op[4]
				switch kind {
				case "string":
					if named {
						return vE2E(vNStr(vunhex(p1)), vNStr(vunhex(p2)))
					}
					return vE2E(string(vunhex(p1)), string(vunhex(p2)))
				case "bytes":
					if named {
						return vE2E(vNBytes(vunhex(p1)), vNBytes(vunhex(p2)))
					}
					return vE2E(vunhex(p1), vunhex(p2))
				case "uint64":
					if named {
						return vE2E(vNU64(vu(p1)), vNU64(vu(p2)))
					}
					return vE2E(vu(p1), vu(p2))
				case "int":
					if named {
						return vE2E(vNInt(vi(p1)), vNInt(vi(p2)))
					}
					return vE2E(int(vi(p1)), int(vi(p2)))
				case "int32":
					if named {
						return vE2E(vNI32(vi(p1)), vNI32(vi(p2)))
					}
					return vE2E(int32(vi(p1)), int32(vi(p2)))
				case "int64":
					if named {
						return vE2E(vNI64(vi(p1)), vNI64(vi(p2)))
					}
					return vE2E(vi(p1), vi(p2))
				case "uint32":
					if named {
						return vE2E(vNU32(vu(p1)), vNU32(vu(p2)))
					}
					return vE2E(uint32(vu(p1)), uint32(vu(p2)))
				case "uint":
					if named {
						return vE2E(vNUint(vu(p1)), vNUint(vu(p2)))
					}
					return vE2E(uint(vu(p1)), uint(vu(p2)))
				case "byte":
					if named {
						return vE2E(vNByte(vu(p1)), vNByte(vu(p2)))
					}
					return vE2E(byte(vu(p1)), byte(vu(p2)))
				}
				return "badkind"
			}
			return "badop"
		}
	}
}
