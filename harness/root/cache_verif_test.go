//go:build verif

package ristretto

// Harness for the cache machine (C01-C09, C13-C15, C17).  A whole case runs inside one synctest bubble:
// virtual clock, and synctest.Wait() = "every other goroutine is parked".  The applier is gated through a
// blocking Config.Cost callback (every Set passes cost 0; the real cost comes from a table), so it processes
// exactly one buffered new/update item per token; tombstones and Wait markers are not gated by the code.
// The real ticker is disabled (period ~16 years); sweeps are invoked white-box while the applier is parked.

import (
	"runtime"
	"fmt"
	"sort"
	"strings"
	"sync"
	"sync/atomic"
	"testing"
	"testing/synctest"
	"time"
)

type vCacheCase struct {
	args []string
	ops  [][]string
}

type vKeyPair struct{ h, c uint64 }

type vCacheRun struct {
	mu      sync.Mutex
	cbs     []string // callbacks since the last op line
	costs   map[uint64]int64
	pairs   []vKeyPair
	pairIdx map[vKeyPair]uint64
	done    []string // helper goroutines that finished since the last op line
	armed   func(key uint64) // runs once inside the next OnEvict callback (re-entrant call from the sweep)
	armedX  func()           // runs once inside the next OnExit callback of a non-zero value
}

func (r *vCacheRun) key(h, c uint64) uint64 {
	p := vKeyPair{h, c}
	if i, ok := r.pairIdx[p]; ok {
		return i
	}
	i := uint64(len(r.pairs))
	r.pairs = append(r.pairs, p)
	r.pairIdx[p] = i
	return i
}

func (r *vCacheRun) addCb(s string) {
	r.mu.Lock()
	r.cbs = append(r.cbs, s)
	r.mu.Unlock()
}

func (r *vCacheRun) flush() string {
	r.mu.Lock()
	defer r.mu.Unlock()
	out := append([]string{}, r.cbs...)
	sort.Strings(r.done)
	out = append(out, r.done...)
	r.cbs = r.cbs[:0]
	r.done = r.done[:0]
	if len(out) == 0 {
		return ""
	}
	return " " + strings.Join(out, " ")
}

func vRunCacheCase(t *testing.T, cs *vCacheCase) []string {
	var lines []string
	oldBuf, oldBdur := setBufSize, bucketDurationSecs
	defer func() { setBufSize, bucketDurationSecs = oldBuf, oldBdur }()
	synctest.Test(t, func(t *testing.T) {
		a := cs.args
		maxCost, bufSize := vi(a[0]), int(vi(a[1]))
		ignore, metricsOn, shouldMode := a[2] == "1", a[3] == "1", a[4]
		if vi(a[5]) != itemSize {
			lines = append(lines, fmt.Sprintf("initerror itemSize is %d", itemSize))
			return
		}
		if time.Now().UnixNano() != vi(a[6]) {
			lines = append(lines, fmt.Sprintf("initerror clock starts at %d", time.Now().UnixNano()))
			return
		}
		setBufSize = bufSize
		bucketDurationSecs = vi(a[7])
		r := &vCacheRun{costs: map[uint64]int64{}, pairIdx: map[vKeyPair]uint64{}}
		gate := make(chan struct{}, 1<<16)
		var gateOff atomic.Bool
		cfg := &Config[uint64, uint64]{
			NumCounters:            1 << 12,
			MaxCost:                maxCost,
			BufferItems:            1 << 20, // Get stripes never fill: frequency estimates only change white-box
			Metrics:                metricsOn,
			IgnoreInternalCost:     ignore,
			TtlTickerDurationInSec: 1 << 29,
			KeyToHash: func(k uint64) (uint64, uint64) {
				r.mu.Lock()
				defer r.mu.Unlock()
				p := r.pairs[k]
				return p.h, p.c
			},
			Cost: func(v uint64) int64 {
				if !gateOff.Load() {
					<-gate
				}
				r.mu.Lock()
				defer r.mu.Unlock()
				return r.costs[v]
			},
			OnEvict: func(it *Item[uint64]) {
				if it.Value != 0 {
					r.addCb(fmt.Sprintf("evict:%d:%d:%d:%d", it.Key, it.Conflict, it.Value, it.Cost))
				}
				if f := r.armed; f != nil {
					r.armed = nil
					f(it.Key)
				}
			},
			OnReject: func(it *Item[uint64]) {
				if it.Value != 0 {
					r.addCb(fmt.Sprintf("reject:%d:%d:%d:%d", it.Key, it.Conflict, it.Value, it.Cost))
				}
			},
			OnExit: func(v uint64) {
				if v != 0 {
					r.addCb(fmt.Sprintf("exit:%d", v))
					if f := r.armedX; f != nil {
						r.armedX = nil
						f()
					}
				}
			},
		}
		switch shouldMode {
		case "1":
			cfg.ShouldUpdate = func(cur, prev uint64) bool { return cur > prev }
		case "2":
			cfg.ShouldUpdate = func(cur, prev uint64) bool { return false }
		}
		c, err := NewCache(cfg)
		if err != nil {
			lines = append(lines, "initerror "+err.Error())
			return
		}
		closed := false
		helper := func(id string, f func()) string {
			fin := make(chan struct{})
			go func() {
				f()
				close(fin)
			}()
			synctest.Wait()
			select {
			case <-fin:
				return "ok"
			default:
				go func() {
					<-fin
					r.mu.Lock()
					r.done = append(r.done, "done:"+id)
					r.mu.Unlock()
				}()
				return "blocked"
			}
		}
		for n, op := range cs.ops {
			id := fmt.Sprint(n)
			var res string
			switch op[0] {
			case "set":
				k := r.key(vu(op[1]), vu(op[2]))
				v := vu(op[3])
				r.mu.Lock()
				r.costs[v] = vi(op[4])
				r.mu.Unlock()
				explicit := int64(0)
				if len(op) > 6 && op[6] == "x" {
					// explicit non-zero cost: Config.Cost is not called for this item, the applier does not stop at the gate
					explicit = vi(op[4])
				}
				res = fmt.Sprint(c.SetWithTTL(k, v, explicit, time.Duration(vi(op[5]))))
			case "get":
				v, ok := c.Get(r.key(vu(op[1]), vu(op[2])))
				res = fmt.Sprintf("%d %v", v, ok)
			case "del":
				k := r.key(vu(op[1]), vu(op[2]))
				res = helper(id, func() { c.Del(k) })
			case "wait":
				res = helper(id, func() { c.Wait() })
			case "tok":
				if len(c.setBuf) == 0 && len(gate) == 0 {
					// nothing buffered; still hand out the token if the applier is parked at the gate
				}
				gate <- struct{}{}
				synctest.Wait()
				if len(gate) != 0 {
					<-gate // nobody was waiting for it
					res = "idle"
				} else {
					res = "ok"
				}
			case "sweep":
				c.storedItems.Cleanup(c.cachePolicy, c.onEvict)
				res = "ok"
			case "sweeprw":
				// a sweep during which the first OnEvict re-writes the OTHER of two keys (the write lands between
				// the sweep's bucket grab and its per-key check of that key)
				h1, c1, h2, c2 := vu(op[1]), vu(op[2]), vu(op[3]), vu(op[4])
				v := vu(op[5])
				r.mu.Lock()
				r.costs[v] = vi(op[6])
				r.mu.Unlock()
				ttl := time.Duration(vi(op[7]))
				k1, k2 := r.key(h1, c1), r.key(h2, c2)
				r.armed = func(first uint64) {
					var ok bool
					if first == h1 {
						ok = c.SetWithTTL(k2, v, 0, ttl)
					} else {
						ok = c.SetWithTTL(k1, v, 0, ttl)
					}
					r.addCb(fmt.Sprintf("rwset:%d:%v", first, ok))
				}
				c.storedItems.Cleanup(c.cachePolicy, c.onEvict)
				r.armed = nil
				res = "ok"
			case "sweepit":
				// a sweep during which the first OnEvict enumerates the cache (IterValues runs between the sweep's bucket
				// grab and its per-key removals: the other keys of the bucket are expired, still stored, and no longer
				// in the expiry index)
				r.armed = func(first uint64) {
					var vs []uint64
					c.IterValues(func(v uint64) bool { vs = append(vs, v); return false })
					sort.Slice(vs, func(i, j int) bool { return vs[i] < vs[j] })
					ss := make([]string, len(vs))
					for i, v := range vs {
						ss[i] = fmt.Sprint(v)
					}
					x := strings.Join(ss, "+")
					if x == "" {
						x = "-"
					}
					r.addCb(fmt.Sprintf("rwset:%d:%s", first, x))
				}
				c.storedItems.Cleanup(c.cachePolicy, c.onEvict)
				r.armed = nil
				res = "ok"
			case "tick":
				time.Sleep(time.Duration(vi(op[1])))
				res = "ok"
			case "ttl":
				d, ok := c.GetTTL(r.key(vu(op[1]), vu(op[2])))
				res = fmt.Sprintf("%d %v", int64(d), ok)
			case "iter":
				var vs []uint64
				c.IterValues(func(v uint64) bool { vs = append(vs, v); return false })
				sort.Slice(vs, func(i, j int) bool { return vs[i] < vs[j] })
				res = strings.Trim(fmt.Sprint(vs), "[]")
				if res == "" {
					res = "-"
				}
			case "clear":
				// Clear drains the buffer itself; the applier must not be parked inside the Cost callback
				// holding an item, or it could never take the stop signal: release it without a token.
				res = helper(id, func() { c.Clear() })
			case "close":
				res = helper(id, func() { c.Close() })
				closed = true
			case "closeset":
				// Close during which the first OnExit issues a Set (a Set that overlaps Close)
				k := r.key(vu(op[1]), vu(op[2]))
				v := vu(op[3])
				r.mu.Lock()
				r.costs[v] = vi(op[4])
				r.mu.Unlock()
				r.armedX = func() {
					ok := c.SetWithTTL(k, v, 0, 0)
					r.addCb(fmt.Sprintf("rwset:%d:%v", v, ok))
				}
				res = helper(id, func() { c.Close() })
				r.armedX = nil
				closed = true
			case "clearset":
				// Clear during which the first OnExit issues a Set of another key (a Set that overlaps Clear: it must wait in
				// the write buffer until Clear has restarted the applier)
				k := r.key(vu(op[1]), vu(op[2]))
				v := vu(op[3])
				r.mu.Lock()
				r.costs[v] = vi(op[4])
				r.mu.Unlock()
				explicit := int64(0)
				if len(op) > 5 && op[5] == "x" {
					explicit = vi(op[4]) // not gated: whoever may apply it now, does
				}
				r.armedX = func() {
					ok := c.SetWithTTL(k, v, explicit, 0)
					if explicit != 0 {
						// give a (wrongly) running applier the time to apply the item before Clear goes on (the test's main
						// goroutine is inside synctest.Wait, so yield instead of waiting)
						for i := 0; i < 2000; i++ {
							runtime.Gosched()
						}
					}
					r.addCb(fmt.Sprintf("rwset:%d:%v", v, ok))
				}
				res = helper(id, func() { c.Clear() })
				r.armedX = nil
			case "rem":
				res = fmt.Sprint(c.RemainingCost())
			case "max":
				res = fmt.Sprint(c.MaxCost())
			case "updmax":
				c.UpdateMaxCost(vi(op[1]))
				res = "ok"
			case "metrics":
				m := c.Metrics
				if m == nil {
					res = "nil"
				} else {
					res = fmt.Sprintf("%d %d %d %d %d %d %d %d %d gk:%d gd:%d", m.Hits(), m.Misses(), m.KeysAdded(),
						m.KeysUpdated(), m.KeysEvicted(), m.CostAdded(), m.CostEvicted(), m.SetsDropped(),
						m.SetsRejected(), m.GetsKept(), m.GetsDropped())
				}
			case "est":
				res = vSetEstimate(c, vu(op[1]), vi(op[2]))
			case "estcheck":
				c.cachePolicy.Lock()
				res = fmt.Sprint(c.cachePolicy.admit.Estimate(vu(op[1])))
				c.cachePolicy.Unlock()
			case "dump":
				res = vDumpCache(c)
			default:
				res = "badop"
			}
			synctest.Wait()
			lines = append(lines, res+r.flush())
		}
		// let everything terminate: open the gate for good, then Close (if the case did not)
		gateOff.Store(true)
		for i := 0; i < 1<<12; i++ {
			select {
			case gate <- struct{}{}:
			default:
			}
		}
		synctest.Wait()
		if !closed {
			c.Close()
		}
		synctest.Wait()
	})
	return lines
}

func vSetEstimate(c *Cache[uint64, uint64], h uint64, want int64) string {
	p := c.cachePolicy
	p.Lock()
	defer p.Unlock()
	for i := 0; i < 40 && p.admit.Estimate(h) < want; i++ {
		p.admit.Increment(h)
	}
	return fmt.Sprintf("ok %d", p.admit.Estimate(h))
}

func vDumpCache(c *Cache[uint64, uint64]) string {
	sm := c.storedItems.(*shardedMap[uint64])
	var st []string
	for _, sh := range sm.shards {
		sh.RLock()
		for k, it := range sh.data {
			exp := int64(0)
			if !it.expiration.IsZero() {
				exp = it.expiration.UnixNano()
			}
			st = append(st, fmt.Sprintf("%d:%d:%d:%d", k, it.conflict, it.value, exp))
		}
		sh.RUnlock()
	}
	sort.Strings(st)
	p := c.cachePolicy
	p.Lock()
	var pc []string
	for k, cost := range p.evict.keyCosts {
		pc = append(pc, fmt.Sprintf("%d:%d", k, cost))
	}
	used := p.evict.used
	p.Unlock()
	sort.Strings(pc)
	em := sm.expiryMap
	em.RLock()
	var bs []string
	for b, bk := range em.buckets {
		for k, cf := range bk {
			bs = append(bs, fmt.Sprintf("%d:%d:%d", b, k, cf))
		}
	}
	last := em.lastCleanedBucketNum
	em.RUnlock()
	sort.Strings(bs)
	j := func(x []string) string {
		if len(x) == 0 {
			return "-"
		}
		return strings.Join(x, ",")
	}
	return fmt.Sprintf("store=%s costs=%s used=%d buckets=%s last=%d", j(st), j(pc), used, j(bs), last)
}

func init() {
	verifComponents["cache"] = func(args []string) func(op []string) string {
		cs := &vCacheCase{args: args}
		return func(op []string) string {
			if op[0] != "__end" {
				cs.ops = append(cs.ops, op)
				return ""
			}
			lines := vRunCacheCase(verifT, cs)
			for len(lines) < len(cs.ops) {
				lines = append(lines, "missing")
			}
			return strings.Join(lines, "\n")
		}
	}
	verifComponents["cacheprobe"] = func(args []string) func(op []string) string {
		return func(op []string) string {
			if op[0] == "__end" {
				return ""
			}
			var ns int64
			synctest.Test(verifT, func(t *testing.T) { ns = time.Now().UnixNano() })
			return fmt.Sprintf("%d %d", itemSize, ns)
		}
	}
}
