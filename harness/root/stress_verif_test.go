//go:build verif

package ristretto

// Real-concurrency stress for C08 (and the C04/C02 oracles): 2..64 goroutines issue the twelve public calls at
// random on an open cache.  Meant to run under -race; every call is watched by a watchdog.  This is the search
// for a failing schedule, not the proof.

import (
	"fmt"
	"math/rand"
	"os"
	"strconv"
	"sync"
	"sync/atomic"
	"testing"
	"time"
)

func vEnvInt(name string, def int) int {
	if s := os.Getenv(name); s != "" {
		if x, err := strconv.Atoi(s); err == nil {
			return x
		}
	}
	return def
}

func TestVerifStress(t *testing.T) {
	if os.Getenv("VERIF_STRESS") == "" {
		t.Skip("VERIF_STRESS not set")
	}
	seed := int64(vEnvInt("VERIF_SEED", 1))
	rounds := vEnvInt("VERIF_STRESS_ROUNDS", 6)
	opsPer := vEnvInt("VERIF_STRESS_OPS", 1500)
	rng := rand.New(rand.NewSource(seed))
	oldBuf := setBufSize
	defer func() { setBufSize = oldBuf }()
	total := int64(0)
	for r := 0; r < rounds; r++ {
		gor := []int{2, 3, 8, 16, 64}[rng.Intn(5)]
		setBufSize = []int{1, 4, 64, 32 * 1024}[rng.Intn(4)]
		metricsOn := rng.Intn(2) == 0
		keyN := []int{4, 40, 40}[rng.Intn(3)] // few keys: many goroutines inside Set/Del of the same key
		withCb := rng.Intn(3) != 0
		var exits sync.Map  // value -> time of its OnExit
		var valKey sync.Map // value -> key it was Set under
		var dupExit, panics, stale, wrongKey, lostAccepted atomic.Int64
		var accepted sync.Map // value -> true when its Set returned true
		var deadline sync.Map // value -> expiration instant (sweep phase only)
		var early, getCalls atomic.Int64
		var tornSeen atomic.Bool
		var sweepPhase atomic.Bool
		cfg := &Config[uint64, uint64]{
			NumCounters:        []int64{2, 64, 1 << 12}[rng.Intn(3)],
			MaxCost:            []int64{1, 50, 1000, 1 << 30}[rng.Intn(4)],
			BufferItems:        []int64{1, 8, 64}[rng.Intn(3)],
			Metrics:            metricsOn,
			IgnoreInternalCost: rng.Intn(2) == 0,
		}
		if r%2 == 1 {
			// lag rounds (see the slow consumer below): enough goroutines and small Get batches to fill the policy's
			// batch channel, and no Clear, so that the Get counters are comparable with the number of Gets
			if gor < 16 {
				gor = 16
			}
			cfg.BufferItems = []int64{1, 8}[rng.Intn(2)]
			cfg.Metrics = true
		}
		if withCb {
			cfg.OnExit = func(v uint64) {
				if v != 0 {
					if _, loaded := exits.LoadOrStore(v, time.Now()); loaded {
						dupExit.Add(1)
					}
					if v%7 == 0 {
						time.Sleep(20 * time.Microsecond) // user callbacks may be slow: widens every release window
					}
				}
			}
			cfg.OnEvict = func(it *Item[uint64]) {
				if d, ok := deadline.Load(it.Value); ok && sweepPhase.Load() && time.Until(d.(time.Time)) > 10*time.Second {
					if early.Add(1) == 1 {
						fmt.Printf("stress early: round %d: value %d (key %d) evicted by the expiry sweep %v before its expiration\n", r, it.Value, it.Key, time.Until(d.(time.Time)))
					}
				}
			}
			cfg.OnReject = func(it *Item[uint64]) {}
		}
		c, err := NewCache(cfg)
		if err != nil {
			t.Fatal(err)
		}
		var next atomic.Uint64
		var wg sync.WaitGroup
		var inflight sync.Map // goroutine -> start time of the current call
		stopWatch := make(chan struct{})
		hung := make(chan string, 1)
		go func() {
			tk := time.NewTicker(200 * time.Millisecond)
			defer tk.Stop()
			for {
				select {
				case <-stopWatch:
					return
				case <-tk.C:
					inflight.Range(func(k, v any) bool {
						e := v.([2]any)
						if time.Since(e[0].(time.Time)) > 20*time.Second {
							select {
							case hung <- fmt.Sprintf("goroutine %v stuck in %v for >20s", k, e[1]):
							default:
							}
						}
						return true
					})
				}
			}
		}()
		// a slow consumer of the Get-side batches: every other round something keeps the policy mutex busy, so that the
		// policy goroutine lags, its batch channel fills and full stripes are refused
		stopLag := make(chan struct{})
		if r%2 == 1 {
			go func() {
				for {
					select {
					case <-stopLag:
						return
					default:
					}
					c.cachePolicy.Lock()
					time.Sleep(500 * time.Microsecond)
					c.cachePolicy.Unlock()
					time.Sleep(200 * time.Microsecond)
				}
			}()
		}
		for g := 0; g < gor; g++ {
			wg.Add(1)
			go func(g int, s int64) {
				defer wg.Done()
				defer func() {
					if r := recover(); r != nil {
						panics.Add(1)
						fmt.Printf("stress panic: %v\n", r)
					}
				}()
				lr := rand.New(rand.NewSource(s))
				for i := 0; i < opsPer; i++ {
					k := uint64(lr.Intn(keyN))
					call := lr.Intn(100)
					name := ""
					inflight.Store(g, [2]any{time.Now(), call})
					switch {
					case call < 30:
						name = "Get"
						t0 := time.Now()
						getCalls.Add(1)
						if v, ok := c.Get(k); ok {
							if kk, has := valKey.Load(v); !has || kk.(uint64) != k {
								if wrongKey.Add(1) == 1 {
									fmt.Printf("stress wrongkey: round %d: Get(%d) returned value %d which was Set under key %v\n", r, k, v, kk)
								}
							}
							if e, has := exits.Load(v); has && e.(time.Time).Before(t0) {
								if stale.Add(1) == 1 {
									fmt.Printf("stress stale: round %d: Get(%d) returned value %d, passed to OnExit %v before the Get started\n",
										r, k, v, t0.Sub(e.(time.Time)))
								}
							}
						}
					case call < 55:
						name = "Set"
						v := next.Add(1)
						valKey.Store(v, k)
						if c.Set(k, v, int64(lr.Intn(30))) {
							accepted.Store(v, true)
						}
					case call < 65:
						name = "SetWithTTL"
						v := next.Add(1)
						valKey.Store(v, k)
						if c.SetWithTTL(k, v, int64(lr.Intn(30)), time.Duration(lr.Intn(3))*time.Millisecond) {
							accepted.Store(v, true)
						}
					case call < 75:
						name = "Del"
						c.Del(k)
					case call < 80:
						name = "GetTTL"
						c.GetTTL(k)
					case call < 83:
						name = "IterValues"
						c.IterValues(func(v uint64) bool { return lr.Intn(8) == 0 })
					case call < 88:
						name = "Wait"
						c.Wait()
					case call < 90:
						name = "Clear"
						if r%2 == 1 {
							c.Wait() // the lag rounds keep their metric counters (Clear zeroes them): see the gets-count oracle
						} else {
							c.Clear()
						}
					case call < 93:
						name = "UpdateMaxCost"
						c.UpdateMaxCost(int64(1 + lr.Intn(2000)))
					case call < 96:
						name = "MaxCost/RemainingCost"
						c.MaxCost()
						c.RemainingCost()
					default:
						name = "Metrics"
						if c.Metrics != nil {
							_ = c.Metrics.Hits() + c.Metrics.Misses() + c.Metrics.KeysAdded() + c.Metrics.CostAdded()
							_ = c.Metrics.String()
							// the life-expectancy histogram is copied under Metrics.mu while the applier updates it
							if h := c.Metrics.LifeExpectancySeconds(); h != nil {
								var sum int64
								for _, x := range h.CountPerBucket {
									sum += x
								}
								if sum != h.Count && tornSeen.CompareAndSwap(false, true) {
									fmt.Printf("stress torn: round %d: LifeExpectancySeconds() snapshot has Count=%d but its buckets sum to %d\n", r, h.Count, sum)
								}
							}
						}
					}
					_ = name
					atomic.AddInt64(&total, 1)
				}
				inflight.Delete(g)
			}(g, seed*1000+int64(r*100+g))
		}
		done := make(chan struct{})
		go func() { wg.Wait(); close(done) }()
		select {
		case <-done:
		case msg := <-hung:
			fmt.Printf("stress hang: round %d (goroutines=%d setBuf=%d): %s\n", r, gor, setBufSize, msg)
			t.Fatalf("hang: %s", msg)
		case <-time.After(120 * time.Second):
			fmt.Printf("stress hang: round %d (goroutines=%d setBuf=%d): round did not finish in 120s\n", r, gor, setBufSize)
			t.Fatal("round timeout")
		}
		close(stopLag)
		if r == rounds-1 {
			sweepPhase.Store(true)
			c.UpdateMaxCost(1 << 40) // no capacity eviction in this phase: every OnEvict comes from the expiry sweep
			// sweep phase: many keys expire together; while the ticker-driven sweep reclaims them, other goroutines
			// overwrite resident keys, delete expiring ones and read (lock order store shard <-> expiry index)
			for k := uint64(1000); k < 5000; k++ {
				v := next.Add(1)
				valKey.Store(v, k)
				if c.SetWithTTL(k, v, 1, time.Millisecond) {
					accepted.Store(v, true)
				}
			}
			c.Wait()
			var wg2 sync.WaitGroup
			stop2 := make(chan struct{})
			var last [8]atomic.Int64
			for g := 0; g < 8; g++ {
				wg2.Add(1)
				go func(g int) {
					defer wg2.Done()
					lr := rand.New(rand.NewSource(seed*77 + int64(g)))
					for {
						select {
						case <-stop2:
							return
						default:
						}
						k := uint64(lr.Intn(40))
						switch lr.Intn(4) {
						case 0:
							v := next.Add(1)
							valKey.Store(v, k)
							if c.Set(k, v, 1) {
								accepted.Store(v, true)
							}
						case 1:
							c.Del(uint64(1000 + lr.Intn(4000)))
						case 2:
							getCalls.Add(1)
							c.Get(uint64(1000 + lr.Intn(4000)))
						default:
							v := next.Add(1)
							kk := uint64(1000 + lr.Intn(4000))
							valKey.Store(v, kk)
							ttl := time.Duration(1+lr.Intn(3)) * time.Millisecond
							if lr.Intn(2) == 0 {
								ttl = time.Hour // a re-write with a long TTL must survive the sweep of its old bucket
								deadline.Store(v, time.Now().Add(ttl))
							}
							if c.SetWithTTL(kk, v, 1, ttl) {
								accepted.Store(v, true)
							}
						}
						last[g].Store(time.Now().UnixNano())
					}
				}(g)
			}
			time.Sleep(2300 * time.Millisecond)
			close(stop2)
			joined := make(chan struct{})
			go func() { wg2.Wait(); close(joined) }()
			select {
			case <-joined:
			case <-time.After(20 * time.Second):
				// a call that is still running 20 s after the phase ended is stuck (e.g. lock order store shard <-> expiry index)
				stuck := ""
				for g := 0; g < 8; g++ {
					if l := last[g].Load(); l != 0 && time.Since(time.Unix(0, l)) > 15*time.Second {
						stuck += fmt.Sprintf(" goroutine %d: no call completed for %v;", g, time.Since(time.Unix(0, l)).Round(time.Second))
					}
				}
				fmt.Printf("stress hang: round %d (sweep phase): calls issued during the expiry sweep never returned:%s\n", r, stuck)
				t.Fatalf("hang in sweep phase")
			}
			sweepPhase.Store(false) // Close below releases everything through OnEvict
		}
		if c.Metrics != nil {
			// every Get is counted at most once by the Get-side batching (kept or dropped), whatever the lag of the
			// policy goroutine; Metrics.Clear only lowers the counters
			if kd := c.Metrics.GetsKept() + c.Metrics.GetsDropped(); kd > uint64(getCalls.Load()) {
				fmt.Printf("stress getscount: round %d: GetsKept+GetsDropped=%d exceeds the %d Get calls made\n", r, kd, getCalls.Load())
				t.Fail()
			}
		}
		close(stopWatch)
		c.Close()
		if withCb {
			// every accepted value has been released exactly once by the time Close returns (no call overlaps Close)
			accepted.Range(func(v, _ any) bool {
				if _, ok := exits.Load(v); !ok {
					if lostAccepted.Add(1) == 1 {
						kk, _ := valKey.Load(v)
						fmt.Printf("stress lost: round %d: value %v (key %v) whose Set returned true was never passed to OnExit, Close has returned\n", r, v, kk)
					}
				}
				return true
			})
		}
		if early.Load() > 0 {
			t.Fail()
		}
		if stale.Load() > 0 || wrongKey.Load() > 0 || lostAccepted.Load() > 0 {
			fmt.Printf("stress counts: round %d stale=%d wrongkey=%d lost=%d\n", r, stale.Load(), wrongKey.Load(), lostAccepted.Load())
			t.Fail()
		}
		if dupExit.Load() > 0 {
			fmt.Printf("stress dupexit: round %d: %d values passed to OnExit twice\n", r, dupExit.Load())
			t.Fail()
		}
		if panics.Load() > 0 {
			t.Fail()
		}
	}
	fmt.Printf("stress ok rounds=%d ops=%d\n", rounds, total)
}
