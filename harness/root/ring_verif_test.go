//go:build verif

package ristretto

// White-box harness for ring.go + defaultPolicy.Push / processItems (C17, component "ring").
//
// The policy is the real one (newDefaultPolicy: real itemsCh with its real capacity, real tinyLFU, real Metrics); its
// goroutine is stopped right after creation so that the harness decides when a batch is received (op `recv` does what
// processItems does with a batch).  Stripes are real ringStripes whose consumer is that policy.  `push i x` pushes on
// a stripe the case chooses; `bpush x` goes through the real ringBuffer (sync.Pool) and reports which stripe the pool
// handed out (found by comparing the lengths of all stripes the pool ever created before and after the call).

import (
	"fmt"
	"strings"
)

func init() {
	verifComponents["ring"] = func(args []string) func(op []string) string {
		capa := vi(args[0])
		nc := vi(args[1])
		p := newDefaultPolicy[int](nc, 1000)
		p.stop <- struct{}{}
		<-p.done
		m := newMetrics()
		p.CollectMetrics(m)
		for i := 0; i < cmDepth; i++ {
			p.admit.freq.seed[i] = vu(args[2+i])
		}
		var stripes []*ringStripe
		rb := newRingBuffer(p, capa)
		origNew := rb.pool.New
		rb.pool.New = func() interface{} {
			s := origNew().(*ringStripe)
			stripes = append(stripes, s)
			return s
		}
		closed := false
		tail := func() string {
			if closed {
				// Close lets the restarted goroutine take what it can before it stops: what is left is not determined
				return fmt.Sprintf("k=%d d=%d ch=-", m.get(keepGets), m.get(dropGets))
			}
			return fmt.Sprintf("k=%d d=%d ch=%d", m.get(keepGets), m.get(dropGets), len(p.itemsCh))
		}
		report := func(s *ringStripe, k0, d0 uint64, l0 int) string {
			k1, d1 := m.get(keepGets), m.get(dropGets)
			switch {
			case k1 != k0:
				return fmt.Sprintf("drain kept %d %s", k1-k0, tail())
			case d1 != d0:
				return fmt.Sprintf("drain dropped %d %s", d1-d0, tail())
			case len(s.data) == 0:
				return fmt.Sprintf("drain closed %d %s", l0+1, tail())
			}
			return fmt.Sprintf("stored %d %s", len(s.data), tail())
		}
		return func(op []string) string {
			switch op[0] {
			case "door":
				size, locs := vDoorParams(p.admit.door)
				return fmt.Sprintf("%d %d %d", size, locs, cap(p.itemsCh))
			case "push":
				i := int(vi(op[1]))
				if i >= len(stripes) {
					stripes = append(stripes, newRingStripe(p, capa))
					i = len(stripes) - 1
				}
				s := stripes[i]
				k0, d0, l0 := m.get(keepGets), m.get(dropGets), len(s.data)
				s.Push(vu(op[2]))
				return report(s, k0, d0, l0)
			case "bpush":
				before := make([]int, len(stripes))
				for j, s := range stripes {
					before[j] = len(s.data)
				}
				k0, d0 := m.get(keepGets), m.get(dropGets)
				rb.Push(vu(op[1]))
				idx := -1
				for j, s := range stripes {
					if j >= len(before) {
						idx = j // created by this call
						break
					}
					if len(s.data) != before[j] {
						idx = j
						break
					}
				}
				if idx < 0 {
					// no length changed: a stripe of capacity <= 1 was drained at once, or a full-length stripe was
					// drained back to ... the same length is impossible otherwise; every stripe is empty then
					for j, s := range stripes {
						if len(s.data) == 0 {
							idx = j
							break
						}
					}
				}
				if idx < 0 {
					return "cannot tell which stripe the pool used"
				}
				l0 := 0
				if idx < len(before) {
					l0 = before[idx]
				}
				return fmt.Sprintf("s%d ", idx) + report(stripes[idx], k0, d0, l0)
			case "recv":
				if closed {
					return "none"
				}
				select {
				case items := <-p.itemsCh:
					p.Lock()
					p.admit.Push(items)
					p.Unlock()
					parts := make([]string, 0, len(items))
					for _, k := range items {
						parts = append(parts, fmt.Sprint(k))
					}
					return "batch " + strings.Join(parts, " ")
				default:
					return "none"
				}
			case "gc":
				i := int(vi(op[1]))
				if i < len(stripes) {
					// the pool forgets the stripe: whoever gets this slot next gets a stripe fresh from New
					*stripes[i] = *newRingStripe(p, capa)
				}
				return "ok"
			case "close":
				if !closed {
					go p.processItems()
					p.Close()
					closed = true
				}
				return "ok"
			case "est":
				p.Lock()
				e := p.admit.Estimate(vu(op[1]))
				p.Unlock()
				return fmt.Sprint(e)
			case "__end":
				if !closed {
					go p.processItems()
					p.Close()
				}
				return ""
			}
			return "badop"
		}
	}
}
