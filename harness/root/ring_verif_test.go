//go:build verif

package ristretto

// White-box harness for ring.go + defaultPolicy.Push / processItems (C17, component "ring").
//
// The policy is the real one (newDefaultPolicy: real itemsCh with its real capacity, real tinyLFU, real Metrics); its
// goroutine is stopped right after creation so that the harness decides when a batch is received (op `recv` does what
// processItems does with a batch).  Stripes are real ringStripes whose consumer is that policy.  `push i x` pushes on
// a stripe the case chooses; `bpush x` goes through the real ringBuffer (sync.Pool) and reports which stripe the pool
// handed out (found by comparing the lengths of all stripes the pool ever created before and after the call).

import (
	"fmt"
	"strings"
	"unsafe"
)

// vArr identifies the backing array of a stripe's data slice.
func vArr(s *ringStripe) unsafe.Pointer {
	if cap(s.data) == 0 {
		return nil
	}
	return unsafe.Pointer(unsafe.SliceData(s.data[:cap(s.data)]))
}

func init() {
	verifComponents["ring"] = func(args []string) func(op []string) string {
		capa := vi(args[0])
		nc := vi(args[1])
		p := newDefaultPolicy[int](nc, 1000)
		p.stop <- struct{}{}
		<-p.done
		m := newMetrics()
		p.CollectMetrics(m)
		for i := 0; i < cmDepth; i++ {
			p.admit.freq.seed[i] = vu(args[2+i])
		}
		var stripes []*ringStripe
		rb := newRingBuffer(p, capa)
		origNew := rb.pool.New
		var createdArr unsafe.Pointer // backing array of the stripe pool.New made during the current bpush
		rb.pool.New = func() interface{} {
			s := origNew().(*ringStripe)
			stripes = append(stripes, s)
			createdArr = vArr(s)
			return s
		}
		closed := false
		handed := map[unsafe.Pointer]bool{}
		tail := func() string {
			if closed {
				// Close lets the restarted goroutine take what it can before it stops: what is left is not determined
				return fmt.Sprintf("k=%d d=%d ch=-", m.get(keepGets), m.get(dropGets))
			}
			return fmt.Sprintf("k=%d d=%d ch=%d", m.get(keepGets), m.get(dropGets), len(p.itemsCh))
		}
		// arr=fresh: the stripe continues on another backing array than before the call; arr=same: on the same one
		report := func(s *ringStripe, k0, d0 uint64, l0 int, a0 unsafe.Pointer) string {
			k1, d1 := m.get(keepGets), m.get(dropGets)
			arr := "arr=same"
			if vArr(s) != a0 {
				arr = "arr=fresh"
			}
			if k1 != k0 {
				handed[a0] = true // this array now belongs to the channel / the policy goroutine (kept alive here)
			}
			if handed[vArr(s)] {
				arr = "arr=handed" // the stripe writes into an array it has given away
			}
			switch {
			case k1 != k0:
				return fmt.Sprintf("drain kept %d %s %s", k1-k0, tail(), arr)
			case d1 != d0:
				return fmt.Sprintf("drain dropped %d %s %s", d1-d0, tail(), arr)
			case len(s.data) == 0:
				return fmt.Sprintf("drain closed %d %s %s", l0+1, tail(), arr)
			}
			return fmt.Sprintf("stored %d %s %s", len(s.data), tail(), arr)
		}
		return func(op []string) string {
			switch op[0] {
			case "door":
				size, locs := vDoorParams(p.admit.door)
				return fmt.Sprintf("%d %d %d", size, locs, cap(p.itemsCh))
			case "push":
				i := int(vi(op[1]))
				if i >= len(stripes) {
					stripes = append(stripes, newRingStripe(p, capa))
					i = len(stripes) - 1
				}
				s := stripes[i]
				k0, d0, l0, a0 := m.get(keepGets), m.get(dropGets), len(s.data), vArr(s)
				s.Push(vu(op[2]))
				return report(s, k0, d0, l0, a0)
			case "bpush":
				before := make([]int, len(stripes))
				arrs := make([]unsafe.Pointer, len(stripes))
				for j, s := range stripes {
					before[j] = len(s.data)
					arrs[j] = vArr(s)
				}
				createdArr = nil
				k0, d0 := m.get(keepGets), m.get(dropGets)
				rb.Push(vu(op[1]))
				idx := -1
				for j, s := range stripes {
					if j >= len(before) {
						idx = j // created by this call
						break
					}
					if len(s.data) != before[j] || vArr(s) != arrs[j] {
						idx = j
						break
					}
				}
				if idx < 0 {
					// neither a length nor a backing array changed: a stripe of capacity 1 was drained at once and its batch
					// refused; all stripes are empty then and behave alike
					for j, s := range stripes {
						if len(s.data) == 0 {
							idx = j
							break
						}
					}
				}
				if idx < 0 {
					return "cannot tell which stripe the pool used"
				}
				l0, a0 := 0, createdArr
				if idx < len(before) {
					l0, a0 = before[idx], arrs[idx]
				}
				return fmt.Sprintf("s%d ", idx) + report(stripes[idx], k0, d0, l0, a0)
			case "recv":
				if closed {
					return "none"
				}
				select {
				case items := <-p.itemsCh:
					p.Lock()
					p.admit.Push(items)
					p.Unlock()
					parts := make([]string, 0, len(items))
					for _, k := range items {
						parts = append(parts, fmt.Sprint(k))
					}
					return "batch " + strings.Join(parts, " ")
				default:
					return "none"
				}
			case "gc":
				i := int(vi(op[1]))
				if i < len(stripes) {
					// the pool forgets the stripe: whoever gets this slot next gets a stripe fresh from New
					*stripes[i] = *newRingStripe(p, capa)
				}
				return "ok"
			case "close":
				if !closed {
					go p.processItems()
					p.Close()
					closed = true
				}
				return "ok"
			case "est":
				p.Lock()
				e := p.admit.Estimate(vu(op[1]))
				p.Unlock()
				return fmt.Sprint(e)
			case "__end":
				if !closed {
					go p.processItems()
					p.Close()
				}
				return ""
			}
			return "badop"
		}
	}
}
