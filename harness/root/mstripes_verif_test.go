//go:build verif

package ristretto

// White-box harness for the striped counters of Metrics (C17, component "mstripes"): add / get / Clear on the real
// Metrics value, with the slots of the touched metric dumped after every add.

import (
	"fmt"
	"strings"
	"sync/atomic"
)

func init() {
	verifComponents["mstripes"] = func(args []string) func(op []string) string {
		m := newMetrics()
		dump := func(t metricType) string {
			var parts []string
			for j, p := range m.all[t] {
				if v := atomic.LoadUint64(p); v != 0 {
					parts = append(parts, fmt.Sprintf("%d:%d", j, v))
				}
			}
			return fmt.Sprintf("%d %d [%s]", m.get(t), len(m.all[t]), strings.Join(parts, ","))
		}
		return func(op []string) string {
			switch op[0] {
			case "add":
				t := metricType(vi(op[1]))
				if t < 0 || t >= doNotUse {
					return "badtype"
				}
				m.add(t, vu(op[2]), vu(op[3]))
				return dump(t)
			case "get":
				t := metricType(vi(op[1]))
				if t < 0 || t >= doNotUse {
					return "badtype"
				}
				return dump(t)
			case "clear":
				m.Clear()
				return "ok"
			case "__end":
				return ""
			}
			return "badop"
		}
	}
}
