//go:build verif

package ristretto

// Store-level race for C14 / C02 / C04: the atomic steps the machine assumes of store.go are exercised against each
// other in tight two-goroutine loops.  One round = a fresh entry whose expiration has passed; the sweep's per-key
// step (DelExpired) races an overwrite with a later expiration (Update) or a Del.  On the code the machine models
// exactly one side can win.  Search, not proof.

import (
	"fmt"
	"os"
	"sync/atomic"
	"testing"
	"time"
)

func TestVerifStoreRace(t *testing.T) {
	if os.Getenv("VERIF_STRESS") == "" {
		t.Skip("VERIF_STRESS not set")
	}
	rounds := vEnvInt("VERIF_RACE_ROUNDS", 20000)
	// the two sides of a round take the shard lock and the expiry-index lock: an inverted lock order shows as a round
	// that never ends - report it instead of waiting for the test binary's timeout
	budget := time.Duration(90+rounds/1000) * time.Second
	watchdog := time.AfterFunc(budget, func() {
		fmt.Printf("stress hang: the store-level race harness did not finish within %v: a round never ended (a lock that is never released, or an inverted lock order between a store shard and the expiry index?)\n", budget)
		os.Exit(3)
	})
	defer watchdog.Stop()
	sm := newShardedMap[uint64]()
	// two long-lived goroutines spinning on the round number, so that both operations start within nanoseconds
	var round atomic.Int64
	var swept, other bool
	doneA := make(chan struct{})
	doneB := make(chan struct{})
	stop := int64(rounds + 1)
	go func() {
		for k := int64(1); k <= int64(rounds); k++ {
			for {
				r := round.Load()
				if r == k {
					break
				}
				if r == stop {
					return
				}
			}
			_, swept = sm.DelExpired(uint64(k), 7, time.Now())
			doneA <- struct{}{}
		}
	}()
	go func() {
		for k := int64(1); k <= int64(rounds); k++ {
			for {
				r := round.Load()
				if r == k {
					break
				}
				if r == stop {
					return
				}
			}
			if k%2 == 0 {
				_, other = sm.Update(&Item[uint64]{Key: uint64(k), Conflict: 7, Value: uint64(2*k + 2), Expiration: time.Now().Add(time.Hour)})
			} else {
				_, v := sm.Del(uint64(k), 7)
				other = v != 0
			}
			doneB <- struct{}{}
		}
	}()
	bad := 0
	done := 0
	for k := int64(1); k <= int64(rounds) && bad == 0; k++ {
		sm.Set(&Item[uint64]{Key: uint64(k), Conflict: 7, Value: uint64(2*k + 1), Expiration: time.Now().Add(-time.Second)})
		round.Store(k)
		<-doneA
		<-doneB
		done++
		if swept && other {
			if k%2 == 0 {
				if _, ok := sm.Get(uint64(k), 7); !ok {
					bad++
					fmt.Printf("stress sweeprace: round %d: DelExpired removed key %d although an overwrite with a one-hour expiration had replaced the expired entry (the acknowledged value is gone)\n", k, k)
				}
			} else {
				bad++
				fmt.Printf("stress sweeprace: round %d: DelExpired and Del both returned the value of key %d (released twice)\n", k, k)
			}
		}
		sm.Del(uint64(k), 7)
	}
	round.Store(stop)
	if bad > 0 {
		t.Fail()
		return
	}
	// second phase: the whole sweep (expirationMap.cleanup) against an overwrite with a later expiration
	done2 := vSweepRace(t, rounds/4)
	if done2 < 0 {
		t.Fail()
		return
	}
	// third phase: policy.Add against concurrent UpdateMaxCost (an atomic store that does not take the policy mutex)
	done3 := vMaxCostRace(t, rounds*4)
	if done3 < 0 {
		t.Fail()
		return
	}
	// fourth phase: a read of an expired, unswept entry against its re-write with a fresh TTL (whole cache)
	done4 := vGetRewriteRace(t, rounds/4)
	if done4 < 0 {
		t.Fail()
		return
	}
	fmt.Printf("storerace ok rounds=%d\n", done+done2+done3+done4)
}

// vGetRewriteRace: key k holds an entry whose TTL has elapsed and which no sweep has taken yet.  One goroutine reads k,
// another re-writes it with a one-hour TTL, both started within nanoseconds.  Whatever the interleaving, the re-written
// value (acknowledged, room to spare, never deleted) is served afterwards: the old TTL must not take the new item with it.
func vGetRewriteRace(t *testing.T, rounds int) int {
	c, err := NewCache(&Config[uint64, uint64]{NumCounters: 1 << 10, MaxCost: 1 << 30, BufferItems: 64, IgnoreInternalCost: true})
	if err != nil {
		t.Fatal(err)
	}
	defer c.Close()
	var round atomic.Int64
	doneA := make(chan struct{})
	doneB := make(chan struct{})
	stop := int64(rounds + 1)
	wait := func(k int64) bool {
		for {
			r := round.Load()
			if r == k {
				return true
			}
			if r == stop {
				return false
			}
		}
	}
	var accepted bool
	go func() {
		for k := int64(1); k <= int64(rounds); k++ {
			if !wait(k) {
				return
			}
			c.Get(uint64(k%97 + 1))
			doneA <- struct{}{}
		}
	}()
	go func() {
		for k := int64(1); k <= int64(rounds); k++ {
			if !wait(k) {
				return
			}
			for i := 0; i < int(k%5)*15; i++ { // vary the offset against the reader
				_ = round.Load()
			}
			accepted = c.SetWithTTL(uint64(k%97+1), uint64(2*k+2), 1, time.Hour)
			doneB <- struct{}{}
		}
	}()
	for k := int64(1); k <= int64(rounds); k++ {
		key := uint64(k%97 + 1)
		c.Del(key)
		c.Wait()
		if !c.SetWithTTL(key, uint64(2*k+1), 1, time.Nanosecond) {
			continue
		}
		c.Wait() // applied: the entry is in the map, already past its TTL
		round.Store(k)
		<-doneA
		<-doneB
		c.Wait()
		if v, ok := c.Get(key); accepted && (!ok || v != uint64(2*k+2)) {
			fmt.Printf("stress sweeprace: round %d: key %d was re-written (value %d, one-hour TTL, Set returned true) over an entry whose TTL had elapsed while another goroutine read the key; afterwards Get returns (%d, %v)\n", k, key, 2*k+2, v, ok)
			round.Store(stop)
			return -1
		}
	}
	round.Store(stop)
	return rounds
}

// vMaxCostRace: Add re-reads MaxCost on every turn of its eviction loop; UpdateMaxCost may lower it below the cost of
// the item being added at any point.  Whatever happens, Add must return (admitted or not) and the accounting must stay
// consistent: used = sum of the accounted costs.
func vMaxCostRace(t *testing.T, rounds int) int {
	pol := newPolicy[uint64](1024, 1000)
	defer pol.Close()
	stop := make(chan struct{})
	toggled := make(chan struct{})
	go func() {
		defer close(toggled)
		for i := 0; ; i++ {
			select {
			case <-stop:
				return
			default:
			}
			if i%2 == 0 {
				pol.UpdateMaxCost(1)
			} else {
				pol.UpdateMaxCost(1000)
			}
		}
	}()
	bad := ""
	func() {
		defer func() {
			if r := recover(); r != nil {
				bad = fmt.Sprintf("stress panic: policy.Add panicked while UpdateMaxCost ran concurrently: %v", r)
			}
		}()
		for k := 1; k <= rounds; k++ {
			pol.Add(uint64(k), 100)
			if k%4096 == 0 {
				pol.Lock()
				var sum int64
				for _, c := range pol.evict.keyCosts {
					sum += c
				}
				used := pol.evict.used
				pol.Unlock()
				if sum != used {
					bad = fmt.Sprintf("stress panic: after Add raced UpdateMaxCost the accounting is inconsistent: used=%d, sum of costs=%d", used, sum)
					return
				}
			}
		}
	}()
	close(stop)
	<-toggled
	if bad != "" {
		fmt.Println(bad)
		return -1
	}
	return rounds
}

func vSweepRace(t *testing.T, rounds int) int {
	sm := newShardedMap[uint64]()
	pol := newPolicy[uint64](1024, 1<<30)
	defer pol.Close()
	var round atomic.Int64
	var evicted atomic.Uint64
	var hit bool
	doneA := make(chan struct{})
	doneB := make(chan struct{})
	stop := int64(rounds + 1)
	wait := func(k int64) bool {
		for {
			r := round.Load()
			if r == k {
				return true
			}
			if r == stop {
				return false
			}
		}
	}
	go func() {
		for k := int64(1); k <= int64(rounds); k++ {
			if !wait(k) {
				return
			}
			sm.Cleanup(pol, func(it *Item[uint64]) { evicted.Store(it.Value) })
			doneA <- struct{}{}
		}
	}()
	go func() {
		for k := int64(1); k <= int64(rounds); k++ {
			if !wait(k) {
				return
			}
			for i := 0; i < int(k%7)*20; i++ { // vary the offset inside the sweep
				_ = round.Load()
			}
			_, hit = sm.Update(&Item[uint64]{Key: uint64(k), Conflict: 7, Value: uint64(2*k + 2), Expiration: time.Now().Add(time.Hour)})
			doneB <- struct{}{}
		}
	}()
	for k := int64(1); k <= int64(rounds); k++ {
		past := time.Now().Add(-2 * time.Duration(bucketDurationSecs) * time.Second)
		em := sm.expiryMap
		em.Lock()
		em.lastCleanedBucketNum = storageBucket(past) - 1 // white-box: the bucket of [past] is due at the next sweep
		em.Unlock()
		sm.Set(&Item[uint64]{Key: uint64(k), Conflict: 7, Value: uint64(2*k + 1), Expiration: past})
		pol.Add(uint64(k), 1)
		evicted.Store(0)
		round.Store(k)
		<-doneA
		<-doneB
		if hit && evicted.Load() != 0 {
			fmt.Printf("stress sweeprace: round %d: the overwrite of key %d with a one-hour expiration found the entry, and the sweep evicted value %d nevertheless\n", k, k, evicted.Load())
			round.Store(stop)
			return -1
		}
		// both have returned: the map and the accounting hold the key together or not at all (C13)
		if _, inStore := sm.Get(uint64(k), 7); inStore != pol.Has(uint64(k)) {
			fmt.Printf("stress sweeprace: round %d: after an overwrite raced the sweep, key %d is in the map: %v, accounted by the policy: %v (overwrite found the entry: %v, sweep evicted value %d)\n", k, k, inStore, pol.Has(uint64(k)), hit, evicted.Load())
			round.Store(stop)
			return -1
		}
		sm.Del(uint64(k), 7)
		pol.Del(uint64(k))
	}
	round.Store(stop)
	return rounds
}
