//go:build verif

package simd

// Harness for Search / Naive / Clever (C20).  Each op carries a backing array; the slice handed to the
// functions is its first n words, so the words after it are the "memory beyond the slice".

import "fmt"

func init() {
	verifComponents["search"] = func(args []string) func(op []string) string {
		return func(op []string) string {
			if op[0] == "__end" {
				return ""
			}
			n := int(vu(op[0]))
			k := vu(op[1])
			arr := make([]uint64, len(op)-2)
			for i := range arr {
				arr[i] = vu(op[2+i])
			}
			xs := arr[:n]
			s := Search(xs, k)
			nv := Naive(xs, k)
			// Clever is the code of the portable Search (search.go is not compiled on amd64); it is only
			// memory-safe under Search's own guard.
			var pt int16
			if n < 8 || n%8 != 0 {
				pt = Naive(xs, k)
			} else {
				pt = Clever(xs, k)
			}
			return fmt.Sprintf("%d %d %d", s, nv, pt)
		}
	}
}
