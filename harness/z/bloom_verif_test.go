//go:build verif

package z

// White-box harness for bbloom.go (C19).

import (
	"fmt"
	"unsafe"
)

func vBloomBytes(bl *Bloom) []byte {
	out := make([]byte, len(bl.bitset)*8)
	for i := range out {
		out[i] = *(*byte)(unsafe.Pointer(uintptr(unsafe.Pointer(&bl.bitset[0])) + uintptr(i)))
	}
	return out
}

func vDumpBloom(bl *Bloom) string {
	return fmt.Sprintf("%d %d %d %d %s", bl.sizeExp, bl.size, bl.setLocs, bl.shift, vhex(vBloomBytes(bl)))
}

func init() {
	verifComponents["bloom"] = func(args []string) func(op []string) string {
		bl := NewBloomFilter(float64(vu(args[0])), float64(vu(args[1])))
		return verifBloomOps(bl)
	}
}

func verifBloomOps(bl *Bloom) func(op []string) string {
	{
		return func(op []string) string {
			switch op[0] {
			case "add":
				bl.Add(vu(op[1]))
				return "ok"
			case "has":
				return fmt.Sprint(bl.Has(vu(op[1])))
			case "aih":
				return fmt.Sprint(bl.AddIfNotHas(vu(op[1])))
			case "clear":
				bl.Clear()
				return "ok"
			case "dump":
				return vDumpBloom(bl)
			case "json":
				nb, err := JSONUnmarshal(bl.JSONMarshal())
				if err != nil {
					return "error"
				}
				bl = nb
				return vDumpBloom(bl)
			case "__end":
				return ""
			}
			return "badop"
		}
	}
}

func init() {
	verifComponents["bloomfp"] = func(args []string) func(op []string) string {
		// (entries, false-positive rate num/den) constructor; header also carries what the probe saw
		bl := NewBloomFilter(float64(vu(args[0])), float64(vu(args[1]))/float64(vu(args[2])))
		if bl.size+1 != vu(args[3]) || bl.setLocs != vu(args[4]) {
			panic(fmt.Sprintf("fp constructor params differ from probe: %d %d", bl.size+1, bl.setLocs))
		}
		return verifBloomOps(bl)
	}
	verifComponents["getsize"] = func(args []string) func(op []string) string {
		return func(op []string) string {
			if op[0] == "__end" {
				return ""
			}
			s, e := getSize(vu(op[0]))
			return fmt.Sprintf("%d %d", s, e)
		}
	}
	verifComponents["probe"] = func(args []string) func(op []string) string {
		return func(op []string) string {
			switch op[0] {
			case "bloomfp":
				// (entries, false-positive rate given as numerator/denominator)
				rate := float64(vu(op[2])) / float64(vu(op[3]))
				bl := NewBloomFilter(float64(vu(op[1])), rate)
				return fmt.Sprintf("%d %d", bl.size+1, bl.setLocs)
			case "__end":
				return ""
			}
			return "badop"
		}
	}
}
