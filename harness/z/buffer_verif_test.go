//go:build verif

package z

// White-box harness for buffer.go (C11).
// component "buffer", header: <calloc|mmap> <capacity> <autoMmapAfter> <maxSz>
// White-box reads: b.curSz, b.bufType, b.offset, b.buf (stale contents of AllocateOffset ranges).

import (
	"bytes"
	"fmt"
	"hash/fnv"
	"strings"
)

func vBufCmp(name string) func(a, b []byte) bool {
	sum := func(x []byte) int {
		s := 0
		for _, c := range x {
			s += int(c)
		}
		return s
	}
	switch name {
	case "lex":
		return func(a, b []byte) bool { return bytes.Compare(a, b) < 0 }
	case "rlex":
		return func(a, b []byte) bool { return bytes.Compare(a, b) > 0 }
	case "len":
		return func(a, b []byte) bool { return len(a) < len(b) }
	case "first":
		return func(a, b []byte) bool {
			if len(b) == 0 {
				return false
			}
			if len(a) == 0 {
				return true
			}
			return a[0] < b[0]
		}
	case "true":
		return func(a, b []byte) bool { return true }
	case "false":
		return func(a, b []byte) bool { return false }
	case "cyc":
		return func(a, b []byte) bool { return (sum(b)+3-sum(a)%3)%3 == 1 }
	}
	panic("verif: bad comparator " + name)
}

func init() {
	// capacity arithmetic of Buffer.Grow at sizes the byte-level component cannot materialise (growth steps are clamped
	// to 1 GiB): white box, a small calloc buffer whose recorded capacity is set to <cur>; Grow(n) then allocates
	// (virtual, untouched) memory of the new capacity.  op: gb <cur> <off> <n>  ->  new capacity
	verifComponents["growcap"] = func(args []string) func(op []string) string {
		return func(op []string) string {
			if op[0] != "gb" {
				return ""
			}
			cur, off, n := int(vi(op[1])), uint64(vi(op[2])), int(vi(op[3]))
			b := NewBuffer(64, "verif")
			b.curSz = cur
			b.offset = off
			b.Grow(n)
			res := fmt.Sprintf("%d %d", b.curSz, len(b.buf))
			b.buf = nil
			return res
		}
	}
	verifComponents["buffer"] = func(args []string) func(op []string) string {
		capacity, auto, maxsz := int(vi(args[1])), int(vi(args[2])), int(vi(args[3]))
		var b *Buffer
		switch args[0] {
		case "calloc":
			b = NewBuffer(capacity, "verif")
		case "mmap":
			var err error
			b, err = NewBufferTmp("", capacity)
			if err != nil {
				panic(err)
			}
		default:
			panic("verif: bad mode")
		}
		if auto != 0 {
			b = b.WithAutoMmap(auto, "")
		}
		if maxsz != 0 {
			b = b.WithMaxSize(maxsz)
		}
		st := func() string {
			m := "c"
			if b.bufType == UseMmap {
				m = "m"
			} else if b.bufType != UseCalloc {
				m = "?"
			}
			e := "f"
			if b.IsEmpty() {
				e = "t"
			}
			return fmt.Sprintf("%d %d %s %s", b.LenNoPadding(), b.curSz, m, e)
		}
		joinHex := func(l [][]byte) string {
			if len(l) == 0 {
				return "none"
			}
			hs := make([]string, len(l))
			for i, s := range l {
				hs[i] = vhex(s)
			}
			return strings.Join(hs, ",")
		}
		body := func(op []string) string {
			switch op[0] {
			case "w":
				n, err := b.Write(vunhex(op[1]))
				if err != nil {
					return "error"
				}
				return fmt.Sprintf("%d %s", n, st())
			case "ws":
				b.WriteSlice(vunhex(op[1]))
				return "ok " + st()
			case "al":
				n := int(vi(op[1]))
				s := b.Allocate(n)
				stale := vhex(s)
				if len(s) != n {
					return fmt.Sprintf("badlen %d", len(s))
				}
				copy(s, vunhex(op[2]))
				return fmt.Sprintf("%d %s %s", b.LenWithPadding()-n, stale, st())
			case "ao":
				n := int(vi(op[1]))
				off := b.AllocateOffset(n)
				stale := vhex(b.buf[off : off+n])
				copy(b.buf[off:off+n], vunhex(op[2]))
				return fmt.Sprintf("%d %s %s", off, stale, st())
			case "sa":
				n := int(vi(op[1]))
				s := b.SliceAllocate(n)
				stale := vhex(s)
				if len(s) != n {
					return fmt.Sprintf("badlen %d", len(s))
				}
				copy(s, vunhex(op[2]))
				return fmt.Sprintf("%d %s %s", b.LenWithPadding()-n, stale, st())
			case "grow":
				b.Grow(int(vi(op[1])))
				return "ok " + st()
			case "reset":
				b.Reset()
				return "ok " + st()
			case "bytes":
				h := fnv.New64a()
				h.Write(b.Bytes())
				return fmt.Sprintf("%d %d", len(b.Bytes()), h.Sum64())
			case "hex":
				return vhex(b.Bytes())
			case "lwp":
				return fmt.Sprint(b.LenWithPadding())
			case "offs":
				return strings.Trim(fmt.Sprint(b.SliceOffsets()), "[]")
			case "sl":
				s, next := b.Slice(int(vi(op[1])))
				return fmt.Sprintf("%s %d", vhex(s), next)
			case "iter":
				var l [][]byte
				err := b.SliceIterate(func(s []byte) error {
					l = append(l, append([]byte{}, s...))
					return nil
				})
				if err != nil {
					return "error"
				}
				return joinHex(l)
			case "slices":
				var l [][]byte
				for _, off := range b.SliceOffsets() {
					s, _ := b.Slice(off)
					l = append(l, s)
				}
				return joinHex(l)
			case "sort":
				b.SortSlice(vBufCmp(op[1]))
				return "ok " + st()
			case "sortb":
				b.SortSliceBetween(int(vi(op[1])), int(vi(op[2])), vBufCmp(op[3]))
				return "ok " + st()
			case "__end":
				if b != nil {
					if err := b.Release(); err != nil {
						panic(err)
					}
					b = nil
				}
				return ""
			}
			return "badop"
		}
		return func(op []string) (res string) {
			defer func() {
				if r := recover(); r != nil {
					msg := fmt.Sprint(r)
					if strings.HasPrefix(msg, "z.Buffer max size exceeded") {
						res = "panic maxsize"
						return
					}
					panic(r)
				}
			}()
			return body(op)
		}
	}
}
