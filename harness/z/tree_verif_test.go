//go:build verif

package z

// White-box harness for btree.go (C10, C16).
// header:  tree <pageSize> <mem|persistent>
// The package variables pageSize/maxKeys are set for the duration of the case and restored at __end.
// Only the API-visible projection is printed (plus nextPage, freePage and len(data), read white-box).

import (
	"fmt"
	"os"
	"strings"
)

func init() {
	verifComponents["tree"] = func(args []string) func(op []string) string {
		oldPS, oldMK := pageSize, maxKeys
		pageSize = int(vu(args[0]))
		maxKeys = (pageSize / 16) - 1
		persistent := args[1] == "persistent"
		var t *Tree
		path := ""
		if persistent {
			f, err := os.CreateTemp("", "verif-tree-*")
			if err != nil {
				panic(err)
			}
			path = f.Name()
			f.Close()
			nt, err := NewTreePersistent(path)
			if err != nil {
				panic(err)
			}
			t = nt
		} else {
			t = NewTree("verif")
		}
		closed := false
		iter := func(f func(k, v uint64) uint64) string {
			var sb strings.Builder
			t.IterateKV(func(k, v uint64) uint64 {
				if sb.Len() > 0 {
					sb.WriteByte(' ')
				}
				fmt.Fprintf(&sb, "%d:%d", k, v)
				return f(k, v)
			})
			if sb.Len() == 0 {
				return "-"
			}
			return sb.String()
		}
		// white-box poke: cut the buffer back to the pages in use (those beyond nextPage are blank) and make it exactly
		// full, so that the next page taken by bumping nextPage re-allocates (calloc) or re-maps (mmap) the buffer and
		// every node slice obtained before that is stale
		tight := func() {
			b := t.buffer
			b.offset = 8 + t.nextPage*uint64(pageSize)
			if persistent {
				if err := b.mmapFile.Truncate(int64(b.offset)); err != nil {
					panic(err)
				}
				b.buf = b.mmapFile.Data
				b.curSz = len(b.buf)
			} else {
				b.curSz = int(b.offset)
			}
			t.data = b.Bytes()
		}
		// same poke leaving room for exactly [slack] more pages; the buffer is moved to a fresh allocation of that size
		tightn := func(slack int) {
			if slack == 0 {
				tight()
				return
			}
			b := t.buffer
			b.offset = 8 + t.nextPage*uint64(pageSize)
			want := int(b.offset) + slack*pageSize + 1
			if persistent {
				if err := b.mmapFile.Truncate(int64(want)); err != nil {
					panic(err)
				}
				b.buf = b.mmapFile.Data
				b.curSz = len(b.buf)
			} else {
				nb := Calloc(want, b.tag)
				copy(nb, b.buf[:b.offset])
				Free(b.buf)
				b.buf = nb
				b.curSz = want
			}
			t.data = b.Bytes()
		}
		return func(op []string) string {
			if closed && op[0] != "__end" {
				// a reopen failed (panicked): the old mapping is gone, nothing may touch it
				return "closed"
			}
			switch op[0] {
			case "set":
				t.Set(vu(op[1]), vu(op[2]))
				return "ok"
			case "get":
				return fmt.Sprint(t.Get(vu(op[1])))
			case "delbelow":
				t.DeleteBelow(vu(op[1]))
				return "ok"
			case "iter":
				return iter(func(k, v uint64) uint64 { return 0 })
			case "iterset":
				// values v with v % m == r are rewritten to v + add (uint64 arithmetic); a zero result changes nothing
				m, r, add := vu(op[1]), vu(op[2]), vu(op[3])
				return iter(func(k, v uint64) uint64 {
					if v%m == r {
						return v + add
					}
					return 0
				})
			case "reset":
				t.Reset()
				return "ok"
			case "stats":
				s := t.Stats()
				return fmt.Sprintf("%d %d %d %d %d", s.NumLeafKeys, s.NumPages, s.NumPagesFree, t.nextPage, t.freePage)
			case "datalen":
				return fmt.Sprint(len(t.data))
			case "tight":
				if len(op) > 1 {
					tightn(int(vu(op[1])))
				} else {
					tight()
				}
				return "ok"
			case "fill", "tfill":
				// set k0, k0+step, ... (value v) until the tree has at least P pages; prints how many keys were set
				k, step, v, p := vu(op[1]), vu(op[2]), vu(op[3]), int(vu(op[4]))
				n := 0
				for t.Stats().NumPages < p && n < 400000 {
					if op[0] == "tfill" {
						if len(op) > 5 {
							tightn(int(vu(op[5])))
						} else {
							tight()
						}
					}
					t.Set(k, v)
					k += step
					n++
				}
				return fmt.Sprint(n)
			case "reopen":
				if !persistent {
					return "badop"
				}
				closed = true
				if err := t.Close(); err != nil {
					return "error close"
				}
				nt, err := NewTreePersistent(path)
				if err != nil {
					return "error open"
				}
				t = nt
				closed = false
				return "ok"
			case "__end":
				pageSize, maxKeys = oldPS, oldMK
				if !closed {
					t.Close()
				}
				if path != "" {
					os.Remove(path)
				}
				return ""
			}
			return "badop"
		}
	}
}
