//go:build verif

package z

// White-box harness for allocator.go (C12).
//   alloc <sz>        single-threaded op sequences; every returned slice is located in a.buffers and printed as
//                     (chunk index, offset, length), stamped with a unique byte pattern and re-checked by `verify`;
//                     `preempt sz` = a goroutine stopped right after its fetch-and-add (white-box add to compIdx)
//   allocstress <sz>  real goroutines; judged by the property oracle only (overlap / stamps / alignment / lengths)
//   alloclog2         log2 and the size of the first chunk
// Every op runs under a watchdog: the code before the repair of finding 4 spins forever holding the mutex.

import (
	"bytes"
	"fmt"
	"math/rand"
	"os"
	"runtime/debug"
	"runtime/metrics"
	"sort"
	"strings"
	"sync"
	"sync/atomic"
	"time"
	"unsafe"
)

// A seeded defect (or a future regression) can make one Allocate call acquire dozens of 1 GiB chunks; the generated
// cases need well below 1 GiB.  A watchdog ends the process before the machine suffers; the driver then reports the
// missing output.
const vAllocMemLimit = 5 << 30

var vAllocMemOnce sync.Once

func vAllocMemWatch() {
	vAllocMemOnce.Do(func() {
		// soft limit: the collector and the scavenger work harder instead of letting freed chunks pile up as RSS
		debug.SetMemoryLimit(1 << 30)
		go func() {
			// mapped minus returned to the OS (the total alone only ever grows)
			s := []metrics.Sample{{Name: "/memory/classes/total:bytes"}, {Name: "/memory/classes/heap/released:bytes"}}
			for {
				time.Sleep(10 * time.Millisecond)
				metrics.Read(s)
				if s[0].Value.Kind() != metrics.KindUint64 || s[1].Value.Kind() != metrics.KindUint64 {
					continue
				}
				if used := s[0].Value.Uint64() - s[1].Value.Uint64(); used > vAllocMemLimit {
					fmt.Fprintf(os.Stderr, "verif: allocator harness exceeded its memory budget (%d bytes in use)\n", used)
					os.Exit(3)
				}
			}
		}()
	})
}

type vAllocRec struct {
	s    []byte
	want []byte // nil: stamped with pattern id
	id   int
}

func vAllocPattern(id, i int) byte { return byte(id*131 + i*7 + 1) }

const vAllocFull = 1 << 20

// stamp (or check) the whole slice when small, its first and last 4 KiB otherwise
func vAllocSpans(n int) [][2]int {
	if n <= vAllocFull {
		return [][2]int{{0, n}}
	}
	return [][2]int{{0, 4096}, {n - 4096, n}}
}

func vAllocStamp(s []byte, id int) {
	for _, sp := range vAllocSpans(len(s)) {
		for i := sp[0]; i < sp[1]; i++ {
			s[i] = vAllocPattern(id, i)
		}
	}
}

func vAllocIntact(r vAllocRec) bool {
	if r.want != nil {
		return bytes.Equal(r.s, r.want)
	}
	for _, sp := range vAllocSpans(len(r.s)) {
		for i := sp[0]; i < sp[1]; i++ {
			if r.s[i] != vAllocPattern(r.id, i) {
				return false
			}
		}
	}
	return true
}

func vAllocZero(s []byte) bool {
	for _, sp := range vAllocSpans(len(s)) {
		for i := sp[0]; i < sp[1]; i++ {
			if s[i] != 0 {
				return false
			}
		}
	}
	return true
}

// locate a non-empty slice in the allocator's chunks: (chunk, offset, "" | reason)
func vAllocLocate(a *Allocator, s []byte) (int, uintptr, string) {
	addr := uintptr(unsafe.Pointer(unsafe.SliceData(s)))
	for i, b := range a.buffers {
		if len(b) == 0 {
			continue
		}
		base := uintptr(unsafe.Pointer(&b[0]))
		if addr >= base && addr < base+uintptr(len(b)) {
			if addr+uintptr(len(s)) > base+uintptr(len(b)) {
				return i, addr - base, "oob"
			}
			return i, addr - base, ""
		}
	}
	return -1, 0, "foreign"
}

func vAllocPanicName(r interface{}) string {
	msg := fmt.Sprint(r)
	switch {
	case strings.HasPrefix(msg, "Unable to allocate more than"):
		return "panic toobig"
	case strings.HasPrefix(msg, "Allocator can not allocate more than"):
		return "panic limit64"
	case strings.Contains(msg, "slice bounds out of range"):
		return "panic slice"
	case strings.Contains(msg, "index out of range"):
		return "panic index"
	case strings.HasPrefix(msg, "Size should not reach here"):
		return "panic size"
	}
	if len(msg) > 50 {
		msg = msg[:50]
	}
	return "panic other:" + strings.ReplaceAll(strings.ReplaceAll(msg, "\n", " "), " ", "_")
}

// number of ops of this process that did not come back: the first ones get a generous deadline (a loaded machine
// must not produce a false "hang"), later ones a short one (a tree that really spins would otherwise take hours)
var vAllocHangs int32

func vAllocDeadline() time.Duration {
	if atomic.LoadInt32(&vAllocHangs) < 2 {
		return 20 * time.Second
	}
	return 2 * time.Second
}

// run f in its own goroutine; "hang" if it does not come back in time (the goroutine cannot be killed)
func vAllocGuard(d time.Duration, f func() string) (string, bool) {
	ch := make(chan string, 1)
	go func() {
		defer func() {
			if r := recover(); r != nil {
				ch <- vAllocPanicName(r)
			}
		}()
		ch <- f()
	}()
	select {
	case r := <-ch:
		return r, false
	case <-time.After(d):
		atomic.AddInt32(&vAllocHangs, 1)
		return "hang", true
	}
}

func init() {
	verifComponents["alloc"] = func(args []string) func(op []string) string {
		vAllocMemWatch()
		if atomic.LoadInt32(&vAllocHangs) >= 3 {
			// every hung op left a goroutine spinning; the first hangs are on record, do not pile up more
			return func(op []string) string { return "skipped-after-hangs" }
		}
		a := NewAllocator(int(vu(args[0])), "verif")
		var live []vAllocRec
		nextID := 0
		dead := false
		bases := make([]uintptr, 64)
		located := func(s []byte) (string, bool) {
			c, off, why := vAllocLocate(a, s)
			if why != "" {
				return why, false
			}
			return fmt.Sprintf("r %d %d %d", c, off, len(s)), true
		}
		do := func(op []string) string {
			switch op[0] {
			case "new":
				a.Release()
				a = NewAllocator(int(vu(op[1])), "verif")
				live = nil
				bases = make([]uintptr, 64)
				return fmt.Sprintf("ok %d", a.Allocated())
			case "alloc":
				n := int(vu(op[1]))
				s := a.Allocate(n)
				if s == nil {
					return "nil"
				}
				if len(s) != n {
					return fmt.Sprintf("badlen %d", len(s))
				}
				l, ok := located(s)
				if ok {
					nextID++
					vAllocStamp(s, nextID)
					live = append(live, vAllocRec{s: s, id: nextID})
				}
				return l
			case "aligned":
				n := int(vu(op[1]))
				s := a.AllocateAligned(n)
				if len(s) != n {
					return fmt.Sprintf("badlen %d", len(s))
				}
				nextID++
				if len(s) == 0 {
					live = append(live, vAllocRec{s: s, id: nextID})
					return "empty"
				}
				l, ok := located(s)
				if !ok {
					return l
				}
				al, z := 0, 0
				if uintptr(unsafe.Pointer(&s[0]))%8 == 0 {
					al = 1
				}
				if vAllocZero(s) {
					z = 1
				}
				vAllocStamp(s, nextID)
				live = append(live, vAllocRec{s: s, id: nextID})
				return fmt.Sprintf("%s al=%d zero=%d", l, al, z)
			case "copy":
				b := vunhex(op[1])
				s := a.Copy(b)
				if s == nil {
					return "nil"
				}
				l, ok := located(s)
				if !ok {
					return l
				}
				nextID++
				live = append(live, vAllocRec{s: s, want: append([]byte{}, b...), id: nextID})
				return l + " " + vhex(s)
			case "reset":
				a.Reset()
				live = nil
				return "ok"
			case "trimto":
				a.TrimTo(int(vu(op[1])))
				return "ok"
			case "size":
				return fmt.Sprint(a.Size())
			case "allocated":
				return fmt.Sprint(a.Allocated())
			case "preempt":
				atomic.AddUint64(&a.compIdx, vu(op[1]))
				return "ok"
			case "chunks":
				// lengths of the chunk slots (trailing empty ones dropped) + have the non-empty ones moved?
				var ls []string
				last := -1
				st := "stable"
				for i, b := range a.buffers {
					var base uintptr
					if len(b) > 0 {
						last = i
						base = uintptr(unsafe.Pointer(&b[0]))
					}
					if i < len(bases) {
						if bases[i] != 0 && base != 0 && bases[i] != base && st == "stable" {
							st = fmt.Sprintf("moved%d", i)
						}
						bases[i] = base
					}
				}
				for i := 0; i <= last; i++ {
					ls = append(ls, fmt.Sprint(len(a.buffers[i])))
				}
				if len(ls) == 0 {
					ls = []string{"-"}
				}
				return strings.Join(ls, ",") + " " + st
			case "verify":
				for i, r := range live {
					if !vAllocIntact(r) {
						return fmt.Sprintf("corrupt %d", i)
					}
				}
				return fmt.Sprintf("intact %d", len(live))
			}
			return "badop"
		}
		return func(op []string) string {
			if op[0] == "__end" {
				if !dead {
					a.Release()
				}
				return ""
			}
			if dead {
				return "dead"
			}
			r, hung := vAllocGuard(vAllocDeadline(), func() string { return do(op) })
			if hung {
				dead = true // the stuck goroutine still owns the allocator (and its mutex)
			}
			return r
		}
	}

	verifComponents["alloclog2"] = func(args []string) func(op []string) string {
		return func(op []string) string {
			if op[0] == "__end" {
				return ""
			}
			x := int(vu(op[0]))
			a := NewAllocator(x, "verif")
			defer a.Release()
			lx := x
			if lx < 1 {
				lx = 1
			}
			return fmt.Sprintf("%d %d", log2(lx), len(a.buffers[0]))
		}
	}

	verifComponents["allocstress"] = func(args []string) func(op []string) string {
		vAllocMemWatch()
		if atomic.LoadInt32(&vAllocHangs) >= 1 {
			return func(op []string) string { return "skipped-after-hangs" }
		}
		a := NewAllocator(int(vu(args[0])), "verif")
		dead := false
		return func(op []string) string {
			if op[0] == "__end" {
				if !dead {
					a.Release()
				}
				return ""
			}
			if dead {
				return "dead"
			}
			switch op[0] {
			case "reset":
				a.Reset()
				return "ok"
			case "stress":
				G, M, seed, maxsz := int(vu(op[1])), int(vu(op[2])), int64(vu(op[3])), int(vu(op[4]))
				r, hung := vAllocGuard(90*time.Second, func() string { return vAllocStress(a, G, M, seed, maxsz) })
				if hung {
					dead = true
				}
				return r
			case "mixed":
				// many short rounds on fresh allocators: half of the goroutines ask for a few bytes, the other half for
				// sizes that more than double each time (stale waiters at chunk boundaries)
				R, G := int(vu(op[1])), int(vu(op[2]))
				for i := 0; i < R; i++ {
					// each round has its own hang budget: the number of rounds must not turn slowness into a "hang"
					r, hung := vAllocGuard(60*time.Second, func() string {
						fa := NewAllocator(64, "verif")
						res := vAllocStress(fa, G, 14, int64(2*i+1), 32)
						fa.Release()
						return res
					})
					if hung {
						dead = true
						return fmt.Sprintf("round %d: hang", i)
					}
					if r != fmt.Sprintf("ok %d", G*14) {
						return fmt.Sprintf("round %d: %s", i, r)
					}
				}
				return fmt.Sprintf("ok %d", R)
			}
			return "badop"
		}
	}
}

type vStressRec struct {
	s    []byte
	g, i int
	want []byte
}

func vStressSize(rng *rand.Rand, maxsz int) int {
	if maxsz >= 1<<22 {
		// few, very large requests: every goroutine overshoots the current chunk while another one is growing the
		// allocator (the offset half of the packed word advances by megabytes per attempt)
		return maxsz - rng.Intn(64)
	}
	switch rng.Intn(10) {
	case 0:
		return rng.Intn(3)
	case 1, 2, 3, 4:
		return 1 + rng.Intn(64)
	case 5, 6:
		return 1 + rng.Intn(600)
	case 7:
		k := 512 << uint(rng.Intn(8))
		return k - 3 + rng.Intn(7)
	default:
		return 1 + rng.Intn(maxsz)
	}
}

// G goroutines x M calls of Allocate / AllocateAligned / Copy with mixed sizes; every slice is stamped with a
// pattern unique to (goroutine, call); afterwards: exact lengths, alignment/zeroing, equal copies, every slice inside
// one chunk, no two slices overlap, every stamp intact.
func vAllocStress(a *Allocator, G, M int, seed int64, maxsz int) string {
	recs := make([][]vStressRec, G)
	errs := make([]string, G)
	var wg sync.WaitGroup
	start := make(chan struct{})
	for g := 0; g < G; g++ {
		wg.Add(1)
		go func(g int) {
			defer wg.Done()
			defer func() {
				if r := recover(); r != nil {
					errs[g] = vAllocPanicName(r)
				}
			}()
			rng := rand.New(rand.NewSource(seed*1000 + int64(g)))
			<-start
			for i := 0; i < M; i++ {
				n := vStressSize(rng, maxsz)
				if seed%2 == 1 && g%2 == 1 && i < 18 {
					// every other goroutine asks for sizes that more than double each time: each request is larger
					// than the chunk that would be added next, while the others keep asking for a few bytes
					n = (24 << uint(i)) + rng.Intn(8)
				}
				id := g*M + i + 1
				switch k := rng.Intn(10); {
				case k < 6:
					s := a.Allocate(n)
					if len(s) != n {
						errs[g] = fmt.Sprintf("Allocate(%d) has length %d", n, len(s))
						return
					}
					vAllocStamp(s, id)
					recs[g] = append(recs[g], vStressRec{s: s, g: g, i: id})
				case k < 8:
					s := a.AllocateAligned(n)
					if len(s) != n {
						errs[g] = fmt.Sprintf("AllocateAligned(%d) has length %d", n, len(s))
						return
					}
					if n > 0 && uintptr(unsafe.Pointer(&s[0]))%8 != 0 {
						errs[g] = fmt.Sprintf("AllocateAligned(%d) not 8-byte aligned", n)
						return
					}
					if !vAllocZero(s) {
						errs[g] = fmt.Sprintf("AllocateAligned(%d) not zeroed", n)
						return
					}
					vAllocStamp(s, id)
					recs[g] = append(recs[g], vStressRec{s: s, g: g, i: id})
				default:
					if n > 4096 {
						n = 1 + n%4096
					}
					b := make([]byte, n)
					for j := range b {
						b[j] = vAllocPattern(id, j)
					}
					s := a.Copy(b)
					if !bytes.Equal(s, b) {
						errs[g] = fmt.Sprintf("Copy of %d bytes differs", n)
						return
					}
					recs[g] = append(recs[g], vStressRec{s: s, g: g, i: id, want: b})
				}
			}
		}(g)
	}
	close(start)
	wg.Wait()
	for g, e := range errs {
		if e != "" {
			return fmt.Sprintf("fail goroutine %d: %s", g, strings.ReplaceAll(e, " ", "_"))
		}
	}
	type iv struct{ lo, hi uintptr }
	var ivs []iv
	count := 0
	for g := range recs {
		for _, r := range recs[g] {
			count++
			if !vAllocIntact(vAllocRec{s: r.s, want: r.want, id: r.i}) {
				return fmt.Sprintf("fail stamp of call %d of goroutine %d overwritten", r.i, g)
			}
			if len(r.s) == 0 {
				continue
			}
			if _, _, why := vAllocLocate(a, r.s); why != "" {
				return fmt.Sprintf("fail slice of goroutine %d is %s", g, why)
			}
			lo := uintptr(unsafe.Pointer(&r.s[0]))
			ivs = append(ivs, iv{lo, lo + uintptr(len(r.s))})
		}
	}
	sort.Slice(ivs, func(i, j int) bool { return ivs[i].lo < ivs[j].lo })
	for i := 1; i < len(ivs); i++ {
		if ivs[i].lo < ivs[i-1].hi {
			return "fail overlap"
		}
	}
	if count != G*M {
		return fmt.Sprintf("fail count %d", count)
	}
	return fmt.Sprintf("ok %d", count)
}
