#!/bin/sh
# Offline build of the whole framework from files on disk: Coq development (full .vo), extracted runner,
# Go harness binaries (warms the Go build cache, incl. the race-enabled standard library).
set -e
cd "$(dirname "$0")"
mkdir -p build evidence replays
python3 - <<'PY'
import sys
sys.path.insert(0, '.')
from lib import core
with core.Lock():
    for m in core.regenerate():
        print("regenerate:", m)
    ok, log, failing = core.build_coq()
    print("coq build:", "ok" if ok else "FAILED at %s" % failing)
    if not ok:
        print(log[-3000:])
    okr, rlog = core.build_runner()
    print("runner:", "ok" if okr else "FAILED\n" + rlog[-2000:])
    import os
    for pkg in core.PKGS:
        if os.path.isdir(os.path.join(core.ROOT, "harness", pkg)) and os.listdir(os.path.join(core.ROOT, "harness", pkg)):
            okh, hlog, _ = core.build_harness(pkg)
            print("harness", pkg, "ok" if okh else "FAILED\n" + hlog[-2000:])
    sys.exit(0 if (ok and okr) else 1)
PY
