#!/usr/bin/env python3
"""Translator: z/simd/search_amd64.s (Plan 9 amd64 assembly, avo-generated) -> Coq list of instructions
over the subset defined in theories/Simd/X86.v.  Also looks at the Go side of the package to decide whether
the exported Search is the assembly symbol itself or a Go wrapper guarding the kernel by the length test.
Prints the .v file on stdout; any construct outside the subset is an error (exit 1)."""
import hashlib
import os
import re
import sys

REGS = {"AX", "BX", "CX", "DX", "BP"}


def fail(msg):
    sys.stderr.write("asm2coq: " + msg + "\n")
    print("asm2coq: " + msg)
    sys.exit(1)


def num(s):
    s = s.strip()
    return int(s, 16) if s.lower().startswith("0x") else int(s)


def parse(path):
    src = open(path).read()
    lines = []
    text_name = None
    for raw in src.splitlines():
        l = raw.split("//")[0].strip()
        if not l or l.startswith("#"):
            continue
        m = re.match(r"TEXT\s+·(\w+)\(SB\)\s*,\s*NOSPLIT\s*,\s*\$0-34$", l)
        if m:
            if text_name is not None:
                fail("more than one TEXT")
            text_name = m.group(1)
            continue
        lines.append(l)
    if text_name is None:
        fail("no TEXT directive of the expected shape")
    labels = {}
    instrs = []
    for l in lines:
        m = re.match(r"^(\w+):$", l)
        if m:
            labels[m.group(1)] = len(instrs)
            continue
        instrs.append(l)
    out = []
    for l in instrs:
        m = re.match(r"^(\w+)\s*(.*)$", l)
        op, rest = m.group(1), m.group(2).strip()
        ops = [x.strip() for x in rest.split(",")] if rest else []
        if op == "RET" and not ops:
            out.append("IRet")
        elif op in ("JAE", "JB", "JMP") and len(ops) == 1:
            if ops[0] not in labels:
                fail("unknown label " + ops[0])
            out.append("%s %d" % ({"JAE": "IJae", "JB": "IJb", "JMP": "IJmp"}[op], labels[ops[0]]))
        elif op == "MOVQ" and len(ops) == 2 and re.match(r"^\w+\+\d+\(FP\)$", ops[0]):
            name = ops[0]
            a = {"xs_base+0(FP)": "A_base", "xs_len+8(FP)": "A_len", "k+24(FP)": "A_k"}.get(name)
            if a is None or ops[1] not in REGS:
                fail("unsupported load " + l)
            out.append("ILoad %s %s" % (a, ops[1]))
        elif op == "MOVL" and len(ops) == 2 and ops[1] == "ret+32(FP)" and ops[0] in REGS:
            out.append("IStoreRet %s" % ops[0])
        elif op in ("MOVQ", "MOVL", "XORL") and len(ops) == 2 and ops[0] in REGS and ops[1] in REGS:
            out.append("%s %s %s" % ({"MOVQ": "IMovQ", "MOVL": "IMovL", "XORL": "IXorL"}[op], ops[0], ops[1]))
        elif op == "CMPQ" and len(ops) == 2 and ops[0] in REGS and ops[1] in REGS:
            out.append("ICmpQ %s %s" % (ops[0], ops[1]))
        elif op == "CMPQ" and len(ops) == 2 and ops[1] in REGS:
            m2 = re.match(r"^(\d*)\((\w+)\)\((\w+)\*8\)$", ops[0])
            if not m2 or m2.group(2) not in REGS or m2.group(3) not in REGS:
                fail("unsupported memory operand " + l)
            out.append("ICmpMem %d %s %s %s" % (int(m2.group(1) or "0"), m2.group(2), m2.group(3), ops[1]))
        elif op in ("ADDQ", "ADDL", "SHRL") and len(ops) == 2 and ops[0].startswith("$") and ops[1] in REGS:
            out.append("%s %d %s" % ({"ADDQ": "IAddQi", "ADDL": "IAddLi", "SHRL": "IShrLi"}[op], num(ops[0][1:]), ops[1]))
        elif op == "ADDL" and len(ops) == 2 and ops[0] in REGS and ops[1] in REGS:
            out.append("IAddL %s %s" % (ops[0], ops[1]))
        else:
            fail("unsupported instruction: " + l)
    return text_name, out, src


def guarded_wrapper(pkgdir, text_name):
    """True iff the exported Search is a Go function of exactly the shape
         if len(xs) < 8 || (len(xs)%8 != 0) { return Naive(xs, k) }; return <text_name>(xs, k)
    and the assembly symbol is unexported; False iff the assembly symbol is Search itself."""
    if text_name == "Search":
        return False
    for f in sorted(os.listdir(pkgdir)):
        if not f.endswith(".go") or f.endswith("_test.go"):
            continue
        src = open(os.path.join(pkgdir, f)).read()
        if re.search(r"^//go:build\s+!amd64", src, flags=re.M) or re.search(r"^//go:build\s+ignore", src, flags=re.M):
            continue
        src_nc = re.sub(r"//[^\n]*", "", src)
        m = re.search(r"func Search\(xs \[\]uint64, k uint64\) int16 \{(.*?)\n\}", src_nc, flags=re.S)
        if m:
            body = re.sub(r"\s+", " ", m.group(1)).strip()
            want = ("if len(xs) < 8 || (len(xs)%%8 != 0) { return Naive(xs, k) } return %s(xs, k)" % text_name)
            if body == want:
                return True
            fail("exported Search is a Go function of an unrecognised shape: " + body[:200])
    fail("no exported Search found for amd64")


def main():
    path = sys.argv[1]
    text_name, instrs, src = parse(path)
    guarded = guarded_wrapper(os.path.dirname(path), text_name)
    print("(* GENERATED on every run by /verif/gen/asm2coq.py from %s — do not edit. *)" % path)
    print("From Ristretto Require Import Base.Word Simd.X86.")
    print("Definition search_text_name_is_exported : bool := %s." % ("true" if text_name == "Search" else "false"))
    print("Definition search_guarded : bool := %s." % ("true" if guarded else "false"))
    print("Definition search_prog : list instr :=")
    print("  [ " + ";\n    ".join(instrs) + " ].")
    print("(* sha256 of the source: %s *)" % hashlib.sha256(src.encode()).hexdigest())


if __name__ == "__main__":
    main()
