#!/usr/bin/env python3
"""lockorder2coq.py FACTS  ->  Coq source of Gen/LockOrder.v on stdout.

FACTS is the output of tools/lockorder on /repo's current tree (class / edge / chanop / functions lines).
Only the shape of the facts is trusted here; what they mean is documented in tools/lockorder/main.go."""
import sys


def q(s):
    return '"' + s.replace('"', '""') + '"'


def main():
    classes, edges, chanops, accesses, nfun = [], [], [], [], None
    for line in open(sys.argv[1]):
        fs = line.split()
        if not fs or fs[0].startswith("#"):
            continue
        if fs[0] == "class" and len(fs) == 2:
            classes.append(fs[1])
        elif fs[0] == "edge" and len(fs) == 4:
            edges.append((fs[1], fs[2], fs[3]))
        elif fs[0] == "chanop" and len(fs) == 3:
            chanops.append((fs[1], fs[2]))
        elif fs[0] == "access" and len(fs) == 5 and fs[2] in ("r", "w", "a"):
            held = [] if fs[4] == "-" else [tuple(h.rsplit(":", 1)) for h in fs[4].split(",")]
            if any(len(h) != 2 or h[1] not in ("R", "W") for h in held):
                sys.stderr.write("unexpected fact: " + line)
                sys.exit(1)
            accesses.append((fs[1], fs[2], fs[3], held))
        elif fs[0] == "functions" and len(fs) == 2:
            nfun = int(fs[1])
        else:
            sys.stderr.write("unexpected fact: " + line)
            sys.exit(1)
    if nfun is None or nfun < 50 or not classes:
        sys.stderr.write("implausible analysis result (functions=%r, classes=%r)\n" % (nfun, classes))
        sys.exit(1)
    print("(* GENERATED on every run by gen/lockorder2coq.py from tools/lockorder's analysis of /repo's cache.go, store.go,")
    print("   ttl.go, policy.go, ring.go, sketch.go (%d functions).  Do not edit. *)" % nfun)
    print("From Coq Require Import List String.\nImport ListNotations.\nLocal Open Scope string_scope.\n")
    print("(* the mutex classes: a named type embedding a sync.Mutex / RWMutex, or Type.field for a mutex field *)")
    print("Definition lock_classes : list string :=\n  [" + ";\n   ".join(q(c) for c in classes) + "].\n")
    print("(* (held, acquired, function): inside the function, or something it calls, [acquired] is locked while [held] is held *)")
    print("Definition lock_edges : list (string * string * string) :=\n  [" +
          ";\n   ".join("(%s, %s, %s)" % (q(a), q(b), q(f)) for a, b, f in edges) + "].\n")
    print("(* (held, function): a channel operation that can block is performed, there or in a callee, while [held] is held *)")
    print("Definition lock_chanops : list (string * string) :=\n  [" +
          ";\n   ".join("(%s, %s)" % (q(a), q(f)) for a, f in chanops) + "].\n")
    print("(* (Type.field, kind, function, held): an access - r read, w write (assignment, map insert / delete, ++, address")
    print("   taken), a through sync/atomic - to a field of one of the package's struct types inside the function, and the")
    print("   mutexes that are certainly held there (true = exclusively, false = shared); what a function holds on entry is")
    print("   what all its call sites hold *)")
    print("Definition lock_accesses : list (string * string * string * list (string * bool)) :=\n  [" +
          ";\n   ".join("(%s, %s, %s, [%s])" % (q(a), q(k), q(f), "; ".join("(%s, %s)" % (q(c), "true" if m == "W" else "false") for c, m in h))
                         for a, k, f, h in accesses) + "].")


main()
