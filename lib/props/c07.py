"""C07 — items are never served after their TTL has elapsed."""
from ..cacheprop import CacheProp
from .. import cachegen


class C07(CacheProp):
    pid = "C07"
    profiles = ["ttl", "ttl", "basic", "ttl", "tinybuf", "ttl", "collide"]
    rule = ("virtual-time histories (testing/synctest): TTLs of 1 ns .. 60 s and negative, replaced by longer/shorter/none, "
            "delete and re-insert, inserts applied late, clock advanced to exp-1ns / exp / exp+1ns and across bucket "
            "boundaries, reads before and after sweeps; Get/GetTTL/IterValues compared with the machine and checked against "
            "the per-value expiration instant; non-trivial = an eviction, rejection or blocked call occurred")

    def oracle(self, case, il):
        fails = []
        tr = cachegen.Trace(case, il)
        for st in tr.steps:
            op, res, now = st["op"], st["res"], st["now"]
            if op[0] == "set" and int(op[5]) < 0 and res[:1] != ["false"]:
                fails.append("op %d: SetWithTTL with negative ttl returned %s" % (st["n"], res))
            if op[0] == "get" and res[1:2] == ["true"]:
                v = int(res[0])
                if v in tr.val_ttl and tr.val_ttl[v] > 0 and now > tr.val_set_time[v] + tr.val_ttl[v]:
                    fails.append("op %d: Get returned value %d at t=%d, %d ns after its expiration" % (
                        st["n"], v, now, now - tr.val_set_time[v] - tr.val_ttl[v]))
            if op[0] == "iter":
                for x in res:
                    if x == "-":
                        continue
                    v = int(x)
                    if v in tr.val_ttl and tr.val_ttl[v] > 0 and now > tr.val_set_time[v] + tr.val_ttl[v]:
                        fails.append("op %d: IterValues yielded expired value %d" % (st["n"], v))
            if op[0] == "ttl" and res[1:2] == ["true"] and int(res[0]) > 0:
                k = int(op[1])
                ttls = [t for v, t in tr.val_ttl.items() if tr.val_key[v][0] == k and tr.val_set_time[v] <= now]
                if not ttls or int(res[0]) > max(ttls):
                    fails.append("op %d: GetTTL reports %s ns, larger than any ttl given for the key (%s)" % (
                        st["n"], res[0], ttls))
        return fails

    def nontrivial(self, case, il):
        return any(o.startswith("tick") for o in case.ops) and any(" true" in l for l in il)

    stress_kinds = ("early", "sweeprace")


PROP = C07()
