"""C07 — items are never served after their TTL has elapsed."""
from ..cacheprop import CacheProp
from .. import cachegen
from .c13 import parse_dump


class C07(CacheProp):
    pid = "C07"
    profiles = ["ttl", "ttl", "basic", "ttl", "tinybuf", "shouldttl", "ttl", "collide", "shouldttl"]
    rule = ("virtual-time histories (testing/synctest): TTLs of 1 ns .. 60 s and negative, replaced by longer/shorter/none, "
            "delete and re-insert, inserts applied late, clock advanced to exp-1ns / exp / exp+1ns and across bucket "
            "boundaries, reads before and after sweeps; Get/GetTTL/IterValues compared with the machine and checked against "
            "the per-value expiration instant; non-trivial = an eviction, rejection or blocked call occurred"
            " Plus, as search only: the stress harness' sweep phase (no value is evicted by the expiry sweep before its expiration) and the spin-synchronised store-level / sweep-level races (DelExpired or the whole sweep against an overwrite with a later expiration or a Del: exactly one side may win).")

    def gen(self, rng, n, ctx):
        cases = cachegen.gen_cases(rng, n * 5 // 6, ctx, self.profiles)
        pd = ctx.probe_data or {"item_size": 56, "start": cachegen.START_DEFAULT}
        g = cachegen.Gen(rng, pd)
        for j in range(n - len(cases)):
            # a TTL replaced by a longer or by no TTL while the sweep already holds the key's old bucket (the write comes
            # from the OnEvict callback of another key of that bucket): the TTL alone must not hide the new item
            bdur = rng.choice([1, 5])
            h1, h2 = cachegen.mix(400 + j), cachegen.mix(500 + j)
            ttl1 = rng.choice([1, 10 ** 9, bdur * 10 ** 9])
            new_ttl = rng.choice([0, 0, 3600 * 10 ** 9])
            ops = [["set", h1, 10, 11, 30, ttl1], ["set", h2, 20, 12, 30, ttl1], ["tok"], ["tok"],
                   ["tick", rng.choice([2, 6, 11]) * bdur * 10 ** 9],
                   ["sweeprw", h1, 10, h2, 20, 102, 30, new_ttl], ["tok"],
                   ["get", h1, 10], ["get", h2, 20], ["tick", rng.choice([1, 3, 20]) * bdur * 10 ** 9], ["sweep"],
                   ["get", h1, 10], ["get", h2, 20], ["iter"]]
            cases.append(cachegen.Case("rw%d" % j, "cache", g.header(1000, 8, True, True, 0, bdur), ops,
                                       tags=["profile:sweeprw"]))
        # IterValues from inside the sweep (the first OnEvict enumerates the cache): several keys share one bucket, some
        # with a longer TTL or none; whatever is enumerated at that moment must not be expired
        for j in range(max(2, n // 40)):
            bdur = rng.choice([1, 5])
            hs = [cachegen.mix(900 + 7 * j + i) for i in range(5)]
            ops = []
            for i, h in enumerate(hs):
                ttl = [10 ** 9, 10 ** 9, 10 ** 9, 0, 3600 * 10 ** 9][i] if rng.random() < 0.7 else 10 ** 9
                ops.append(["set", h, 10 + i, 11 + i, 30, ttl])
            ops += [["tok"]] * 6 + [["dump"], ["tick", rng.choice([2, 6, 11]) * bdur * 10 ** 9], ["iter"], ["sweepit"], ["iter"],
                                   ["dump"], ["tick", 3 * bdur * 10 ** 9], ["sweepit"], ["iter"]]
            cases.append(cachegen.Case("si%d" % j, "cache", g.header(1000, 8, True, True, 0, bdur), ops,
                                       tags=["profile:sweepit"]))
        # the applier's store.Set on a key that is already in the map: two buffered inserts of one key with different TTLs
        # and, between them, a Del of a colliding key (same hash, other conflict), which makes the accounting forget the
        # hash while the map keeps the entry - the second insert is then admitted and overwrites the entry in place
        for j in range(max(2, n // 40)):
            bdur = rng.choice([1, 5])
            h = cachegen.mix(800 + j)
            t1, t2 = rng.sample([0, 10 ** 9, 3 * 10 ** 9, 60 * 10 ** 9], 2)
            ops = [["set", h, 10, 11, 30, t1], ["del", h, 11], ["set", h, 10, 12, 30, t2], ["tok"], ["tok"], ["tok"],
                   ["wait"], ["get", h, 10], ["ttl", h, 10], ["dump"], ["tick", 2 * 10 ** 9], ["get", h, 10], ["ttl", h, 10],
                   ["tick", 5 * 10 ** 9], ["get", h, 10], ["iter"], ["sweep"], ["get", h, 10], ["dump"],
                   ["tick", 70 * 10 ** 9], ["sweep"], ["get", h, 10], ["iter"], ["dump"]]
            cases.append(cachegen.Case("cs%d" % j, "cache", g.header(1000, 8, True, True, 0, bdur), ops,
                                       tags=["profile:collide"]))
        return cases

    def oracle(self, case, il):
        fails = []
        tr = cachegen.Trace(case, il)
        rewritten = None     # (key hash, value, deadline or None) written from inside the sweep
        shown = None         # key hash -> (conflict, value) of the last dump, while nothing has changed the map since
        for st in tr.steps:
            op, res, now = st["op"], st["res"], st["now"]
            if op[0] == "sweeprw":
                rw = [t for t in st["raw"].split() if t.startswith("rwset:")]
                if rw and rw[0].endswith(":true"):
                    first = rw[0].split(":")[1]
                    other = op[3] if first == op[1] else op[1]
                    ttl = int(op[7])
                    rewritten = (other, int(op[5]), None if ttl == 0 else now + ttl)
            if op[0] in ("set", "del", "clear", "close") and rewritten and (len(op) < 2 or op[1] == rewritten[0]):
                rewritten = None
            if op[0] == "get" and rewritten and op[1] == rewritten[0] and (rewritten[2] is None or now < rewritten[2]):
                if res != [str(rewritten[1]), "true"]:
                    fails.append("op %d: Get(%s) returned %s: value %d, written with %s while the sweep held the key's old "
                                 "bucket, is hidden before its expiration" % (
                                     st["n"], op[1], " ".join(res), rewritten[1],
                                     "no TTL" if rewritten[2] is None else "a later expiration"))
            # "the TTL alone never hides an item": an entry the white-box dump has just shown in the map, whose own
            # expiration instant (call time + ttl, exact arithmetic) has not passed, must be served by Get and GetTTL
            if op[0] == "dump":
                shown = {}
                for e in parse_dump(st["raw"]).get("store", []):
                    f = e.split(":")
                    if len(f) == 4:
                        shown[f[0]] = (int(f[1]), int(f[2]))
            elif op[0] not in ("get", "ttl", "iter", "rem", "metrics", "estcheck", "max", "tick"):
                shown = None
            if op[0] in ("get", "ttl") and shown and op[1] in shown:
                conf, v = shown[op[1]]
                if (int(op[2]) == 0 or int(op[2]) == conf) and v in tr.val_ttl and tr.val_ttl[v] >= 0 and \
                        (tr.val_ttl[v] == 0 or now < tr.val_set_time[v] + tr.val_ttl[v]):
                    ok = res == [str(v), "true"] if op[0] == "get" else res[1:2] == ["true"]
                    if not ok:
                        fails.append("op %d: %s(%s) returned %s although the map holds value %d, written at t=%d with ttl %d: "
                                     "hidden %d ns before its expiration" % (
                                         st["n"], "Get" if op[0] == "get" else "GetTTL", op[1], " ".join(res), v,
                                         tr.val_set_time[v], tr.val_ttl[v],
                                         tr.val_set_time[v] + tr.val_ttl[v] - now if tr.val_ttl[v] else 0))
            if op[0] == "set" and int(op[5]) < 0 and res[:1] != ["false"]:
                fails.append("op %d: SetWithTTL with negative ttl returned %s" % (st["n"], res))
            if op[0] == "get" and res[1:2] == ["true"] and tr.val_ttl.get(int(res[0]), 0) < 0:
                fails.append("op %d: Get returned value %s, whose SetWithTTL had a negative ttl (it must store nothing)" % (st["n"], res[0]))
            if op[0] == "iter":
                for x in res:
                    if x != "-" and tr.val_ttl.get(int(x), 0) < 0:
                        fails.append("op %d: IterValues yielded value %s, whose SetWithTTL had a negative ttl" % (st["n"], x))
            if op[0] == "get" and res[1:2] == ["true"]:
                v = int(res[0])
                if v in tr.val_ttl and tr.val_ttl[v] > 0 and now > tr.val_set_time[v] + tr.val_ttl[v]:
                    fails.append("op %d: Get returned value %d at t=%d, %d ns after its expiration" % (
                        st["n"], v, now, now - tr.val_set_time[v] - tr.val_ttl[v]))
            if op[0] == "sweepit":
                for t in st["raw"].split():
                    if t.startswith("rwset:"):
                        for x in t.split(":")[2].split("+"):
                            if x != "-" and int(x) in tr.val_ttl and tr.val_ttl[int(x)] > 0 and \
                                    now > tr.val_set_time[int(x)] + tr.val_ttl[int(x)]:
                                fails.append("op %d: IterValues, called from the sweep's first OnEvict, yielded expired value %s "
                                             "(%d ns after its expiration)" % (st["n"], x, now - tr.val_set_time[int(x)] - tr.val_ttl[int(x)]))
            if op[0] == "iter":
                for x in res:
                    if x == "-":
                        continue
                    v = int(x)
                    if v in tr.val_ttl and tr.val_ttl[v] > 0 and now > tr.val_set_time[v] + tr.val_ttl[v]:
                        fails.append("op %d: IterValues yielded expired value %d" % (st["n"], v))
            if op[0] == "ttl" and res[1:2] == ["true"] and int(res[0]) > 0:
                k = int(op[1])
                ttls = [t for v, t in tr.val_ttl.items() if tr.val_key[v][0] == k and tr.val_set_time[v] <= now]
                if not ttls or int(res[0]) > max(ttls):
                    fails.append("op %d: GetTTL reports %s ns, larger than any ttl given for the key (%s)" % (
                        st["n"], res[0], ttls))
        return fails

    def nontrivial(self, case, il):
        return any(o.startswith("tick") for o in case.ops) and any(" true" in l for l in il)

    stress_kinds = ("early", "sweeprace")


PROP = C07()
