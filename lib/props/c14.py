"""C14 — expiry processing reclaims exactly the expired items, each once."""
from ..cacheprop import CacheProp
from .. import cachegen
from .c13 import parse_dump


class C14(CacheProp):
    pid = "C14"
    profiles = ["ttl", "ttl", "shouldttl", "basic", "tinybuf", "collide", "ttl", "shouldttl"]
    rule = ("virtual-time histories with TTL writes placed before a sweep, between the sweep's bucket grab and its per-key "
            "check (re-entrant rewrite from OnEvict: op sweeprw), and after the bucket was swept (insert held at the gate "
            "past its expiry), re-writes with longer/shorter/no TTL and deletes; oracle: a sweep reports only values whose "
            "own expiration has passed, each at most once, and after a sweep no entry remains whose expiry bucket is behind "
            "the sweep; non-trivial = a sweep evicted something"
            " Plus, as search only: the stress harness' sweep phase (no value is evicted by the expiry sweep before its expiration) and the spin-synchronised store-level / sweep-level races (DelExpired or the whole sweep against an overwrite with a later expiration or a Del: exactly one side may win).")

    def gen(self, rng, n, ctx):
        cases = cachegen.gen_cases(rng, n * 3 // 4, ctx, self.profiles)
        pd = ctx.probe_data or {"item_size": 56, "start": cachegen.START_DEFAULT}
        g = cachegen.Gen(rng, pd)
        for j in range(n - len(cases)):
            # two keys in one bucket; the first OnEvict of the sweep rewrites the other one
            bdur = rng.choice([1, 5])
            h1, h2 = cachegen.mix(100 + j), cachegen.mix(200 + j)
            ttl1 = rng.choice([1, 10 ** 9, 2 * 10 ** 9])
            new_ttl = rng.choice([0, 0, 3600 * 10 ** 9, 1, 10 ** 9])
            ops = [["set", h1, 10, 11, 30, ttl1], ["set", h2, 20, 12, 30, ttl1], ["tok"], ["tok"],
                   ["tick", rng.choice([2, 6, 11]) * bdur * 10 ** 9],
                   ["sweeprw", h1, 10, h2, 20, 102, 30, new_ttl], ["tok"],
                   ["get", h1, 10], ["get", h2, 20], ["dump"], ["rem"],
                   ["tick", rng.choice([1, 3, 20]) * bdur * 10 ** 9], ["sweep"], ["dump"], ["get", h1, 10], ["get", h2, 20]]
            if rng.random() < 0.5:
                # late insert: applied after its bucket was swept
                h3 = cachegen.mix(300 + j)
                ops += [["set", h3, 30, 13, 30, 10 ** 9], ["tick", 11 * bdur * 10 ** 9], ["sweep"], ["tok"],
                        ["dump"], ["tick", 3 * bdur * 10 ** 9], ["sweep"], ["dump"], ["rem"],
                        ["tick", 3 * bdur * 10 ** 9], ["sweep"], ["dump"], ["rem"]]
            cases.append(cachegen.Case("rw%d" % j, "cache", g.header(1000, 8, True, True, 0, bdur), ops,
                                       tags=["profile:sweeprw"]))
        return cases

    def oracle(self, case, il):
        fails = []
        tr = cachegen.Trace(case, il)
        bdur = int(case.args[7])
        evicted_by_sweep = {}
        pending = 0
        for st in tr.steps:
            op, now = st["op"], st["now"]
            if op[0] == "set" and st["res"][:1] == ["true"]:
                pending += 1
            if op[0] == "sweeprw":
                v = int(op[5])
                tr.val_key[v] = None
                tr.val_ttl[v] = int(op[7])
                tr.val_set_time[v] = now
                pending += 1
            if op[0] == "tok" and st["res"][:1] == ["idle"]:
                pending = 0
            if op[0] in ("clear", "close") and st["res"][:1] != ["blocked"]:
                pending = 0
            if op[0] in ("sweep", "sweeprw"):
                for t in st["cbs"]:
                    if t.startswith("evict:"):
                        v = int(t.split(":")[3])
                        ttl = tr.val_ttl.get(v)
                        if ttl is None:
                            continue
                        if ttl == 0 or now < tr.val_set_time[v] + ttl:
                            fails.append("op %d: the sweep evicted value %d whose own expiration has not passed (ttl=%d, "
                                         "written at %d, now %d)" % (st["n"], v, ttl, tr.val_set_time[v], now))
                        evicted_by_sweep[v] = evicted_by_sweep.get(v, 0) + 1
                        if evicted_by_sweep[v] > 1:
                            fails.append("op %d: value %d reported twice by expiry processing" % (st["n"], v))
            if op[0] == "dump":
                # every stored entry that carries an expiration is filed in some bucket of the expiry index (else no sweep
                # will ever reach it)
                d0 = parse_dump(st["raw"])
                last0 = int(d0.get("last", ["0"])[0])
                # (only buckets beyond the sweep's frontier count: a bucket at or behind it is never visited again)
                filed = {x.split(":")[1] for x in d0.get("buckets", []) if int(x.split(":")[0]) > last0}
                for x in d0.get("store", []):
                    k, _, v, exp = x.split(":")
                    if int(exp) != 0 and k not in filed:
                        fails.append("op %d: value %s (key %s) carries an expiration but is filed in no bucket of the expiry "
                                     "index beyond the sweep's frontier: it will never be reclaimed" % (st["n"], v, k))
            if op[0] == "dump" and st["n"] > 0 and tr.steps[st["n"] - 1]["op"][0] in ("sweep", "sweeprw"):
                d = parse_dump(st["raw"])
                cur_cleanup = (now // 10 ** 9) // bdur          # cleanupBucket(now) = storageBucket(now) - 1
                last = int(d.get("last", ["0"])[0])
                # keys indexed in a bucket the sweep has not taken yet (an entry applied after its own bucket was swept
                # is indexed in the next bucket to be cleaned: it will be visited by the next sweep that has work)
                indexed = {b.split(":")[1] for b in d.get("buckets", []) if int(b.split(":")[0]) > last}
                for x in d.get("store", []):
                    k, _, v, exp = x.split(":")
                    exp = int(exp)
                    if exp != 0 and (exp // 10 ** 9) // bdur + 1 <= cur_cleanup - 1 and k not in indexed:
                        fails.append("op %d: after the sweep value %s (expired %d ns ago) is still stored: its bucket is "
                                     "behind the sweep and will never be visited" % (st["n"], v, now - exp))
        return fails

    def nontrivial(self, case, il):
        return any(o.startswith("sweep") and "evict:" in l for o, l in zip(case.ops, il))

    stress_kinds = ("early", "sweeprace")


PROP = C14()
