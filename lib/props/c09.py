"""C09 — admission and eviction follow the TinyLFU / sampled-LFU discipline."""
from ..cacheprop import CacheProp
from .. import cachegen, policygen


class C09(CacheProp):
    pid = "C09"
    quick_n = 300
    thorough_n = 6000
    rule = ("white-box defaultPolicy.Add/Update/Del with estimates set and read back: populations <= 5 with distinct "
            "estimates (outcome deterministic: compared exactly with the model incl. victims in order) and populations "
            "up to 30 (outcome fed back to the model, which validates it and continues; accounting compared), plus "
            "gate-controlled cache histories for the OnReject side; non-trivial = an Add evicted or rejected")

    def gen(self, rng, n, ctx):
        return policygen.gen_policy_cases(rng, n * 2 // 3) + \
            cachegen.gen_cases(rng, n // 3, ctx, ["basic", "internal", "collide"])

    def canon(self, case, i, line):
        if case.comp in ("policy", "policybig"):
            return policygen.canon_policy(case, i, line)
        return cachegen.canon(case, i, line)

    def annotate(self, case, impl_lines):
        if case.comp == "policybig":
            return policygen.annotate_policy(case, impl_lines)
        return cachegen.annotate(case, impl_lines)

    def oracle(self, case, il):
        if case.comp == "cache":
            # a value whose item was refused by the policy is reported through OnReject followed by OnExit
            fails = []
            for n, l in enumerate(il):
                toks = l.split()
                for i, t in enumerate(toks):
                    if t.startswith("reject:"):
                        v = t.split(":")[3]
                        if "exit:" + v not in toks[i + 1:]:
                            fails.append("op %d: OnReject of value %s not followed by its OnExit: %s" % (n, v, l))
            return fails
        ref = policygen.PolRef(case, il)
        fails = list(ref.fails)
        for e in ref.events:
            k, c, b, est = e["key"], e["cost"], e["before"], e["est"]
            ek = est.get(k, 0)
            if k not in b and c <= e["max"] and e["used"] + c <= e["max"]:
                if not e["added"] or e["victims"]:
                    fails.append("op %d: new key %d fits (used %d + %d <= %d) but added=%s victims=%s" % (
                        e["n"], k, e["used"], c, e["max"], e["added"], e["victims"]))
            for vk, vc in e["victims"]:
                if vk in b and est.get(vk, 0) > ek:
                    fails.append("op %d: victim %d (estimate %d) is hotter than newcomer %d (estimate %d)" % (
                        e["n"], vk, est.get(vk, 0), k, ek))
                if vk in b and len(b) <= 5 and any(est.get(o, 0) < est.get(vk, 0) for o in b
                                                   if o not in [x for x, _ in e["victims"]]):
                    fails.append("op %d: victim %d is not the least frequent of the %d candidates" % (e["n"], vk, len(b)))
            if not e["added"] and c <= e["max"] and k not in b:
                if not any(est.get(o, 0) > ek for o in b):
                    fails.append("op %d: newcomer %d (estimate %d) rejected although no resident is hotter" % (e["n"], k, ek))
            if e["added"] and (c > e["max"] or k in b):
                fails.append("op %d: key %d admitted although %s" % (e["n"], k, "too big" if c > e["max"] else "already accounted"))
        return fails

    def nontrivial(self, case, il):
        if case.comp == "cache":
            return any("reject:" in l or "evict:" in l for l in il)
        return any(l.startswith("false") or (l.startswith("true") and not l.endswith("-")) for l in il)

    def stats(self, cases, impl):
        st = {"policy_small": 0, "policy_big": 0, "cache": 0, "adds": 0, "fit": 0, "evicting": 0, "rejected": 0}
        for c in cases:
            st["policy_small" if c.comp == "policy" else "policy_big" if c.comp == "policybig" else "cache"] += 1
            if c.comp == "cache":
                continue
            for o, l in zip(c.ops, impl.get(c.id, [])):
                if o.startswith("add"):
                    st["adds"] += 1
                    if l.startswith("true -"):
                        st["fit"] += 1
                    elif l.startswith("true"):
                        st["evicting"] += 1
                    else:
                        st["rejected"] += 1
        return st


PROP = C09()
