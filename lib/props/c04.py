"""C04 — every accepted value leaves through OnExit exactly once."""
from ..cacheprop import CacheProp
from .. import cachegen


class C04(CacheProp):
    pid = "C04"
    profiles = ["basic", "tinybuf", "ttl", "should", "internal", "basic", "roomy"]
    rule = ("gate-controlled histories with unique value ids, buffer sizes 1..64 (drops), capacities forcing admission / "
            "rejection / eviction, TTL expiry, ShouldUpdate refusals, Clear (also with buffered items) and Close; the "
            "callbacks of every step compared with the machine; oracle per value: OnExit at most once and exactly once by "
            "the time Close returns for accepted values, never for refused ones, OnEvict/OnReject at most once and "
            "followed by OnExit in the same step; non-trivial = an eviction, rejection or blocked call occurred"
            " Plus, as search only: the concurrent stress harness with the oracles 'no value is passed to OnExit twice' and 'every value whose Set returned true has been passed to OnExit when Close returns'.")

    def oracle(self, case, il):
        fails = []
        tr = cachegen.Trace(case, il)
        exits, evs = {}, {}
        close_done_at = None
        pending_close = None
        overlapped = None
        for st in tr.steps:
            cbs = st["cbs"]
            for i, t in enumerate(cbs):
                kind = t.split(":")[0]
                if kind == "exit":
                    v = int(t[5:])
                    exits[v] = exits.get(v, 0) + 1
                    if exits[v] > 1:
                        fails.append("op %d: OnExit(%d) delivered a second time" % (st["n"], v))
                elif kind in ("evict", "reject"):
                    v = int(t.split(":")[3])
                    evs[v] = evs.get(v, 0) + 1
                    if evs[v] > 1:
                        fails.append("op %d: On%s(%d) delivered a second time" % (st["n"], kind.capitalize(), v))
                    if "exit:%d" % v not in cbs[i + 1:]:
                        fails.append("op %d: On%s(%d) not followed by OnExit(%d)" % (st["n"], kind.capitalize(), v, v))
            if st["op"][0] == "closeset" and ("rwset:%s:true" % st["op"][3]) in st["raw"].split():
                overlapped = int(st["op"][3])
            if st["op"][0] in ("close", "closeset"):
                if st["res"][:1] == ["blocked"]:
                    pending_close = str(st["n"])
                elif close_done_at is None:
                    close_done_at = st["n"]
            if pending_close and pending_close in st["done"] and close_done_at is None:
                close_done_at = st["n"]
        for v, ok in tr.accepted.items():
            if not ok and (exits.get(v) or evs.get(v)):
                fails.append("value %d: its Set returned false but it was passed to a callback" % v)
        if overlapped is not None and close_done_at is not None and not exits.get(overlapped):
            fails.append("value %d: its Set overlapped Close and returned true, but it was never released" % overlapped)
        if close_done_at is not None and "profile:collide" not in case.tags:
            # values accepted before Close was called must have exited by the time it returned
            close_call = next(st["n"] for st in tr.steps if st["op"][0] in ("close", "closeset"))
            seen_by_close = {}
            for st in tr.steps[:close_done_at + 1]:
                for t in st["cbs"]:
                    if t.startswith("exit:"):
                        seen_by_close[int(t[5:])] = True
            for st in tr.steps[:close_call]:
                if st["op"][0] == "set" and st["res"][:1] == ["true"]:
                    v = int(st["op"][3])
                    if v not in seen_by_close:
                        fails.append("value %d was accepted (op %d) but not released by the time Close returned (op %d)" % (
                            v, st["n"], close_done_at))
        return fails

    stress_kinds = ("dupexit", "lost")


PROP = C04()
