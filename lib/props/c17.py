"""C17 — metrics obey conservation laws."""
from ..cacheprop import CacheProp
from ..core import Case
from .. import cachegen
from .c13 import parse_dump

M64 = 1 << 64


def ring_cases(rng, n):
    """ring.go + defaultPolicy.Push / processItems (component `ring`): pushes on chosen stripes and through the real
    sync.Pool, receipts by the (harness-driven) policy goroutine, dropped stripes, Close; small BufferItems so that the
    3-slot channel fills up and batches are dropped"""
    cases = []
    for j in range(n):
        capa = rng.choice([1, 2, 2, 3, 4, 5, 8, 16, 64])
        nc = rng.choice([8, 16, 64, 128, 1000])
        seeds = [rng.getrandbits(64) for _ in range(4)]
        keys = [cachegen.mix(7000 + rng.randrange(40)) for _ in range(rng.choice([1, 3, 6]))]
        nstripes = rng.choice([1, 2, 3])
        ops = ["door"]
        mode = rng.choice(["stripes", "pool", "mixed"])
        p_recv = rng.choice([0.02, 0.1, 0.3])
        nops = rng.randrange(10, 60) * min(capa, 8)
        closed = False
        for _ in range(nops):
            r = rng.random()
            if r < p_recv:
                ops.append("recv")
            elif r < p_recv + 0.03:
                ops.append("gc %d" % rng.randrange(nstripes + 1))
            elif r < p_recv + 0.10 and not closed:
                ops.append("est %d" % rng.choice(keys))
            elif r < p_recv + 0.11 and rng.random() < 0.3:
                ops.append("close")
                closed = True
            elif mode == "pool" or (mode == "mixed" and rng.random() < 0.5):
                ops.append("bpush %d" % rng.choice(keys))
            else:
                ops.append("push %d %d" % (rng.randrange(nstripes + 1), rng.choice(keys)))
        if not closed:
            ops += ["recv"] * 4 + ["est %d" % k for k in keys]
        cases.append(Case("rg%d" % j, "ring", [capa, nc] + seeds, ops, tags=["profile:ring"]))
    return cases


def mstripes_cases(rng, n):
    """Metrics.add / get / Clear on the real striped counters: hashes in every residue class mod 25, deltas that wrap"""
    cases = []
    big = [(1 << 64) - 1, (1 << 63), (1 << 64) - 5, 1 << 62]
    for j in range(n):
        ops = []
        for _ in range(rng.randrange(10, 80)):
            r = rng.random()
            t = rng.randrange(11)
            if r < 0.85:
                h = rng.choice([rng.getrandbits(64), rng.randrange(60), (1 << 64) - 1 - rng.randrange(30), 24, 49])
                d = rng.choice([1, 1, rng.randrange(1000), rng.choice(big)])
                ops.append("add %d %d %d" % (t, h, d))
            elif r < 0.95:
                ops.append("get %d" % t)
            else:
                ops.append("clear")
                ops.append("get %d" % t)
        ops += ["get %d" % t for t in range(11)]
        cases.append(Case("ms%d" % j, "mstripes", [], ops, tags=["profile:mstripes"]))
    return cases


class C17(CacheProp):
    pid = "C17"
    profiles = ["basic", "internal", "tinybuf", "ttl", "roomy", "should", "basic"]
    rule = ("gate-controlled histories with metrics enabled: evictions, overwrites that raise or lower cost, expiries, "
            "rejections, buffer-full drops and Clear; all counters compared with the machine after every step; oracle at "
            "drained points: Hits+Misses = Gets since Clear, KeysAdded-KeysEvicted = |keyCosts|, CostAdded-CostEvicted = "
            "MaxCost-RemainingCost (mod 2^64), SetsDropped = refused new-key Sets, GetsKept+GetsDropped <= Gets; "
            "non-trivial = an eviction, rejection or blocked call occurred")

    def gen(self, rng, n, ctx):
        cases = cachegen.gen_cases(rng, n, ctx, self.profiles)
        for c in cases:
            c.args[3] = "1"        # metrics on
        return cases + ring_cases(rng, max(6, n // 8)) + mstripes_cases(rng, max(4, n // 25))

    def annotate(self, case, impl_lines):
        if case.comp == "mstripes":
            return case
        if case.comp != "ring":
            return super().annotate(case, impl_lines)
        # the doorkeeper's size / locs (float arithmetic in the code) and cap(itemsCh) as the implementation reports
        # them, and the stripe sync.Pool handed out for every bpush, are inputs of the model
        args = list(case.args)
        ops = []
        for o, l in zip(case.ops, impl_lines):
            fs = l.split()
            if o == "door" and len(fs) == 3 and all(x.isdigit() for x in fs):
                args = args[:6] + fs
            if o.startswith("bpush"):
                o = o + " " + (fs[0][1:] if fs and fs[0][:1] == "s" and fs[0][1:].isdigit() else "0")
            ops.append(o)
        ops += [o + " 0" if o.startswith("bpush") else o for o in case.ops[len(ops):]]
        return Case(case.id, case.comp, args, ops, case.tags)

    def canon(self, case, i, line):
        if case.comp == "ring":
            # which backing array a stripe continues on is C08's business (ownership), not a statement about the counters
            return " ".join(t for t in line.split() if not t.startswith("arr="))
        return line if case.comp == "mstripes" else super().canon(case, i, line)

    def nontrivial(self, case, il):
        if case.comp == "mstripes":
            return True
        if case.comp == "ring":
            return any(l.startswith("batch") or "drain dropped" in l for l in il)
        return super().nontrivial(case, il)

    def ring_oracle(self, case, il):
        """independent of the model: GetsKept+GetsDropped <= pushes, each counter moves only by the size of a drained
        batch, a batch has exactly BufferItems keys, every key the policy receives was pushed (as multisets), the
        channel never exceeds its capacity"""
        fails = []
        capa = max(int(case.args[0]), 1)
        pushed = {}
        npush = 0
        got = {}
        kprev = dprev = 0
        chcap = None
        for n, (o, l) in enumerate(zip(case.ops, il)):
            f, r = o.split(), l.split()
            if f[0] == "door" and len(r) == 3 and r[2].isdigit():
                chcap = int(r[2])
            if f[0] in ("push", "bpush"):
                item = int(f[2] if f[0] == "push" else f[1])
                pushed[item] = pushed.get(item, 0) + 1
                npush += 1
                kv = {t[:2]: t[2:] for t in r if t[:2] in ("k=", "d=") or t[:3] == "ch="}
                ch = [t[3:] for t in r if t.startswith("ch=")]
                if "k=" not in kv or "d=" not in kv or not ch:
                    fails.append("op %d `%s`: %s" % (n, o, l))
                    continue
                k, d = int(kv["k="]), int(kv["d="])
                if k + d > npush:
                    fails.append("op %d `%s`: GetsKept+GetsDropped=%d exceeds the %d Gets recorded" % (n, o, k + d, npush))
                if (k - kprev, d - dprev) not in ((0, 0), (capa, 0), (0, capa)):
                    fails.append("op %d `%s`: GetsKept/GetsDropped moved by (%d,%d), a batch has %d keys" % (
                        n, o, k - kprev, d - dprev, capa))
                kprev, dprev = k, d
                # C08 (ownership): a batch the policy accepted is read by the policy goroutine without any lock on the stripe,
                # so the stripe must continue on another backing array; before that it must not move (append within capacity)
                if "arr=handed" in r:
                    fails.append("op %d `%s`: the stripe continues on a backing array it handed to the policy earlier: the "
                                 "policy goroutine reads what Gets write" % (n, o))
                if "kept" in r and "arr=same" in r:
                    fails.append("op %d `%s`: the batch was handed to the policy but the stripe keeps appending to the same "
                                 "backing array: the policy goroutine reads what Gets write" % (n, o))
                if chcap is not None and ch[0].isdigit() and int(ch[0]) > chcap:
                    fails.append("op %d `%s`: %s batches queued, channel capacity %d" % (n, o, ch[0], chcap))
            if f[0] == "recv" and r[:1] == ["batch"]:
                if len(r) - 1 != capa:
                    fails.append("op %d: the policy received a batch of %d keys, BufferItems=%d" % (n, len(r) - 1, capa))
                for t in r[1:]:
                    got[int(t)] = got.get(int(t), 0) + 1
                    if got[int(t)] > pushed.get(int(t), 0):
                        fails.append("op %d: key %s reached the admission sketch %d times but was read %d times" % (
                            n, t, got[int(t)], pushed.get(int(t), 0)))
        return fails

    def mstripes_oracle(self, case, il):
        """independent of the model: a counter reads the sum of the deltas added since the last Clear, modulo 2^64,
        whatever the hashes; 256 slots; no panic"""
        fails = []
        tot = [0] * 11
        for n, (o, l) in enumerate(zip(case.ops, il)):
            f, r = o.split(), l.split()
            if f[0] == "clear":
                tot = [0] * 11
                continue
            t = int(f[1])
            if f[0] == "add":
                tot[t] = (tot[t] + int(f[3])) % M64
            if len(r) < 2 or not r[0].isdigit():
                fails.append("op %d `%s`: %s" % (n, o, l))
            elif int(r[0]) != tot[t]:
                fails.append("op %d `%s`: the counter reads %s, the deltas added since the last Clear sum to %d (mod 2^64)" % (
                    n, o, r[0], tot[t]))
        return fails

    def oracle(self, case, il):
        if case.comp == "mstripes":
            return self.mstripes_oracle(case, il)
        if case.comp == "ring":
            return [f for f in self.ring_oracle(case, il) if "backing array" not in f]
        fails = []
        tr = cachegen.Trace(case, il)
        gets = drops = 0
        total_gets = 0
        pending = 0
        closed = False
        max_cost = int(case.args[0])
        last_dump = None
        last_rem = None
        for st in tr.steps:
            op, res = st["op"], st["res"]
            if op[0] == "close":
                closed = True
            if closed:
                continue
            if op[0] == "get":
                gets += 1
                total_gets += 1
            if op[0] == "set":
                if res[:1] == ["true"]:
                    pending += 1
                elif int(op[5]) >= 0:
                    drops += 1
            if op[0] == "tok" and res[:1] == ["idle"]:
                pending = 0
            if op[0] == "clear":
                # counters are reset when Clear completes
                if res[:1] != ["blocked"]:
                    gets = drops = 0
                    pending = 0
                else:
                    pending = -1000000
            if any(d for d in st["done"]) and pending < 0:
                gets = drops = 0
                pending = 0
            if op[0] == "updmax":
                max_cost = int(op[1])
            if op[0] == "dump":
                last_dump = (st["n"], parse_dump(st["raw"]))
            if op[0] == "rem" and res[:1] and res[0].lstrip("-").isdigit():
                last_rem = (st["n"], int(res[0]))
            if op[0] == "metrics" and res[:1] != ["nil"] and len(res) >= 9:
                hits, misses, kadd, kupd, kev, cadd, cev, sdrop, srej = map(int, res[:9])
                gk = gd = 0
                for t in st["raw"].split():
                    if t.startswith("gk:"):
                        gk = int(t[3:])
                    if t.startswith("gd:"):
                        gd = int(t[3:])
                if (hits + misses) % M64 != gets % M64:
                    fails.append("op %d: Hits+Misses=%d but %d Gets since creation/Clear" % (st["n"], hits + misses, gets))
                if sdrop != drops:
                    fails.append("op %d: SetsDropped=%d but %d new-key Sets were refused" % (st["n"], sdrop, drops))
                if gk + gd > total_gets:
                    fails.append("op %d: GetsKept+GetsDropped=%d exceeds %d Gets" % (st["n"], gk + gd, total_gets))
                if pending == 0 and last_dump and last_dump[0] in (st["n"] - 1, st["n"] - 2):
                    d = last_dump[1]
                    nkeys = len(d.get("costs", []))
                    used = sum(int(x.split(":")[1]) for x in d.get("costs", []))
                    if (kadd - kev) % M64 != nkeys:
                        fails.append("op %d: KeysAdded-KeysEvicted=%d but %d keys are accounted" % (st["n"], (kadd - kev) % M64, nkeys))
                    nstore = len(d.get("store", []))
                    if "profile:collide" not in case.tags and (kadd - kev) % M64 != nstore:
                        fails.append("op %d: KeysAdded-KeysEvicted=%d but %d keys are resident in the map" % (st["n"], (kadd - kev) % M64, nstore))
                    if (cadd - cev) % M64 != used % M64:
                        fails.append("op %d: CostAdded-CostEvicted=%d but used=%d" % (st["n"], (cadd - cev) % M64, used))
                    if last_rem and last_rem[0] in (st["n"] - 1, st["n"] - 2, st["n"] - 3) and \
                            (cadd - cev) % M64 != (max_cost - last_rem[1]) % M64:
                        fails.append("op %d: CostAdded-CostEvicted=%d but MaxCost-RemainingCost()=%d-(%d)" % (
                            st["n"], (cadd - cev) % M64, max_cost, last_rem[1]))
        return fails

    stress_kinds = ("getscount",)


PROP = C17()
