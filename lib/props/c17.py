"""C17 — metrics obey conservation laws."""
from ..cacheprop import CacheProp
from .. import cachegen
from .c13 import parse_dump

M64 = 1 << 64


class C17(CacheProp):
    pid = "C17"
    profiles = ["basic", "internal", "tinybuf", "ttl", "roomy", "should", "basic"]
    rule = ("gate-controlled histories with metrics enabled: evictions, overwrites that raise or lower cost, expiries, "
            "rejections, buffer-full drops and Clear; all counters compared with the machine after every step; oracle at "
            "drained points: Hits+Misses = Gets since Clear, KeysAdded-KeysEvicted = |keyCosts|, CostAdded-CostEvicted = "
            "MaxCost-RemainingCost (mod 2^64), SetsDropped = refused new-key Sets, GetsKept+GetsDropped <= Gets; "
            "non-trivial = an eviction, rejection or blocked call occurred")

    def gen(self, rng, n, ctx):
        cases = cachegen.gen_cases(rng, n, ctx, self.profiles)
        for c in cases:
            c.args[3] = "1"        # metrics on
        return cases

    def oracle(self, case, il):
        fails = []
        tr = cachegen.Trace(case, il)
        gets = drops = 0
        total_gets = 0
        pending = 0
        closed = False
        max_cost = int(case.args[0])
        last_dump = None
        last_rem = None
        for st in tr.steps:
            op, res = st["op"], st["res"]
            if op[0] == "close":
                closed = True
            if closed:
                continue
            if op[0] == "get":
                gets += 1
                total_gets += 1
            if op[0] == "set":
                if res[:1] == ["true"]:
                    pending += 1
                elif int(op[5]) >= 0:
                    drops += 1
            if op[0] == "tok" and res[:1] == ["idle"]:
                pending = 0
            if op[0] == "clear":
                # counters are reset when Clear completes
                if res[:1] != ["blocked"]:
                    gets = drops = 0
                    pending = 0
                else:
                    pending = -1000000
            if any(d for d in st["done"]) and pending < 0:
                gets = drops = 0
                pending = 0
            if op[0] == "updmax":
                max_cost = int(op[1])
            if op[0] == "dump":
                last_dump = (st["n"], parse_dump(st["raw"]))
            if op[0] == "rem" and res[:1] and res[0].lstrip("-").isdigit():
                last_rem = (st["n"], int(res[0]))
            if op[0] == "metrics" and res[:1] != ["nil"] and len(res) >= 9:
                hits, misses, kadd, kupd, kev, cadd, cev, sdrop, srej = map(int, res[:9])
                gk = gd = 0
                for t in st["raw"].split():
                    if t.startswith("gk:"):
                        gk = int(t[3:])
                    if t.startswith("gd:"):
                        gd = int(t[3:])
                if (hits + misses) % M64 != gets % M64:
                    fails.append("op %d: Hits+Misses=%d but %d Gets since creation/Clear" % (st["n"], hits + misses, gets))
                if sdrop != drops:
                    fails.append("op %d: SetsDropped=%d but %d new-key Sets were refused" % (st["n"], sdrop, drops))
                if gk + gd > total_gets:
                    fails.append("op %d: GetsKept+GetsDropped=%d exceeds %d Gets" % (st["n"], gk + gd, total_gets))
                if pending == 0 and last_dump and last_dump[0] in (st["n"] - 1, st["n"] - 2):
                    d = last_dump[1]
                    nkeys = len(d.get("costs", []))
                    used = sum(int(x.split(":")[1]) for x in d.get("costs", []))
                    if (kadd - kev) % M64 != nkeys:
                        fails.append("op %d: KeysAdded-KeysEvicted=%d but %d keys are accounted" % (st["n"], (kadd - kev) % M64, nkeys))
                    nstore = len(d.get("store", []))
                    if "profile:collide" not in case.tags and (kadd - kev) % M64 != nstore:
                        fails.append("op %d: KeysAdded-KeysEvicted=%d but %d keys are resident in the map" % (st["n"], (kadd - kev) % M64, nstore))
                    if (cadd - cev) % M64 != used % M64:
                        fails.append("op %d: CostAdded-CostEvicted=%d but used=%d" % (st["n"], (cadd - cev) % M64, used))
                    if last_rem and last_rem[0] in (st["n"] - 1, st["n"] - 2, st["n"] - 3) and \
                            (cadd - cev) % M64 != (max_cost - last_rem[1]) % M64:
                        fails.append("op %d: CostAdded-CostEvicted=%d but MaxCost-RemainingCost()=%d-(%d)" % (
                            st["n"], (cadd - cev) % M64, max_cost, last_rem[1]))
        return fails

    stress_kinds = ("getscount",)


PROP = C17()
