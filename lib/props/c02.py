"""C02 — a value the cache has let go of is never served again."""
from ..cacheprop import CacheProp
from .. import cachegen


class C02(CacheProp):
    pid = "C02"
    profiles = ["basic", "tinybuf", "ttl", "should", "basic", "collide", "internal"]
    rule = ("gate-controlled histories with unique value ids: overwrite while an earlier write is still buffered, delete "
            "and re-insert, eviction vs overwrite of the same key, sweep vs rewrite (op sweeprw), Clear; every Get result "
            "compared with the machine; oracle: no Get returns a value after its OnExit; non-trivial = an eviction, "
            "rejection or blocked call occurred"
            " Plus, as search only: the concurrent stress harness with the oracle 'a Get never returns a value whose OnExit finished before the Get started'.")

    def oracle(self, case, il):
        fails = []
        tr = cachegen.Trace(case, il)
        exited = {}
        for st in tr.steps:
            if st["op"][0] == "get" and st["res"][1:2] == ["true"]:
                v = int(st["res"][0])
                if v in exited:
                    fails.append("op %d: Get returned value %d which was passed to OnExit at op %d" % (st["n"], v, exited[v]))
            for t in st["cbs"]:
                if t.startswith("exit:"):
                    exited.setdefault(int(t[5:]), st["n"])
        return fails

    stress_kinds = ("stale",)


PROP = C02()
