"""C06 — with room to spare the cache is a faithful map; Wait makes writes visible."""
from ..cacheprop import CacheProp
from .. import cachegen


class C06(CacheProp):
    pid = "C06"
    profiles = ["roomy", "roomy", "roomyshould", "basic", "roomy", "ttl", "roomy", "tinybuf", "roomyshould"]
    rule = ("gate-controlled single-client histories; in the 'roomy' profile (20 keys, cost <= 200 (+56), MaxCost 10^6: the "
            "total cost of the key set fits) every result is additionally checked against a reference map with an "
            "explicit FIFO of pending writes: a Set that returned true for a key neither resident nor pending must be "
            "returned by Get after a completed Wait and until it is overwritten, deleted, cleared or its TTL elapses; "
            "an overwrite of a resident key must be returned by the very next Get; applier lag = any number of gate "
            "tokens between any two calls (Wait blocks until the tokens arrive); Set/Wait/Get/overwrite/tick patterns "
            "are injected; all profiles are compared with the machine; non-trivial = at least one reference claim was "
            "checked")

    # search only: the store-level race of the sweep's per-key step against an overwrite (an acknowledged write must survive)
    stress_kinds = ("sweeprace",)

    def gen(self, rng, n, ctx):
        cases = cachegen.gen_cases(rng, n, ctx, self.profiles)
        for c in cases:
            if not any(t.startswith("profile:roomy") for t in c.tags):
                continue
            ops = list(c.ops)
            if "close" in ops:
                ops = ops[:ops.index("close")]     # calls overlapping Close are outside C06 (see C04/C15)
            sets = [o.split() for o in ops if o.startswith("set ")]
            if not sets:
                continue
            vmax = max(int(s[3]) for s in sets)
            cand = [i for i in range(1, len(ops) + 1) if not ops[i - 1].startswith("est") and "close" not in ops[:i]]
            if not cand:
                continue
            pos = rng.choice(cand)
            pat = []
            for _ in range(rng.randrange(1, 4)):
                s = rng.choice(sets)
                k, cf = s[1], s[2]
                vmax += 1
                ttl = rng.choice([0, 0, 5 * 10 ** 9, 60 * 10 ** 9])
                pat.append("set %s %s %d %s %d" % (k, cf, vmax, s[4], ttl))
                pat += ["tok"] * rng.randrange(0, 2)
                if rng.random() < 0.4:
                    o = rng.choice(sets)
                    vmax += 1
                    pat.append("set %s %s %d %s 0" % (o[1], o[2], vmax, o[4]))
                pat.append("wait")
                pat += ["tok"] * rng.randrange(0, 5)
                pat.append("get %s %s" % (k, cf))
                pat += ["tok"] * 4
                pat.append("get %s %s" % (k, cf))
                if rng.random() < 0.6:
                    vmax += 1
                    pat += ["set %s %s %d %s 0" % (k, cf, vmax, s[4]), "get %s %s" % (k, cf)]
                if rng.random() < 0.4:
                    pat += ["tick %d" % rng.choice([10 ** 9, 4 * 10 ** 9, 6 * 10 ** 9]), "get %s %s" % (k, cf)]
                if rng.random() < 0.3:
                    pat += ["sweep", "get %s %s" % (k, cf)]
            # leave no gated item pending behind the pattern: the generator's own scripts count their tokens
            pat += ["tok"] * min(60, 2 + sum(1 for o in ops[:pos] + pat if o.startswith("set ")))
            c.ops = ops[:pos] + pat + ops[pos:]
        # a Del of ANOTHER key that shares the primary hash (different, non-zero conflict hash) must leave the entry
        # retrievable: it was not overwritten, deleted, cleared, and has no TTL
        pd = ctx.probe_data or {"item_size": 56, "start": cachegen.START_DEFAULT}
        g = cachegen.Gen(rng, pd)
        for j in range(max(2, n // 40)):
            h = cachegen.mix(950 + j)
            h2 = cachegen.mix(990 + j)
            lag = rng.randrange(0, 3)
            ops = [["set", h, 10, 11, 30, 0], ["set", h2, 20, 12, 30, 0]] + [["tok"]] * (2 - min(lag, 2)) + \
                  ([["wait"], ["get", h, 10]] if lag == 0 else []) + \
                  [["del", h, 11], ["get", h, 10]] + [["tok"]] * 4 + [["wait"], ["get", h, 10], ["get", h2, 20], ["dump"],
                   ["del", h2, 21], ["tok"], ["wait"], ["get", h2, 20], ["get", h, 10]]
            cases.append(cachegen.Case("cd%d" % j, "cache", g.header(10 ** 6, 8, True, True, 0, 5), ops,
                                       tags=["profile:colldel"]))
        # an item that fits EXACTLY (its accounted cost equals what is left, here the whole of an empty cache) is admitted
        for j in range(2):
            h = cachegen.mix(1700 + j)
            ignore = j == 0
            cost = 1000 if ignore else 1000 - pd["item_size"]
            ops = [["set", h, 10, 11, cost, 0, "x"], ["wait"], ["get", h, 10], ["rem"], ["dump"], ["del", h, 10], ["wait"],
                   ["set", h, 10, 12, cost, 0], ["tok"], ["wait"], ["get", h, 10]]
            cases.append(cachegen.Case("xf%d" % j, "cache", g.header(1000, 8, ignore, True, 0, 5), ops, tags=["profile:colldel"]))
        return cases

    def _walk(self, case, il):
        """reference map with an explicit FIFO of pending writes; -> (failures, number of claims checked)"""
        fails, claims = [], 0
        if "profile:colldel" in case.tags:
            # after the last Wait both values (never deleted under their own key) are served
            tr = cachegen.Trace(case, il)
            want = {}
            waited = False
            for s in tr.steps:
                op, res = s["op"], s["res"]
                if op[0] == "set" and res[:1] == ["true"]:
                    want[(op[1], op[2])] = op[3]
                if op[0] == "wait" and res[:1] == ["ok"]:
                    waited = True
                if op[0] == "get" and waited and (op[1], op[2]) in want:
                    claims += 1
                    if res != [want[(op[1], op[2])], "true"]:
                        fails.append("op %d: Get(%s,%s) returned %s although the key was Set (value %s, it fits), writes are drained and "
                                     "the key itself was not deleted since (at most a different key with the same primary hash was)" % (
                                         s["n"], op[1], op[2], " ".join(res), want[(op[1], op[2])]))
            return fails, claims
        if not any(t.startswith("profile:roomy") for t in case.tags) and not any(t.startswith("corpus:") for t in case.tags):
            return fails, claims
        mode = case.args[4]                # Config.ShouldUpdate: "0" none, "1" only a larger value id, "2" never
        if int(case.args[0]) < 10 ** 5:
            return fails, claims
        tr = cachegen.Trace(case, il)
        ref = {}         # hash -> (value, exp)
        dirty = set()    # hashes about which the property says nothing any more
        fifo = []        # (op index, kind, hash, value, exp)
        waits = {}       # blocked wait op id -> its position (op index)
        closed = False
        clearing = set() # op ids of Clear calls that have not returned yet
        during = set()   # hashes written while a Clear was in progress

        def drain(upto):
            nonlocal fifo
            rest = []
            for (n, kind, h, v, exp) in fifo:
                if n < upto:
                    if kind == "new" and h not in dirty:
                        ref[h] = (v, exp)
                    elif kind == "del":
                        ref.pop(h, None)
                        if not any(f[2] == h and f[0] > n for f in fifo):
                            dirty.discard(h)     # nothing about the key is pending behind this tombstone
                    elif kind == "unk":
                        dirty.add(h); ref.pop(h, None)
                else:
                    rest.append((n, kind, h, v, exp))
            fifo = rest
        for s in tr.steps:
            op, res, n, now = s["op"], s["res"], s["n"], s["now"]
            if closed:
                continue
            for d in s["done"]:
                if d in clearing:
                    clearing.discard(d)
                    ref.clear(); fifo = []; waits.clear(); dirty = set(during)
                    if not clearing:
                        during = set()
            if op[0] in ("clear", "close", "closeset", "sweeprw"):
                if op[0] == "clear" and res[:1] == ["blocked"]:
                    clearing.add(str(n))        # Clear is not atomic: it wipes whatever is written until it returns
                    continue
                ref.clear(); dirty.clear(); fifo = []; waits.clear()
                closed = op[0] in ("close", "closeset")
                if op[0] == "sweeprw":
                    dirty.update([op[1], op[3]])
                continue
            if clearing and op[0] in ("set", "del"):
                during.add(op[1])
            if op[0] == "set":
                h, v, ttl = op[1], int(op[3]), int(op[5])
                exp = 0 if ttl == 0 else now + ttl
                if res[:1] == ["true"]:
                    if h in dirty:
                        fifo.append((n, "unk", h, v, exp))   # outcome unknown, but it is pending behind what is queued
                    elif h in ref and (ref[h][1] == 0 or now < ref[h][1]) and not any(f[2] == h for f in fifo):
                        if not (mode == "2" or (mode == "1" and v <= ref[h][0])):
                            ref[h] = (v, exp)            # overwrite of a resident key: visible at once
                        # refused by ShouldUpdate: the resident value stays (the refused one is turned away later)
                    elif h in ref and now > ref[h][1] and mode == "0" and not any(f[2] == h for f in fifo):
                        # (no ShouldUpdate configured: a configured one is also consulted against a dead, unswept entry and may
                        # refuse) its TTL has elapsed (swept or not): to Get it is not resident, and nothing is pending - whether the
                        # code overwrites the dead entry in place or inserts anew, the value must be there after Wait
                        ref.pop(h)
                        fifo.append((n, "new", h, v, exp))
                    elif h in ref or any(f[2] == h for f in fifo):
                        dirty.add(h); ref.pop(h, None)   # something about the key is pending: the property does not apply
                        fifo.append((n, "unk", h, v, exp))
                    else:
                        fifo.append((n, "new", h, v, exp))
                elif res[:1] == ["false"] and ttl >= 0:
                    dirty.add(h); ref.pop(h, None)       # dropped: whether Update hit the map is not observable
            elif op[0] == "del":
                ref.pop(op[1], None)
                fifo.append((n, "del", op[1], 0, 0))
            elif op[0] == "wait":
                if res[:1] == ["blocked"]:
                    waits[str(n)] = n
                else:
                    drain(n)
            for d in s["done"]:
                if d in waits:
                    drain(waits.pop(d))
            if (op[0] == "get" and op[1] in ref and op[1] not in dirty and op[1] not in during
                    and not any(f[2] == op[1] for f in fifo)):     # nothing about the key is still pending
                v, exp = ref[op[1]]
                if exp == 0 or now < exp:
                    claims += 1
                    if res != [str(v), "true"]:
                        fails.append("op %d: Get(%s) returned %s; the reference map (room to spare, writes drained by Wait) "
                                     "holds value %d" % (n, op[1], " ".join(res), v))
        return fails, claims

    def oracle(self, case, il):
        return self._walk(case, il)[0]

    def nontrivial(self, case, il):
        return self._walk(case, il)[1] > 0


PROP = C06()
