"""C13 — the map, the capacity accounting and IterValues agree on what is resident (at quiescent points)."""
from ..cacheprop import CacheProp
from .. import cachegen


def parse_dump(l):
    d = {}
    for part in l.split():
        if "=" in part:
            k, v = part.split("=", 1)
            d[k] = [] if v == "-" else v.split(",")
    return d


class C13(CacheProp):
    pid = "C13"
    rule = ("gate-controlled single-client histories (profiles basic/roomy/tinybuf/should/ttl/internal/collide) with "
            "evictions, rejections, expiries, drops and Clear; at every drained point the white-box dumps of the shard "
            "maps, policy.keyCosts and the expiry buckets plus IterValues/RemainingCost are compared with the model and "
            "with each other; non-trivial = an eviction, rejection or blocked call occurred"
            " Plus, as search only: the store-level race harness (the sweep against an overwrite, spin-synchronised), after "
            "which the map and the accounting must hold the key together or not at all.")
    stress_kinds = ("sweeprace",)

    def gen(self, rng, n, ctx):
        cases = cachegen.gen_cases(rng, n - n // 12, ctx, self.profiles)
        pd = ctx.probe_data or {"item_size": 56, "start": cachegen.START_DEFAULT}
        g = cachegen.Gen(rng, pd)
        for j in range(n // 12):
            # a TTL key re-written (later / no TTL) while the sweep holds its old bucket, and an insert applied after its
            # bucket was swept and then re-written: the sweep meets entries that are not expired - the accounting must
            # still charge for them afterwards
            bdur = rng.choice([1, 5])
            h1, h2, h3 = cachegen.mix(700 + 3 * j), cachegen.mix(701 + 3 * j), cachegen.mix(702 + 3 * j)
            ttl1 = rng.choice([1, 10 ** 9, bdur * 10 ** 9])
            new_ttl = rng.choice([0, 3600 * 10 ** 9])
            ops = [["set", h1, 10, 11, 30, ttl1], ["set", h2, 20, 12, 30, ttl1], ["tok"], ["tok"], ["dump"],
                   ["tick", rng.choice([2, 6, 11]) * bdur * 10 ** 9],
                   ["sweeprw", h1, 10, h2, 20, 102, 30, new_ttl], ["tok"], ["tok"], ["dump"], ["rem"], ["iter"]]
            if rng.random() < 0.6:
                ops += [["set", h3, 30, 13, 30, 10 ** 9], ["tick", 11 * bdur * 10 ** 9], ["sweep"], ["tok"], ["dump"],
                        ["set", h3, 30, 14, 30, 3600 * 10 ** 9], ["tok"], ["dump"],
                        ["tick", 3 * bdur * 10 ** 9], ["sweep"], ["tok"], ["dump"], ["rem"], ["iter"]]
            cases.append(cachegen.Case("rw%d" % j, "cache", g.header(1000, 8, True, True, 0, bdur), ops,
                                       tags=["profile:sweeprw"]))
        # a Set of a new key issued from inside Clear (from the first OnExit it delivers): it waits in the write buffer until
        # Clear has restarted the applier, and is then applied to the emptied cache - map and accounting agree afterwards
        low = [h for h in (cachegen.mix(i) for i in range(1400, 1700)) if h % 256 < 40]
        high = [h for h in (cachegen.mix(i) for i in range(1400, 1700)) if h % 256 > 215]
        for j in range(max(2, n // 40)):
            # (the shards are emptied in index order: the residents sit in low shards, the new key in a high one, so that an
            # applier that is wrongly running during Clear would have inserted it before its shard is emptied)
            hs = rng.sample(low, 3) + [rng.choice(high)]
            ungated = ["x"] if j % 2 == 0 else []
            ops = [["set", hs[i], 10 + i, 11 + i, 30, 0] for i in range(3)] + [["tok"]] * 4 + [["wait"], ["dump"],
                   ["clearset", hs[3], 13, 20, 30] + ungated, ["tok"], ["tok"], ["tok"], ["wait"], ["dump"], ["rem"], ["iter"],
                   ["get", hs[3], 13], ["get", hs[0], 10]]
            cases.append(cachegen.Case("cl%d" % j, "cache", g.header(1000, 8, True, True, 0, 5), ops, tags=["profile:clearset"]))
        return cases

    def oracle(self, case, il):
        fails = []
        if "profile:collide" in case.tags:
            return fails
        tr = cachegen.Trace(case, il)
        max_cost = int(case.args[0])
        pending = 0          # buffered gated items (upper bound)
        for st in tr.steps:
            op = st["op"]
            if op[0] == "set" and st["res"][:1] == ["true"]:
                pending += 1
            if op[0] == "sweeprw":
                pending += 1
            if op[0] == "tok" and st["res"][:1] == ["idle"]:
                pending = 0
            if op[0] in ("clear", "close") and st["res"][:1] != ["blocked"]:
                pending = 0
            if op[0] == "updmax":
                max_cost = int(op[1])
            if op[0] == "dump" and pending == 0 and not any(s["res"][:1] == ["blocked"] for s in tr.steps[:st["n"]] if s["op"][0] in ("del", "wait", "clear", "close") and not any(str(s["n"]) in t["done"] for t in tr.steps[s["n"]:st["n"] + 1])):
                d = parse_dump(st["raw"])
                sk = sorted(int(x.split(":")[0]) for x in d.get("store", []))
                pk = sorted(int(x.split(":")[0]) for x in d.get("costs", []))
                if sk != pk:
                    fails.append("op %d: quiescent dump: store keys %s != accounted keys %s" % (st["n"], sk, pk))
                used = sum(int(x.split(":")[1]) for x in d.get("costs", []))
                if d.get("used") and int(d["used"][0]) != used:
                    fails.append("op %d: used=%s but sum of keyCosts=%d" % (st["n"], d["used"][0], used))
                # every entry with a TTL is indexed in some bucket
                last = int(d.get("last", ["0"])[0])
                bk = {int(x.split(":")[1]) for x in d.get("buckets", []) if int(x.split(":")[0]) > last}   # beyond the sweep's frontier
                for x in d.get("store", []):
                    k, _, _, exp = x.split(":")
                    if int(exp) != 0 and int(k) not in bk:
                        fails.append("op %d: key %s has expiration %s but is in no expiry bucket beyond the sweep's frontier" % (st["n"], k, exp))
        return fails


PROP = C13()
