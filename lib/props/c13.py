"""C13 — the map, the capacity accounting and IterValues agree on what is resident (at quiescent points)."""
from ..cacheprop import CacheProp
from .. import cachegen


def parse_dump(l):
    d = {}
    for part in l.split():
        if "=" in part:
            k, v = part.split("=", 1)
            d[k] = [] if v == "-" else v.split(",")
    return d


class C13(CacheProp):
    pid = "C13"
    rule = ("gate-controlled single-client histories (profiles basic/roomy/tinybuf/should/ttl/internal/collide) with "
            "evictions, rejections, expiries, drops and Clear; at every drained point the white-box dumps of the shard "
            "maps, policy.keyCosts and the expiry buckets plus IterValues/RemainingCost are compared with the model and "
            "with each other; non-trivial = an eviction, rejection or blocked call occurred")

    def oracle(self, case, il):
        fails = []
        if "profile:collide" in case.tags:
            return fails
        tr = cachegen.Trace(case, il)
        max_cost = int(case.args[0])
        pending = 0          # buffered gated items (upper bound)
        for st in tr.steps:
            op = st["op"]
            if op[0] == "set" and st["res"][:1] == ["true"]:
                pending += 1
            if op[0] == "tok" and st["res"][:1] == ["idle"]:
                pending = 0
            if op[0] in ("clear", "close") and st["res"][:1] != ["blocked"]:
                pending = 0
            if op[0] == "updmax":
                max_cost = int(op[1])
            if op[0] == "dump" and pending == 0 and not any(s["res"][:1] == ["blocked"] for s in tr.steps[:st["n"]] if s["op"][0] in ("del", "wait", "clear", "close") and not any(str(s["n"]) in t["done"] for t in tr.steps[s["n"]:st["n"] + 1])):
                d = parse_dump(st["raw"])
                sk = sorted(int(x.split(":")[0]) for x in d.get("store", []))
                pk = sorted(int(x.split(":")[0]) for x in d.get("costs", []))
                if sk != pk:
                    fails.append("op %d: quiescent dump: store keys %s != accounted keys %s" % (st["n"], sk, pk))
                used = sum(int(x.split(":")[1]) for x in d.get("costs", []))
                if d.get("used") and int(d["used"][0]) != used:
                    fails.append("op %d: used=%s but sum of keyCosts=%d" % (st["n"], d["used"][0], used))
                # every entry with a TTL is indexed in some bucket
                bk = {int(x.split(":")[1]) for x in d.get("buckets", [])}
                for x in d.get("store", []):
                    k, _, _, exp = x.split(":")
                    if int(exp) != 0 and int(k) not in bk:
                        fails.append("op %d: key %s has expiration %s but is in no expiry bucket" % (st["n"], k, exp))
        return fails


PROP = C13()
