"""C20 — simd.Search agrees with the reference search and never depends on memory beyond the slice."""
from ..core import Case
from ..prop import Prop

M64 = (1 << 64) - 1


def ref(xs, k):
    i = 0
    while i < len(xs):
        if xs[i] >= k:
            return i // 2
        i += 2
    return i // 2


class C20(Prop):
    pid = "C20"
    pkg = "simd"
    quick_n = 1500
    thorough_n = 40000
    rule = ("ascending key arrays of every even length 0..520 (and odd lengths), every position of the first match "
            "incl. none, k in {0,1,2^63,2^64-1,key,key+-1,random}, slice embedded in a backing array whose tail is "
            "filled with 0 / all-ones / values around k; compared: exported Search, Naive, Clever-under-guard and the "
            "extracted interpreter of the translated assembly; non-trivial = length>0 and the answer depends on content")
    trusted = ["gen/asm2coq.py (translator) and the instruction semantics in Simd/X86.v — validated by this very "
               "correspondence against the real kernel, incl. its reads beyond the slice"]

    def gen(self, rng, n, ctx):
        cases = []
        ops = []
        lens = list(range(0, 42)) + [46, 48, 56, 62, 64, 66, 126, 128, 130, 254, 256, 510, 512, 514, 516, 520]
        for j in range(n):
            ln = rng.choice(lens) if rng.random() < 0.8 else rng.randrange(0, 522)
            if rng.random() < 0.85:
                ln -= ln % 2
            ln = max(ln, 0)
            # ascending keys at even positions, arbitrary values at odd ones
            start = rng.choice([0, 1, rng.getrandbits(20), (1 << 63) - 5, M64 - 2 * ln - 3])
            step = rng.choice([1, 1, 2, 1000])
            keys = [min(M64, start + step * i) for i in range((ln + 1) // 2)]
            xs = []
            for i in range(ln):
                xs.append(keys[i // 2] if i % 2 == 0 else rng.choice([0, M64, rng.getrandbits(64)]))
            r = rng.random()
            if keys and r < 0.5:
                kk = rng.choice(keys)
                k = max(0, min(M64, kk + rng.choice([-1, 0, 0, 1])))
            elif r < 0.7:
                k = rng.choice([0, 1, 1 << 63, M64])
            else:
                k = rng.getrandbits(64)
            fill = rng.choice(["zero", "ones", "k", "k+1", "k-1", "rand"])
            tail = []
            for i in range(8 + rng.randrange(0, 9)):
                tail.append({"zero": 0, "ones": M64, "k": k, "k+1": min(M64, k + 1), "k-1": max(0, k - 1),
                             "rand": rng.getrandbits(64)}[fill])
            ops.append([ln, k] + xs + tail)
            if len(ops) == 50:
                cases.append(Case("s%d" % len(cases), "search", [], ops))
                ops = []
        if ops:
            cases.append(Case("s%d" % len(cases), "search", [], ops))
        return cases

    def oracle(self, case, il):
        fails = []
        for op, l in zip(case.ops, il):
            fs = op.split()
            n, k = int(fs[0]), int(fs[1])
            xs = [int(x) for x in fs[2:2 + n]]
            want = ref(xs, k)
            got = l.split()
            if not got or got[0] != str(want):
                fails.append("Search(len=%d, k=%d) = %s, reference %d (xs=%s..., beyond=%s...)" % (
                    n, k, got[0] if got else l, want, xs[:8], fs[2 + n:2 + n + 4]))
            elif len(got) > 1 and got[1] != str(want):
                fails.append("Naive(len=%d,k=%d) = %s, reference %d" % (n, k, got[1], want))
        return fails

    def nontrivial(self, case, il):
        return any(int(o.split()[0]) > 0 for o in case.ops)

    def stats(self, cases, impl):
        st = {"calls": 0, "len0": 0, "len_mod8_0": 0, "len_lt8": 0, "odd": 0, "notfound": 0}
        for c in cases:
            for o, l in zip(c.ops, impl.get(c.id, [])):
                n = int(o.split()[0])
                st["calls"] += 1
                st["len0"] += n == 0
                st["len_mod8_0"] += (n % 8 == 0 and n >= 8)
                st["len_lt8"] += n < 8
                st["odd"] += n % 2
                st["notfound"] += l.split()[0] == str((n + 1) // 2)
        return st


PROP = C20()
