"""C10 — z.Tree is a correct uint64 map with an exact DeleteBelow.
(also holds the generator/oracle pieces shared with C16)"""
from ..core import Case
from ..prop import Prop

M64 = (1 << 64) - 1
KMAX = M64 - 1            # largest legal key
PAGE_SIZES = [80, 96, 128, 256, 1024, 4096]


def max_keys(ps):
    return ps // 16 - 1


class KeyGen:
    """key distributions: sequential up/down, random 64-bit, small range (overwrites), clustered around the keys
    already present (node boundaries are existing keys: the max key of a node is one of them), the extremes"""

    def __init__(self, rng, ps):
        self.rng = rng
        self.mk = max_keys(ps)
        self.mode = rng.choice(["seq", "seqdown", "rand64", "small", "cluster", "mixed", "stride"])
        self.next_up = rng.choice([1, 2, 1000, 1 << 32, KMAX - 5000])
        self.next_down = rng.choice([KMAX, KMAX - 1, 1 << 40, 5000])
        self.stride = rng.choice([2, 3, self.mk, self.mk + 1, 1 << 20])
        self.small = rng.choice([8, 30, 200, 3000])
        self.seen = []

    def _one(self, mode):
        r = self.rng
        if mode == "seq":
            k = self.next_up
            self.next_up += 1
            return k
        if mode == "stride":
            k = self.next_up
            self.next_up += self.stride
            return k
        if mode == "seqdown":
            k = self.next_down
            self.next_down -= 1
            return k
        if mode == "rand64":
            return r.getrandbits(64)
        if mode == "small":
            return r.randrange(1, self.small + 1)
        if mode == "cluster" and self.seen:
            return r.choice(self.seen) + r.choice([-2, -1, -1, 0, 1, 1, 2])
        return r.choice([1, 2, KMAX, KMAX - 1, KMAX - 2, r.getrandbits(64), r.getrandbits(16), 1 << 63])

    def key(self):
        mode = self.mode
        if mode == "mixed":
            mode = self.rng.choice(["seq", "seqdown", "rand64", "small", "cluster", "edge"])
        k = self._one(mode)
        k = min(max(k, 1), KMAX)
        if len(self.seen) < 4000:
            self.seen.append(k)
        return k

    def old(self):
        if self.seen and self.rng.random() < 0.85:
            return self.rng.choice(self.seen)
        return self.key()


class ValGen:
    """values from a small range so that DeleteBelow thresholds cut through every leaf (and hit leaf max keys), plus
    the extremes 1 and 2^64-1"""

    def __init__(self, rng):
        self.rng = rng
        self.hi = rng.choice([2, 5, 20, 100, 1000])

    def val(self):
        r = self.rng.random()
        if r < 0.03:
            return M64
        if r < 0.06:
            return 1
        return self.rng.randrange(1, self.hi + 1)

    def threshold(self):
        r = self.rng.random()
        if r < 0.15:
            return self.hi + 1          # deletes everything but the extremes
        if r < 0.22:
            return M64                  # deletes everything below 2^64-1
        if r < 0.27:
            return self.rng.choice([0, 1])   # deletes nothing
        return self.rng.randrange(1, self.hi + 2)


def probe_ops(kg, rng, n):
    return [["get", kg.old()] for _ in range(n)]


def gen_history(rng, ps, length, reopen=False):
    """one history; reopen=True adds stats/reopen/stats triples (persistent trees)"""
    kg = KeyGen(rng, ps)
    vg = ValGen(rng)
    ops = []
    style = rng.choice(["mix", "mix", "bulk-delete-refill", "delete-all-refill", "grow"])
    if style == "mix":
        w_set = rng.choice([0.5, 0.7, 0.9])
        while len(ops) < length:
            r = rng.random()
            if r < w_set:
                ops.append(["set", kg.key() if rng.random() < 0.8 else kg.old(), vg.val()])
            elif r < w_set + 0.12:
                ops.append(["get", kg.old()])
            elif r < w_set + 0.15:
                ops += [["delbelow", vg.threshold()], ["stats"]] + probe_ops(kg, rng, 3)
                if rng.random() < 0.5:
                    ops.append(["iter"])
            elif r < w_set + 0.17:
                ops.append(["iter"])
            elif r < w_set + 0.19:
                m = rng.choice([1, 2, 3, 7])
                ops += [["iterset", m, rng.randrange(m), rng.choice([1, 3, 1000, M64, M64 - 1])], ["iter"]]
            elif r < w_set + 0.22:
                ops.append(["stats"])
            elif r < w_set + 0.225:
                ops += [["reset"], ["stats"], ["iter"]]
            elif reopen and r < w_set + 0.26:
                ops += [["stats"], ["reopen"], ["stats"], ["iter"]] + probe_ops(kg, rng, 2)
    else:
        rounds = rng.randrange(2, 6)
        per = max(4, length // (rounds * 2))
        for rd in range(rounds):
            for _ in range(per):
                ops.append(["set", kg.key(), vg.val()])
            ops.append(["stats"])
            if style == "grow":
                ops += probe_ops(kg, rng, 3)
                if reopen and rng.random() < 0.6:
                    ops += [["stats"], ["reopen"], ["stats"]]
                continue
            th = vg.hi + 1 if style == "delete-all-refill" and rng.random() < 0.7 else vg.threshold()
            ops += [["delbelow", th], ["stats"], ["iter"]] + probe_ops(kg, rng, 4)
            if reopen and rng.random() < 0.7:
                # right after DeleteBelow recycled pages
                ops += [["stats"], ["reopen"], ["stats"], ["iter"]]
            # refill: recycled pages are handed out again
            for _ in range(rng.randrange(per // 2, per + 1)):
                ops.append(["set", kg.key() if rng.random() < 0.6 else kg.old(), vg.val()])
                if rng.random() < 0.1:
                    ops.append(["get", kg.old()])
            ops.append(["stats"])
            if reopen and rng.random() < 0.4:
                ops += [["stats"], ["reopen"], ["stats"]]
    ops += [["stats"], ["iter"]] + probe_ops(kg, rng, 5)
    return ops


# page count right after the root split that takes an ascending fill from 3 to 4 levels (a node splits when it holds
# maxKeys entries; the left half keeps maxKeys/2): that Set splits a leaf, an internal node and the root (4 new pages)
ROOT_SPLIT_3_TO_4 = {80: 15, 96: 19, 128: 32, 256: 124}


def realloc_case(rng, cid, ps, mode, reopen=False):
    """Exercises the places where the code re-reads its node slices because the buffer may have moved.  The white-box
    poke 'tight' makes the buffer exactly full, so the next page taken by bumping nextPage re-allocates (calloc) or
    re-maps (mmap) it.  Style 'tfill': poke before every Set of an ascending fill and of random inserts.  Style
    'rootsplit': ascending fill to just before the Set that grows the tree from 3 to 4 levels, then exactly two
    leaves on the left are emptied and freed by DeleteBelow, so that in the critical Set the leaf split and the
    internal split take the two recycled pages and the root split is the first to bump nextPage (and moves the
    buffer while Tree.Set holds the root)."""
    mk = max_keys(ps)
    h = mk // 2
    v = rng.randrange(2, 50)
    big = 1 << 40
    ops = []
    if ps in ROOT_SPLIT_3_TO_4 and rng.random() < 0.6:
        ops.append(["fill", 1, 1, v, ROOT_SPLIT_3_TO_4[ps] - 4])
        for j in range(h - 1):
            ops.append(["set", big + j, v])
        nfree = rng.choice([2, 2, 2, 1, 3])
        for f in range(nfree):
            for k in range(f * h * h + 1, f * h * h + h + 1):
                ops.append(["set", k, 1])
        ops += [["stats"], ["delbelow", 2], ["stats"], ["tight"], ["set", big + h - 1, v], ["stats"]]
        for k in [1, h + 1, h * h + 1, 3 * h * h + 1, big, big + h - 1, big + h - 2, KMAX]:
            ops.append(["get", k])
    else:
        # (a poke on a persistent tree is ftruncate + mremap + msync: keep those cases small)
        pages = rng.choice([6, 9, 14]) if mode == "persistent" else rng.choice([8, 20, 70, 300])
        slack = rng.choice([None, None, 1, 1, 2, 3])
        # slack n: the buffer has room for exactly n more pages, so the (n+1)-th page allocated inside one Set moves it
        # (n = 1: the second page taken by a root / internal split)
        ops += [["tfill", 1, rng.choice([1, 1, 3]), v, pages] + ([] if slack is None else [slack]), ["stats"], ["datalen"]]
        for k in [1, 2, 3, 100, 1000, KMAX]:
            ops.append(["get", k])
    if reopen:
        ops += [["stats"], ["reopen"], ["stats"], ["get", 1], ["get", big + 1]]
    for j in range(rng.randrange(3, 12) if mode == "persistent" else rng.randrange(5, 200)):
        ops += [["tight"] + rng.choice([[], [], [1], [2]]), ["set", rng.choice([big - 1 - j, rng.getrandbits(20) + 1]), v + 1]]
    ops += [["stats"], ["iter"]]
    return Case(cid, "tree", [ps, mode], ops, tags=["realloc"])


def tree_oracle(case, il):
    """reference: a Python dict.  Only what the property text promises: Get, DeleteBelow = filter, IterateKV = the live
    pairs exactly once (in key order, as the tree is ordered), Reset = empty; stats equal across a reopen; recycled
    pages reused before new ones are taken."""
    fails = []
    d = {}
    prev_stats = None          # (op index, numbers) of the last stats line
    only_sets_since = False
    before_reopen = None
    for i, (op, l) in enumerate(zip(case.ops, il)):
        fs = op.split()
        o = fs[0]
        if l.startswith("panic") or l.startswith("error") or l == "closed":
            fails.append("op %d '%s' -> %s" % (i, op[:40], l))
            break
        if o == "set":
            d[int(fs[1])] = int(fs[2])
        elif o in ("fill", "tfill"):
            k, step, v = int(fs[1]), int(fs[2]), int(fs[3])
            for j in range(int(l)):
                d[(k + j * step) & M64] = v
        elif o == "get":
            want = d.get(int(fs[1]), 0)
            if l != str(want):
                fails.append("op %d Get(%s) = %s, reference map says %d" % (i, fs[1], l, want))
        elif o == "delbelow":
            ts = int(fs[1])
            d = {k: v for k, v in d.items() if v >= ts}
        elif o in ("iter", "iterset"):
            want = sorted(d.items())
            got = [] if l == "-" else [tuple(int(x) for x in p.split(":")) for p in l.split()]
            if got != want:
                gs, ws = set(got), set(want)
                what = []
                if len(got) != len(gs):
                    what.append("duplicates")
                if gs - ws:
                    what.append("not live: %s" % sorted(gs - ws)[:4])
                if ws - gs:
                    what.append("missed: %s" % sorted(ws - gs)[:4])
                if not what:
                    what.append("order")
                fails.append("op %d IterateKV visited %d pairs, reference has %d (%s)" % (
                    i, len(got), len(want), "; ".join(what)))
            if o == "iterset":
                m, r, add = int(fs[1]), int(fs[2]), int(fs[3])
                for k, v in want:
                    if v % m == r:
                        nv = (v + add) & M64
                        if nv != 0:
                            d[k] = nv
        elif o == "reset":
            d = {}
        elif o == "stats":
            nums = [int(x) for x in l.split()]
            if before_reopen is not None:
                if nums[:3] != before_reopen[:3]:
                    fails.append("op %d stats after reopen %s differ from before %s (NumLeafKeys NumPages NumPagesFree)" % (
                        i, nums[:3], before_reopen[:3]))
                before_reopen = None
            if prev_stats is not None and only_sets_since:
                if nums[1] > prev_stats[1] and nums[2] > 0:
                    fails.append("op %d NumPages grew %d->%d while %d recycled pages were free" % (
                        i, prev_stats[1], nums[1], nums[2]))
            prev_stats = nums
            only_sets_since = True
        elif o == "reopen":
            before_reopen = prev_stats
            if l != "ok":
                fails.append("op %d reopen -> %s" % (i, l))
        if o not in ("set", "fill", "tfill", "tight", "get", "stats", "datalen"):
            only_sets_since = False
        if len(fails) >= 5:
            break
    return fails


def tree_features(case, il):
    """what happened in a case, from the implementation's stats lines"""
    f = {"split": False, "recycled": False, "reopen": False, "freed": False, "maxpages": 0, "reopen_after_free": False}
    last_free = 0
    for op, l in zip(case.ops, il):
        o = op.split()[0]
        if o == "stats":
            try:
                nums = [int(x) for x in l.split()]
            except ValueError:
                continue
            f["maxpages"] = max(f["maxpages"], nums[1])
            if nums[1] > 2:
                f["split"] = True
            if nums[2] > 0:
                f["freed"] = True
            if nums[2] < last_free:
                f["recycled"] = True
            last_free = nums[2]
        elif o == "reset":
            last_free = 0
        elif o == "reopen" and l == "ok":
            f["reopen"] = True
            if last_free > 0:
                f["reopen_after_free"] = True
    return f


def tree_stats(cases, impl):
    st = {"cases": 0, "ops": 0, "set": 0, "get": 0, "delbelow": 0, "iter": 0, "iterset": 0, "reset": 0, "reopen": 0,
          "fill": 0, "tfill": 0, "tight": 0, "split": 0, "freed_pages": 0, "recycled_pages": 0, "reopen_with_free_pages": 0, "max_pages": 0,
          "page_sizes": {}}
    for c in cases:
        if c.comp != "tree":
            continue
        st["cases"] += 1
        st["ops"] += len(c.ops)
        st["page_sizes"][c.args[0]] = st["page_sizes"].get(c.args[0], 0) + 1
        for o in c.ops:
            k = o.split()[0]
            if k in st:
                st[k] += 1
        f = tree_features(c, impl.get(c.id, []))
        st["split"] += f["split"]
        st["freed_pages"] += f["freed"]
        st["recycled_pages"] += f["recycled"]
        st["reopen_with_free_pages"] += f["reopen_after_free"]
        st["max_pages"] = max(st["max_pages"], f["maxpages"])
    return st


def died(case, il):
    """the harness process did not survive the case (z.assert is log.Fatalf; a stale node slice into an unmapped
    buffer is a SIGSEGV): its output is lost from this case on"""
    if len(il) < len(case.ops):
        return ["the implementation did not survive this case (failed z.assert = log.Fatal, or a crash): %d result "
                "lines for %d operations" % (len(il), len(case.ops))]
    return []


def canon_line(line):
    return "panic" if line.startswith("panic") else line


class C10(Prop):
    pid = "C10"
    pkg = "z"
    quick_n = 260
    thorough_n = 4000
    model_files = ["Tree/Node.v", "Tree/Tree.v"]
    rule = ("histories of Set/Get/DeleteBelow/IterateKV (read-only and rewriting)/Reset/Stats on in-memory trees with "
            "page sizes 80,96,128,256,1024,4096 (maxKeys 4..255); keys sequential up/down, strided by maxKeys, random "
            "64-bit, small ranges (overwrites), clustered +-2 around keys already present, 1 and 2^64-2; values from a "
            "small range so that thresholds cut through every leaf and hit leaf max keys; delete-everything and "
            "refill rounds (page recycling); every output line compared with the extracted model and checked against "
            "a Python dict; non-trivial = a node split and (for the recycle count) a freed page was handed out again")
    trusted = ["node.search is modelled as first_ge (C20 proves the real kernel equals it); pages are modelled by their "
               "numKeys entries (the code keeps the rest of a page zero)"]

    def gen(self, rng, n, ctx):
        cases = []
        thorough = ctx.tier == "thorough"
        for j in range(60 if thorough else 12):
            cases.append(realloc_case(rng, "ra%d" % j, rng.choice([80, 80, 96, 128, 256, 1024]), "mem"))
        # Reset keeps the buffer's memory and rewinds it: a tree that outgrew 1 MiB (256 default pages), reset, and grown
        # past it again takes pages that held the previous tree's nodes - they must come back clean (the second life stops at
        # another size, so that the nodes on the right spine are less full than they were)
        v1, v2 = rng.randrange(2, 50), rng.randrange(50, 99)
        step = rng.choice([1, 1, 3])
        cases.append(Case("br0", "tree", [4096, "mem"],
                          [["fill", 1, step, v1, 300], ["stats"], ["reset"], ["stats"], ["get", 1],
                           ["fill", 1, step, v2, rng.randrange(262, 296)], ["stats"], ["iter"], ["get", 1], ["get", 1 + 5000 * step],
                           ["delbelow", v2 + 1], ["stats"], ["iter"]], tags=["bigreset"]))
        for j in range(n):
            ps = rng.choice([80, 80, 80, 96, 96, 128, 128, 256, 1024, 4096])
            if thorough:
                length = rng.choice([30, 150, 600, 2000])
            else:
                length = rng.choice([20, 80, 250, 700])
            if ps >= 1024:
                length *= 3
            mode = "persistent" if rng.random() < 0.1 else "mem"
            cases.append(Case("t%d" % j, "tree", [ps, mode], gen_history(rng, ps, length)))
        return cases

    def canon(self, case, i, line):
        return canon_line(line)

    def oracle(self, case, il):
        return died(case, il) or tree_oracle(case, il)

    def nontrivial(self, case, il):
        return tree_features(case, il)["split"]

    def stats(self, cases, impl):
        return tree_stats(cases, impl)


PROP = C10()
