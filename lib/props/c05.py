"""C05 — a completed Del wins over every earlier Set once writes have drained."""
from ..cacheprop import CacheProp
from .. import cachegen


class C05(CacheProp):
    pid = "C05"
    profiles = ["basic", "tinybuf", "ttl", "roomy", "should", "internal", "collide", "basic"]
    rule = ("gate-controlled histories into which Set* / Del / Wait / Get patterns on one key are injected: 0..4 Sets of "
            "the key (new, overwrite, with and without TTL) of which a random prefix has been applied and the rest is "
            "still buffered when Del runs, a random number of applier tokens before and after the Del and the Wait, "
            "activity on other keys in between; every result is compared with the machine; oracle: once a Del of k "
            "has returned and a Wait issued after that has returned, every Get of k misses until a Set of a key with "
            "k's hash, a Clear or a Close is issued, and a Del that removes a value is followed by OnExit of that "
            "value; non-trivial = the pattern was completed with at least one insert of k buffered at Del time")

    def gen(self, rng, n, ctx):
        cases = cachegen.gen_cases(rng, n, ctx, self.profiles)
        g = cachegen.Gen(rng, ctx.probe_data or {"item_size": 56, "start": cachegen.START_DEFAULT})
        for c in cases:
            ops = list(c.ops)
            if "close" in ops:
                ops = ops[:ops.index("close")]
            sets = [o.split() for o in ops if o.startswith("set ")]
            if not sets:
                c.ops = ops
                continue
            vmax = max(int(s[3]) for s in sets)
            # positions at which all keys have distinct frequency estimates (no ties for the sampled-LFU victim choice,
            # which Go's map order would break): after an estimate block, before the next Clear
            cand, safe = [], False
            for i in range(len(ops) + 1):
                if i > 0 and ops[i - 1].startswith("estcheck") and (i == len(ops) or not ops[i].startswith("est")):
                    safe = True
                if i < len(ops) and ops[i] == "clear":
                    safe = False
                if safe and i > 0 and not ops[i - 1].startswith("set "):
                    cand.append(i)
            if not cand:
                c.ops = ops
                continue
            pos = rng.choice(cand)
            new = ops[:pos]
            for _ in range(rng.randrange(1, 4)):
                s = rng.choice(sets)
                k, cf = s[1], s[2]
                pat = []
                ns = rng.randrange(0, 5)
                for _ in range(ns):
                    vmax += 1
                    ttl = rng.choice([0, 0, 0, 3 * 10 ** 9, 60 * 10 ** 9])
                    pat.append("set %s %s %d %d %d" % (k, cf, vmax, int(s[4]), ttl))
                    if rng.random() < 0.3:
                        pat.append("tok")
                    if rng.random() < 0.2:
                        o = rng.choice(sets)
                        vmax += 1
                        pat.append("set %s %s %d %s 0" % (o[1], o[2], vmax, o[4]))
                pat += ["tok"] * rng.randrange(0, 3)
                pat.append("del %s %s" % (k, cf))
                pat += ["tok"] * rng.randrange(0, 3)
                if rng.random() < 0.3:
                    pat.append("get %s %s" % (k, cf))
                pat.append("wait")
                pat += ["tok"] * rng.randrange(0, ns + 4)
                pat.append("get %s %s" % (k, cf))
                pat += ["tok"] * (ns + 3)
                pat += ["get %s %s" % (k, cf), "dump"]
                if rng.random() < 0.4:
                    pat += ["tick 4000000000", "sweep", "get %s %s" % (k, cf)]
                new += pat
            new += ["tok"] * min(60, 2 + sum(1 for o in new if o.startswith("set ")))
            c.ops = new + ops[pos:]
        # the tombstone of a key must take effect even when the accounting no longer tracks the key's hash: a Del of a
        # colliding twin (same primary hash, other conflict hash) sits between the buffered Set(k) and Del(k)
        for j in range(max(2, n // 40)):
            h = cachegen.mix(1300 + j)
            lag = rng.randrange(0, 3)
            ops = [["set", h, 10, 11, 30, rng.choice([0, 0, 60 * 10 ** 9])]] + [["tok"]] * (1 if lag == 0 else 0) + \
                  [["del", h, 11], ["del", h, 10]] + [["tok"]] * 4 + [["wait"], ["get", h, 10], ["dump"], ["get", h, 10],
                   ["set", h, 11, 12, 30, 0], ["tok"], ["tok"], ["wait"], ["get", h, 11], ["del", h, 11], ["tok"], ["wait"],
                   ["get", h, 11], ["dump"]]
            cases.append(cachegen.Case("ct%d" % j, "cache", g.header(1000, 8, True, True, 0, 5), ops,
                                       tags=["profile:colltomb"]))
        # the tombstone must be applied whatever the budget has become meanwhile: Set(k) and Del(k) buffered behind each
        # other with another gated item between them, the budget lowered below the internal per-item cost before the
        # tombstone is reached
        isz = (ctx.probe_data or {"item_size": 56})["item_size"]
        for j in range(max(2, n // 40)):
            h, h2 = cachegen.mix(1500 + j), cachegen.mix(1600 + j)
            low = rng.choice([1, isz - 1, isz // 2])
            ops = [["set", h, 10, 11, 30, 0], ["set", h2, 20, 12, 30, 0], ["del", h, 10], ["tok"], ["updmax", low], ["tok"],
                   ["tok"], ["tok"], ["wait"], ["get", h, 10], ["dump"], ["updmax", 1000], ["get", h, 10]]
            cases.append(cachegen.Case("um%d" % j, "cache", g.header(1000, 8, False, True, 0, 5), ops, tags=["profile:updmaxdel"]))
        return cases

    def oracle(self, case, il):
        fails = []
        tr = cachegen.Trace(case, il)
        st = {}          # hash -> {"del": op index of the returned Del, "conf", "wait": issued-after wait ids, "ok": bool}
        pend_del = {}    # op id of a blocked Del -> (hash, conf)
        pend_wait = {}   # op id of a blocked Wait -> set of hashes whose Del had returned when it was issued
        accepted = {}    # hash -> [(conflict, value)] of the Sets that returned true, since the last Clear
        exited = set()
        collide = "profile:collide" in case.tags      # colliding keys: see the known finding of C04

        def released(h, n):
            # Del(k) has returned and a Wait issued after it has returned: every value accepted for k before is out
            for cf, v in accepted.pop(h, []):
                if v not in exited and not collide:
                    fails.append("op %d: value %d (Set of key %s returned true) has not been passed to OnExit although Del(%s) "
                                 "and a later Wait have returned" % (n, v, h, h))
        for s in tr.steps:
            op, res, n = s["op"], s["res"], s["n"]
            for cb in s["cbs"]:
                if cb.startswith("exit:"):
                    exited.add(int(cb[5:]))
            if op[0] == "set" and res[:1] == ["true"]:
                accepted.setdefault(op[1], []).append((op[2], int(op[3])))
            if op[0] in ("sweeprw", "closeset", "clear", "close"):
                accepted.clear()
            if op[0] in ("set", "sweeprw", "closeset"):
                for h in ([op[1]] if op[0] != "sweeprw" else [op[1], op[3]]):
                    st.pop(h, None)
                    for w in pend_wait.values():
                        w.discard(h)
            if op[0] in ("clear", "close"):
                st.clear()
                pend_wait.clear()
            if op[0] == "del":
                if res[:1] == ["blocked"]:
                    pend_del[str(n)] = (op[1], op[2])
                else:
                    st[op[1]] = {"conf": op[2], "ok": False}
            if op[0] == "wait":
                hs = {h for h, d in st.items() if not d["ok"]}
                if res[:1] == ["blocked"]:
                    pend_wait[str(n)] = hs
                else:
                    for h in hs:
                        st[h]["ok"] = True
                        released(h, n)
            for d in s["done"]:
                if d in pend_del:
                    h, cf = pend_del.pop(d)
                    st[h] = {"conf": cf, "ok": False}
                if d in pend_wait:
                    for h in pend_wait.pop(d):
                        if h in st:
                            st[h]["ok"] = True
                            released(h, n)
            if op[0] == "get" and op[1] in st and st[op[1]]["ok"] and st[op[1]]["conf"] == op[2]:
                if res[1:2] == ["true"]:
                    fails.append("op %d: Get(%s) returned value %s although Del(%s) and a later Wait had returned and no "
                                 "Set of the key was issued since" % (n, op[1], res[0], op[1]))
        return fails

    def nontrivial(self, case, il):
        ops = case.ops
        for i, o in enumerate(ops):
            if o.startswith("del ") and i < len(il) and any(p.startswith("set " + o.split()[1] + " ") for p in ops[max(0, i - 8):i]):
                return True
        return False


PROP = C05()
