"""C08 — concurrent use of the public API on an open cache is free of data races, panics and deadlocks."""
import os
import re
from ..cacheprop import CacheProp
from .. import cachegen, core


class C08(CacheProp):
    pid = "C08"
    profiles = ["tinybuf", "basic", "tinybuf", "ttl", "internal", "should", "roomy", "tinybuf"]
    rule = ("(a) gate-controlled histories on an open cache (the generator's cases cut before Close) with extra Del / "
            "Wait calls injected so that calls block on a full write buffer, behind gated items and across Clear's "
            "stop/drain/restart; every result and every blocked/done transition compared with the machine; oracle: no "
            "call panics and every blocked call has completed once all gate tokens are delivered; non-trivial = some "
            "call blocked.  (b) real-concurrency search, not proof: TestVerifStress runs 2..64 goroutines issuing the "
            "twelve public calls at random under the Go race detector with a per-call watchdog (20 s), over random "
            "BufferItems / NumCounters / MaxCost / setBuf sizes, metrics, callbacks, TTLs")
    trusted = CacheProp.trusted + [
        "data-race freedom in the sense of the Go memory model is below the grain of the machine and is NOT proved: "
        "it is searched for with go test -race (ThreadSanitizer) on the stress harness; 'returns in bounded time' is "
        "proved as absence of deadlock plus termination of the eviction loop, not as a quantitative bound",
    ]

    def gen(self, rng, n, ctx):
        cases = cachegen.gen_cases(rng, n, ctx, self.profiles)
        out = []
        for c in cases:
            ops = list(c.ops)
            if "close" in ops:
                ops = ops[:ops.index("close")]
            keys = [o.split()[1:3] for o in ops if o.startswith("set ")]
            new = []
            for o in ops:
                new.append(o)
                if o.startswith("set ") and keys and rng.random() < 0.35:
                    k = rng.choice(keys)
                    new.append(rng.choice(["del %s %s" % (k[0], k[1]), "wait", "del %s %s" % (k[0], k[1])]))
            c.ops = new + ["tok"] * 6
            out.append(c)
        return out

    def oracle(self, case, il):
        fails = []
        blocked = {}
        for n, (op, line) in enumerate(zip(case.ops, il)):
            if "panic" in line:
                fails.append("op %d: %s panicked: %s" % (n, op, line[:200]))
            res, cbs, done = cachegen.parse_line(line)
            if res[:1] == ["blocked"]:
                blocked[str(n)] = op
            for d in done:
                blocked.pop(d, None)
        if len(il) >= len(case.ops):
            for n, op in sorted(blocked.items(), key=lambda kv: int(kv[0])):
                fails.append("op %s: %s blocked and never returned although every buffered write was released" % (n, op))
        return fails

    def nontrivial(self, case, il):
        return any(l.startswith("blocked") for l in il)

    def extra(self, ctx):
        with core.Lock():
            ok, log, _ = core.build_harness("root", race=True)
        if not ok:
            raise RuntimeError("race harness does not build: " + log[-800:])
        rounds, ops = (5, 700) if ctx.tier == "quick" else (60, 2500)
        env = {"VERIF_STRESS": "1", "VERIF_SEED": str(ctx.seed + 1), "VERIF_STRESS_ROUNDS": str(rounds),
               "VERIF_STRESS_OPS": str(ops)}
        rc, out = core.run_harness("root", os.devnull, os.devnull, race=True, timeout=900 if ctx.tier == "quick" else 3000,
                                   run="^TestVerifStress$", extra_env=env)
        m = re.search(r"stress ok rounds=(\d+) ops=(\d+)", out)
        ctx.notes.append("race stress: %s (rc=%d)" % (m.group(0) if m else "no ok line", rc))
        fails = []
        hdr = "go test -race -run TestVerifStress with %s\n" % " ".join("%s=%s" % kv for kv in sorted(env.items()))
        if "DATA RACE" in out:
            i = out.index("WARNING: DATA RACE") if "WARNING: DATA RACE" in out else out.index("DATA RACE")
            fails.append(("data race reported by the Go race detector in the concurrent stress", hdr + out[i:i + 3000]))
        for kind in ("stress hang:", "stress panic:", "stress dupexit:"):
            if kind in out:
                i = out.index(kind)
                fails.append(("concurrent stress: " + out[i:i + 200].splitlines()[0], hdr + out[max(0, i - 200):i + 2500]))
        if not fails and (rc != 0 or not m):
            fails.append(("concurrent stress did not complete (rc=%d)" % rc, hdr + out[-3000:]))
        return [(f, "# property C08\n# " + f + "\n" + "".join("# " + l + "\n" for l in b.splitlines())) for f, b in fails]


PROP = C08()
