"""C08 — concurrent use of the public API on an open cache is free of data races, panics and deadlocks."""
from ..cacheprop import CacheProp
from .. import cachegen, core
from . import c17


class C08(CacheProp):
    pid = "C08"
    profiles = ["tinybuf", "basic", "tinybuf", "ttl", "internal", "should", "roomy", "tinybuf"]
    rule = ("(a) gate-controlled histories on an open cache (the generator's cases cut before Close) with extra Del / "
            "Wait calls injected so that calls block on a full write buffer, behind gated items and across Clear's "
            "stop/drain/restart; every result and every blocked/done transition compared with the machine; oracle: no "
            "call panics and every blocked call has completed once all gate tokens are delivered; non-trivial = some "
            "call blocked.  (b) real-concurrency search, not proof: TestVerifStress runs 2..64 goroutines issuing the "
            "twelve public calls at random under the Go race detector with a per-call watchdog (20 s), over random "
            "BufferItems / NumCounters / MaxCost / setBuf sizes, metrics, callbacks, TTLs")
    trusted = CacheProp.trusted + [
        "data-race freedom in the sense of the Go memory model is below the grain of the machine and is NOT proved: "
        "it is searched for with go test -race (ThreadSanitizer) on the stress harness; 'returns in bounded time' is "
        "proved as absence of deadlock plus termination of the eviction loop, not as a quantitative bound",
    ]

    def gen(self, rng, n, ctx):
        cases = cachegen.gen_cases(rng, n, ctx, self.profiles)
        out = []
        for c in cases:
            ops = list(c.ops)
            if "close" in ops:
                ops = ops[:ops.index("close")]
            keys = [o.split()[1:3] for o in ops if o.startswith("set ")]
            new = []
            for o in ops:
                new.append(o)
                if o.startswith("set ") and keys and rng.random() < 0.35:
                    k = rng.choice(keys)
                    new.append(rng.choice(["del %s %s" % (k[0], k[1]), "wait", "del %s %s" % (k[0], k[1])]))
            c.ops = new + ["tok"] * 6
            out.append(c)
        # ring stripes (ring.go), the structure of the Get path no mutex guards: the sequential hand-off of stripes and
        # backing arrays (Cache/RingOwn.v, C08_ring_exclusive) is tied through the `ring` component of C17
        return out + c17.ring_cases(rng, max(6, n // 10))

    def annotate(self, case, impl_lines):
        return c17.PROP.annotate(case, impl_lines) if case.comp == "ring" else super().annotate(case, impl_lines)

    def canon(self, case, i, line):
        return line if case.comp == "ring" else super().canon(case, i, line)

    def oracle(self, case, il):
        if case.comp == "ring":
            return [f for f in c17.PROP.ring_oracle(case, il) if "backing array" in f or "panic" in f]
        fails = []
        blocked = {}
        for n, (op, line) in enumerate(zip(case.ops, il)):
            if "panic" in line:
                fails.append("op %d: %s panicked: %s" % (n, op, line[:200]))
            res, cbs, done = cachegen.parse_line(line)
            if res[:1] == ["blocked"]:
                blocked[str(n)] = op
            for d in done:
                blocked.pop(d, None)
        if len(il) >= len(case.ops):
            for n, op in sorted(blocked.items(), key=lambda kv: int(kv[0])):
                fails.append("op %s: %s blocked and never returned although every buffered write was released" % (n, op))
        return fails

    def nontrivial(self, case, il):
        if case.comp == "ring":
            return any("drain kept" in l for l in il)
        return any(l.startswith("blocked") for l in il)

    stress_kinds = ("race", "hang", "panic", "dupexit", "stale", "wrongkey", "lost", "torn", "sweeprace")
    stress_race = True


PROP = C08()
