"""C03 — admissions never push the accounted cost above MaxCost; RemainingCost = MaxCost - sum of accounted costs."""
from ..cacheprop import CacheProp
from .. import cachegen, policygen
from .c13 import parse_dump


class C03(CacheProp):
    pid = "C03"
    quick_n = 300
    thorough_n = 6000
    rule = ("policy-level Add/Update/Del/UpdateMaxCost sequences with costs around MaxCost, MaxCost/2, 0 and above "
            "MaxCost (white-box, see C09) and gate-controlled cache histories with and without the internal per-item "
            "cost; compared: added flag, victims, Cap(), keyCosts, used; oracle: Cap = MaxCost - sum(keyCosts) after every "
            "op, used <= MaxCost after every admission of a new key; non-trivial = an Add evicted or rejected")

    def gen(self, rng, n, ctx):
        cases = policygen.gen_policy_cases(rng, n // 2) + \
            cachegen.gen_cases(rng, n // 2 - n // 30, ctx, ["basic", "internal", "roomy", "tinybuf", "ttl"])
        # accounted cost exactly 0 (IgnoreInternalCost, Config.Cost returns 0) on keys that expire, are deleted or are
        # evicted and are then written again with a positive cost: the zero must not be mistaken for "not accounted"
        pd = ctx.probe_data or {"item_size": 56, "start": cachegen.START_DEFAULT}
        g = cachegen.Gen(rng, pd)
        for j in range(n // 30):
            bdur = rng.choice([1, 5])
            hs = [cachegen.mix(600 + 7 * j + i) for i in range(4)]
            order = [2, 5, 8, 11]
            rng.shuffle(order)      # distinct, well separated frequency estimates: no ties for the victim choice
            ops = [["est", h, e] for h, e in zip(hs, order)] + [["estcheck", h] for h in hs]
            v = 100
            for i, h in enumerate(hs):
                v += 1
                ops.append(["set", h, 10 * (i + 1), v, 0 if i < 2 else rng.randrange(20, 50), rng.choice([10 ** 9, 0]) if i < 2 else 0])
            ops += [["tok"]] * 4 + [["dump"], ["rem"], ["tick", rng.choice([3, 12]) * bdur * 10 ** 9], ["sweep"], ["dump"], ["rem"]]
            if rng.random() < 0.5:
                ops += [["del", hs[1], 20], ["tok"], ["dump"], ["rem"]]
            for i, h in enumerate(hs[:2]):
                v += 1
                ops.append(["set", h, 10 * (i + 1), v, rng.randrange(40, 70), 0])
            ops += [["tok"]] * 3 + [["dump"], ["rem"], ["wait"], ["dump"], ["rem"], ["get", hs[0], 10], ["get", hs[1], 20]]
            cases.append(cachegen.Case("z%d" % j, "cache", g.header(100, 8, True, True, 0, bdur), ops, tags=["profile:zerocost"]))
        return cases

    def canon(self, case, i, line):
        if case.comp in ("policy", "policybig"):
            return policygen.canon_policy(case, i, line)
        return cachegen.canon(case, i, line)

    def annotate(self, case, impl_lines):
        if case.comp == "policybig":
            return policygen.annotate_policy(case, impl_lines)
        return cachegen.annotate(case, impl_lines)

    def oracle(self, case, il):
        if case.comp == "cache":
            fails = []
            max_cost = int(case.args[0])
            last_dump = None
            for n, (op, l) in enumerate(zip(case.ops, il)):
                fs = op.split()
                if fs[0] == "updmax":
                    max_cost = int(fs[1])
                if fs[0] == "dump":
                    d = parse_dump(l)
                    used = sum(int(x.split(":")[1]) for x in d.get("costs", []))
                    last_dump = (n, used)
                    if d.get("used") and int(d["used"][0]) != used:
                        fails.append("op %d: used=%s, sum of keyCosts=%d" % (n, d["used"][0], used))
                elif fs[0] == "rem" and last_dump and last_dump[0] == n - 1:
                    if int(l.split()[0]) != max_cost - last_dump[1]:
                        fails.append("op %d: RemainingCost()=%s but MaxCost %d - accounted %d" % (n, l, max_cost, last_dump[1]))
                elif fs[0] not in ("rem", "metrics", "max", "get", "ttl", "iter"):
                    last_dump = None
            # "the costs the cache accounts for its RESIDENT keys": at drained points the accounting charges exactly the
            # keys the map holds (the quiescent comparison of C13; no colliding keys in C03's profiles)
            if "profile:collide" not in case.tags:
                from .c13 import PROP as C13P
                fails += [f + " (capacity is held for a key that is not resident, or a resident key is not charged)"
                          for f in C13P.oracle(case, il) if "store keys" in f]
            return fails
        ref = policygen.PolRef(case, il)
        fails = list(ref.fails)
        for e in ref.events:
            if e["added"]:
                after = e["used"] - sum(vc for vk, vc in e["victims"] if vk in e["before"]) + e["cost"]
                if e["key"] not in e["before"] and after > e["max"]:
                    fails.append("op %d: admission of key %d leaves used=%d above MaxCost=%d" % (e["n"], e["key"], after, e["max"]))
                if e["cost"] > e["max"]:
                    fails.append("op %d: item of cost %d > MaxCost %d admitted" % (e["n"], e["cost"], e["max"]))
        return fails

    def nontrivial(self, case, il):
        if case.comp == "cache":
            return any("evict:" in l or "reject:" in l for l in il)
        return any(l.startswith("false") or (l.startswith("true") and not l.endswith("-")) for l in il)


PROP = C03()
