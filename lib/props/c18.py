"""C18 — access-frequency estimates: sketch rows, cmSketch, next2Power, tinyLFU."""
from ..core import Case
from ..prop import Prop
from .. import core
import os

M64 = (1 << 64) - 1


class C18(Prop):
    pid = "C18"
    pkg = "root"
    quick_n = 150
    thorough_n = 3000
    rule = ("exhaustive rowbyte sweep (256 bytes x 2 nibbles) + next2Power around every 2^i + random "
            "increment/estimate/reset sequences on cmSketch and tinyLFU with the implementation's seeds forced; "
            "non-trivial = a counter saturated, a reset fired, or two keys shared a counter")
    trusted = ["doorkeeper Bloom size/locs are computed with float arithmetic in the code; the harness probes "
               "them and the case header carries them to the model"]

    def probe(self, ctx):
        ncs = [2, 3, 4, 5, 7, 8, 16, 33, 64, 100, 128, 1000]
        c = Case("probe", "probe", [], [["door", n] for n in ncs])
        cf = os.path.join(core.BUILD, "probe_C18.txt")
        out = os.path.join(core.BUILD, "probe_C18.out")
        core.write_cases([c], cf)
        core.run_harness("root", cf, out)
        lines = core.parse_output(out).get("probe", [])
        res = {}
        for n, l in zip(ncs, lines):
            fs = l.split()
            if len(fs) == 2 and fs[0].isdigit():
                res[n] = (int(fs[0]), int(fs[1]))
        return res

    def gen(self, rng, n, ctx):
        cases = []
        # exhaustive byte-level sweep
        cases.append(Case("rowbyte", "rowbyte", [], [[b, k] for b in range(256) for k in (0, 1)], tags=["exh"]))
        xs = [0, 1, 2, 3]
        for i in range(1, 63):
            xs += [(1 << i) - 1, 1 << i, (1 << i) + 1]
        xs += [(1 << 63) - 1, -1, -5]
        xs += [rng.randrange(1, 1 << 62) for _ in range(200)]
        cases.append(Case("n2p", "n2p", [], [[x] for x in xs], tags=["n2p"]))
        for j in range(n):
            nc = rng.choice([2, 3, 4, 5, 7, 8, 16, 33, 64, 100, 128])
            seeds = [rng.choice([0, M64, rng.getrandbits(64)]) for _ in range(4)]
            nkeys = rng.choice([1, 2, 3, 8, 40])
            keys = [rng.choice([0, M64, rng.getrandbits(64), rng.randrange(0, 64)]) for _ in range(nkeys)]
            ops = []
            for _ in range(rng.randrange(5, 120)):
                r = rng.random()
                k = rng.choice(keys)
                if r < 0.6:
                    ops.append(["inc", k])
                elif r < 0.85:
                    ops.append(["est", k])
                elif r < 0.92:
                    ops.append(["reset"])
                elif r < 0.95:
                    # a clear, and what it must leave behind: estimate 0 for every key (asked before anything is recorded)
                    ops.append(["clear"])
                    ops += [["est", k2] for k2 in rng.sample(keys, min(len(keys), 3))]
                else:
                    ops.append(["dump"])
            ops.append(["dump"])
            if j % 2 == 0 or not ctx.probe_data:
                cases.append(Case("sk%d" % j, "sketch", [nc] + seeds, ops))
            else:
                nc = rng.choice(sorted(ctx.probe_data))
                ds, dl = ctx.probe_data[nc]
                ops = [o for o in ops if o[0] != "reset"]
                if rng.random() < 0.5:
                    ops.insert(len(ops) // 2, ["push"] + [rng.choice(keys) for _ in range(rng.randrange(1, 70))])
                cases.append(Case("tl%d" % j, "tlfu", [nc] + seeds + [ds, dl], ops))
        return cases

    def oracle(self, case, il):
        """spec-level: estimates within [min(n,15), 16] between resets (counting accesses per key)"""
        fails = []
        if case.comp == "rowbyte":
            for op, l in zip(case.ops, il):
                b, k = map(int, op.split())
                fs = l.split()
                if len(fs) != 3:
                    fails.append("rowbyte %s: %s" % (op, l))
                    continue
                lo, hi = b & 15, b >> 4
                v = hi if k else lo
                nv = min(15, v + 1)
                exp_inc = (nv << 4 | lo) if k else (hi << 4 | nv)
                exp_reset = ((hi // 2) << 4) | (lo // 2)
                if int(fs[0]) != v or int(fs[1], 16) != exp_inc or int(fs[2], 16) != exp_reset:
                    fails.append("rowbyte b=%d n=%d: got %s, want %d %02x %02x" % (b, k, l, v, exp_inc, exp_reset))
        elif case.comp == "n2p":
            for op, l in zip(case.ops, il):
                x = int(op)
                if 1 <= x <= 1 << 62:
                    p = 1
                    while p < x:
                        p *= 2
                    if l.strip() != str(p):
                        fails.append("next2Power(%d) = %s, want %d" % (x, l, p))
        elif case.comp in ("sketch", "tlfu"):
            counts = {}
            since_reset = 0
            fresh = True          # nothing recorded since construction / the last clear
            lower = {}            # key -> a lower bound of its current estimate
            reset_at = int(case.args[0]) if case.comp == "tlfu" else None
            for op, l in zip(case.ops, il):
                fs = op.split()
                if l.startswith("panic") or l.startswith("initerror"):
                    fails.append("%s -> %s" % (op, l))
                    break
                ks = []
                if fs[0] == "inc":
                    ks = [fs[1]]
                elif fs[0] == "push":
                    ks = fs[1:]
                for k in ks:
                    counts[k] = counts.get(k, 0) + 1
                    since_reset += 1
                    if reset_at is not None and since_reset >= reset_at:
                        counts = {}
                        since_reset = 0
                        # aging: counters are halved, the doorkeeper (worth +1) is cleared
                        lower = {q: max(0, (b - 1) // 2) for q, b in lower.items()}
                if ks:
                    fresh = False
                if fs[0] in ("reset", "clear"):
                    counts = {}
                    since_reset = 0
                    fresh = fresh or fs[0] == "clear"
                    lower = {} if fs[0] == "clear" else {q: b // 2 for q, b in lower.items()}   # sketch-level reset halves
                if fs[0] == "est" and fresh and int(l) != 0:
                    fails.append("estimate(%s)=%s right after a clear (nothing recorded since): a clear zeroes everything" % (fs[1], l.strip()))
                if fs[0] == "est":
                    # estimates only grow under accesses (of any key) and are halved by aging: what was read before
                    # bounds what is read now
                    if int(l) < lower.get(fs[1], 0):
                        fails.append("estimate(%s)=%s although it was at least %d after the last aging (ages by halving)" % (
                            fs[1], l.strip(), lower[fs[1]]))
                    lower[fs[1]] = max(lower.get(fs[1], 0), int(l))
                    v = int(l)
                    nacc = counts.get(fs[1], 0)
                    lo = min(nacc, 15)
                    if not (lo <= v <= 16):
                        fails.append("estimate(%s)=%d after %d accesses since the last reset" % (fs[1], v, nacc))
        return fails

    def nontrivial(self, case, il):
        if case.comp in ("rowbyte", "n2p"):
            return True
        return any(l.strip() in ("15", "16") for l in il) or any(o.startswith("reset") for o in case.ops) \
            or len(case.ops) > 30

    def stats(self, cases, impl):
        st = {"sketch": 0, "tlfu": 0, "ops": 0, "saturated": 0}
        for c in cases:
            if c.comp in st:
                st[c.comp] += 1
            st["ops"] += len(c.ops)
            if any(l.strip() in ("15", "16") for l in impl.get(c.id, [])):
                st["saturated"] += 1
        return st


PROP = C18()
