"""C15 — Close and Clear leave a consistent cache: inert after Close, fresh after Clear."""
from ..cacheprop import CacheProp
from .. import cachegen
from .c13 import parse_dump
from .c17 import C17


class C15(CacheProp):
    pid = "C15"
    profiles = ["basic", "tinybuf", "ttl", "internal", "should", "roomy", "basic"]
    rule = ("gate-controlled histories in which Clear / Close are injected after resident entries, buffered new items, "
            "buffered overwrites, TTL entries and blocked Waits exist (quiescent Clear, Clear with buffered gated items, "
            "Close followed by repeated calls); after Clear the dumps, RemainingCost and metrics are compared with the "
            "machine and checked to be those of an empty cache, and the following history must behave as on the machine "
            "(which restarts from an empty state); after Close every call must be inert; non-trivial = a Clear or Close ran")

    def gen(self, rng, n, ctx):
        cases = cachegen.gen_cases(rng, n, ctx, self.profiles)
        # make sure Clear/Close are frequent: append a closing script to most cases
        g = cachegen.Gen(rng, ctx.probe_data or {"item_size": 56, "start": cachegen.START_DEFAULT})
        for c in cases:
            if "close" in c.ops:
                continue
            if rng.random() < 0.6:
                c.ops += ["wait"] if rng.random() < 0.3 else []
                c.ops += ["clear", "tok", "tok", "tok", "dump", "rem", "metrics", "iter"]
                # the admission filter restarts too: every frequency estimate is 0 after Clear
                c.ops += [o.replace("est ", "estcheck ", 1).rsplit(" ", 1)[0] for o in c.ops if o.startswith("est ")][:8]
                if rng.random() < 0.6:
                    # a second life after Clear: inserts, an overwrite, a delete, drained; then the counters must relate to
                    # the accounting as on a fresh cache (the conservation laws of C17, applied after the Clear)
                    sets = [o.split() for o in c.ops if o.startswith("set ")]
                    if sets:
                        vmax = max(int(x[3]) for x in sets)
                        # Clear zeroes the frequency estimates: restore the case's distinct ones, else the eviction order
                        # among equals is Go's map order
                        life = []
                        for o in c.ops:
                            if not (o.startswith("est ") or o.startswith("estcheck ")):
                                break
                            life.append(o)
                        picked = rng.sample(sets, min(len(sets), rng.randrange(2, 6)))
                        for x in picked:
                            vmax += 1
                            life.append("set %s %s %d %s 0" % (x[1], x[2], vmax, x[4]))
                        life += ["tok"] * (len(picked) + 2) + ["wait"]
                        x = picked[0]
                        life += ["set %s %s %d %s 0" % (x[1], x[2], vmax + 1, x[4]), "tok", "tok",
                                 "del %s %s" % (picked[-1][1], picked[-1][2]), "tok", "tok", "tok", "wait", "tok",
                                 "dump", "metrics", "rem", "iter"]
                        c.ops += life
        return cases

    def oracle(self, case, il):
        fails = []
        tr = cachegen.Trace(case, il)
        max_cost = int(case.args[0])
        closed_at = None
        pending_close = None
        clear_done = None          # op index at which the last Clear completed
        pending_clear = None
        dirty = False              # any Set since the last completed Clear
        blocked_waits = set()
        est_set_since_clear = False
        accepted = []        # (op index, value) of the Sets that returned true
        exits = {}
        special = "profile:collide" in case.tags or any(o.startswith("closeset") or o.startswith("sweeprw") for o in case.ops)

        def all_released(upto, n, what):
            # every value accepted before op [upto] has been passed to OnExit (exactly once is C04's business; here: at all)
            if special:
                return
            for i, v in accepted:
                if i < upto and v not in exits:
                    fails.append("op %d: %s has returned but value %d, whose Set (op %d) returned true, was never passed to "
                                 "OnExit" % (n, what, v, i))
        for st in tr.steps:
            op, res = st["op"], st["res"]
            for cb in st["cbs"]:
                if cb.startswith("exit:"):
                    v = int(cb[5:])
                    exits[v] = exits.get(v, 0) + 1
                    if exits[v] == 2 and not special:
                        fails.append("op %d: value %d passed to OnExit a second time" % (st["n"], v))
            if op[0] == "set" and res[:1] == ["true"]:
                accepted.append((st["n"], int(op[3])))
            if op[0] in ("clear", "close") and res[:1] != ["blocked"]:
                all_released(st["n"], st["n"], "Clear" if op[0] == "clear" else "Close")
            for dn in st["done"]:
                if dn.isdigit() and int(dn) < len(tr.steps) and tr.steps[int(dn)]["op"][0] in ("clear", "close"):
                    all_released(int(dn), st["n"], "Clear" if tr.steps[int(dn)]["op"][0] == "clear" else "Close")
            if op[0] == "updmax":
                max_cost = int(op[1])
            if closed_at is not None and st["n"] > closed_at:
                want = {"set": ["false"], "get": ["0", "false"], "del": ["ok"], "wait": ["ok"], "clear": ["ok"],
                        "close": ["ok"], "iter": ["-"]}.get(op[0])
                if want is not None and res != want:
                    fails.append("op %d: %s on a closed cache returned %s" % (st["n"], op[0], res))
                if st["cbs"]:
                    fails.append("op %d: callbacks %s on a closed cache" % (st["n"], st["cbs"]))
                continue
            if op[0] == "wait" and res[:1] == ["blocked"]:
                blocked_waits.add(str(st["n"]))
            blocked_waits -= set(st["done"])
            if op[0] == "set" and res[:1] == ["true"]:
                dirty = True
            if op[0] in ("est", "get"):
                est_set_since_clear = True    # white-box est and (through the Get ring) Gets raise estimates again
            if op[0] in ("clear", "close"):
                if res[:1] == ["blocked"]:
                    if op[0] == "clear":
                        pending_clear = str(st["n"])
                    else:
                        pending_close = str(st["n"])
                else:
                    if op[0] == "clear":
                        clear_done, dirty, est_set_since_clear = st["n"], False, False
                    else:
                        closed_at = st["n"]
                    if blocked_waits:
                        fails.append("op %d: %s returned but Wait calls %s are still blocked" % (st["n"], op[0], sorted(blocked_waits)))
            if pending_clear and pending_clear in st["done"]:
                clear_done, dirty, pending_clear, est_set_since_clear = st["n"], False, None, False
            if pending_close and pending_close in st["done"]:
                closed_at, pending_close = st["n"], None
            if clear_done is not None and not dirty and st["n"] > clear_done:
                if op[0] == "dump":
                    d = parse_dump(st["raw"])
                    if d.get("store") or d.get("costs") or d.get("buckets") or d.get("used") != ["0"]:
                        fails.append("op %d: after Clear the cache is not empty: %s" % (st["n"], st["raw"][:120]))
                if op[0] == "rem" and int(res[0]) != max_cost:
                    fails.append("op %d: after Clear RemainingCost=%s, MaxCost=%d" % (st["n"], res[0], max_cost))
                if op[0] == "iter" and res != ["-"]:
                    fails.append("op %d: after Clear IterValues yields %s" % (st["n"], res))
                if op[0] == "estcheck" and not est_set_since_clear and res != ["0"]:
                    fails.append("op %d: after Clear the frequency estimate of %s is %s (a fresh cache has 0)" % (st["n"], op[1], res[0] if res else "?"))
                if op[0] == "metrics" and res[:1] != ["nil"] and any(int(x) != 0 for x in res[2:9]):
                    fails.append("op %d: after Clear the metrics are not reset: %s" % (st["n"], res))
        # "accepts and serves new writes as a fresh one would", with the same Config: after a Clear an overwrite displaces the
        # resident value (OnExit of the old value inside the Set call itself) only if Config.ShouldUpdate(new, old) says so
        # (harness: mode 1 = new > old, mode 2 = never).  Independent of the model.
        should_mode = case.args[4] if len(case.args) > 4 else "0"
        if should_mode in ("1", "2") and not special:
            cleared = False
            for st in tr.steps:
                op = st["op"]
                if op[0] == "clear":
                    cleared = True
                if cleared and op[0] == "set" and len(op) > 3:
                    # an ungated Set (explicit cost) is applied at once: evictions / rejections made on its behalf show up in
                    # the same step, each as evict:/reject:key:conflict:value:cost followed by exit:value -- not overwrites
                    by_policy = set()
                    for cb in st["cbs"]:
                        f = cb.split(":")
                        if f[0] in ("evict", "reject") and len(f) >= 4:
                            by_policy.add(f[3])
                    for cb in st["cbs"]:
                        if cb.startswith("exit:") and cb[5:].isdigit() and cb[5:] not in by_policy:
                            old_v, new_v = int(cb[5:]), int(op[3])
                            if old_v != new_v and (should_mode == "2" or new_v <= old_v):
                                fails.append("op %d: after Clear, Set(%s,%s) with value %d displaced the resident value %d although "
                                             "Config.ShouldUpdate(%d,%d) is false: not what a fresh cache with the same Config does"
                                             % (st["n"], op[1], op[2], new_v, old_v, new_v, old_v))
        # "accepts and serves new writes as a fresh one would": the counters that restart at Clear obey the conservation
        # laws from then on
        first_clear = None
        for st in tr.steps:
            if st["op"][0] == "clear":
                first_clear = st["n"]
                break
        if first_clear is not None and "profile:collide" not in case.tags:
            for f in C17.oracle(None, case, il):
                try:
                    n = int(f.split()[1].rstrip(":"))
                except (ValueError, IndexError):
                    continue
                if n > first_clear:
                    fails.append(f + " (after the Clear at op %d: not the counters of a fresh cache)" % first_clear)
        return fails

    def nontrivial(self, case, il):
        return any(o in ("clear", "close") for o in case.ops)


PROP = C15()
