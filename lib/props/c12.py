"""C12 — z.Allocator hands out disjoint, stable, exactly sized memory, also concurrently."""
import os
from ..core import Case
from ..prop import Prop, replay_body
from .. import core

MAXALLOC = 1 << 30
TWO32 = 1 << 32


class Sim:
    """Rough single-threaded picture of the allocator, used ONLY to aim request sizes at chunk ends while
    generating (never by the oracle).  If it drifts from the code the aim gets worse, nothing else."""

    def __init__(self, sz):
        sz = max(sz, 512)
        p = 1
        while p < sz:
            p *= 2
        self.chunks = [p] + [0] * 63
        self.c = 0
        self.off = 0

    def reset(self):
        self.c, self.off = 0, 0

    def remaining(self):
        return max(self.chunks[self.c] - self.off, 0)

    def next_len(self):
        return self.chunks[self.c + 1] if self.c + 1 < 64 else 0

    def add(self, sz):
        self.off += sz

    def trim(self, mx):
        tot = 0
        for i, l in enumerate(self.chunks):
            if l == 0:
                break
            tot += l
            if tot >= mx:
                self.chunks[i] = 0

    def alloc(self, sz):
        if sz == 0 or sz > MAXALLOC:
            return
        for _ in range(70):
            self.off += sz
            if self.off <= self.chunks[self.c]:
                return
            j = self.c + 1
            while j < 64 and self.chunks[j] != 0 and self.chunks[j] < sz:
                j += 1
            if j >= 64:
                return
            if self.chunks[j] == 0:
                p = 2 * self.chunks[j - 1] or 512
                while p < sz:
                    p *= 2
                self.chunks[j] = min(p, MAXALLOC)
            self.c += 1
            self.off = 0

    def total(self):
        return sum(self.chunks)


class C12(Prop):
    pid = "C12"
    shape_tie = "alloc"
    pkg = "z"
    quick_n = 400
    thorough_n = 6000
    race = True
    BUDGET = 48 << 20      # bytes of chunks one generated case may make the allocator acquire
    rule = ("single-threaded op sequences on allocators created with sizes 1/512/1000/4096/random: Allocate, "
            "AllocateAligned, Copy with sizes 0,1,7,8, small, exactly/one below/one above the room left in the current "
            "chunk, larger than the next chunk, up to a few MiB; Reset followed by a replay of the same requests; TrimTo "
            "(incl. below the first chunk) with and without Reset; pre-empted goroutines (white-box add to compIdx, "
            "up to 1 GiB each, total below 2^32 = no-carry regime; a few cases beyond it, classified as the known "
            "finding); every slice is located in a.buffers, stamped and re-verified; log2/first-chunk sweep; real "
            "concurrent stress (goroutines x calls, mixed sizes, -race in the thorough tier) judged by the oracle; "
            "non-trivial = a request crossed into another chunk, or a replay after Reset, or a pre-empted add")
    trusted = ["atomic.AddUint64/LoadUint64/StoreUint64 and sync.Mutex are atomic primitives (one model step each); "
               "the Go memory model below that grain is not modelled",
               "Reset and TrimTo are called while no Allocate is in flight (their documented use: AllocatorPool); "
               "the theorems state this as the guarded step relation",
               "no-carry regime: every executed fetch-and-add leaves the 32-bit offset half below 2^32 (finding carry "
               "outside it)",
               "a chunk is modelled by its length; Calloc returns zeroed memory whose address is a multiple of 8",
               "log2 of sizes below 1025 comes from a float table (math.Log2); compared, not proved"]

    # ------------------------------------------------------------------ generation
    def _size(self, rng, sim):
        r = rng.random()
        rem = sim.remaining()
        if r < 0.12:
            return rng.choice([0, 1, 7, 8, 9, 15, 16])
        if r < 0.40:
            return rng.randrange(1, 200)
        if r < 0.62:
            return max(0, rem + rng.choice([-9, -8, -7, -1, 0, 0, 1, 2, 7, 8]))
        if r < 0.72:
            nl = sim.next_len() or 2 * sim.chunks[sim.c]
            return nl + rng.choice([-1, 0, 1, 7, 100])
        if r < 0.80:
            return (512 << rng.randrange(0, 9)) + rng.choice([-8, -7, -1, 0, 1])
        if r < 0.95:
            return rng.randrange(1, 5000)
        return rng.randrange(1, 3 << 20)

    def _one(self, rng, j, nonce=""):
        init = rng.choice([1, 512, 1000, 4096, 4096, rng.randrange(1, 70000)])
        sim = Sim(init)
        ops = []
        epoch = []           # requests since the last reset
        inflight = 0         # bytes of requests + pre-empted adds since the last reset
        tags = set()
        nops = rng.randrange(6, 70)
        carry_case = (j % 97 == 13)

        def request(kind, n):
            nonlocal inflight
            need = n + 7 if kind == "aligned" else n
            if need > MAXALLOC:
                ops.append([kind, n])
                return
            trial = Sim(512)
            trial.chunks, trial.c, trial.off = list(sim.chunks), sim.c, sim.off
            trial.alloc(need)
            if trial.total() > self.BUDGET:     # (a chunk is twice its predecessor: pre-empted adds make them grow fast)
                return
            if kind == "copy":
                hexs = "".join("%02x" % rng.randrange(256) for _ in range(n)) or "-"
                ops.append(["copy", hexs])
            else:
                ops.append([kind, n])
            epoch.append(ops[-1])
            inflight += need
            sim.alloc(need)

        while len(ops) < nops:
            r = rng.random()
            if r < 0.50:
                request("alloc", max(0, self._size(rng, sim)))
            elif r < 0.62:
                n = max(0, self._size(rng, sim))
                request("aligned", max(0, n - rng.choice([0, 0, 7])))
            elif r < 0.70:
                request("copy", max(0, min(self._size(rng, sim), 300)))
            elif r < 0.76:
                ops.append(["alloc", MAXALLOC + rng.choice([1, 2, 1 << 20])] if rng.random() < 0.2 else ["size"])
            elif r < 0.82:
                ops += [["chunks"], ["allocated"], ["size"]]
            elif r < 0.86:
                ops.append(["verify"])
            elif r < 0.93:
                # Reset, then (mostly) replay what was asked since the previous Reset
                ops += [["verify"], ["chunks"], ["allocated"], ["reset"]]
                sim.reset()
                old = epoch
                epoch = []
                inflight = 0
                tags.add("reset")
                if old and rng.random() < 0.75:
                    k = len(old) if rng.random() < 0.7 else rng.randrange(1, len(old) + 1)
                    for o in old[:k]:
                        ops.append(list(o))
                        epoch.append(ops[-1])
                        need = (int(o[1]) + 7) if o[0] == "aligned" else (int(o[1]) if o[0] == "alloc" else
                                                                          (0 if o[1] == "-" else len(o[1]) // 2))
                        inflight += need
                        sim.alloc(need)
                    ops += [["allocated"], ["chunks"], ["verify"]]
                    tags.add("replay")
            elif r < 0.97:
                tot = sim.total()
                m = rng.choice([0, 1, 511, 512, 513, sim.chunks[0], sim.chunks[0] + 1, tot - 1, tot, tot + 1,
                                rng.randrange(0, tot + 2), 400 << 20])
                ops += [["trimto", max(m, 0)], ["chunks"], ["allocated"]]
                sim.trim(max(m, 0))
                tags.add("trim")
                if rng.random() < 0.6:
                    ops.append(["reset"])
                    sim.reset()
                    epoch = []
                    inflight = 0
            else:
                # a goroutine stopped right after its fetch-and-add
                sz = rng.choice([1, 8, 100, sim.remaining() + 1, rng.randrange(1, 5000), rng.randrange(1, 1 << 20),
                                 MAXALLOC, MAXALLOC - 1, rng.randrange(1, MAXALLOC)])
                if sz < 1:
                    sz = 1
                if inflight + sz + (8 << 20) < TWO32 - MAXALLOC:
                    ops.append(["preempt", sz])
                    inflight += sz
                    sim.add(sz)
                    tags.add("preempt")
        if carry_case:
            # outside the no-carry regime (known finding): >= 4 GiB of requests in flight in one chunk epoch
            # (never a real 1 GiB chunk: either the add of 1 GiB itself carries, or the requests are small)
            if rng.random() < 0.4:
                pre, req = TWO32 - MAXALLOC, MAXALLOC
            else:
                pre, req = TWO32 - rng.choice([100, 1, 5000]), rng.choice([200, 1, 6000])
            ops += [["reset"], ["preempt", pre], ["alloc", req], ["alloc", 5], ["size"], ["alloc", 600], ["chunks"]]
            tags.add("carry")
        ops += [["verify"], ["chunks"], ["allocated"], ["size"]]
        return Case("a%d%s" % (j, nonce), "alloc", [init], ops, tags)

    def gen(self, rng, n, ctx):
        xs = list(range(0, 1030)) + [2047, 2048, 2049, 4095, 4096, 4097, 65535, 65536, 65537, (1 << 20) - 1, 1 << 20,
                                     (1 << 20) + 1, (1 << 22) + 5]
        xs += [rng.randrange(1, 1 << 22) for _ in range(60)]
        # ids carry a nonce: lib/prop.py mixes a shrunk case with a freshly generated batch and keys outputs by id
        nonce = "x%04x" % rng.getrandbits(16)
        cases = [Case("log2" + nonce, "alloclog2", [], [[x] for x in xs])]
        for j in range(n):
            cases.append(self._one(rng, j, nonce))
        return cases

    # ------------------------------------------------------------------ oracle (independent of the Coq model)
    @staticmethod
    def _need(fs):
        if fs[0] == "alloc":
            return int(fs[1])
        if fs[0] == "aligned":
            return int(fs[1]) + 7
        return 0 if fs[1] == "-" else len(fs[1]) // 2

    def oracle(self, case, il):
        fails = []
        if case.comp == "alloclog2":
            for op, l in zip(case.ops, il):
                x = int(op)
                y = max(x, 512)
                k = y.bit_length() - 1
                first = (1 << k) if (1 << k) == y else (1 << (k + 1))
                want = "%d %d" % (max(x, 1).bit_length() - 1, first)
                if l != want:
                    fails.append("log2/first chunk of %d: %s, want %s" % (x, l, want))
            return fails
        if case.comp == "allocstress":
            for op, l in zip(case.ops, il):
                fs = op.split()
                if l == "skipped-after-hangs":
                    return fails
                if fs[0] == "stress" and l != "ok %d" % (int(fs[1]) * int(fs[2])):
                    fails.append("concurrent run: %s" % l)
                elif fs[0] == "reset" and l != "ok":
                    fails.append("reset: %s" % l)
                elif fs[0] == "mixed" and l != "ok %d" % int(fs[1]):
                    fails.append("concurrent run (small requests against requests that more than double): %s" % l)
            if len(il) < len(case.ops):
                fails.append("harness stopped after %d of %d ops" % (len(il), len(case.ops)))
            return fails

        ranges = {}          # chunk -> [(lo, hi)] handed out since the last Reset
        live = 0             # calls that returned memory since the last Reset
        asked = 0            # bytes requested since the last Reset
        epoch = []           # (request, result triple) since the last Reset
        prev_epoch = None    # ... of the epoch before, if it may be replayed (no TrimTo / pre-empted add since)
        prev_allocated = None
        last_allocated = None
        allocated_at = -1    # number of requests of the epoch when Allocated() was last read
        pure = True          # no TrimTo / pre-empted add in the current epoch
        lens = None          # last dump of chunk lengths
        trimmed = False      # a TrimTo happened since that dump
        if len(il) < len(case.ops):
            fails.append("harness stopped after %d of %d ops" % (len(il), len(case.ops)))
        for i, (op, l) in enumerate(zip(case.ops, il)):
            fs = op.split()
            ls = l.split()
            where = "op %d (%s)" % (i, op[:40])
            if l == "skipped-after-hangs":     # the harness stops creating allocators after three hung calls
                break
            if l in ("hang", "dead") or l.startswith("panic") or l in ("oob", "foreign") or l.startswith("badlen") \
                    or l.startswith("corrupt") or l == "badop":
                if fs[0] == "alloc" and int(fs[1]) > MAXALLOC and l == "panic toobig":
                    continue
                if fs[0] == "aligned" and int(fs[1]) + 7 > MAXALLOC and l == "panic toobig":
                    continue
                fails.append("%s -> %s" % (where, l))
                if l in ("hang", "dead"):
                    break
                continue
            if fs[0] in ("alloc", "aligned", "copy"):
                need = self._need(fs)
                want_len = int(fs[1]) if fs[0] != "copy" else need
                asked += need
                res = None
                if need == 0 and fs[0] != "aligned":
                    if l != "nil":
                        fails.append("%s -> %s, want nil" % (where, l))
                elif fs[0] == "aligned" and want_len == 0:
                    if l != "empty":
                        fails.append("%s -> %s, want an empty slice" % (where, l))
                    live += 1
                elif len(ls) < 4 or ls[0] != "r":
                    fails.append("%s -> %s" % (where, l))
                else:
                    c, off, ln = int(ls[1]), int(ls[2]), int(ls[3])
                    res = (c, off, ln)
                    live += 1
                    if ln != want_len:
                        fails.append("%s: length %d, asked %d" % (where, ln, want_len))
                    for (lo, hi) in ranges.get(c, []):
                        if off < hi and lo < off + ln:
                            fails.append("%s: [%d,%d) of chunk %d overlaps [%d,%d) handed out since the last Reset"
                                         % (where, off, off + ln, c, lo, hi))
                            break
                    ranges.setdefault(c, []).append((off, off + ln))
                    if lens is not None and not trimmed and c < len(lens) and lens[c] and off + ln > lens[c]:
                        fails.append("%s: [%d,%d) exceeds chunk %d of length %d" % (where, off, off + ln, c, lens[c]))
                    if fs[0] == "aligned" and ls[4:] != ["al=1", "zero=1"]:
                        fails.append("%s: not aligned/zeroed: %s" % (where, l))
                    if fs[0] == "copy" and (len(ls) != 5 or ls[4] != fs[1]):
                        fails.append("%s: copy differs from its source" % where)
                epoch.append((fs[0], fs[1], res))
                # replay of the previous epoch: same requests -> same ranges
                if prev_epoch is not None and pure and len(epoch) <= len(prev_epoch):
                    a = prev_epoch[len(epoch) - 1]
                    if all((x[0], x[1]) == (y[0], y[1]) for x, y in zip(epoch, prev_epoch)) and a[2] != res:
                        fails.append("%s: replay after Reset returned %s, the first time %s" % (where, res, a[2]))
            elif fs[0] == "reset":
                prev_epoch = epoch if pure else None
                prev_allocated = last_allocated if (pure and allocated_at == len(epoch)) else None
                allocated_at = -1
                epoch, ranges, live, asked, pure = [], {}, 0, 0, True
            elif fs[0] == "trimto":
                pure = False
                prev_epoch = None
                trimmed = True
            elif fs[0] == "preempt":
                pure = False
            elif fs[0] == "new":
                epoch, ranges, live, asked, pure, prev_epoch, lens = [], {}, 0, 0, True, None, None
            elif fs[0] == "verify":
                if l != "intact %d" % live:
                    fails.append("%s -> %s, want intact %d" % (where, l, live))
            elif fs[0] == "size":
                if not l.isdigit() or int(l) < asked and pure:
                    fails.append("%s: Size() = %s after %d bytes were requested" % (where, l, asked))
            elif fs[0] == "allocated":
                if not l.isdigit():
                    fails.append("%s -> %s" % (where, l))
                    continue
                last_allocated = int(l)
                allocated_at = len(epoch)
                if lens is not None and not trimmed and last_allocated < sum(lens):
                    fails.append("%s: Allocated() = %d below the chunks seen (%d)" % (where, last_allocated, sum(lens)))
                if prev_epoch is not None and pure and prev_allocated is not None and len(epoch) <= len(prev_epoch) \
                        and all((x[0], x[1]) == (y[0], y[1]) for x, y in zip(epoch, prev_epoch)) \
                        and last_allocated != prev_allocated:
                    fails.append("%s: replay after Reset acquired memory: Allocated() %d -> %d"
                                 % (where, prev_allocated, last_allocated))
            elif fs[0] == "chunks":
                if len(ls) != 2 or ls[1] != "stable":
                    fails.append("%s: a chunk moved: %s" % (where, l))
                new = [] if ls[0] == "-" else [int(x) for x in ls[0].split(",")]
                if lens is not None:
                    for k, x in enumerate(lens):
                        y = new[k] if k < len(new) else 0
                        if x and y != x and not (trimmed and y == 0):
                            fails.append("%s: chunk %d changed its length %d -> %d" % (where, k, x, y))
                for c, rs in ranges.items():
                    y = new[c] if c < len(new) else 0
                    if y and not trimmed and max(h for _, h in rs) > y:
                        fails.append("%s: a range handed out in chunk %d ends beyond its length %d" % (where, c, y))
                lens = new
                trimmed = False
        return fails

    def classify(self, case, failure):
        """failures outside the no-carry regime are instances of the known finding: in some Reset epoch the requests
        and pre-empted adds sum to 2^32 or more (the offset half of compIdx can carry only then)"""
        if case is None or case.comp != "alloc":
            return None
        tot = 0
        for op in case.ops:
            fs = op.split()
            if fs[0] in ("reset", "new"):
                tot = 0
            elif fs[0] == "preempt":
                tot += int(fs[1])
            elif fs[0] in ("alloc", "aligned", "copy"):
                tot += self._need(fs)
            if tot >= TWO32:
                return "carry"
        return None

    def nontrivial(self, case, il):
        if case.comp != "alloc":
            return True
        return any(l.startswith("r ") and l.split()[1] != "0" for l in il) or "replay" in case.tags \
            or "preempt" in case.tags

    def stats(self, cases, impl):
        st = {"cases": 0, "ops": 0, "alloc": 0, "aligned": 0, "copy": 0, "reset": 0, "trimto": 0, "preempt": 0,
              "replay_cases": 0, "trim_cases": 0, "preempt_cases": 0, "carry_cases": 0, "ranges": 0,
              "ranges_in_later_chunks": 0, "max_chunk_index": 0, "requests_over_1MiB": 0, "zero_sized": 0}
        for c in cases:
            if c.comp != "alloc":
                continue
            st["cases"] += 1
            st["ops"] += len(c.ops)
            for t in ("replay", "trim", "preempt", "carry"):
                if t in c.tags:
                    st[t + "_cases"] += 1
            for o, l in zip(c.ops, impl.get(c.id, [])):
                k = o.split()[0]
                if k in st:
                    st[k] += 1
                if k in ("alloc", "aligned", "copy"):
                    n = self._need(o.split())
                    if n >= 1 << 20:
                        st["requests_over_1MiB"] += 1
                    if n == 0:
                        st["zero_sized"] += 1
                    if l.startswith("r "):
                        st["ranges"] += 1
                        ci = int(l.split()[1])
                        if ci > 0:
                            st["ranges_in_later_chunks"] += 1
                        st["max_chunk_index"] = max(st["max_chunk_index"], ci)
        return st

    # ------------------------------------------------------------------ real concurrency (property oracle only)
    def _crash_culprit(self):
        """the main batch ran in one harness process; if that process died (memory budget, fatal error) its buffered
        output ends somewhere before the case that killed it: find that case by bisection, one process per half"""
        cf = os.path.join(core.BUILD, "cases_C12.txt")
        of = os.path.join(core.BUILD, "impl_C12.out")
        if not (os.path.exists(cf) and os.path.exists(of)):
            return None
        cases = core.parse_cases(cf)
        out = core.parse_output(of)
        first = None
        for k, c in enumerate(cases):
            if len(out.get(c.id, [])) < len(c.ops):
                first = k
                break
        if first is None:
            return None
        tcf = os.path.join(core.BUILD, "cases_C12_crash.txt")
        tof = os.path.join(core.BUILD, "impl_C12_crash.out")

        def dies(cs):
            core.write_cases(cs, tcf)
            if os.path.exists(tof):
                os.remove(tof)
            rc, log = core.run_harness("z", tcf, tof, timeout=600)
            return rc != 0, log

        cand = cases[first:]
        bad, log = dies(cand)
        if not bad:
            return None
        while len(cand) > 1:
            half = cand[:len(cand) // 2]
            b, l = dies(half)
            if b:
                cand, log = half, l
            else:
                cand = cand[len(cand) // 2:]
        b, l = dies(cand)
        if not b:
            return None
        c = cand[0]
        il = core.parse_output(tof).get(c.id, [])
        msg = [x for x in l.splitlines() if "verif:" in x or "fatal" in x or "panic" in x][:2]
        return ("the harness process dies while running this case: " + " | ".join(msg)[:300],
                replay_body(self, c, "harness process dies: " + " | ".join(msg)[:300], il, extra=l[-800:]))

    def extra(self, ctx):
        rng = ctx.rng
        cases = []
        crash = self._crash_culprit()
        if crash:
            return [crash]
        if ctx.tier == "quick":
            plan = [(8, 400, 4096), (32, 150, 600), (3, 300, 70000), (8, 4, 1 << 22)]
        else:
            plan = [(8, 2000, 4096), (64, 600, 600), (16, 2000, 3000), (4, 1500, 200000), (2, 4000, 64),
                    (48, 400, 20000), (8, 4, 1 << 22), (12, 3, 1 << 22)]
        for k, (g, m, mx) in enumerate(plan):
            init = rng.choice([1, 63, 512, 1000, 4096])
            ops = []
            for _ in range(2 if ctx.tier == "quick" else 3):
                ops += [["stress", g, m, rng.randrange(1, 1 << 30), mx], ["reset"]]
            cases.append(Case("stress%d" % k, "allocstress", [init], ops))
        mixed = Case("mixed0", "allocstress", [64], [["mixed", 1500 if ctx.tier == "quick" else 20000, 16]])
        out = []
        # the mixed-size rounds run without the race detector (their oracle is the overlap / stamp check; under -race
        # one round costs 0.4 s)
        cfm = os.path.join(core.BUILD, "cases_C12_mixed.txt")
        ofm = os.path.join(core.BUILD, "impl_C12_mixed.out")
        core.write_cases([mixed], cfm)
        if os.path.exists(ofm):
            os.remove(ofm)
        rcm, logm = core.run_harness("z", cfm, ofm, race=False, timeout=1500)
        ilm = core.parse_output(ofm).get(mixed.id, [])
        flm = self.oracle(mixed, ilm)
        if rcm != 0 and not flm:
            flm = ["harness exit %d" % rcm]
        ctx.notes.append("mixed-size rounds: %s" % (ilm[0] if ilm else "no output"))
        if flm:
            return [(flm[0], replay_body(self, mixed, "concurrent run fails the property oracle: " + flm[0], ilm, extra=logm[-1500:]))]
        race = ctx.tier == "thorough" and os.path.exists(os.path.join(core.BUILD, "z_race.test"))
        cf = os.path.join(core.BUILD, "cases_C12_stress.txt")
        of = os.path.join(core.BUILD, "impl_C12_stress.out")
        core.write_cases(cases, cf)
        if os.path.exists(of):
            os.remove(of)
        rc, log = core.run_harness("z", cf, of, race=race, timeout=1500)
        res = core.parse_output(of)
        ncalls = 0
        for c in cases:
            il = res.get(c.id, [])
            fl = self.oracle(c, il)
            if rc != 0 and not fl:
                fl = ["harness exit %d%s" % (rc, " (data race reported)" if "DATA RACE" in log else "")]
            for o, l in zip(c.ops, il):
                if l.startswith("ok ") and o.startswith("stress"):
                    ncalls += int(l.split()[1])
            if fl:
                out.append((fl[0], replay_body(self, c, "concurrent run fails the property oracle: " + fl[0], il,
                                               extra=log[-1500:])))
                break
        ctx.notes.append("concurrent stress: %d cases, %d calls from up to %d goroutines, race detector %s, exit %d"
                         % (len(cases), ncalls, max(p[0] for p in plan), "on" if race else "off", rc))
        return out


PROP = C12()
