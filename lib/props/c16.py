"""C16 — a persistent z.Tree reopens to the same contents."""
from ..core import Case
from ..prop import Prop
from .c10 import (PAGE_SIZES, M64, KMAX, KeyGen, ValGen, gen_history, tree_oracle, tree_features, tree_stats,
                  canon_line, max_keys, probe_ops, realloc_case, died)

MIN_SIZE = 1 << 20


def boundary_case(rng, cid, ps, delta, with_delete):
    """steer the number of allocated pages to the edge of the file: the fresh file is 1 MiB, data = file - 8 bytes,
    so pages 1..B-1 fit where B = (1 MiB - 8) // ps; the page count is driven to B-1+delta, then close/reopen, then
    more inserts (which have to grow the file or recycle pages), reopen again."""
    fit = (MIN_SIZE - 8) // ps - 1
    target = fit + delta
    ops = []
    v = rng.randrange(2, 50)
    start = rng.choice([1, 1, 1000, 1 << 33])
    step = rng.choice([1, 1, 2, 3])
    ops.append(["fill", start, step, v, target])
    ops += [["stats"], ["datalen"]]
    if with_delete:
        # low values on a stretch of keys, then DeleteBelow: pages are recycled right before the close
        lo = start + step * rng.randrange(0, 2000)
        for j in range(rng.randrange(50, 600)):
            ops.append(["set", lo + j * step, 1])
        ops += [["delbelow", 2], ["stats"]]
    ops += [["stats"], ["reopen"], ["stats"], ["datalen"], ["get", start], ["get", start + step], ["get", KMAX]]
    big = 1 << 40
    for j in range(rng.randrange(1, 4) * max_keys(ps)):
        ops.append(["set", big + j, v])
    ops += [["stats"], ["get", big], ["stats"], ["reopen"], ["stats"], ["datalen"], ["get", big], ["get", start]]
    return Case(cid, "tree", [ps, "persistent"], ops, tags=["boundary"])


def grown_case(rng, cid, ps):
    """the file has grown once before the close; after the reopen the tree keeps growing past the end of the reopened
    file (the buffer's idea of its capacity after NewTreePersistent on an existing, larger file)"""
    fit = (MIN_SIZE - 8) // ps - 1
    v = rng.randrange(2, 50)
    p1 = fit * rng.choice([12, 13, 15]) // 10
    p2 = fit * rng.choice([21, 22, 24]) // 10
    big = 1 << 40
    ops = [["fill", 1, 1, v, p1], ["stats"], ["datalen"], ["reopen"], ["stats"], ["datalen"], ["get", 1], ["get", 2],
           ["fill", big, 1, v, p2], ["stats"], ["datalen"], ["get", big], ["get", 1],
           ["reopen"], ["stats"], ["datalen"], ["get", big + 5], ["get", 3]]
    return Case(cid, "tree", [ps, "persistent"], ops, tags=["boundary", "grown"])


class C16(Prop):
    pid = "C16"
    pkg = "z"
    quick_n = 110
    thorough_n = 2500
    model_files = ["Tree/Node.v", "Tree/Tree.v", "Tree/Reopen.v"]
    rule = ("persistent trees on temp files, page sizes 80..4096; random Set/DeleteBelow/IterateKV histories (the C10 "
            "generator) with Close + NewTreePersistent at random points, in particular right after DeleteBelow has "
            "recycled pages and again after the refill; page counts steered (op 'fill') to the file-growth boundary "
            "(1 MiB - 8)/pageSize - {2,1,0,-1,-2} pages, e.g. 253..257 pages at 4 KiB, with and without recycled pages, "
            "then more inserts and a second reopen; compared with the extracted model line by line incl. len(data); "
            "oracle: contents vs. a Python dict, NumLeafKeys/NumPages/NumPagesFree equal across each reopen, no new "
            "page while recycled ones are free; non-trivial = a reopen of a tree that has split")
    trusted = ["mmap/msync/munmap/ftruncate preserve file contents and zero-fill on growth (clean close only)",
               "node.search is modelled as first_ge (C20); pages are modelled by their numKeys entries"]

    def gen(self, rng, n, ctx):
        cases = []
        thorough = ctx.tier == "thorough"
        nb = 12 if thorough else 4
        # boundary cases: 4 KiB pages are cheap (254 pages); the small page sizes need up to 13106 pages
        for j in range(nb):
            ps = 4096 if j % 2 == 0 else rng.choice([1024, 256] if not thorough else [80, 96, 128, 256, 1024])
            delta = [0, -1, 1, 2, -2][j % 5] if j >= 2 else 0
            cases.append(boundary_case(rng, "b%d" % j, ps, delta, with_delete=(j % 3 == 2)))
        for j in range(3 if thorough else 1):
            cases.append(grown_case(rng, "g%d" % j, 4096 if j == 0 else rng.choice([4096, 1024])))
        for j in range(40 if thorough else 8):
            cases.append(realloc_case(rng, "ra%d" % j, rng.choice([80, 80, 96, 128, 256, 1024]), "persistent", reopen=True))
        for j in range(n):
            ps = rng.choice([80, 80, 80, 96, 96, 128, 128, 256, 1024, 4096])
            length = rng.choice([30, 150, 600, 2000]) if thorough else rng.choice([20, 80, 250, 600])
            if ps >= 1024:
                length *= 3
            cases.append(Case("r%d" % j, "tree", [ps, "persistent"], gen_history(rng, ps, length, reopen=True)))
        return cases

    def canon(self, case, i, line):
        return canon_line(line)

    def oracle(self, case, il):
        return died(case, il) or tree_oracle(case, il)

    def nontrivial(self, case, il):
        f = tree_features(case, il)
        return f["reopen"] and f["split"]

    def stats(self, cases, impl):
        st = tree_stats(cases, impl)
        st["boundary_cases"] = sum(1 for c in cases if "boundary" in c.tags)
        return st


PROP = C16()
