"""C11 — z.Buffer returns what was written, in order, and sorts correctly."""
from ..core import Case
from ..prop import Prop

ONE_GB = 1 << 30
SWO = ("lex", "rlex", "len", "first")  # strict weak orders; lex / rlex (descending) are total on byte strings
ANY = ("true", "false", "cyc")         # not strict weak orders: only "a permutation" is promised


def fnv64(bs):
    h = 0xcbf29ce484222325
    for x in bs:
        h = ((h ^ x) * 0x100000001b3) & 0xFFFFFFFFFFFFFFFF
    return h


def hx(bs):
    return bytes(bs).hex() if len(bs) else "-"


def unhx(s):
    return b"" if s == "-" else bytes.fromhex(s)


def overlay(src, old):
    k = min(len(src), len(old))
    return bytes(src[:k]) + bytes(old[k:])


def less_fn(name):
    if name == "lex":
        return lambda a, b: a < b
    if name == "rlex":
        return lambda a, b: a > b
    if name == "len":
        return lambda a, b: len(a) < len(b)
    if name == "first":
        return lambda a, b: (len(b) > 0) and (len(a) == 0 or a[0] < b[0])
    return None


class Shadow:
    """capacity / mode bookkeeping exactly as the doc comment of Grow and the property text describe it"""

    def __init__(self, mode, cap, auto, maxsz):
        self.mode = "c" if mode == "calloc" else "m"
        self.cur = max(cap, 64)
        self.auto = auto
        self.maxsz = maxsz
        self.off = 8

    def refused(self, n):
        return self.maxsz > 0 and self.off + n > self.maxsz

    def grow(self, n):
        if self.off + n < self.cur:
            return
        g = min(self.cur + n, ONE_GB)
        g = max(g, n)
        self.cur += g
        if self.mode == "c" and self.auto > 0 and self.cur > self.auto:
            self.mode = "m"

    def room(self):
        return self.cur - self.off


def need(fs):
    """bytes an operation asks Grow for first (what the WithMaxSize check sees)"""
    k = fs[0]
    if k == "w":
        return len(unhx(fs[1]))
    if k == "ws":
        return 8 + len(unhx(fs[1]))
    if k in ("al", "ao", "grow"):
        return int(fs[1])
    if k == "sa":
        return 8 + int(fs[1])
    return None


def shadow_apply(sh, fs):
    """advance the shadow over one accepted mutating op"""
    k = fs[0]
    if k == "w":
        n = len(unhx(fs[1]))
        sh.grow(n)
        sh.off += n
    elif k in ("al", "ao"):
        n = int(fs[1])
        sh.grow(n)
        sh.off += n
    elif k in ("ws", "sa"):
        n = len(unhx(fs[1])) if k == "ws" else int(fs[1])
        sh.grow(8 + n)
        sh.grow(8)
        sh.off += 8
        sh.grow(n)
        sh.off += n
    elif k == "grow":
        sh.grow(int(fs[1]))
    elif k == "reset":
        sh.off = 8


def rnd_bytes(rng, n, alphabet=None):
    if alphabet:
        return bytes(rng.choice(alphabet) for _ in range(n))
    return bytes(rng.randrange(1, 256) for _ in range(n))


def pick_len(rng, room, extra=0):
    """lengths 0,1,7,8,9, around the room that is left (the Grow boundary), larger than the capacity"""
    r = room - extra
    cands = [0, 1, 7, 8, 9, r - 9, r - 8, r - 7, r - 2, r - 1, r, r + 1, r + 2, r + 8, 2 * r, 2 * r + 1,
             rng.randrange(0, 40), rng.randrange(0, 40), rng.randrange(40, 300), rng.randrange(300, 3000)]
    x = rng.choice(cands)
    return x if 0 <= x <= 6000 else rng.randrange(0, 20)


def fill_for(rng, n):
    r = rng.random()
    if r < 0.6:
        return rnd_bytes(rng, n)
    if r < 0.8:
        return b""
    return rnd_bytes(rng, rng.randrange(0, n + 3))


def header(rng, maxsz_p=0.3):
    mode = rng.choice(["calloc", "calloc", "mmap"])
    cap = rng.choice([0, 64, 65, 100, 1000, rng.randrange(1, 300)])
    auto = 0
    if mode == "calloc" and rng.random() < 0.6:
        auto = rng.choice([1, 64, 70, 128, 129, 200, 300, 1000, 2500, 5000])
    maxsz = 0
    if rng.random() < maxsz_p:
        maxsz = rng.choice([8, 9, 16, 50, 64, 100, 128, 200, 500, 1000, 4000, rng.randrange(8, 600)])
    return mode, cap, auto, maxsz


class C11(Prop):
    pid = "C11"
    pkg = "z"
    quick_n = 1000
    thorough_n = 20000
    rule = ("three families: (1) mixed Write/WriteSlice/Allocate/AllocateOffset/SliceAllocate/Grow/Reset sequences "
            "(fills: full, partial, none) with Bytes() compared after every mutation; (2) slice-only sequences read "
            "back through SliceOffsets/Slice/SliceIterate and sorted whole or between two slice boundaries; (3) sorter "
            "cases with 0,1,2,1023..1025,2047..2049,3071..3073 tiny slices.  Buffers: calloc / mmap (NewBufferTmp) / "
            "auto-mmap thresholds 1..5000 / WithMaxSize 8..4000, capacities 0,64,65,100,1000,random; lengths 0,1,7,8,9, "
            "room-9..room+8 around the Grow test, 2x room, up to 3000.  Comparators: bytewise (exact comparison with the "
            "model), by length / by first byte (weak orders: permutation + order checked), always-true / always-false / "
            "cyclic (no order: permutation checked).  non-trivial = the buffer grew, switched to mmap, refused an "
            "operation, or sorted at least two slices")
    trusted = ["sort.Slice: some permutation of the offsets, ordered when less is a strict weak order (hypotheses of the "
               "sort theorems; the runner instantiates it with a stable insertion sort)",
               "mmap/mremap/ftruncate keep the old file contents and extend with zeros; Calloc returns zeroed memory",
               "in-place merge: Go's copy is memmove and the write cursor never passes the right run's read cursor "
               "(argued in Sort.v, exercised by the correspondence, not a Coq theorem)",
               "no int overflow: offset + n < 2^63"]
    SORT_COUNTS = [0, 1, 2, 3, 1023, 1024, 1025, 2047, 2048, 2049, 3071, 3072, 3073]

    # ------------------------------------------------------------------ generators
    def gen_bytes(self, rng, cid):
        mode, cap, auto, maxsz = header(rng)
        sh = Shadow(mode, cap, auto, maxsz)
        ops = []
        for _ in range(rng.randrange(3, 28)):
            r = rng.random()
            if r < 0.30:
                o = ["w", hx(rnd_bytes(rng, pick_len(rng, sh.room())))]
            elif r < 0.45:
                o = ["ws", hx(rnd_bytes(rng, pick_len(rng, sh.room(), 8)))]
            elif r < 0.60:
                n = pick_len(rng, sh.room())
                o = ["al", n, hx(fill_for(rng, n))]
            elif r < 0.70:
                n = pick_len(rng, sh.room())
                o = ["ao", n, hx(fill_for(rng, n))]
            elif r < 0.80:
                n = pick_len(rng, sh.room(), 8)
                o = ["sa", n, hx(fill_for(rng, n))]
            elif r < 0.87:
                o = ["grow", pick_len(rng, sh.room())]
            else:
                o = ["reset"]
            fs = [str(x) for x in o]
            ops.append(fs)
            nd = need(fs)
            if not (nd is not None and sh.refused(nd)):
                shadow_apply(sh, fs)
            ops.append(["hex"] if sh.off < 200 and rng.random() < 0.5 else ["bytes"])
            if rng.random() < 0.1:
                ops.append(["lwp"])
        return Case(cid, "buffer", [mode, cap, auto, maxsz], ops, tags={"bytes"})

    def gen_slices(self, rng, cid):
        mode, cap, auto, maxsz = header(rng, 0.15)
        sh = Shadow(mode, cap, auto, maxsz)
        ops = []
        lens = []           # lengths of the slices currently in the buffer (to compute boundaries)
        weak = False
        alphabet = rng.choice([None, None, b"ab", b"\x00\x01\xff"])
        for _ in range(rng.randrange(2, 30)):
            r = rng.random()
            if r < 0.45 or (r < 0.75 and len(lens) < 3):
                n = rng.choice([0, 0, 1, 2, 3, 7, 8, 9, pick_len(rng, sh.room(), 8)])
                if rng.random() < 0.75:
                    fs = ["ws", hx(rnd_bytes(rng, n, alphabet))]
                else:
                    fs = ["sa", str(n), hx(fill_for(rng, n))]
                ops.append(fs)
                if not sh.refused(8 + n):
                    shadow_apply(sh, fs)
                    lens.append(n)
            elif r < 0.50:
                ops.append(["reset"])
                sh.off = 8
                lens = []
            elif r < 0.60:
                ops.append(["offs"])
            elif r < 0.70:
                offs = [8]
                for n in lens:
                    offs.append(offs[-1] + 8 + n)
                ops.append(["sl", rng.choice(offs + [offs[-1] + rng.randrange(0, 20)])])
            elif r < 0.78:
                ops.append(["iter"])
            elif r < 0.84:
                ops.append(["slices"])
            elif r < 0.88:
                ops.append(["hex"])
            elif not weak:
                offs = [8]
                for n in lens:
                    offs.append(offs[-1] + 8 + n)
                cmp_ = rng.choice(["lex", "lex", "lex", "len", "first", "true", "false", "cyc"])
                if rng.random() < 0.5:
                    ops.append(["sort", cmp_])
                else:
                    i, j = rng.choice(offs), rng.choice(offs)
                    if rng.random() < 0.7 and i > j:
                        i, j = j, i
                    if rng.random() < 0.05:
                        i = 0
                    ops.append(["sortb", i, j, cmp_])
                ops.append(["slices"])
                if cmp_ != "lex":
                    # lengths may have moved: from here on only order-insensitive reads
                    weak = True
                    ops += [["iter"], ["bytes"]]
                    break
                lens = None
                ops += [["iter"], ["hex"], ["offs"]]
                break
        if not weak:
            ops += [["offs"], ["slices"], ["iter"], ["bytes"]]
        return Case(cid, "buffer", [mode, cap, auto, maxsz], ops, tags={"slices"} | ({"weak"} if weak else set()))

    def gen_sort(self, rng, cid, count, cmp_, presorted=None):
        mode = rng.choice(["calloc", "calloc", "mmap"])
        cap = rng.choice([0, 64, 1000, 20000])
        auto = rng.choice([0, 0, 1000, 30000]) if mode == "calloc" else 0
        alphabet = rng.choice([b"abc", b"\x00\x01\x02\xff", bytes(range(1, 40))])
        maxlen = rng.choice([1, 2, 3])
        ops = []
        pre = rng.choice([0, 0, 1, 5]) if count < 3000 else 0
        for _ in range(pre + count):
            ops.append(["ws", hx(rnd_bytes(rng, rng.randrange(0, maxlen + 1), alphabet))])
        if presorted and less_fn(cmp_) is not None:
            # input that is already in order, or almost: in order except for a few elements placed right after an empty
            # slice, or for a few random swaps (fast paths for sorted input must still sort)
            import functools
            lt = less_fn(cmp_)
            body = sorted((unhx(o[1]) for o in ops[pre:]), key=functools.cmp_to_key(lambda a, b: -1 if lt(a, b) else (1 if lt(b, a) else 0)))
            if presorted == "afterempty":
                body = [x for x in body if x != b""]
                for _ in range(max(1, count // 300)):
                    if len(body) >= 2:
                        i = rng.randrange(0, len(body) - 1)
                        body[i + 1:i + 1] = [b""]           # an empty slice, then an element that belongs further up
                        body.insert(i + 2, body.pop(rng.randrange(0, i + 1)))
                body = body[:count] + [b""] * max(0, count - len(body))
            elif presorted == "swaps":
                for _ in range(max(1, count // 400)):
                    i, j = rng.randrange(len(body)), rng.randrange(len(body))
                    body[i], body[j] = body[j], body[i]
            ops = ops[:pre] + [["ws", hx(x)] for x in body]
        if pre:
            # sort only the last `count` slices: the boundary is computed from the lengths written
            off = 8
            for o in ops[:pre]:
                off += 8 + len(unhx(o[1]))
            end = off
            for o in ops[pre:]:
                end += 8 + len(unhx(o[1]))
            ops.append(["sortb", off, end, cmp_])
        else:
            ops.append(["sort", cmp_])
        ops.append(["slices"])
        ops.append(["iter"])
        ops.append(["bytes"])
        tags = {"sort", "n%d" % count}
        if cmp_ not in ("lex", "rlex"):
            tags.add("weak")
        return Case(cid, "buffer", [mode, cap, auto, 0], ops, tags=tags)

    def gen(self, rng, n, ctx):
        cases = []
        thorough = ctx.tier == "thorough"
        # (3) sorter sizes: every count with the total order; weak / lawless comparators on a rotating subset
        k = 0
        reps = 3 if thorough else 1
        for rep in range(reps):
            for cnt in self.SORT_COUNTS:
                cmps = ["lex"]
                if thorough or cnt < 1500:
                    cmps += [rng.choice(["len", "first"]), rng.choice(ANY)]
                else:
                    cmps.append(rng.choice(["len", "first", "true", "false", "cyc"]))
                for c in cmps:
                    cases.append(self.gen_sort(rng, "so%d" % k, cnt, c))
                    k += 1
        # (3b) input that is already in order or almost, under ascending, descending and length order
        for cnt in (3, 6, 40, 1024, 1025, 2500):
            for c in ("lex", "rlex", "len"):
                cases.append(self.gen_sort(rng, "so%d" % k, cnt, c, presorted=rng.choice(["sorted", "afterempty", "swaps"])))
                k += 1
                if cnt <= 40:
                    cases.append(self.gen_sort(rng, "so%d" % k, cnt, c, presorted="afterempty"))
                    k += 1
        # (4) capacity arithmetic around the 1 GiB clamp of Grow (virtual memory only, a few cases)
        G = 1 << 30
        ops = [["gb", c, 8, q] for c, q in
               [(64, G + rng.randrange(1, 1 << 20)), (rng.randrange(1 << 20, G), G - 8 + rng.randrange(0, 3)),
                (lambda c: (c, c - 8 + rng.randrange(0, 4096)))(G // 2 + rng.randrange(0, 4096))]]
        # (every request needs growth: offset + n >= the capacity the harness claims - the claimed capacity has no memory
        # behind it, so a Grow that rightly does nothing would leave the harness's 64 real bytes on show)
        cases.append(Case("gc0", "growcap", [], ops, tags={"growcap"}))
        for j in range(n):
            if j % 2 == 0:
                cases.append(self.gen_bytes(rng, "by%d" % j))
            else:
                cases.append(self.gen_slices(rng, "sl%d" % j))
        return cases

    # ------------------------------------------------------------------ comparison
    def canon(self, case, i, line):
        if "weak" not in case.tags or i >= len(case.ops):
            return line
        # after a sort with a comparator that is not a total order the arrangement of equivalent slices is
        # sort.Slice's choice: compare multisets here, the oracle checks order and permutation
        seen_sort = any(o.split()[0] in ("sort", "sortb") for o in case.ops[:i])
        if not seen_sort:
            return line
        k = case.ops[i].split()[0]
        if k in ("slices", "iter"):
            return ",".join(sorted(line.split(",")))
        if k == "bytes":
            return line.split()[0] if line.split() else line
        return line

    # ------------------------------------------------------------------ oracle
    def well_formed(self, case):
        """SortSliceBetween's precondition, decided from the case alone: start/end of the first sort are slice
        boundaries of a buffer made of slices only (shrinking can produce cases that violate it; the code then
        dies in a failed assert, which says nothing about the property)"""
        if case.comp == "growcap":
            return True
        sh = Shadow(case.args[0], int(case.args[1]), int(case.args[2]), int(case.args[3]))
        lens = []
        for op in case.ops:
            fs = op.split()
            k = fs[0]
            nd = need(fs)
            if nd is not None:
                if sh.refused(nd):
                    continue
                shadow_apply(sh, fs)
                if k == "ws":
                    lens.append(len(unhx(fs[1])))
                elif k == "sa":
                    lens.append(int(fs[1]))
                elif k != "grow" and nd > 0:
                    lens = None
                if lens is None:
                    return not any(o.split()[0] in ("sort", "sortb") for o in case.ops)
            elif k == "reset":
                lens = []
                sh.off = 8
            elif k == "sort":
                return True
            elif k == "sortb":
                s0, e0 = int(fs[1]), int(fs[2])
                if s0 >= e0 or s0 == 0:
                    continue
                offs = [8]
                for n in lens:
                    offs.append(offs[-1] + 8 + n)
                return s0 in offs and e0 in offs
        return True

    def oracle(self, case, il):
        fails = []
        if case.comp == "growcap":
            # spec: after Grow(n) there is room for n more bytes
            if len(il) < len(case.ops):
                return ["Grow at the 1 GiB clamp: implementation produced %d of %d result lines (panic?)" % (len(il), len(case.ops))]
            for i, (op, l) in enumerate(zip(case.ops, il)):
                fs = op.split()
                if fs[0] == "gb":
                    cur, off, n = int(fs[1]), int(fs[2]), int(fs[3])
                    got = l.split()
                    if off + n < cur:
                        # enough capacity already (the harness only claimed it): Grow must leave the buffer alone
                        if len(got) != 2 or int(got[0]) != cur:
                            fails.append("op %d `%s` -> `%s`: Grow(%d) at offset %d with capacity %d must not change the capacity" % (i, op, l, n, off, cur))
                    elif len(got) != 2 or int(got[0]) < off + n or int(got[1]) < off + n:
                        fails.append("op %d `%s` -> `%s`: after Grow(%d) at offset %d the capacity must be at least %d" % (i, op, l, n, off, off + n))
            return fails
        if not self.well_formed(case):
            return []
        if len(il) < len(case.ops):
            return ["implementation produced %d of %d result lines (crash / fatal assert?)" % (len(il), len(case.ops))]
        mode, cap, auto, maxsz = case.args[0], int(case.args[1]), int(case.args[2]), int(case.args[3])
        sh = Shadow(mode, cap, auto, maxsz)
        data = b""            # what Bytes() must hold
        slices = []           # the slices written since the last Reset (None once a raw Write/Allocate was mixed in)
        fresh = True          # no Reset yet: allocated memory must be zero
        pending_sort = None   # (before list, lo index, hi index, cmp) awaiting the next `slices` line

        def bad(i, msg):
            fails.append("op %d `%s` -> `%s`: %s" % (i, case.ops[i][:60], il[i][:80], msg))

        for i, (op, l) in enumerate(zip(case.ops, il)):
            fs = op.split()
            k = fs[0]
            out = l.split()
            if len(fails) > 3:
                break
            if k == "sortb" and int(fs[1]) < int(fs[2]) and int(fs[1]) != 0:
                # start/end must be slice boundaries (the API's precondition); a case that violates it
                # (only the shrinker makes such cases) says nothing about the property
                bounds = None
                if slices is not None:
                    bounds = [8]
                    for s_ in slices:
                        bounds.append(bounds[-1] + 8 + len(s_))
                if bounds is None or int(fs[1]) not in bounds or int(fs[2]) not in bounds:
                    break
            if l.startswith("panic") and l != "panic maxsize" and not (k == "sortb" and fs[1] == "0"):
                bad(i, "unexpected panic")
                break
            nd = need(fs)
            if nd is not None:
                refuse = sh.refused(nd)
                if refuse != (l == "panic maxsize"):
                    bad(i, "WithMaxSize(%d): offset %d + %d should %sbe refused" % (maxsz, sh.off, nd, "" if refuse else "not "))
                    break
                if refuse:
                    continue        # nothing may have changed: the following reads check that
                shadow_apply(sh, fs)
                st = out[-4:]
                if k == "w":
                    p = unhx(fs[1])
                    if out[0] != str(len(p)):
                        bad(i, "Write returned %s" % out[0])
                    data += p
                    slices = None
                elif k == "ws":
                    p = unhx(fs[1])
                    data += len(p).to_bytes(8, "big") + p
                    if slices is not None:
                        slices.append(p)
                elif k in ("al", "ao", "sa"):
                    n = int(fs[1])
                    stale = unhx(out[1])
                    if len(stale) != n:
                        bad(i, "allocated %d bytes, want %d" % (len(stale), n))
                        break
                    if fresh and any(stale):
                        bad(i, "freshly allocated memory is not zero")
                    content = overlay(unhx(fs[2]), stale)
                    want_off = 8 + len(data) + (8 if k == "sa" else 0)
                    if out[0] != str(want_off):
                        bad(i, "offset %s, want %d" % (out[0], want_off))
                    if k == "sa":
                        data += n.to_bytes(8, "big") + content
                        if slices is not None:
                            slices.append(content)
                    else:
                        data += content
                        if n > 0:
                            slices = None
                if st != [str(len(data)), str(sh.cur), sh.mode, "t" if not data else "f"]:
                    bad(i, "state (LenNoPadding curSz mode empty) should be %d %d %s %s" % (
                        len(data), sh.cur, sh.mode, "t" if not data else "f"))
                if maxsz > 0 and 8 + len(data) > max(maxsz, 8):
                    bad(i, "LenWithPadding %d exceeds WithMaxSize(%d)" % (8 + len(data), maxsz))
                continue
            if k == "reset":
                data = b""
                slices = []
                fresh = False
                sh.off = 8
                if out[-4:] != ["0", str(sh.cur), sh.mode, "t"]:
                    bad(i, "state after Reset")
            elif k == "bytes":
                if pending_sort is not None:
                    if out[0] != str(len(data)):
                        bad(i, "Bytes() has length %s, want %d" % (out[0], len(data)))
                elif out != [str(len(data)), str(fnv64(data))]:
                    bad(i, "Bytes() differs from what was written (want len %d fnv %d)" % (len(data), fnv64(data)))
            elif k == "hex":
                if unhx(l) != data:
                    bad(i, "Bytes() differs from what was written (want %s)" % hx(data)[:80])
            elif k == "lwp":
                if l != str(8 + len(data)):
                    bad(i, "LenWithPadding")
            elif k in ("offs", "sl", "iter", "slices") and slices is not None:
                offs = [8]
                for s in slices:
                    offs.append(offs[-1] + 8 + len(s))
                end = offs[-1]
                if k == "offs":
                    want = offs[:-1] if slices else [8]
                    if out != [str(x) for x in want]:
                        bad(i, "SliceOffsets, want %s" % want[:12])
                elif k == "sl":
                    o = int(fs[1])
                    if o >= end:
                        want = "- -1"
                    elif o not in offs:
                        continue
                    else:
                        j = offs.index(o)
                        nxt = offs[j + 1]
                        want = "%s %d" % (hx(slices[j]), -1 if nxt >= end else nxt)
                    if l != want:
                        bad(i, "Slice(%d), want %s" % (o, want[:60]))
                elif k == "iter":
                    want = [hx(s) for s in slices if len(s)]
                    if l != (",".join(want) if want else "none"):
                        bad(i, "SliceIterate does not yield the non-empty slices written, in order")
                elif k == "slices":
                    got = [] if l == "none" else [unhx(x) for x in l.split(",")]
                    if pending_sort is not None:
                        before, lo, hi, cmp_ = pending_sort
                        pending_sort = None
                        want_all = before if before else [b""]
                        if len(got) != len(want_all):
                            bad(i, "sort changed the number of slices: %d -> %d" % (len(want_all), len(got)))
                            break
                        if not before:
                            got = []
                        if got[:lo] != before[:lo] or got[hi:] != before[hi:]:
                            bad(i, "sort touched slices outside [start,end)")
                        if sorted(got[lo:hi]) != sorted(before[lo:hi]):
                            bad(i, "sorted range is not a permutation of the slices before")
                        lt = less_fn(cmp_)
                        if lt is not None:
                            for a, b in zip(got[lo:hi], got[lo + 1:hi]):
                                if lt(b, a):
                                    bad(i, "adjacent inversion after sort %s: %s before %s" % (cmp_, hx(a)[:20], hx(b)[:20]))
                                    break
                        if cmp_ in ("lex", "rlex") and got[lo:hi] != sorted(before[lo:hi], reverse=(cmp_ == "rlex")):
                            bad(i, "bytewise sort result differs from the sorted list")
                        slices = got
                        data = b"".join(len(s).to_bytes(8, "big") + s for s in slices)
                    else:
                        want = slices if slices else [b""]
                        if got != want:
                            bad(i, "SliceOffsets+Slice do not give back the slices written")
            elif k in ("sort", "sortb"):
                if slices is None:
                    continue
                offs = [8]
                for s in slices:
                    offs.append(offs[-1] + 8 + len(s))
                if k == "sort":
                    lo, hi, cmp_ = 0, len(slices), fs[1]
                    s0, e0 = 8, offs[-1]
                else:
                    s0, e0, cmp_ = int(fs[1]), int(fs[2]), fs[3]
                    if s0 >= e0:
                        lo = hi = 0
                    elif s0 == 0:
                        if l != "panic start can never be zero":
                            bad(i, "start == 0 must panic")
                        continue
                    elif s0 not in offs or e0 not in offs:
                        slices = None
                        continue
                    else:
                        lo, hi = offs.index(s0), offs.index(e0)
                if not l.startswith("ok "):
                    bad(i, "sort failed")
                    break
                if out[-4:] != [str(len(data)), str(sh.cur), sh.mode, "t" if not data else "f"]:
                    bad(i, "sort changed length / capacity / mode")
                pending_sort = (list(slices), lo, hi, cmp_)
        return fails

    def nontrivial(self, case, il):
        curs = set()
        modes = set()
        for op, l in zip(case.ops, il):
            k = op.split()[0]
            if l == "panic maxsize":
                return True
            if k in ("w", "ws", "al", "ao", "sa", "grow", "reset", "sort", "sortb"):
                out = l.split()
                if len(out) >= 4:
                    curs.add(out[-3])
                    modes.add(out[-2])
        n_sl = sum(1 for o in case.ops if o.split()[0] in ("ws", "sa"))
        sorted_ = any(o.split()[0] in ("sort", "sortb") for o in case.ops) and n_sl >= 2
        return len(curs) > 1 or len(modes) > 1 or sorted_

    def stats(self, cases, impl):
        st = {"cases_bytes": 0, "cases_slices": 0, "cases_sort": 0, "calloc": 0, "mmap": 0, "auto_mmap": 0,
              "maxsize": 0, "ops": 0, "growths": 0, "mode_switches": 0, "refused": 0, "sorts": {}, "sort_counts": {},
              "max_len_no_padding": 0}
        for c in cases:
            for t in ("bytes", "slices", "sort"):
                if t in c.tags:
                    st["cases_" + t] += 1
            if c.comp == "growcap":
                st["growcap_ops"] = st.get("growcap_ops", 0) + len(c.ops)
                continue
            st[c.args[0]] = st.get(c.args[0], 0) + 1
            st["auto_mmap"] += c.args[2] != "0"
            st["maxsize"] += c.args[3] != "0"
            st["ops"] += len(c.ops)
            for t in c.tags:
                if t.startswith("n") and t[1:].isdigit():
                    st["sort_counts"][t[1:]] = st["sort_counts"].get(t[1:], 0) + 1
            prev = None
            for op, l in zip(c.ops, impl.get(c.id, [])):
                fs = op.split()
                if l == "panic maxsize":
                    st["refused"] += 1
                if fs[0] in ("sort", "sortb"):
                    st["sorts"][fs[-1]] = st["sorts"].get(fs[-1], 0) + 1
                out = l.split()
                if fs[0] in ("w", "ws", "al", "ao", "sa", "grow", "reset") and len(out) >= 4 and out[-2] in ("c", "m"):
                    cur = (out[-3], out[-2])
                    if prev and cur[0] != prev[0]:
                        st["growths"] += 1
                    if prev and cur[1] != prev[1]:
                        st["mode_switches"] += 1
                    prev = cur
                    if out[-4].isdigit():
                        st["max_len_no_padding"] = max(st["max_len_no_padding"], int(out[-4]))
        return st


PROP = C11()
