"""C01 — Get returns only values that were written under that very key."""
from ..cacheprop import CacheProp
from .. import cachegen


class C01(CacheProp):
    pid = "C01"
    profiles = ["collide", "basic", "collide", "tinybuf", "ttl", "should", "collide", "roomy"]
    rule = ("gate-controlled histories over key sets engineered (Config.KeyToHash) so that >= 40% of the keys share their "
            "primary hash with another key (conflict hashes equal, different, or zero), with evictions, drops, TTL expiry, "
            "Clear and Close; every Get result compared with the machine and checked against the table value -> key it was "
            "Set under; non-trivial = an eviction, rejection or blocked call occurred"
            " Plus, as search only: the concurrent stress harness (2..64 goroutines, all calls) with the oracle 'a Get never returns a value that was Set under another key'.")

    def oracle(self, case, il):
        fails = []
        tr = cachegen.Trace(case, il)
        seen = {}
        for st in tr.steps:
            op = st["op"]
            if op[0] == "set":
                seen[int(op[3])] = (int(op[1]), int(op[2]), st["n"])
            if op[0] == "get" and st["res"][1:2] == ["true"]:
                v = int(st["res"][0])
                k, c = int(op[1]), int(op[2])
                if v not in seen:
                    fails.append("op %d: Get(%d,%d) returned value %d that no earlier Set supplied" % (st["n"], k, c, v))
                else:
                    sk, sc, _ = seen[v]
                    if sk != k or not (c == 0 or c == sc):
                        fails.append("op %d: Get(%d,%d) returned value %d which was Set under key (%d,%d)" % (
                            st["n"], k, c, v, sk, sc))
        return fails

    stress_kinds = ("wrongkey",)


PROP = C01()
