"""C01 — Get returns only values that were written under that very key."""
from ..cacheprop import CacheProp
from ..core import Case
from .. import cachegen

M64 = (1 << 64) - 1
INT_KINDS = {"uint64": (0, M64), "byte": (0, 255), "uint": (0, M64), "int": (-(1 << 63), (1 << 63) - 1),
             "int32": (-(1 << 31), (1 << 31) - 1), "uint32": (0, (1 << 32) - 1), "int64": (-(1 << 63), (1 << 63) - 1)}


def _payload(rng, kind):
    if kind in ("string", "bytes"):
        n = rng.choice([0, 1, 2, 3, 4, 5, 7, 8, 9, 12, 15, 16, 17, 31, 32, 33, 36, 40, 63, 64, 65, 95, 96, 100, 131])
        r = rng.random()
        if r < 0.2:
            b = bytes([rng.choice([0, 255, 0x61])] * n)
        elif r < 0.4:
            b = bytes((i * 7 + 1) & 255 for i in range(n))
        else:
            b = bytes(rng.getrandbits(8) for _ in range(n))
        return b.hex() if b else "-"
    lo, hi = INT_KINDS[kind]
    r = rng.random()
    if r < 0.4:
        return str(rng.choice([lo, hi, 0, 1, min(hi, 255), lo + 1, hi - 1, max(lo, -1)]))
    return str(rng.randint(lo, hi))


def _near(rng, kind, p):
    """a different key of the same kind, close to p"""
    if kind in ("string", "bytes"):
        b = bytearray(bytes.fromhex(p) if p != "-" else b"")
        r = rng.random()
        if not b or r < 0.25:
            b.append(rng.getrandbits(8))
        elif r < 0.5:
            b.pop()
        else:
            i = rng.randrange(len(b))
            b[i] ^= 1 << rng.randrange(8)
        return bytes(b).hex() if b else "-"
    lo, hi = INT_KINDS[kind]
    v = int(p)
    for _ in range(20):
        w = rng.choice([v + 1, v - 1, v ^ (1 << rng.randrange(8)), rng.randint(lo, hi), -v])
        if lo <= w <= hi and w != v:
            return str(w)
    return str(lo if v != lo else hi)


def keyhash_cases(rng, n):
    kinds = ["string", "bytes"] * 3 + sorted(INT_KINDS)
    cases = []
    for j in range(n):
        ops = []
        for _ in range(12):
            kind = rng.choice(kinds)
            p = _payload(rng, kind)
            ops.append(["k2h", kind, 0, p])
            ops.append(["k2h", kind, 1, p])
            if kind in ("string", "bytes"):
                ops.append(["k2h", "bytes" if kind == "string" else "string", rng.randrange(2), p])
        for _ in range(3):
            kind = rng.choice(kinds)
            p = _payload(rng, kind)
            named = rng.randrange(2)
            ops.append(["e2e", kind, named, p, _near(rng, kind, p)])
            ops.append(["e2e", kind, named, p, p])
        cases.append(Case("kh%d" % j, "keyhash", [], ops, tags=["profile:keyhash"]))
    return cases



class C01(CacheProp):
    pid = "C01"
    profiles = ["collide", "basic", "collide", "tinybuf", "ttl", "should", "collide", "roomy"]
    rule = ("gate-controlled histories over key sets engineered (Config.KeyToHash) so that >= 40% of the keys share their "
            "primary hash with another key (conflict hashes equal, different, or zero), with evictions, drops, TTL expiry, "
            "Clear and Close; every Get result compared with the machine and checked against the table value -> key it was "
            "Set under; non-trivial = an eviction, rejection or blocked call occurred"
            " Plus, as search only: the concurrent stress harness (2..64 goroutines, all calls) with the oracle 'a Get never returns a value that was Set under another key'.")

    def gen(self, rng, n, ctx):
        cases = super().gen(rng, n, ctx)
        # two keys sharing the primary hash, the resident one with a TTL that elapses without being swept, the accounting
        # made to forget the hash (a Del of the twin), then the twin is Set: the dead entry's conflict hash must still
        # keep the twin's value apart
        pd = ctx.probe_data or {"item_size": 56, "start": cachegen.START_DEFAULT}
        g = cachegen.Gen(rng, pd)
        for j in range(max(2, n // 40)):
            h = cachegen.mix(1200 + j)
            bdur = rng.choice([1, 5])
            ttl = rng.choice([10 ** 9, 2 * 10 ** 9])
            ops = [["set", h, 10, 11, 30, ttl], ["tok"], ["wait"], ["del", h, 11], ["tok"], ["wait"],
                   ["tick", ttl + rng.choice([1, 10 ** 9])], ["get", h, 10], ["set", h, 11, 12, 30, rng.choice([0, 60 * 10 ** 9])],
                   ["tok"], ["tok"], ["wait"], ["get", h, 10], ["get", h, 11], ["ttl", h, 10], ["iter"], ["dump"],
                   ["sweep"], ["get", h, 10], ["get", h, 11], ["dump"]]
            cases.append(cachegen.Case("ce%d" % j, "cache", g.header(1000, 8, True, True, 0, bdur), ops,
                                       tags=["profile:collide"]))
        return cases + keyhash_cases(rng, max(3, n // 25))

    def annotate(self, case, impl_lines):
        if case.comp != "keyhash":
            return super().annotate(case, impl_lines)
        ops = []
        for o, l in zip(case.ops, impl_lines):
            fs = l.split()
            ops.append(o + " " + fs[2] if o.startswith("k2h") and len(fs) == 3 else o + (" -" if o.startswith("k2h") else ""))
        ops += [o + " -" if o.startswith("k2h") else o for o in case.ops[len(ops):]]
        return Case(case.id, case.comp, case.args, ops, case.tags)

    def canon(self, case, i, line):
        return line if case.comp == "keyhash" else super().canon(case, i, line)

    def nontrivial(self, case, il):
        return True if case.comp == "keyhash" else super().nontrivial(case, il)

    def keyhash_oracle(self, case, il):
        """independent of the model: equal contents -> equal pair whatever the kind (string / []byte, named or not); integer
        kinds -> (uint64(k), 0); distinct keys of a case never share the full pair; with the default hash a value set under
        one key is not served for another"""
        fails = []
        pairs = {}
        for n, (o, l) in enumerate(zip(case.ops, il)):
            f, r = o.split(), l.split()
            if f[0] == "k2h":
                if len(r) != 3 or not r[0].isdigit():
                    fails.append("op %d `%s`: KeyToHash failed: %s" % (n, o, l))
                    continue
                h, c = int(r[0]), int(r[1])
                if f[1] in INT_KINDS:
                    if (h, c) != (int(f[3]) & M64, 0):
                        fails.append("op %d `%s`: KeyToHash = (%d,%d), expected (%d,0)" % (n, o, h, c, int(f[3]) & M64))
                    continue
                if r[2] != "-" and h != int(r[2]):
                    fails.append("op %d `%s`: primary hash %d is not MemHash(contents) = %s" % (n, o, h, r[2]))
                for q, (h2, c2) in pairs.items():
                    if q != f[3] and (c2 == c):
                        fails.append("op %d `%s`: keys with contents %s and %s get the same conflict hash %d: "
                                     "a value written under one is served for the other" % (n, o, q, f[3], c))
                    if q == f[3] and (h2, c2) != (h, c):
                        fails.append("op %d `%s`: equal contents, different pairs (%d,%d) vs (%d,%d)" % (n, o, h, c, h2, c2))
                pairs[f[3]] = (h, c)
            elif f[0] == "e2e":
                same = f[3] == f[4] or (f[1] in INT_KINDS and int(f[3]) == int(f[4]))
                if not l.startswith("set=true get1=7,true"):
                    fails.append("op %d `%s`: default-hash cache did not store / serve the key: %s" % (n, o, l))
                elif not same and not l.endswith("get2=0,false"):
                    fails.append("op %d `%s`: Get of a different key returned the value set under the first: %s" % (n, o, l))
                elif same and not l.endswith("get2=7,true"):
                    fails.append("op %d `%s`: Get of an equal key missed: %s" % (n, o, l))
        return fails[:5]

    def oracle(self, case, il):
        if case.comp == "keyhash":
            return self.keyhash_oracle(case, il)
        fails = []
        tr = cachegen.Trace(case, il)
        seen = {}
        for st in tr.steps:
            op = st["op"]
            if op[0] == "set":
                seen[int(op[3])] = (int(op[1]), int(op[2]), st["n"])
            if op[0] == "get" and st["res"][1:2] == ["true"]:
                v = int(st["res"][0])
                k, c = int(op[1]), int(op[2])
                if v not in seen:
                    fails.append("op %d: Get(%d,%d) returned value %d that no earlier Set supplied" % (st["n"], k, c, v))
                else:
                    sk, sc, _ = seen[v]
                    if sk != k or not (c == 0 or c == sc):
                        fails.append("op %d: Get(%d,%d) returned value %d which was Set under key (%d,%d)" % (
                            st["n"], k, c, v, sk, sc))
        return fails

    stress_kinds = ("wrongkey",)


PROP = C01()
