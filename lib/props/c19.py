"""C19 — Bloom filter: no false negatives, faithful serialization."""
import os
from ..core import Case
from ..prop import Prop
from .. import core

M64 = (1 << 64) - 1


def special_hash(rng):
    hi = rng.choice([0, 0xFFFFFFFF, rng.getrandbits(32)])
    lo = rng.choice([0, 0xFFFFFFFF, rng.getrandbits(32)])
    r = rng.random()
    if r < 0.15:
        return rng.choice([0, M64, 1, 1 << 63, (1 << 32) - 1, M64 << 32 & M64])
    if r < 0.5:
        return (hi << 32) | lo
    return rng.getrandbits(64)


class C19(Prop):
    pid = "C19"
    pkg = "z"
    quick_n = 120
    thorough_n = 2500
    rule = ("filters of 2^9..2^16 bits x 1..14 locations built by both constructors ((entries,locs) and "
            "(entries,fp-rate), the latter probed), random Add/Has/AddIfNotHas/Clear/JSON round trips with hashes "
            "whose halves are 0/all-ones/random; byte dump of the bit set compared after mutations; getSize on "
            "boundaries; non-trivial = a Has hit or a JSON round trip on a non-empty filter")
    trusted = ["encoding/json round-trips ([]byte, uint64) exactly (the real Marshal/Unmarshal run in the harness)",
               "(entries, fp-rate) -> (size, locs) is float arithmetic; probed from the implementation"]
    FP = [(1000, 1, 100), (100, 1, 1000), (5000, 3, 100), (10, 1, 2), (20000, 1, 100), (700, 9, 10)]

    def probe(self, ctx):
        c = Case("probe", "probe", [], [["bloomfp", e, n, d] for (e, n, d) in self.FP])
        cf = os.path.join(core.BUILD, "probe_C19.txt")
        out = os.path.join(core.BUILD, "probe_C19.out")
        core.write_cases([c], cf)
        core.run_harness("z", cf, out)
        lines = core.parse_output(out).get("probe", [])
        res = {}
        for k, l in zip(self.FP, lines):
            fs = l.split()
            if len(fs) == 2 and fs[0].isdigit():
                res[k] = (int(fs[0]), int(fs[1]))
        return res

    def gen(self, rng, n, ctx):
        cases = []
        xs = [0, 1, 511, 512, 513]
        for i in range(9, 64):
            xs += [(1 << i) - 1, 1 << i]
            if i < 63:
                xs.append((1 << i) + 1)
        cases.append(Case("getsize", "getsize", [], [[x] for x in xs]))
        for j in range(n):
            hs = [special_hash(rng) for _ in range(rng.choice([1, 3, 10, 40]))]
            ops = []
            for _ in range(rng.randrange(4, 60)):
                h = rng.choice(hs) if rng.random() < 0.8 else special_hash(rng)
                r = rng.random()
                if r < 0.35:
                    ops.append(["add", h])
                elif r < 0.65:
                    ops.append(["has", h])
                elif r < 0.8:
                    ops += [["has", h], ["aih", h], ["has", h]]
                elif r < 0.85:
                    ops.append(["clear"])
                elif r < 0.93:
                    ops += [["dump"], ["json"]]
                else:
                    ops.append(["dump"])
            ops += [["dump"], ["json"]]
            if j % 4 == 3 and ctx.probe_data:
                k = rng.choice(sorted(ctx.probe_data))
                size, locs = ctx.probe_data[k]
                cases.append(Case("fp%d" % j, "bloomfp", list(k) + [size, locs], ops))
            else:
                e = rng.choice([1, 100, 512, 513, 1000, 4096, 5000, 1 << 14, 1 << 16, 40000])
                locs = rng.randrange(1, 15)
                cases.append(Case("bl%d" % j, "bloom", [e, locs], ops))
        return cases

    def oracle(self, case, il):
        fails = []
        if case.comp == "getsize":
            for op, l in zip(case.ops, il):
                x = int(op)
                if x <= 1 << 63:
                    k = 9
                    while (1 << k) < x:
                        k += 1
                    if l.split() != [str(1 << k), str(k)]:
                        fails.append("getSize(%d) = %s, want %d %d" % (x, l, 1 << k, k))
            return fails
        present = set()
        last_has = {}
        last_dump = None
        for op, l in zip(case.ops, il):
            fs = op.split()
            if l.startswith("panic") or l.startswith("initerror"):
                fails.append("%s -> %s" % (op, l))
                break
            if fs[0] == "add":
                present.add(fs[1])
                last_dump = None
            elif fs[0] == "has":
                if fs[1] in present and l != "true":
                    fails.append("false negative: has %s = %s after add" % (fs[1], l))
                last_has[fs[1]] = l
            elif fs[0] == "aih":
                before = last_has.get(fs[1])
                if before is not None and l != ("false" if before == "true" else "true"):
                    fails.append("AddIfNotHas(%s) = %s but Has before was %s" % (fs[1], l, before))
                present.add(fs[1])
                last_dump = None
            elif fs[0] == "clear":
                present = set()
                last_has = {}
                last_dump = None
            elif fs[0] == "dump":
                last_dump = l
                if not present and set(l.split()[-1]) - set("0"):
                    fails.append("bit set not empty after clear/new: " + l[:60])
            elif fs[0] == "json":
                if last_dump is not None and l != last_dump:
                    fails.append("JSON round trip changed the filter: %s -> %s" % (last_dump[:50], l[:50]))
            if fs[0] != "has":
                last_has = {} if fs[0] in ("add", "aih", "clear") else last_has
        return fails

    def nontrivial(self, case, il):
        return case.comp == "getsize" or "true" in il

    def stats(self, cases, impl):
        st = {"bloom": 0, "bloomfp": 0, "ops": 0, "json": 0, "has_true": 0, "has_false": 0}
        for c in cases:
            if c.comp in st:
                st[c.comp] += 1
            st["ops"] += len(c.ops)
            st["json"] += sum(1 for o in c.ops if o == "json")
            for o, l in zip(c.ops, impl.get(c.id, [])):
                if o.startswith("has"):
                    st["has_true" if l == "true" else "has_false"] += 1
        return st


PROP = C19()
