"""Driver core: builds (Coq, extracted runner, Go harnesses from /repo's working tree), runs case files on
model and implementation, compares, searches for failing inputs, writes evidence.  stdlib only."""
import fcntl
import hashlib
import json
import os
import random
import re
import shutil
import subprocess
import sys
import time

ROOT = os.path.dirname(os.path.dirname(os.path.abspath(__file__)))
REPO = os.environ.get("VERIF_REPO", "/repo")
BUILD = os.path.join(ROOT, "build")
COQ = os.path.join(ROOT, "coq")
EVID = os.path.join(ROOT, "evidence")
REPLAYS = os.path.join(ROOT, "replays")
CORPUS = os.path.join(ROOT, "corpus")

PKGS = {
    "root": {"dir": "", "name": "ristretto", "import": "."},
    "z": {"dir": "z", "name": "z", "import": "./z"},
    "simd": {"dir": "z/simd", "name": "simd", "import": "./z/simd"},
}

ALLOWED_AXIOMS = {
    # none needed so far; stdlib axioms would be listed here by name and reported in the evidence
}

FORBIDDEN = re.compile(
    r"\b(Admitted|admit|Axiom|Axioms|Parameter|Parameters|Conjecture|Conjectures|Admit Obligations|"
    r"Unset Guard Checking|Unset Positivity Checking|Unset Universe Checking|bypass_check|"
    r"type-in-type|impredicative-set)\b")


def goenv():
    e = dict(os.environ)
    e["GOFLAGS"] = "-mod=mod"
    e["GOPROXY"] = "off"
    e.pop("GOTOOLCHAIN", None)   # system go is 1.23; go.mod selects the cached go1.25.0 (auto)
    e.pop("GOSUMDB", None)
    return e


def sh(cmd, cwd=None, env=None, timeout=None, stdin=None):
    """run, return (rc, combined output)"""
    t0 = time.time()
    try:
        p = subprocess.run(cmd, cwd=cwd, env=env, timeout=timeout, stdout=subprocess.PIPE,
                           stderr=subprocess.STDOUT, shell=isinstance(cmd, str), input=stdin)
        return p.returncode, p.stdout.decode("utf-8", "replace")
    except subprocess.TimeoutExpired as ex:
        out = (ex.stdout or b"").decode("utf-8", "replace")
        return 124, out + "\n[timeout after %.0fs]" % (time.time() - t0)


class Lock:
    def __enter__(self):
        os.makedirs(BUILD, exist_ok=True)
        self.f = open(os.path.join(BUILD, ".lock"), "w")
        fcntl.flock(self.f, fcntl.LOCK_EX)
        return self

    def __exit__(self, *a):
        fcntl.flock(self.f, fcntl.LOCK_UN)
        self.f.close()


def write_if_changed(path, content):
    try:
        if open(path).read() == content:
            return False
    except OSError:
        pass
    os.makedirs(os.path.dirname(path), exist_ok=True)
    with open(path, "w") as f:
        f.write(content)
    return True


# ------------------------------------------------------------------------------------------------
# Coq
# ------------------------------------------------------------------------------------------------
def coq_sources():
    out = []
    for l in open(os.path.join(COQ, "_CoqProject")):
        l = l.strip()
        if l.endswith(".v"):
            out.append(l)
    return out


def static_scan():
    """grep the development for anything that would declare an axiom or switch off a kernel check"""
    bad = []
    for rel in coq_sources():
        p = os.path.join(COQ, rel)
        if not os.path.exists(p):
            continue
        txt = open(p).read()
        txt = re.sub(r"\(\*.*?\*\)", " ", txt, flags=re.S)
        txt = re.sub(r'"(?:[^"]|"")*"', '""', txt)      # string literals (names taken from the Go source) are data
        for m in FORBIDDEN.finditer(txt):
            bad.append("%s: %s" % (rel, m.group(0)))
        # Variable/Hypothesis outside a section
        depth = 0
        for line in txt.splitlines():
            s = line.strip()
            if re.match(r"Section\s+\w+\s*\.", s):
                depth += 1
            elif re.match(r"End\s+\w+\s*\.", s) and depth > 0:
                depth -= 1
            elif depth == 0 and re.match(r"(Variable|Variables|Hypothesis|Hypotheses|Context)\b", s):
                bad.append("%s: %s outside section" % (rel, s.split()[0]))
    return bad


def assemble_project():
    """_CoqProject and Extract/Extract.v are assembled from fragments (coq/project.d/*.list, coq/extract.d/*.ext) so that
    components can be added without editing a shared file"""
    head = ("-Q theories Ristretto\n-arg -w -arg -notation-overridden,-deprecated-hint-without-locality,"
            "-deprecated-instance-without-locality\n")
    files = []
    d = os.path.join(COQ, "project.d")
    for f in sorted(os.listdir(d)):
        if f.endswith(".list"):
            files += [l.strip() for l in open(os.path.join(d, f)) if l.strip() and not l.startswith("#")]
    write_if_changed(os.path.join(COQ, "_CoqProject"), head + "\n".join(files) + "\n")
    imports, names = [], []
    d = os.path.join(COQ, "extract.d")
    for f in sorted(os.listdir(d)):
        if f.endswith(".ext"):
            for l in open(os.path.join(d, f)):
                l = l.strip()
                if not l or l.startswith("#"):
                    continue
                if l.startswith("import:"):
                    imports.append(l[len("import:"):].strip())
                else:
                    names.append(l)
    ext = ("(* ASSEMBLED from coq/extract.d/*.ext by lib/core.py -- the only extraction file of the project.\n"
           "   ExtrOcamlBasic only: bool/option/unit/list/prod/sumbool map to OCaml's; nat, positive, N, Z stay the\n"
           "   extracted Coq datatypes. *)\nRequire Extraction.\nRequire Import ExtrOcamlBasic.\n")
    for i in imports:
        ext += "From Ristretto Require Import %s.\n" % i
    ext += 'Extraction "model.ml"\n  ' + "\n  ".join(names) + ".\n"
    write_if_changed(os.path.join(COQ, "theories", "Extract", "Extract.v"), ext)


def regenerate():
    """run the translators (model parts regenerated from /repo on every run)"""
    msgs = []
    assemble_project()
    gen = os.path.join(ROOT, "gen", "asm2coq.py")
    if os.path.exists(gen):
        src = os.path.join(REPO, "z", "simd", "search_amd64.s")
        rc, out = sh([sys.executable, gen, src], timeout=60)
        target = os.path.join(COQ, "theories", "Gen", "SearchAsm.v")
        if rc != 0:
            msgs.append("asm2coq failed: " + out.strip()[-400:])
            # keep a file that makes the dependent proofs fail visibly
            write_if_changed(target, "(* translator failed *)\nFrom Ristretto Require Import Simd.X86.\n"
                             "Definition search_prog : list instr := [].\n"
                             "Definition search_src_sha : unit := tt.\n")
        else:
            write_if_changed(target, out)
    msgs += regenerate_lockorder()
    return msgs


LOCKORDER_FILES = ["cache.go", "store.go", "ttl.go", "policy.go", "ring.go", "sketch.go"]
LOCKORDER_FALLBACK = ("(* translator failed *)\nFrom Coq Require Import List String.\nImport ListNotations.\n"
                      "Local Open Scope string_scope.\n"
                      "Definition lock_classes : list string := [\"?\"].\n"
                      "Definition lock_edges : list (string * string * string) := [(\"?\", \"?\", \"translator failed\")].\n"
                      "Definition lock_chanops : list (string * string) := [].\n")


def regenerate_lockorder():
    """Gen/LockOrder.v: the mutex classes, the (held, acquired) pairs and the channel operations under a mutex of /repo's
    cache sources, from tools/lockorder (go/types over the package source) through gen/lockorder2coq.py.  The analysis
    type-checks the package from source (~5 s): its result is cached on the content of the package's Go files."""
    target = os.path.join(COQ, "theories", "Gen", "LockOrder.v")
    os.makedirs(os.path.dirname(target), exist_ok=True)
    os.makedirs(BUILD, exist_ok=True)
    h = hashlib.sha256()
    for d in (REPO, os.path.join(REPO, "z")):
        for f in sorted(os.listdir(d)):
            if f.endswith(".go") and not f.endswith("_test.go"):
                h.update(f.encode() + b"\0" + open(os.path.join(d, f), "rb").read())
    src = os.path.join(ROOT, "tools", "lockorder")
    for f in ("main.go",):
        h.update(open(os.path.join(src, f), "rb").read())
    h.update(open(os.path.join(ROOT, "gen", "lockorder2coq.py"), "rb").read())
    h.update(open(os.path.join(COQ, "theories", "Cache", "LockOrder.v"), "rb").read())
    stamp = os.path.join(BUILD, "lockorder.sha")
    if os.path.exists(target) and os.path.exists(stamp) and open(stamp).read() == h.hexdigest():
        return []
    exe = os.path.join(BUILD, "lockorder")
    if (not os.path.exists(exe)) or os.path.getmtime(exe) < os.path.getmtime(os.path.join(src, "main.go")):
        rc, out = sh(["go", "build", "-o", exe, "."], cwd=src, env=goenv(), timeout=300)
        if rc != 0:
            write_if_changed(target, LOCKORDER_FALLBACK)
            return ["lockorder does not build: " + out[-400:]]
    # the accesses that are emitted are those to the fields the discipline table of Cache/LockOrder.v guards (its
    # non-vacuity lemma requires every one of them to occur)
    table = re.search(r"Definition guards .*?:=\s*\[(.*?)\]\.", open(os.path.join(COQ, "theories", "Cache", "LockOrder.v")).read(), re.S)
    fields = re.findall(r'\(\s*"([^"]+)"\s*,', table.group(1)) if table else []
    atab = re.search(r"Definition atomics .*?:=\s*\[(.*?)\]\.", open(os.path.join(COQ, "theories", "Cache", "LockOrder.v")).read(), re.S)
    fields += re.findall(r'"([^"]+)"', atab.group(1)) if atab else []
    rc, out = sh([exe, "-fields", ",".join(fields), REPO] + LOCKORDER_FILES, cwd=REPO, env=goenv(), timeout=300)
    facts = os.path.join(BUILD, "lockorder.facts")
    open(facts, "w").write(out)
    if rc != 0:
        write_if_changed(target, LOCKORDER_FALLBACK)
        return ["lockorder failed: " + out.strip()[-400:]]
    rc, coq = sh([sys.executable, os.path.join(ROOT, "gen", "lockorder2coq.py"), facts], timeout=60)
    if rc != 0:
        write_if_changed(target, LOCKORDER_FALLBACK)
        return ["lockorder2coq failed: " + coq.strip()[-400:]]
    write_if_changed(target, coq)
    open(stamp, "w").write(h.hexdigest())
    return []


def build_coq(timeout=3000):
    """full .vo build; returns (ok, log, failing_file)"""
    if not os.path.exists(os.path.join(COQ, "Makefile")) or \
            os.path.getmtime(os.path.join(COQ, "Makefile")) < os.path.getmtime(os.path.join(COQ, "_CoqProject")):
        rc, out = sh("coq_makefile -f _CoqProject -o Makefile", cwd=COQ, timeout=120)
        if rc != 0:
            return False, out, None
    rc, out = sh("make -j16 -k 2>&1", cwd=COQ, timeout=timeout)
    failing = None
    if rc != 0:
        m = re.search(r'File "\./([^"]+)", line (\d+)', out)
        if m:
            failing = m.group(1)
    return rc == 0, out, failing


def coq_deps(pid):
    """transitive .v dependencies of Properties/<pid>.v inside the development (from coq_makefile's .Makefile.d)"""
    dep = {}
    path = os.path.join(COQ, ".Makefile.d")
    if not os.path.exists(path):
        return None
    for line in open(path).read().replace("\\\n", " ").splitlines():
        if ":" not in line:
            continue
        lhs, rhs = line.split(":", 1)
        tgt = [t for t in lhs.split() if t.endswith(".vo")]
        if not tgt:
            continue
        srcs = [x[:-1] if x.endswith(".vo") else x for x in rhs.split() if x.endswith(".vo") or x.endswith(".v")]
        srcs = [x for x in srcs if x.startswith("theories/")]
        dep[tgt[0][:-1]] = set(x if x.endswith(".v") else x + "" for x in srcs)
    start = "theories/Properties/%s.v" % pid
    seen, todo = set(), [start]
    while todo:
        f = todo.pop()
        if f in seen:
            continue
        seen.add(f)
        for d in dep.get(f, ()):
            d = d if d.endswith(".v") else d + ".v"
            todo.append(d)
    return seen


def theorems_of(pid):
    p = os.path.join(COQ, "theories", "Properties", pid + ".v")
    if not os.path.exists(p):
        return []
    txt = open(p).read()
    txt = re.sub(r"\(\*.*?\*\)", " ", txt, flags=re.S)
    return re.findall(r"^\s*(?:Theorem|Example)\s+([A-Za-z0-9_']+)", txt, flags=re.M)


def print_assumptions(pid, extra_imports=()):
    """compile a throw-away file that prints the assumptions of every theorem of Properties/<pid>.v.
    returns (ok, {theorem: [axioms]}, log)"""
    names = theorems_of(pid)
    if not names:
        return False, {}, "no theorems found in Properties/%s.v" % pid
    d = os.path.join(BUILD, "pa")
    os.makedirs(d, exist_ok=True)
    src = ["From Ristretto Require Import Properties.%s." % pid]
    for n in names:
        src.append('Goal True. idtac "@@THM %s". exact I. Qed.' % n)
        src.append("Check %s." % n)
        src.append("Print Assumptions %s." % n)
    path = os.path.join(d, "PA_%s.v" % pid)
    with open(path, "w") as f:
        f.write("\n".join(src) + "\n")
    rc, out = sh(["coqc", "-Q", os.path.join(COQ, "theories"), "Ristretto", "-w", "none", path], cwd=d, timeout=900)
    res = {}
    if rc != 0:
        return False, res, out
    cur = None
    mode = None
    for line in out.splitlines():
        m = re.match(r"@@THM (\S+)", line)
        if m:
            cur = m.group(1)
            res[cur] = None
            mode = None
            continue
        if cur is None:
            continue
        if line.startswith("Closed under the global context"):
            res[cur] = []
            mode = None
        elif line.startswith("Axioms:"):
            res[cur] = []
            mode = "ax"
        elif mode == "ax":
            m = re.match(r"^([A-Za-z0-9_.']+)\s*:", line)
            if m:
                res[cur].append(m.group(1))
    missing = [n for n in names if res.get(n) is None]
    if missing:
        return False, res, "no assumption report for: " + ", ".join(missing) + "\n" + out[-2000:]
    return True, res, out


# ------------------------------------------------------------------------------------------------
# extracted runner
# ------------------------------------------------------------------------------------------------
def coqchk(pid):
    """coqchk -silent -o on the property's compiled library; -> (ok, [axioms it reports], log)"""
    rc, out = sh(["coqchk", "-silent", "-o", "-Q", os.path.join(COQ, "theories"), "Ristretto",
                  "Ristretto.Properties.%s" % pid], cwd=COQ, timeout=3600)
    axioms = []
    ok = rc == 0
    m = re.search(r"\* Axioms:(.*?)\n\s*\n\* Constants/Inductives relying on type-in-type:(.*?)\n\s*\n"
                  r"\* Constants/Inductives relying on unsafe \(co\)fixpoints:(.*?)\n\s*\n"
                  r"\* Inductives whose positivity is assumed:(.*?)(\n\s*\n|$)", out, re.S)
    if not m:
        return False, axioms, out
    ax = m.group(1).strip()
    if ax != "<none>":
        axioms = [l.strip() for l in ax.splitlines() if l.strip()]
    for g in (2, 3, 4):
        if m.group(g).strip() != "<none>":
            ok = False
    if any(a.split()[0] not in ALLOWED_AXIOMS for a in axioms):
        ok = False
    return ok, axioms, out


SHAPES = {
    # the lock-grain cache machine (Cache/Machine.v)
    "cache": (["cache.go", "store.go", "ttl.go", "policy.go", "ring.go"],
              re.compile(r"^(Cache\.(Clear|Close|Del|Get|GetTTL|IterValues|SetWithTTL|Wait|processItems|UpdateMaxCost|RemainingCost)|"
                         r"defaultPolicy\.(Add|Cap|Clear|Cost|Del|Has|Update|Push|processItems|Close)|"
                         r"expirationMap\.\w+|lockedMap\.\w+|shardedMap\.\w+|Metrics\.Clear|ringStripe\.Push|ringBuffer\.Push|"
                         r"sampledLFU\.\w+|tinyLFU\.\w+|NewCache|newDefaultPolicy):"),
              "lockshape.expected"),
    # the allocator's interleaving machine (Alloc/Alloc.v): fetch-and-add fast path, growth under the mutex
    "alloc": (["z/allocator.go"],
              re.compile(r"^Allocator\.(Allocate|AllocateAligned|Copy|addBufferAt|Reset|TrimTo|Release|MaxAlloc|Size|Allocated):"),
              "lockshape_alloc.expected"),
}


def lockshape(which="cache"):
    """syntactic skeleton (mutex / atomic operations in source order, channel operations, calls of machine steps) of the
    functions a machine models, extracted from /repo's current tree by tools/lockshape; -> (ok, lines, log)"""
    files, rx, _ = SHAPES[which]
    exe = os.path.join(BUILD, "lockshape")
    src = os.path.join(ROOT, "tools", "lockshape")
    if (not os.path.exists(exe)) or os.path.getmtime(exe) < os.path.getmtime(os.path.join(src, "main.go")):
        rc, out = sh(["go", "build", "-o", exe, "."], cwd=src, env=goenv(), timeout=300)
        if rc != 0:
            return False, [], "lockshape does not build: " + out[-800:]
    rc, out = sh([exe] + files, cwd=REPO, timeout=60)
    if rc != 0:
        return False, [], out[-800:]
    return True, [l for l in out.splitlines() if rx.match(l)], ""


def lockshape_diff(which="cache"):
    """compare with the committed expectation; -> list of differences (empty = same)"""
    ok, lines, log = lockshape(which)
    if not ok:
        return ["cannot extract the synchronisation skeleton: " + log]
    exp = [l.rstrip("\n") for l in open(os.path.join(ROOT, "lib", SHAPES[which][2])) if l.strip() and not l.startswith("#")]
    de = {l.split(":", 1)[0]: l for l in exp}
    dg = {l.split(":", 1)[0]: l for l in lines}
    diffs = []
    for k in sorted(set(de) | set(dg)):
        if de.get(k) != dg.get(k):
            diffs.append("%s: modelled as [%s], the code now has [%s]" % (
                k, de.get(k, k + ": <absent>").split(":", 1)[1].strip(), dg.get(k, k + ": <absent>").split(":", 1)[1].strip()))
    return diffs


def build_runner():
    srcs = [os.path.join(COQ, "model.ml"), os.path.join(COQ, "model.mli")] + \
        sorted(os.path.join(ROOT, "ocaml", f) for f in os.listdir(os.path.join(ROOT, "ocaml")) if f.endswith(".ml"))
    for s in srcs:
        if not os.path.exists(s):
            return False, "missing " + s
    h = hashlib.sha256()
    for s in srcs:
        h.update(open(s, "rb").read())
    stamp = os.path.join(BUILD, "runner.stamp")
    if os.path.exists(os.path.join(BUILD, "runner")) and os.path.exists(stamp) and open(stamp).read() == h.hexdigest():
        return True, "up to date"
    d = os.path.join(BUILD, "ocaml")
    shutil.rmtree(d, ignore_errors=True)
    os.makedirs(d)
    for s in srcs:
        shutil.copy(s, d)
    mls = ["model.mli", "model.ml", "runner.ml"] + \
        sorted(f for f in os.listdir(d) if f.startswith("comp_")) + ["main.ml"]
    rc, out = sh(["ocamlfind", "ocamlopt", "-w", "-a", "-o", os.path.join(BUILD, "runner")] + mls, cwd=d, timeout=600)
    if rc != 0:
        return False, out
    open(stamp, "w").write(h.hexdigest())
    return True, out


def run_runner(casefile, outfile, timeout=1200):
    rc, out = sh("ulimit -s unlimited 2>/dev/null; exec %s %s > %s" % (
        os.path.join(BUILD, "runner"), casefile, outfile), timeout=timeout)
    return rc, out


# ------------------------------------------------------------------------------------------------
# Go harness (white-box, injected with -overlay; nothing in /repo is touched)
# ------------------------------------------------------------------------------------------------
def build_harness(pkg, race=False):
    info = PKGS[pkg]
    hd = os.path.join(ROOT, "harness", pkg)
    gen = os.path.join(BUILD, "harness_gen", pkg)
    os.makedirs(gen, exist_ok=True)
    tmpl = open(os.path.join(ROOT, "harness", "common.go.tmpl")).read().replace("PKGNAME", info["name"])
    write_if_changed(os.path.join(gen, "common_verif_test.go"), tmpl)
    repl = {os.path.join(REPO, info["dir"], "zz_verif_common_test.go"): os.path.join(gen, "common_verif_test.go")}
    for f in sorted(os.listdir(hd)):
        if f.endswith(".go"):
            repl[os.path.join(REPO, info["dir"], "zz_" + f)] = os.path.join(hd, f)
    ov = os.path.join(BUILD, "overlay_%s.json" % pkg)
    with open(ov, "w") as f:
        json.dump({"Replace": repl}, f, indent=1)
    out_bin = os.path.join(BUILD, "%s%s.test" % (pkg, "_race" if race else ""))
    cmd = ["go", "test", "-overlay", ov, "-tags", "verif", "-vet=off", "-c", "-o", out_bin]
    if race:
        cmd.append("-race")
    cmd.append(info["import"])
    rc, out = sh(cmd, cwd=REPO, env=goenv(), timeout=1200)
    return rc == 0, out, out_bin


def run_harness(pkg, casefile, outfile, race=False, timeout=1200, run="^TestVerifCases$", extra_env=None):
    env = goenv()
    env["VERIF_CASES"] = casefile
    env["VERIF_OUT"] = outfile
    if extra_env:
        env.update(extra_env)
    b = os.path.join(BUILD, "%s%s.test" % (pkg, "_race" if race else ""))
    rc, out = sh([b, "-test.run", run, "-test.timeout", "%ds" % timeout, "-test.count=1"],
                 cwd=os.path.join(REPO, PKGS[pkg]["dir"]), env=env, timeout=timeout + 30)
    return rc, out


# ------------------------------------------------------------------------------------------------
# cases
# ------------------------------------------------------------------------------------------------
class Case:
    __slots__ = ("id", "comp", "args", "ops", "tags")

    def __init__(self, cid, comp, args, ops, tags=()):
        self.id = str(cid)
        self.comp = comp
        self.args = [str(a) for a in args]
        self.ops = [o if isinstance(o, str) else " ".join(str(x) for x in o) for o in ops]
        self.tags = set(tags)

    def text(self):
        return "case %s %s %s\n%s%send\n" % (self.id, self.comp, " ".join(self.args),
                                              "\n".join(self.ops), "\n" if self.ops else "")

    def key(self):
        return hashlib.sha1((self.comp + " " + " ".join(self.args) + "\n" + "\n".join(self.ops)).encode()).hexdigest()


def write_cases(cases, path):
    with open(path, "w") as f:
        for c in cases:
            f.write(c.text())


def parse_cases(path):
    cases = []
    cur = None
    for line in open(path):
        fs = line.split()
        if not fs or line.startswith("#"):
            continue
        if fs[0] == "case":
            cur = Case(fs[1], fs[2], fs[3:], [])
        elif fs[0] == "end":
            if cur:
                cases.append(cur)
            cur = None
        elif cur is not None:
            cur.ops.append(" ".join(fs))
    return cases


def parse_output(path):
    """-> {case id: [lines]}"""
    res = {}
    cur = None
    try:
        f = open(path)
    except OSError:
        return res
    for line in f:
        line = line.rstrip("\n")
        if line.startswith("case "):
            cur = line.split()[1]
            res[cur] = []
        elif line == "end":
            cur = None
        elif cur is not None:
            res[cur].append(line)
    return res


def run_both(pkg, cases, tag, race=False, timeout=1200, annotate=None):
    """run cases on implementation and model; returns (impl_out, model_out, problems).
    annotate(case, impl_lines) -> case: lets the model receive nondeterministic choices (Go map order, select)
    that were observed on the implementation; the model still has to reproduce every output line."""
    cf = os.path.join(BUILD, "cases_%s.txt" % tag)
    write_cases(cases, cf)
    io = os.path.join(BUILD, "impl_%s.out" % tag)
    mo = os.path.join(BUILD, "model_%s.out" % tag)
    for p in (io, mo):
        if os.path.exists(p):
            os.remove(p)
    rc1, out1 = run_harness(pkg, cf, io, race=race, timeout=timeout)
    impl = parse_output(io)
    mf = cf
    if annotate is not None:
        mf = os.path.join(BUILD, "cases_%s_model.txt" % tag)
        write_cases([annotate(c, impl.get(c.id, [])) for c in cases], mf)
    rc2, out2 = run_runner(mf, mo, timeout=timeout)
    problems = []
    if rc1 != 0:
        problems.append("harness exit %d: %s" % (rc1, out1[-1500:]))
    if rc2 != 0:
        problems.append("runner exit %d: %s" % (rc2, out2[-500:]))
    return impl, parse_output(mo), problems


def diff_cases(cases, impl, model, canon=None):
    """-> list of (case, op index, impl line, model line)"""
    dis = []
    for c in cases:
        a = impl.get(c.id)
        b = model.get(c.id)
        if a is None or b is None:
            dis.append((c, -1, "missing" if a is None else "present", "missing" if b is None else "present"))
            continue
        if canon:
            a = [canon(c, i, x) for i, x in enumerate(a)]
            b = [canon(c, i, x) for i, x in enumerate(b)]
        n = max(len(a), len(b))
        for i in range(n):
            x = a[i] if i < len(a) else "<none>"
            y = b[i] if i < len(b) else "<none>"
            if x != y:
                dis.append((c, i, x, y))
                break
    return dis


def shrink(case, fails, max_rounds=400):
    """delta-debug the op list of a case; fails(case) -> bool re-runs both sides"""
    ops = list(case.ops)
    n = 2
    rounds = 0
    while len(ops) >= 2 and rounds < max_rounds:
        chunk = max(1, len(ops) // n)
        reduced = False
        for i in range(0, len(ops), chunk):
            cand = ops[:i] + ops[i + chunk:]
            rounds += 1
            if cand and fails(Case(case.id, case.comp, case.args, cand)):
                ops = cand
                n = max(n - 1, 2)
                reduced = True
                break
        if not reduced:
            if chunk == 1:
                break
            n = min(n * 2, len(ops))
    return Case(case.id, case.comp, case.args, ops)


# ------------------------------------------------------------------------------------------------
# known findings
# ------------------------------------------------------------------------------------------------
def known_findings(pid):
    """lines of KNOWN_FINDINGS.txt:  'finding: property=C12 id=<slug> <what fails>'  |  'fixed: property=...'"""
    out = []
    p = os.path.join(ROOT, "KNOWN_FINDINGS.txt")
    if not os.path.exists(p):
        return out
    for line in open(p):
        line = line.strip()
        m = re.match(r"finding:\s+property=(\S+)\s+id=(\S+)\s+(.*)", line)
        if m and m.group(1) == pid:
            out.append({"id": m.group(2), "what": m.group(3)})
    return out


# ------------------------------------------------------------------------------------------------
# evidence
# ------------------------------------------------------------------------------------------------
def write_evidence(pid, tier, seed, coverage, assumptions, wall, violations):
    os.makedirs(EVID, exist_ok=True)
    ev = {"property_id": pid, "tier": tier, "seed": int(seed), "level": "proof", "coverage": coverage,
          "assumptions": assumptions, "wall_s": round(wall, 2), "violations": int(violations)}
    with open(os.path.join(EVID, pid + ".json"), "w") as f:
        json.dump(ev, f, indent=1)


def write_replay(pid, seed, name, body):
    os.makedirs(REPLAYS, exist_ok=True)
    p = os.path.join(REPLAYS, "%s-%s-%s.case" % (pid, seed, name))
    with open(p, "w") as f:
        f.write(body)
    return p
