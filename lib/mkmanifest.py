#!/usr/bin/env python3
"""Regenerates /verif/MANIFEST.json from the table below (run after adding a property)."""
import json
import os
import sys

ROOT = os.path.dirname(os.path.dirname(os.path.abspath(__file__)))

TB = ("Trusted: Coq 8.16.1 kernel (coqc; coqchk in the thorough tier), vm_compute inside finite-sweep proofs, no "
      "native_compute; axioms: none (Print Assumptions of every theorem is 'Closed under the global context', checked "
      "on every run); extraction with ExtrOcamlBasic only + ocaml/runner.ml; Go correspondence harness injected with "
      "go test -overlay (tag verif); ")

CLAIMS = {
    "C18": dict(
        text="Theorems over every byte value/nibble, every increment sequence, every seed vector and every table size "
             "(Properties/C18.v: row increment/reset algebra, next2Power on [1,2^62], sketch lower/upper/monotone bounds, "
             "tinyLFU lower bound between resets, reset/clear effects) about an executable Gallina model of sketch.go and "
             "tinyLFU; the model is tied to the code on every run by an exhaustive byte-level and randomized "
             "sequence-level differential run (white-box, seeds forced).",
        note=TB + "doorkeeper size/locs come from float arithmetic and are probed from the implementation; NumCounters<2 "
                  "(panics) excluded by the property.",
        technique="Coq proof (induction + exhaustive byte sweep lifted by forallb_forall) + model/code correspondence",
        ref="8 C18"),
    "C19": dict(
        text="Theorems for every size exponent 9..63, every number of locations and every 64-bit hash "
             "(Properties/C19.v: no false negatives, Add monotone, AddIfNotHas, Clear, getSize, JSON round trip gives back "
             "the identical filter) about a byte-addressed Gallina model of bbloom.go; correspondence compares the bit-set "
             "bytes after every mutation and runs the real encoding/json round trip.",
        note=TB + "encoding/json trusted to round-trip ([]byte,uint64); (entries,fp-rate) sizing is float arithmetic, probed; "
                  "little-endian byte addressing of the []uint64 bit set.",
        technique="Coq proof (bit-level lemmas, induction over positions) + model/code correspondence",
        ref="8 C19"),
    "C20": dict(
        text="The amd64 kernel is TRANSLATED from z/simd/search_amd64.s on every run (gen/asm2coq.py -> Gen/SearchAsm.v) into "
             "an instruction list over a 15-instruction x86-64 semantics (Simd/X86.v); Properties/C20.v proves, for the "
             "generated program, every slice whose length is a non-zero multiple of 8 (< 2^16, int16 result), every k, every "
             "base address and every content of the memory after the slice: termination with first_ge and all reads inside "
             "the slice (symbolic execution, induction over 8-word blocks); plus Naive = portable Search = first_ge for all "
             "lengths, and the exported guarded Search = first_ge for every length, independent of trailing memory. The "
             "correspondence runs real Search/Naive/Clever on slices embedded in adversarial backing arrays against the "
             "extracted interpreter.",
        note=TB + "the translator and the instruction semantics are validated (not verified) by the correspondence, which "
                  "reproduced the real kernel's over-read before the fix; lengths >= 2^16 excluded (int16 result).",
        technique="translator-regenerated model + Coq proof by symbolic execution/induction + differential run",
        ref="8 C20"),
}

TODO_REASON = "not yet covered in this build round: model/theorems under construction (see DESIGN.md section 11); no check is registered rather than a weaker technique"


def main():
    props = [json.loads(l) for l in open(os.path.join(ROOT, "properties.jsonl"))]
    checks = []
    na = []
    for p in props:
        pid = p["id"]
        if pid in CLAIMS and os.path.exists(os.path.join(ROOT, "lib", "props", pid.lower() + ".py")):
            c = CLAIMS[pid]
            checks.append({
                "property_id": pid,
                "quick_cmd": "./check %s --tier quick" % pid,
                "thorough_cmd": "./check %s --tier thorough" % pid,
                "evidence_file": "/verif/evidence/%s.json" % pid,
                "replay_cmd_template": "./check %s --replay {path}" % pid,
                "engine": "coq-proof+correspondence",
                "level_claimed": {"category": "proof", "text": c["text"], "design_ref": "DESIGN.md " + c["ref"]},
                "level_note": c["note"],
                "technique": c["technique"],
            })
        else:
            na.append({"property_id": pid, "reason": TODO_REASON})
    m = {
        "version": 1,
        "setup_cmd": "./setup.sh",
        "hooks": {
            "guard": "verif",
            "enable": "harness files under /verif/harness carry //go:build verif and are injected with `go test -overlay build/overlay_<pkg>.json -tags verif`; no file of /repo is modified",
            "baseline_off_cmd": "cd /repo && GOFLAGS=-mod=mod GOPROXY=off go test -vet=off -count=1 ./...",
            "source_commits": [],
            "add_only": True,
        },
        "engines": [{
            "name": "coq-proof+correspondence", "path": "/verif/check",
            "serves_properties": [c["property_id"] for c in checks],
            "kind_free_text": "Coq 8.16.1 development /verif/coq (models + theorems), extracted OCaml runner, Go overlay harnesses, python driver",
        }],
        "checks": checks,
        "notes": "See DESIGN.md. KNOWN_FINDINGS.txt lists unrepaired genuine defects and fixed ones.",
        "not_applicable": na,
    }
    with open(os.path.join(ROOT, "MANIFEST.json"), "w") as f:
        json.dump(m, f, indent=1)
    print("checks:", [c["property_id"] for c in checks])


if __name__ == "__main__":
    main()
