#!/usr/bin/env python3
"""Regenerates /verif/MANIFEST.json from the table below (run after adding a property)."""
import json
import os
import sys

ROOT = os.path.dirname(os.path.dirname(os.path.abspath(__file__)))

# lib/claims/Cxx.json: {"text": level text, "note": trusted base / assumptions, "technique": ..., "ref": DESIGN section}
TB = ("Trusted: Coq 8.16.1 kernel (coqc; coqchk in the thorough tier), vm_compute inside finite-sweep proofs, no "
      "native_compute; axioms: none (Print Assumptions of every theorem is 'Closed under the global context', checked "
      "on every run); extraction with ExtrOcamlBasic only + ocaml/runner.ml; Go correspondence harness injected with "
      "go test -overlay (tag verif); ")

CACHE_IDS = {"C01", "C02", "C03", "C04", "C05", "C06", "C07", "C08", "C09", "C13", "C14", "C15", "C17"}
SKEL = (" The critical sections, channel operations and step order the machine assumes of cache.go / store.go / ttl.go / "
        "policy.go / ring.go are additionally tied to the code on every run by the synchronisation-skeleton comparison "
        "(tools/lockshape, a go/ast extraction, against lib/lockshape.expected): a syntactic fingerprint that flags split "
        "or weakened critical sections and reordered steps, not a proof of atomicity. Real-concurrency harnesses (stress, "
        "store-level race) are search only: a clean run of them proves nothing.")


def load_claims():
    d = os.path.join(ROOT, "lib", "claims")
    out = {}
    for f in sorted(os.listdir(d)):
        if f.endswith(".json"):
            out[f[:-5]] = json.load(open(os.path.join(d, f)))
    return out


TODO_REASON = "not yet covered in this build round: model/theorems under construction (see DESIGN.md section 11); no check is registered rather than a weaker technique"


def main():
    CLAIMS = load_claims()
    props = [json.loads(l) for l in open(os.path.join(ROOT, "properties.jsonl"))]
    checks = []
    na = []
    for p in props:
        pid = p["id"]
        if pid in CLAIMS and os.path.exists(os.path.join(ROOT, "lib", "props", pid.lower() + ".py")):
            c = CLAIMS[pid]
            checks.append({
                "property_id": pid,
                "quick_cmd": "./check %s --tier quick" % pid,
                "thorough_cmd": "./check %s --tier thorough" % pid,
                "evidence_file": "/verif/evidence/%s.json" % pid,
                "replay_cmd_template": "./check %s --replay {path}" % pid,
                "engine": "coq-proof+correspondence",
                "level_claimed": {"category": "proof", "text": c["text"], "design_ref": "DESIGN.md " + c["ref"]},
                "level_note": c["note"] + (SKEL if pid in CACHE_IDS else ""),
                "technique": c["technique"],
            })
        else:
            na.append({"property_id": pid, "reason": TODO_REASON})
    m = {
        "version": 1,
        "setup_cmd": "./setup.sh",
        "hooks": {
            "guard": "verif",
            "enable": "harness files under /verif/harness carry //go:build verif and are injected with `go test -overlay build/overlay_<pkg>.json -tags verif`; no file of /repo is modified",
            "baseline_off_cmd": "cd /repo && GOFLAGS=-mod=mod GOPROXY=off go test -vet=off -count=1 ./...",
            "source_commits": [],
            "add_only": True,
        },
        "engines": [{
            "name": "coq-proof+correspondence", "path": "/verif/check",
            "serves_properties": [c["property_id"] for c in checks],
            "kind_free_text": "Coq 8.16.1 development /verif/coq (models + theorems), extracted OCaml runner, Go overlay harnesses, python driver",
        }],
        "checks": checks,
        "notes": "See DESIGN.md. KNOWN_FINDINGS.txt lists unrepaired genuine defects and fixed ones.",
        "not_applicable": na,
    }
    with open(os.path.join(ROOT, "MANIFEST.json"), "w") as f:
        json.dump(m, f, indent=1)
    print("checks:", [c["property_id"] for c in checks])


if __name__ == "__main__":
    main()
