"""Base class of the cache properties: shared correspondence (gate/synctest harness vs. the extracted machine)."""
import os
import re

from . import cachegen, core
from .prop import Prop


class CacheProp(Prop):
    pkg = "root"
    quick_n = 250
    thorough_n = 6000
    profiles = None
    shape_tie = True
    trusted = [
        "atomicity of the machine's steps (each = one critical section / channel operation / callback of cache.go, "
        "store.go, ttl.go, policy.go) is established by reading the code and by this correspondence, not by proof",
        "testing/synctest virtual clock; applier lag controlled by a blocking Config.Cost callback (all Sets pass "
        "cost 0); sweeps invoked white-box with the real ticker disabled; frequency estimates set white-box",
        "Go's select between buffered items and the stop signal is observed and fed to the model (annotate)",
        "cost arithmetic in unbounded Z (no int64 overflow); callbacks are pure and do not re-enter the cache",
        "synchronisation skeleton (mutex / channel operations, select, go, calls of machine steps, in source order) of the "
        "modelled functions re-extracted from /repo by tools/lockshape (go/ast) and compared with lib/lockshape.expected: "
        "syntactic tie, not a proof of atomicity",
    ]

    def probe(self, ctx):
        return cachegen.probe(ctx)

    def gen(self, rng, n, ctx):
        return cachegen.gen_cases(rng, n, ctx, self.profiles)

    def canon(self, case, i, line):
        return cachegen.canon(case, i, line)

    def annotate(self, case, impl_lines):
        return cachegen.annotate(case, impl_lines)

    def nontrivial(self, case, il):
        return any(("evict:" in l or "reject:" in l or "blocked" in l) for l in il)

    def stats(self, cases, impl):
        st = {"cases": len(cases), "ops": 0, "evictions": 0, "rejections": 0, "drops": 0, "blocked": 0,
              "sweeps_evicting": 0, "clears": 0, "closes": 0}
        prof = {}
        for c in cases:
            for t in c.tags:
                if t.startswith("profile:"):
                    prof[t[8:]] = prof.get(t[8:], 0) + 1
            il = impl.get(c.id, [])
            st["ops"] += len(c.ops)
            for o, l in zip(c.ops, il):
                st["evictions"] += l.count("evict:")
                st["rejections"] += l.count("reject:")
                st["blocked"] += l.startswith("blocked")
                if o.startswith("set") and l.startswith("false"):
                    st["drops"] += 1
                if o == "sweep" and "evict:" in l:
                    st["sweeps_evicting"] += 1
                st["clears"] += o == "clear"
                st["closes"] += o == "close"
        st["profiles"] = prof
        return st


    # ---- real-concurrency search (not proof): TestVerifStress, optionally under the Go race detector ----
    stress_kinds = ()      # which findings of the stress run belong to this property
    stress_race = False

    def extra(self, ctx):
        if not self.stress_kinds:
            return []
        race = self.stress_race or ctx.tier == "thorough"
        if race:
            with core.Lock():
                ok, log, _ = core.build_harness("root", race=True)
            if not ok:
                raise RuntimeError("race harness does not build: " + log[-800:])
        if ctx.tier == "quick":
            rounds, ops = (5, 700) if self.stress_race else (5, 1500)
        else:
            rounds, ops = 60, 2500
        env = {"VERIF_STRESS": "1", "VERIF_SEED": str(ctx.seed + 1), "VERIF_STRESS_ROUNDS": str(rounds),
               "VERIF_STRESS_OPS": str(ops)}
        rc, out = core.run_harness("root", os.devnull, os.devnull, race=race, timeout=900 if ctx.tier == "quick" else 3000,
                                   run="^TestVerifStress$", extra_env=env)
        m = re.search(r"stress ok rounds=(\d+) ops=(\d+)", out)
        ctx.notes.append("concurrent stress%s: %s (rc=%d)" % (" under -race" if race else "", m.group(0) if m else "no ok line", rc))
        fails = []
        hdr = "go test%s -run TestVerifStress with %s\n" % (" -race" if race else "", " ".join("%s=%s" % kv for kv in sorted(env.items())))
        if "race" in self.stress_kinds and "DATA RACE" in out:
            i = out.index("WARNING: DATA RACE") if "WARNING: DATA RACE" in out else out.index("DATA RACE")
            fails.append(("data race reported by the Go race detector in the concurrent stress", hdr + out[i:i + 3000]))
        for kind in self.stress_kinds:
            tag = "stress %s:" % kind
            if kind != "race" and tag in out:
                i = out.index(tag)
                fails.append(("concurrent stress: " + out[i:i + 300].splitlines()[0], hdr + out[max(0, i - 200):i + 2500]))
        if not fails and "hang" in self.stress_kinds and (rc != 0 or not m) and not re.search(r"stress (\w+):", out):
            fails.append(("concurrent stress did not complete (rc=%d)" % rc, hdr + out[-3000:]))
        if "sweeprace" in self.stress_kinds:
            env2 = {"VERIF_STRESS": "1", "VERIF_RACE_ROUNDS": "20000" if ctx.tier == "quick" else "400000"}
            rc2, out2 = core.run_harness("root", os.devnull, os.devnull, race=False, timeout=900,
                                         run="^TestVerifStoreRace$", extra_env=env2)
            m2 = re.search(r"storerace ok rounds=(\d+)", out2)
            ctx.notes.append("store-level sweep race: %s (rc=%d)" % (m2.group(0) if m2 else "no ok line", rc2))
            hit2 = [k for k in tuple(self.stress_kinds) + ("hang",) if "stress %s:" % k in out2]
            if hit2:
                i = out2.index("stress %s:" % hit2[0])
                fails.append(("store-level race: " + out2[i:i + 300].splitlines()[0],
                              "go test -run TestVerifStoreRace with VERIF_STRESS=1\n" + out2[i:i + 1500]))
            elif rc2 != 0 or not m2:
                fails.append(("store-level sweep race did not complete (rc=%d)" % rc2, out2[-2000:]))
        pid = self.pid
        return [(f, "# property %s\n# %s\n" % (pid, f) + "".join("# " + l + "\n" for l in b.splitlines())) for f, b in fails]
