"""Base class of the cache properties: shared correspondence (gate/synctest harness vs. the extracted machine)."""
from . import cachegen
from .prop import Prop


class CacheProp(Prop):
    pkg = "root"
    quick_n = 250
    thorough_n = 6000
    profiles = None
    trusted = [
        "atomicity of the machine's steps (each = one critical section / channel operation / callback of cache.go, "
        "store.go, ttl.go, policy.go) is established by reading the code and by this correspondence, not by proof",
        "testing/synctest virtual clock; applier lag controlled by a blocking Config.Cost callback (all Sets pass "
        "cost 0); sweeps invoked white-box with the real ticker disabled; frequency estimates set white-box",
        "Go's select between buffered items and the stop signal is observed and fed to the model (annotate)",
        "cost arithmetic in unbounded Z (no int64 overflow); callbacks are pure and do not re-enter the cache",
    ]

    def probe(self, ctx):
        return cachegen.probe(ctx)

    def gen(self, rng, n, ctx):
        return cachegen.gen_cases(rng, n, ctx, self.profiles)

    def canon(self, case, i, line):
        return cachegen.canon(case, i, line)

    def annotate(self, case, impl_lines):
        return cachegen.annotate(case, impl_lines)

    def nontrivial(self, case, il):
        return any(("evict:" in l or "reject:" in l or "blocked" in l) for l in il)

    def stats(self, cases, impl):
        st = {"cases": len(cases), "ops": 0, "evictions": 0, "rejections": 0, "drops": 0, "blocked": 0,
              "sweeps_evicting": 0, "clears": 0, "closes": 0}
        prof = {}
        for c in cases:
            for t in c.tags:
                if t.startswith("profile:"):
                    prof[t[8:]] = prof.get(t[8:], 0) + 1
            il = impl.get(c.id, [])
            st["ops"] += len(c.ops)
            for o, l in zip(c.ops, il):
                st["evictions"] += l.count("evict:")
                st["rejections"] += l.count("reject:")
                st["blocked"] += l.startswith("blocked")
                if o.startswith("set") and l.startswith("false"):
                    st["drops"] += 1
                if o == "sweep" and "evict:" in l:
                    st["sweeps_evicting"] += 1
                st["clears"] += o == "clear"
                st["closes"] += o == "close"
        st["profiles"] = prof
        return st
