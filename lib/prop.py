"""Generic property check: proof obligations + correspondence + failing-input search + verdict."""
import json
import os
import random
import sys
import time

from . import core
from .core import Case


class Prop:
    pid = "C00"
    pkg = "root"             # which harness package
    title = ""
    quick_n = 200            # generated cases per tier
    thorough_n = 4000
    race = False
    trusted = []             # extra trusted-base lines
    model_files = []         # Coq files the property's theorems are about (informational)
    rule = ""                # how cases are generated / what makes one non-trivial
    annotate = None          # optional: (case, impl_lines) -> case for the model (observed scheduler choices)

    # ---- to override ----
    def probe(self, ctx):
        """optional first pass against the implementation (e.g. float-computed parameters)"""
        return None

    def gen(self, rng, n, ctx):
        """-> list[Case] for the correspondence"""
        return []

    def canon(self, case, i, line):
        return line

    def oracle(self, case, impl_lines):
        """spec-level check of the implementation's output for one case, independent of the Coq model.
        -> list of failure strings (empty = property holds on this case)"""
        return []

    def nontrivial(self, case, impl_lines):
        return True

    def classify(self, case, failure):
        """-> id of a known finding this failure is an instance of, or None"""
        return None

    def extra(self, ctx):
        """optional extra exploration (race stress, real concurrency); -> list of (failure, replay_body)"""
        return []

    def stats(self, cases, impl):
        return {}


class Ctx:
    def __init__(self, prop, tier, seed):
        self.prop = prop
        self.tier = tier
        self.seed = seed
        self.rng = random.Random(seed * 1000003 + sum(ord(c) for c in prop.pid))
        self.notes = []
        self.probe_data = None


def corpus_cases(pid):
    d = os.path.join(core.CORPUS, pid)
    out = []
    if os.path.isdir(d):
        for f in sorted(os.listdir(d)):
            if f.endswith(".case"):
                for c in core.parse_cases(os.path.join(d, f)):
                    c.id = "corpus-%s-%s" % (f[:-5], c.id)
                    c.tags.add("corpus:" + f[:-5])
                    out.append(c)
    return out


def replay_body(prop, case, what, impl=None, model=None, extra=""):
    s = "# property %s\n# %s\n" % (prop.pid, what)
    if extra:
        s += "".join("# " + l + "\n" for l in extra.splitlines())
    s += case.text()
    if impl is not None:
        s += "# implementation output:\n" + "".join("#   %s\n" % l for l in impl)
    if model is not None:
        s += "# model output:\n" + "".join("#   %s\n" % l for l in model)
    return s


def run_replay(prop, path):
    """re-execute a replay file against the current tree; exit 1 iff its recorded failure reproduces"""
    cases = core.parse_cases(path)
    ctx = Ctx(prop, "quick", 0)
    with core.Lock():
        core.regenerate()
        okc, log, _ = core.build_coq()
        okr, rlog = core.build_runner()
        okh, hlog, _ = core.build_harness(prop.pkg)
    if not okh:
        print("harness does not build:\n" + hlog[-1500:])
        return 2
    ctx.probe_data = prop.probe(ctx)
    impl, model, problems = core.run_both(prop.pkg, cases, prop.pid + "_replay", annotate=prop.annotate)
    bad = 0
    for c in cases:
        il = impl.get(c.id, [])
        fails = prop.oracle(c, il)
        print("case %s: oracle failures: %s" % (c.id, fails if fails else "none"))
        ml = model.get(c.id)
        d = core.diff_cases([c], impl, model, prop.canon)
        if d:
            print("  model/implementation disagree at op %d: impl=%r model=%r" % (d[0][1], d[0][2], d[0][3]))
        if fails or d:
            bad += 1
    return 1 if bad else 0


def run(prop, tier, seed):
    t0 = time.time()
    pid = prop.pid
    ctx = Ctx(prop, tier, seed)
    obligations = []      # (name, ok, detail)
    broken = []           # descriptions of broken proof obligations / correspondence
    violations = []       # (description, replay path, found_input: bool)
    known_lines = []

    # ------------------------------------------------------------------ builds
    with core.Lock():
        regen_msgs = core.regenerate()
        scan = core.static_scan()
        obligations.append(("static-scan:no-axiom/admit/unsafe-flags", not scan, "; ".join(scan)))
        if scan:
            broken.append("forbidden construct in development: " + "; ".join(scan))
        okc, clog, failing = core.build_coq()
        if not okc:
            # a file that does not build breaks exactly the properties whose theorems depend on it
            import re as _re
            bad = set(_re.findall(r'File "\./([^"]+\.v)"', clog)) | \
                {m[:-1] for m in _re.findall(r"\*\*\* \[Makefile[^:]*:\d+: (\S+\.vo)\] Error", clog)}
            deps = core.coq_deps(pid)
            if bad and deps is not None and not (bad & deps) and os.path.exists(
                    os.path.join(core.COQ, "theories", "Properties", pid + ".vo")):
                ctx.notes.append("Coq build: %s do(es) not build; Properties/%s.v does not depend on it" % (sorted(bad), pid))
                okc = True
        depsp = core.coq_deps(pid)
        for m in regen_msgs:
            # a translator's failure concerns the properties whose theorems depend on the file it generates
            gen_file = "theories/Gen/LockOrder.v" if m.startswith("lockorder") else "theories/Gen/SearchAsm.v"
            if depsp is None or gen_file in depsp:
                broken.append("translator: " + m)
        obligations.append(("coq-build:make(full .vo) of Properties/%s.v and everything it depends on" % pid, okc,
                            "" if okc else (failing or "") + clog[-1500:]))
        if not okc:
            broken.append("Coq build fails at %s" % (failing or "?"))
        axioms = {}
        okpa, axioms, palog = core.print_assumptions(pid)
        if not okpa:
            broken.append("theorems of Properties/%s.v do not check: %s" % (pid, palog[-800:]))
        names = core.theorems_of(pid)
        for n in names:
            ax = axioms.get(n)
            ok = ax is not None and all(a in core.ALLOWED_AXIOMS for a in ax)
            obligations.append(("theorem:" + n, ok, "not checked" if ax is None else ("axioms: " + ", ".join(ax) if ax else "closed under the global context")))
            if ax is not None and not ok:
                broken.append("theorem %s depends on non-allowed axioms %s" % (n, ax))
        if tier == "thorough" and okc and okpa and os.environ.get("VERIF_NO_COQCHK") != "1":
            # independent re-check of the compiled property file and everything it depends on
            okk, kax, klog = core.coqchk(pid)
            obligations.append(("coqchk:-o Ristretto.Properties.%s" % pid, okk,
                                ("axioms: " + ", ".join(kax)) if kax else klog[-300:].replace("\n", " ")))
            ctx.notes.append("coqchk -silent -o: %s; axioms reported: %s" % ("ok" if okk else "FAILED", kax or "<none>"))
            if not okk:
                broken.append("coqchk does not accept Properties/%s.vo: %s" % (pid, klog[-600:]))
        if getattr(prop, "shape_tie", False):
            # the machine's steps are the critical sections / channel operations of the code: their syntactic skeleton
            # is re-extracted from /repo's current tree and compared with what the machine was written against
            which = prop.shape_tie if isinstance(prop.shape_tie, str) else "cache"
            sd = core.lockshape_diff(which)
            obligations.append(("tie:synchronisation skeleton of %s = lib/%s" % ("/".join(core.SHAPES[which][0]), core.SHAPES[which][2]),
                                not sd, "; ".join(sd)[:600]))
            for d in sd[:6]:
                broken.append("the code's critical sections / step order differ from the machine's: " + d)
        okr, rlog = core.build_runner()
        if not okr:
            broken.append("extracted runner does not build: " + rlog[-800:])
        okh, hlog, _ = core.build_harness(prop.pkg)
        if not okh:
            broken.append("correspondence harness does not build against the current tree: " + hlog[-1500:])
        if okh and prop.race and tier == "thorough":
            okhr, hrlog, _ = core.build_harness(prop.pkg, race=True)

    # ------------------------------------------------------------------ correspondence
    n = prop.quick_n if tier == "quick" else prop.thorough_n
    cases = []
    impl = {}
    model = {}
    diffs = []
    oracle_fail = []      # (case, [failures])
    nontriv = set()
    evaluated = 0
    samples = []
    stats = {}
    if okh and okr:
        try:
            ctx.probe_data = prop.probe(ctx)
        except Exception as ex:   # the probe itself talks to the implementation
            broken.append("probe failed: %r" % (ex,))
        cases = corpus_cases(pid) + prop.gen(ctx.rng, n, ctx)
        impl, model, problems = core.run_both(prop.pkg, cases, pid, annotate=prop.annotate)
        for p in problems:
            broken.append("correspondence run: " + p)
        diffs = core.diff_cases(cases, impl, model, prop.canon)
        for c in cases:
            il = impl.get(c.id)
            if il is None:
                continue
            evaluated += 1
            fails = prop.oracle(c, il)
            if fails:
                oracle_fail.append((c, fails))
            if prop.nontrivial(c, il):
                nontriv.add(c.key())
        stats = prop.stats(cases, impl)
        for c in cases[:1] + cases[len(cases) // 2: len(cases) // 2 + 1]:
            samples.append({"case": c.text().splitlines()[:12], "impl": (impl.get(c.id) or [])[:12]})
        for d in diffs[:20]:
            broken.append("correspondence: case %s op %d: implementation %r, model %r" % (d[0].id, d[1], d[2], d[3]))

    # ------------------------------------------------------------------ extra exploration
    extra_fail = []
    if okh:
        try:
            extra_fail = prop.extra(ctx) or []
        except Exception as ex:
            broken.append("extra exploration crashed: %r" % (ex,))

    # ------------------------------------------------------------------ known findings
    kf = {k["id"]: k for k in core.known_findings(pid)}
    kf_seen = set()
    real_fail = []
    for c, fails in oracle_fail:
        for f in fails:
            k = None
            for t in c.tags:
                if t.startswith("corpus:known-") and t[len("corpus:known-"):] in kf:
                    k = t[len("corpus:known-"):]
            if k is None:
                k = prop.classify(c, f)
            if k is not None and k in kf:
                kf_seen.add(k)
            else:
                real_fail.append((c, f))
    for f, body in extra_fail:
        k = prop.classify(None, f)
        if k is not None and k in kf:
            kf_seen.add(k)
        else:
            p = core.write_replay(pid, seed, "extra%d" % len(violations), body)
            violations.append((f, p, True))
    for k in sorted(kf_seen):
        known_lines.append("KNOWN-FINDING: property=%s %s" % (pid, kf[k]["what"]))

    # ------------------------------------------------------------------ verdict
    if real_fail:
        c, f = real_fail[0]

        def still_fails(cc):
            i2, m2, _ = core.run_both(prop.pkg, [cc], pid + "_shrink", annotate=prop.annotate)
            return bool(prop.oracle(cc, i2.get(cc.id, [])))
        try:
            small = core.shrink(c, still_fails) if len(c.ops) > 3 else c
        except Exception:
            small = c
        i2, m2, _ = core.run_both(prop.pkg, [small], pid + "_shrink", annotate=prop.annotate)
        p = core.write_replay(pid, seed, "oracle", replay_body(prop, small, "property oracle fails: " + f,
                                                              i2.get(small.id), m2.get(small.id)))
        violations.append((f, p, True))
    elif broken and not violations:
        # proof or correspondence broken: search model and implementation for a failing input
        found = None
        if okh:
            # shrink the disagreeing case first, then look at it and at a 10x batch with the oracle
            search_cases = []
            if diffs:
                c0 = diffs[0][0]

                def still_differs(cc):
                    i2, m2, _ = core.run_both(prop.pkg, [cc], pid + "_shrink", annotate=prop.annotate)
                    return bool(core.diff_cases([cc], i2, m2, prop.canon))
                try:
                    small = core.shrink(c0, still_differs) if len(c0.ops) > 3 else c0
                except Exception:
                    small = c0
                search_cases.append(small)
            try:
                extra_cases = prop.gen(random.Random(seed + 777), n * 10, ctx)
                for c in extra_cases:
                    c.id = "s" + c.id          # ids key the outputs: keep them apart from the shrunk case's id
                search_cases += extra_cases
            except Exception:
                pass
            if search_cases:
                i3, m3, _ = core.run_both(prop.pkg, search_cases, pid + "_search", annotate=prop.annotate)
                for c in search_cases:
                    fl = prop.oracle(c, i3.get(c.id, []))
                    fl = [f for f in fl if prop.classify(c, f) not in kf]
                    if fl:
                        found = (c, fl[0], i3.get(c.id), m3.get(c.id))
                        break
        if found:
            c, f, il, ml = found
            p = core.write_replay(pid, seed, "found", replay_body(
                prop, c, "property oracle fails: " + f, il, ml, extra="broken: " + " | ".join(broken)[:1500]))
            violations.append((f, p, True))
        else:
            body = "# property %s\n# no failing input found; what no longer checks:\n" % pid
            body += "".join("#   %s\n" % b.replace("\n", " ")[:600] for b in broken)
            if diffs:
                c0, i, x, y = diffs[0]
                body += replay_body(prop, c0, "model/implementation disagree at op %d: impl=%r model=%r" % (i, x, y),
                                    impl.get(c0.id), model.get(c0.id))
            p = core.write_replay(pid, seed, "unproved", body)
            violations.append(("; ".join(broken)[:300], p, False))

    # ------------------------------------------------------------------ evidence
    nobl = len(obligations)
    ndis = sum(1 for o in obligations if o[1])
    trusted = [
        "Coq 8.16.1 kernel (coqc); vm_compute used inside proofs of finite sweeps and computed witnesses; no native_compute",
        "axioms per theorem as printed by Print Assumptions: " + json.dumps({k: v for k, v in axioms.items()}),
        "extraction: Require Extraction + ExtrOcamlBasic only (bool,option,unit,list,prod,sumbool,sumor; andb/orb inlined); nat/positive/N/Z stay Coq datatypes; OCaml 4.13.1; hand-written ocaml/runner.ml + comp_*.ml",
        "correspondence harness /verif/harness/%s (Go, white-box via -overlay, build tag verif) and lib/*.py (generators, diff)" % prop.pkg,
    ] + list(prop.trusted)
    cov = {
        "obligations": nobl, "discharged": ndis,
        "checker_cmd": "cd /verif/coq && coq_makefile -f _CoqProject -o Makefile && make -j16  # then coqc build/pa/PA_%s.v (Print Assumptions)" % pid,
        "trusted_base": trusted,
        "obligation_list": [{"name": o[0], "ok": o[1], "detail": o[2][:300]} for o in obligations],
        "evaluations": evaluated,
        "distinct_nontrivial": len(nontriv),
        "rule": prop.rule,
        "samples": samples,
        "traces_validated_against_impl": evaluated - len(diffs),
        "disagreements": len(diffs),
        "input_distribution": stats,
        "known_findings_seen": sorted(kf_seen),
        "broken": [b[:400] for b in broken],
        "notes": ctx.notes,
    }
    core.write_evidence(pid, tier, seed, cov, list(prop.trusted), time.time() - t0, len(violations))
    for l in known_lines:
        print(l)
    if violations:
        for f, p, found in violations:
            print("violation: " + f.replace("\n", " ")[:500])
            print("VIOLATION property=%s replay=%s%s" % (pid, p, "" if found else " no-failing-input-found"))
        return 1
    print("OK %s tier=%s seed=%d obligations=%d/%d cases=%d nontrivial=%d disagreements=%d wall=%.1fs" % (
        pid, tier, seed, ndis, nobl, evaluated, len(nontriv), len(diffs), time.time() - t0))
    return 0
