"""Shared by the cache properties (C01-C09, C13-C15, C17): case generator for the gate/synctest cache harness,
canonicalisation, annotation of observed scheduler choices, and a reference interpreter of the implementation's
output lines that the per-property oracles build on."""
import os
import re

from . import core
from .core import Case
from .policygen import mix

START_DEFAULT = 946684800000000000
CB = re.compile(r"^(exit|evict|reject|done|rwset):")


def probe(ctx):
    c = Case("probe", "cacheprobe", [], [["x"]])
    cf = os.path.join(core.BUILD, "probe_cache_%s.txt" % ctx.prop.pid)
    out = os.path.join(core.BUILD, "probe_cache_%s.out" % ctx.prop.pid)
    core.write_cases([c], cf)
    core.run_harness("root", cf, out)
    lines = core.parse_output(out).get("probe", [])
    if lines and len(lines[0].split()) == 2:
        a, b = lines[0].split()
        return {"item_size": int(a), "start": int(b)}
    return {"item_size": 56, "start": START_DEFAULT}


def _wrap_store(tok):
    out = []
    for e in tok[6:].split(","):
        f = e.split(":")
        if len(f) == 4 and f[3].lstrip("-").isdigit():
            v = int(f[3])
            f[3] = str(((v + (1 << 63)) % (1 << 64)) - (1 << 63))
        out.append(":".join(f))
    return "store=" + ",".join(out)


def canon(case, i, line):
    """sort callback tokens (Go map order decides their order inside one step); drop ring-buffer counters"""
    fs = line.split()
    if line.startswith("store="):
        # the harness prints an entry's expiration with Time.UnixNano(), which wraps beyond the year 2262 (TTLs of
        # "forever"); the model prints the exact instant: compare modulo 2^64
        fs = [_wrap_store(f) if f.startswith("store=") else f for f in fs]
    head = [f for f in fs if not CB.match(f) and not f.startswith("gk:") and not f.startswith("gd:")]
    tail = sorted(f for f in fs if CB.match(f))
    return " ".join(head + tail)


def annotate(case, impl_lines):
    """the model receives the scheduler choices the implementation was observed to take: after a token, a
    blocked Clear/Close either proceeded (the applier took the stop signal) or not (it received the next item)"""
    if case.comp != "cache":
        return case
    pending = set()
    ops = []
    for n, op in enumerate(case.ops):
        l = impl_lines[n] if n < len(impl_lines) else ""
        fs = op.split()
        toks = l.split()
        if fs[0] in ("clear", "close", "closeset", "clearset") and toks[:1] == ["blocked"]:
            pending.add(str(n))
        done = {t[5:] for t in toks if t.startswith("done:")}
        if fs[0] == "tok" and pending and not (pending & done):
            op = "tok hold"
        elif fs[0] == "tok" and pending and toks[:1] == ["ok"]:
            # the blocked Clear/Close completed: which ungated items the applier still processed itself before it took
            # the stop signal (Go's select) shows in the tombstones it applied: OnExit without OnEvict/OnReject
            ev = {t.split(":")[3] for t in toks if t.startswith("evict:") or t.startswith("reject:")}
            ex = sorted({t[5:] for t in toks if t.startswith("exit:")} - ev)
            op = "tok sel " + (",".join(ex) if ex else "-")
        if fs[0] in ("closeset", "clearset") and toks[:1] != ["blocked"]:
            op = op + " pass"      # the restarted applier took the stop signal before the buffered item (Go's select)
        if fs[0] == "sweepit":
            first = [t.split(":")[1] for t in toks if t.startswith("rwset:")]
            op = op + " " + (first[0] if first else "none")
        if fs[0] == "sweeprw":
            # which of the two keys the sweep visited first (Go map order), and whether the rewrite happened
            first = [t.split(":")[1] for t in toks if t.startswith("rwset:")]
            op = op + " " + (first[0] if first else "none")
        pending -= done
        ops.append(op)
    return Case(case.id, case.comp, case.args, ops, case.tags)


class Gen:
    def __init__(self, rng, pd):
        self.rng = rng
        self.item_size = pd["item_size"]
        self.start = pd["start"]
        self.val = 100

    def header(self, max_cost, buf, ignore, metrics, should, bdur):
        return [max_cost, buf, 1 if ignore else 0, 1 if metrics else 0, should, self.item_size, self.start, bdur]

    def fresh(self):
        self.val += 1
        return self.val

    def case(self, cid, profile):
        rng = self.rng
        self.val = 100
        ops = []
        ignore = True
        metrics = rng.random() < 0.8
        should = 0
        bdur = rng.choice([1, 5])
        buf = rng.choice([2, 4, 8, 64])
        nkeys = 6
        max_cost = 100
        lo, hi = 21, 60
        ttl_p = 0.25
        if profile in ("roomy", "roomyshould"):
            if profile == "roomyshould":
                should = rng.choice([1, 2])     # room to spare, and a ShouldUpdate that refuses (2) or accepts newer ids (1)
            ignore = rng.random() < 0.5
            max_cost = 10 ** 6
            nkeys = 20
            lo, hi = 1, 200
            buf = rng.choice([4, 16, 64])
        elif profile == "tinybuf":
            buf = rng.choice([1, 1, 2, 3])
        elif profile == "should":
            should = rng.choice([1, 2])
        elif profile == "shouldttl":
            should = rng.choice([1, 2])
            ttl_p = 0.8
        elif profile == "ttl":
            ttl_p = 0.8
        elif profile == "internal":
            ignore = False
            max_cost = 100 + 5 * self.item_size
            lo, hi = 25, 60
        # (hash, conflict) pairs; integer keys have conflict hash 0 (z.KeyToHash): every case has some of those
        keys = [(mix(h), 0 if h % 3 == 0 else 10 * h) for h in range(1, nkeys + 1)]
        # Metrics spreads each counter over 25 stripes by hash % 25: mix(28) is in the last one (24), none of mix(1..20) is
        keys[-1] = (mix(28), 280)
        if profile == "collide":
            keys = [(mix(1), 10), (mix(1), 11), (mix(2), 20), (mix(2), 0), (mix(3), 30), (mix(3), 31), (mix(4), 40)]
        hashes = sorted({h for h, _ in keys})

        def ests():
            if len(hashes) <= 14:
                vals = list(range(1, len(hashes) + 1))
                rng.shuffle(vals)
            else:
                vals = [rng.randrange(1, 15) for _ in hashes]
            return [["est", h, v] for h, v in zip(hashes, vals)] + [["estcheck", h] for h in hashes]
        ops += ests()
        pending_sets = 0
        n_ops = rng.randrange(10, 70)
        closed = False
        for _ in range(n_ops):
            r = rng.random()
            k, c = rng.choice(keys)
            if r < 0.30:
                ttl = 0
                if rng.random() < ttl_p:
                    ttl = rng.choice([1, 10 ** 9, 3 * 10 ** 9, 7 * 10 ** 9 + 5, 60 * 10 ** 9, -5])
                    if rng.random() < 0.06:
                        # "forever": expirations beyond what UnixNano can represent (year 2262)
                        ttl = rng.choice([(1 << 63) - 1, 9 * 10 ** 18, 1 << 62])
                cost = rng.randrange(lo, hi + 1)
                if ignore and rng.random() < 0.07:
                    cost = 0          # an effective cost of exactly 0 (no internal cost, Config.Cost returns 0)
                if rng.random() < 0.12:
                    # an explicit non-zero cost (Config.Cost not consulted, the applier does not wait at the gate), now and
                    # then at or beyond MaxCost
                    if len(hashes) <= 14 and rng.random() < 0.3:
                        # (only where the estimates are pairwise distinct: an oversize resident forces evictions, and among
                        # equal estimates Go's map order would pick the victim)
                        cost = rng.choice([max_cost, max_cost + 1, 10 * max_cost])
                    ops.append(["set", k, c, self.fresh(), max(cost, 1), ttl, "x"])
                else:
                    ops.append(["set", k, c, self.fresh(), cost, ttl])
                    pending_sets += 1
            elif r < 0.50:
                ops.append(["get", k, c])
            elif r < 0.62:
                ops.append(["tok"])
            elif r < 0.69:
                ops.append(["del", k, c])
            elif r < 0.72:
                ops.append(["wait"])
            elif r < 0.76:
                ops.append(["ttl", k, c])
            elif r < 0.82:
                ops.append(["tick", rng.choice([1, 10 ** 9 - 1, 10 ** 9, 10 ** 9 + 1, 2 * 10 ** 9, 5 * 10 ** 9, 11 * 10 ** 9])])
            elif r < 0.86:
                ops.append(["sweep"])
            elif r < 0.89:
                ops.append(["iter"])
            elif r < 0.92:
                ops += [["rem"], ["metrics"]]
            elif r < 0.95:
                ops.append(["dump"])
            elif r < 0.97:
                # quiescent Clear: drain first (extra tokens are harmless)
                ops += [["tok"]] * (pending_sets + 1) + [["dump"], ["clear"], ["dump"], ["rem"], ["metrics"]] + ests()
                pending_sets = 0
            elif r < 0.985 and profile != "tinybuf":
                # Clear while gated items are buffered: it blocks until the applier takes the stop signal
                ops += [["tok"]] * (pending_sets + 1)
                m = rng.randrange(1, min(buf, 4) + 1)
                for _ in range(m):
                    kk, cc = rng.choice(keys)
                    ops.append(["set", kk, cc, self.fresh(), rng.randrange(lo, hi + 1), 0])
                ops += [["clear"]] + [["tok"]] * (m + 2) + [["dump"], ["metrics"]] + ests()
                pending_sets = 0
            else:
                if len(hashes) <= 14 and rng.random() < 0.3:
                    # the budget lowered, down to below the internal per-item cost (every newcomer is then too big)
                    ops += [["updmax", rng.choice([1, self.item_size - 1, self.item_size, max_cost // 2])], ["max"]]
                else:
                    ops += [["updmax", max_cost + rng.randrange(0, 50)], ["max"]]
        # drain and final consistency observations
        ops += [["tok"]] * (pending_sets + 2) + [["wait"], ["dump"], ["rem"], ["metrics"], ["iter"]]
        if rng.random() < 0.5:
            ops += [["close"]]
            closed = True
            for _ in range(rng.randrange(1, 6)):
                k, c = rng.choice(keys)
                ops.append(rng.choice([["set", k, c, self.fresh(), 30, 0], ["get", k, c], ["del", k, c], ["wait"],
                                       ["clear"], ["close"], ["iter"], ["rem"]]))
        return Case(cid, "cache", self.header(max_cost, buf, ignore, metrics, should, bdur), ops,
                    tags=["profile:" + profile])


PROFILES = ["basic", "basic", "roomy", "tinybuf", "should", "ttl", "ttl", "internal", "collide", "shouldttl"]


def gen_cases(rng, n, ctx, profiles=None, prefix="c"):
    pd = ctx.probe_data or {"item_size": 56, "start": START_DEFAULT}
    g = Gen(rng, pd)
    profiles = profiles or PROFILES
    return [g.case("%s%d" % (prefix, j), profiles[j % len(profiles)]) for j in range(n)]


# ------------------------------------------------------------------------------------------------
# reference interpretation of implementation output (for oracles)
# ------------------------------------------------------------------------------------------------
def parse_line(line):
    """-> (result tokens, [callback tokens in the order they were made], [done ids])"""
    fs = line.split()
    res = [f for f in fs if not CB.match(f)]
    cbs = [f for f in fs if CB.match(f) and not f.startswith("done:") and not f.startswith("rwset:")]
    done = [f[5:] for f in fs if f.startswith("done:")]
    return res, cbs, done


class Trace:
    """walks the ops of a case together with the implementation's lines and exposes what the oracles need:
    per value: the key it was Set under, whether its Set returned true, its callbacks, when it exited; the virtual
    clock; Get results with the op index."""

    def __init__(self, case, lines):
        self.case = case
        self.now = int(case.args[6])
        self.steps = []
        self.val_key = {}
        self.val_ttl = {}
        self.val_set_time = {}
        self.val_cost = {}
        self.accepted = {}
        for n, op in enumerate(case.ops):
            if n >= len(lines):
                break
            fs = op.split()
            res, cbs, done = parse_line(lines[n])
            st = {"n": n, "op": fs, "res": res, "cbs": cbs, "done": done, "now": self.now, "raw": lines[n]}
            if fs[0] == "tick":
                self.now += int(fs[1])
            if fs[0] == "set":
                v = int(fs[3])
                self.val_key[v] = (int(fs[1]), int(fs[2]))
                self.val_ttl[v] = int(fs[5])
                self.val_set_time[v] = self.now
                self.val_cost[v] = int(fs[4])
                self.accepted[v] = (res[:1] == ["true"])
            self.steps.append(st)
