"""Policy-level cases (white-box defaultPolicy.Add/Update/Del) shared by C03 and C09."""
from .core import Case

M64 = (1 << 64) - 1


def mix(k):
    """splitmix64: well-mixed 64-bit key hashes (small integers are degenerate inputs for the doorkeeper Bloom
    filter, whose bit positions are multiples of the low hash bits)"""
    z = (k * 0x9E3779B97F4A7C15 + 0x1234567) & M64
    z = ((z ^ (z >> 30)) * 0xBF58476D1CE4E5B9) & M64
    z = ((z ^ (z >> 27)) * 0x94D049BB133111EB) & M64
    return z ^ (z >> 31)


def dedupe_victims(s):
    """fillSample can put a key into the sample twice (Go map order decides); the second 'eviction' of the same
    key evicts nothing.  Keep the first occurrence of every victim key."""
    if s == "-":
        return s
    seen, out = set(), []
    for v in s.split(","):
        k = v.split(":")[0]
        if k not in seen:
            seen.add(k)
            out.append(v)
    return ",".join(out)


def canon_policy(case, i, line):
    fs = line.split()
    if len(fs) == 2 and fs[0] in ("true", "false"):
        return fs[0] + " " + dedupe_victims(fs[1])
    return line


def gen_policy_cases(rng, n, prefix="p"):
    cases = []
    for j in range(n):
        big = (j % 3 == 2)
        max_cost = rng.choice([100, 100, 1000, 57])
        nkeys = rng.choice([8, 12, 30]) if big else rng.choice([3, 5, 6, 7])
        keys = [mix(i) for i in range(1, nkeys + 1)]
        ops = []
        if not big:
            vals = list(range(1, nkeys + 1))
            rng.shuffle(vals)
            est = dict(zip(keys, vals))
        else:
            est = {k: rng.randrange(0, 9) for k in keys}
        for k in keys:
            if est[k] > 0:
                ops.append(["est", k, est[k]])
        for k in keys:
            ops.append(["estcheck", k])
        # small cases must be decided by the estimates alone, whatever Go's map order puts into the 5-slot sample: either
        # there are at most 5 keys, or every cost exceeds a fifth of the largest MaxCost the case can reach (updmax adds
        # up to 39) and no cost is 0, so that at most 4 keys are ever accounted
        tight = (not big) and nkeys > 5
        lo = ((max_cost + 40) // 5 + 1 if tight else max(1, max_cost // 5 + 1)) if not big else 1
        hi = max(lo + 1, max_cost * 3 // 5) if not big else max(2, max_cost // 6)
        for _ in range(rng.randrange(8, 60)):
            r = rng.random()
            k = rng.choice(keys)
            if r < 0.55:
                c = rng.randrange(lo, hi + 1)
                if rng.random() < 0.06:
                    c = rng.choice(([] if tight else [0]) + [max_cost, max_cost + 1, 10 * max_cost])
                ops.append(["add", k, c])
            elif r < 0.68:
                ops.append(["upd", k, rng.randrange(lo, hi + 1)])
            elif r < 0.78:
                ops.append(["del", k])
            elif r < 0.86:
                ops += [["cap"], ["costs"]]
            elif r < 0.9:
                ops += [["has", k], ["cost", k]]
            elif r < 0.93:
                ops.append(["updmax", max_cost + rng.randrange(0, 40)])
            elif big and r < 0.96:
                # the sketch ages (halved counters, cleared doorkeeper): later admissions are judged by the aged estimates
                ops.append(["age"])
                ops += [["estcheck", k2] for k2 in keys]
            else:
                ops.append(["metrics"])
        ops += [["cap"], ["costs"], ["metrics"]]
        cases.append(Case("%s%d" % (prefix, j), "policybig" if big else "policy", [max_cost, 1 if rng.random() < 0.7 else 0],
                          ops, tags=["big" if big else "small"]))
    return cases


def annotate_policy(case, impl_lines):
    """policybig: the model is told the outcome of each Add (Go map order decides the sample)"""
    if case.comp != "policybig":
        return case
    ops = []
    for n, op in enumerate(case.ops):
        if op.startswith("add ") and n < len(impl_lines):
            fs = impl_lines[n].split()
            if len(fs) == 2 and fs[0] in ("true", "false"):
                op = op + " " + fs[0] + " " + fs[1]
        if op == "age" and n < len(impl_lines):
            fs = impl_lines[n].split()
            op = "age " + (fs[1] if len(fs) == 2 and fs[0] == "ok" else "-")
        ops.append(op)
    return Case(case.id, case.comp, case.args, ops, case.tags)


class PolRef:
    """reference bookkeeping over the implementation's output of a policy case"""

    def __init__(self, case, lines):
        self.fails = []
        max_cost = int(case.args[0])
        costs = {}
        est = {}
        self.events = []
        for n, (op, l) in enumerate(zip(case.ops, lines)):
            fs = op.split()
            out = l.split()
            if l.startswith("panic") or l.startswith("invalid"):
                self.fails.append("op %d %s -> %s" % (n, op, l))
                continue
            if fs[0] == "estcheck":
                est[int(fs[1])] = int(out[0])
                if len(out) > 1 and out[1].startswith("ref="):
                    self.fails.append("op %d: Estimate(%s) = %s but count-min + doorkeeper bit = %s" % (n, fs[1], out[0], out[1][4:]))
                    est[int(fs[1])] = int(out[1][4:])
            elif fs[0] == "age":
                if len(out) > 1 and out[1] != "-":
                    for kv in out[1].split(","):
                        a, b = kv.split(":")
                        est[int(a)] = int(b)
            elif fs[0] == "updmax":
                max_cost = int(fs[1])
            elif fs[0] == "clear":
                costs = {}
                est = {}
            elif fs[0] == "upd":
                if int(fs[1]) in costs:
                    costs[int(fs[1])] = int(fs[2])
            elif fs[0] == "del":
                costs.pop(int(fs[1]), None)
            elif fs[0] == "add":
                k, c = int(fs[1]), int(fs[2])
                added = out[0] == "true"
                try:
                    victims = [] if out[1] == "-" else [tuple(map(int, v.split(":"))) for v in dedupe_victims(out[1]).split(",")]
                except (ValueError, IndexError):
                    self.fails.append("op %d %s -> unparsable %s" % (n, op, l))
                    continue
                before = dict(costs)
                used_before = sum(costs.values())
                self.events.append({"n": n, "key": k, "cost": c, "added": added, "victims": victims,
                                    "before": before, "est": dict(est), "max": max_cost, "used": used_before})
                for vk, vc in victims:
                    costs.pop(vk, None)
                if added:
                    costs[k] = c
                elif k in before and c <= max_cost:
                    costs[k] = c
            elif fs[0] == "cap":
                want = max_cost - sum(costs.values())
                if int(out[0]) != want:
                    self.fails.append("op %d: Cap()=%s but MaxCost - sum of accounted costs = %d" % (n, out[0], want))
            elif fs[0] == "costs":
                got = {} if out[0] == "-" else {int(x.split(":")[0]): int(x.split(":")[1]) for x in out[0].split(",")}
                if got != costs:
                    self.fails.append("op %d: accounted costs %s, reference %s" % (n, got, costs))
