#!/usr/bin/env python3
"""Seeded-defect campaign helper.
  confirm <dir> <id>   : in a scratch worktree of /repo: the demonstration passes on the clean tree, fails with the
                         patch, and the repository's whole test suite still passes with the patch
  detect <dir> <id> [check ids...] : git -C /repo apply <patch>; run ./check <ids> (quick); git -C /repo checkout -- .
<dir> holds patch.diff, demo_test.go, meta.json (as delivered by the sub-agent).  Results: /tmp/seedres/<id>.*.json"""
import json
import os
import re
import subprocess
import sys
import time

ROOT = os.path.dirname(os.path.dirname(os.path.abspath(__file__)))
RES = "/tmp/seedres"


def sh(cmd, cwd=None, timeout=1800):
    env = dict(os.environ)
    env["GOFLAGS"] = "-mod=mod"
    env["GOPROXY"] = "off"
    env.pop("GOTOOLCHAIN", None)
    try:
        p = subprocess.run(cmd, cwd=cwd, shell=True, env=env, stdout=subprocess.PIPE, stderr=subprocess.STDOUT, timeout=timeout)
        return p.returncode, p.stdout.decode("utf-8", "replace")
    except subprocess.TimeoutExpired as ex:
        return 124, (ex.stdout or b"").decode("utf-8", "replace") + "\n[timeout]"


def confirm(d, sid):
    meta = json.load(open(os.path.join(d, "meta.json")))
    wt = "/tmp/confirm_" + sid
    sh("git -C /repo worktree remove --force %s" % wt)
    rc, out = sh("git -C /repo worktree add --detach %s" % wt)
    res = {"id": sid, "dir": d, "steps": []}
    try:
        pkg = meta.get("demo_package_dir", ".").strip("/") or "."
        if pkg in ("", "./"):
            pkg = "."
        demo = open(os.path.join(d, "demo_test.go")).read()
        tests = re.findall(r"^func (Test\w+)\(", demo, re.M)
        target = os.path.join(wt, pkg, "zz_demo_test.go")
        open(target, "w").write(demo)
        run = "go test -vet=off -count=1 -timeout 600s -run '^(%s)$' ./%s" % ("|".join(tests), pkg)
        rc0, out0 = sh(run, cwd=wt, timeout=900)
        res["demo_cmd"] = run
        res["demo_clean_rc"] = rc0
        res["demo_clean_tail"] = out0[-600:]
        rca, outa = sh("git apply %s" % os.path.join(d, "patch.diff"), cwd=wt)
        res["patch_applies"] = rca == 0
        rc1, out1 = sh(run, cwd=wt, timeout=900)
        res["demo_patched_rc"] = rc1
        res["demo_patched_tail"] = out1[-1200:]
        os.remove(target)
        t0 = time.time()
        rcb, outb = sh("go build ./... && go test -vet=off -count=1 -timeout 25m ./...", cwd=wt, timeout=1700)
        res["suite_patched_rc"] = rcb
        res["suite_secs"] = round(time.time() - t0)
        res["suite_tail"] = "\n".join(l for l in outb.splitlines() if not l.startswith("ok ") and "no test files" not in l)[-1500:]
        res["confirmed"] = bool(rc0 == 0 and rca == 0 and rc1 != 0 and rcb == 0)
    finally:
        sh("git -C /repo worktree remove --force %s" % wt)
    json.dump(res, open(os.path.join(RES, sid + ".confirm.json"), "w"), indent=1)
    print(sid, "confirmed" if res.get("confirmed") else "NOT CONFIRMED",
          "clean=%s patched=%s suite=%s" % (res.get("demo_clean_rc"), res.get("demo_patched_rc"), res.get("suite_patched_rc")))


def detect(d, sid, checks):
    patch = os.path.join(d, "patch.diff")
    rc, out = sh("git -C /repo status --porcelain")
    if out.strip():
        print("refusing: /repo is not clean:\n" + out)
        sys.exit(2)
    res = {"id": sid, "checks": {}}
    rc, out = sh("git -C /repo apply %s" % patch)
    if rc != 0:
        print("patch does not apply to /repo: " + out)
        sys.exit(2)
    try:
        for c in checks:
            t0 = time.time()
            rc, out = sh("./check %s" % c, cwd=ROOT, timeout=1500)
            viol = [l for l in out.splitlines() if l.startswith("VIOLATION") or l.startswith("violation:")]
            res["checks"][c] = {"rc": rc, "secs": round(time.time() - t0), "lines": [v[:400] for v in viol][:4]}
            print(sid, c, "rc=%d" % rc, (viol[0][:200] if viol else out.strip().splitlines()[-1][:200] if out.strip() else ""))
    finally:
        sh("git -C /repo checkout -- .")
        rc, out = sh("git -C /repo status --porcelain")
        if out.strip():
            print("WARNING: /repo not clean after revert:\n" + out)
    prev = {}
    f = os.path.join(RES, sid + ".detect.json")
    if os.path.exists(f):
        prev = json.load(open(f)).get("checks", {})
    prev.update(res["checks"])
    res["checks"] = prev
    json.dump(res, open(f, "w"), indent=1)


if __name__ == "__main__":
    os.makedirs(RES, exist_ok=True)
    if sys.argv[1] == "confirm":
        confirm(sys.argv[2], sys.argv[3])
    elif sys.argv[1] == "detect":
        detect(sys.argv[2], sys.argv[3], sys.argv[4:])
