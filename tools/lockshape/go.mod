module lockshape

go 1.21
