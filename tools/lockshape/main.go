// lockshape prints, for every function of the given Go files, the sequence of synchronisation-relevant tokens of its
// body in source order: mutex operations (with "defer"), channel sends / receives / closes, select statements (and
// whether they have a default clause), go statements, and calls of the methods / callbacks that are steps of the
// lock-grain machine (coq/theories/Cache/Machine.v).  The output is the syntactic skeleton the machine's step programs
// were written against; /verif compares it with the committed expectation on every run.
package main

import (
	"fmt"
	"go/ast"
	"go/parser"
	"go/token"
	"os"
	"sort"
	"strings"
)

var interest = map[string]bool{
	"get": true, "Get": true, "Set": true, "Del": true, "DelExpired": true, "Update": true, "Clear": true,
	"Expiration": true, "Cleanup": true, "cleanup": true, "add": true, "update": true, "del": true, "clear": true,
	"Add": true, "Has": true, "Cap": true, "Cost": true, "Push": true, "UpdateMaxCost": true,
	"onEvict": true, "onExit": true, "onReject": true, "cost": true, "shouldUpdate": true,
	"updateIfHas": true, "fillSample": true, "roomLeft": true, "Increment": true, "Estimate": true, "reset": true,
	"Done": true, "Stop": true, "processItems": true, "IterValues": true, "Store": true, "Load": true,
}

func sel(e ast.Expr) string {
	switch x := e.(type) {
	case *ast.Ident:
		return x.Name
	case *ast.SelectorExpr:
		return sel(x.X) + "." + x.Sel.Name
	case *ast.IndexExpr:
		return sel(x.X)
	case *ast.IndexListExpr:
		return sel(x.X)
	case *ast.ParenExpr:
		return sel(x.X)
	case *ast.StarExpr:
		return sel(x.X)
	case *ast.CallExpr:
		return sel(x.Fun) + "()"
	}
	return "?"
}

func last(s string) string {
	if i := strings.LastIndex(s, "."); i >= 0 {
		return s[i+1:]
	}
	return s
}

func shape(body *ast.BlockStmt) []string {
	var toks []string
	var chans []string
	calls := map[string]bool{}
	// functions that take an object out of a sync.Pool: the order of pool.Get / uses (Push) / pool.Put matters (the
	// object is exclusively owned between Get and Put), so it is recorded in source order
	var poolseq []string
	usesPool := false
	deferred := map[*ast.CallExpr]bool{}
	ast.Inspect(body, func(n ast.Node) bool {
		switch x := n.(type) {
		case *ast.DeferStmt:
			deferred[x.Call] = true
		case *ast.GoStmt:
			chans = append(chans, "go:"+last(sel(x.Call.Fun)))
		case *ast.SendStmt:
			chans = append(chans, "send:"+last(sel(x.Chan)))
		case *ast.UnaryExpr:
			if x.Op == token.ARROW {
				chans = append(chans, "recv:"+last(sel(x.X)))
			}
		case *ast.SelectStmt:
			def := ""
			for _, c := range x.Body.List {
				if cc, ok := c.(*ast.CommClause); ok && cc.Comm == nil {
					def = "+default"
				}
			}
			chans = append(chans, "select"+def)
		case *ast.CallExpr:
			name := sel(x.Fun)
			l := last(name)
			pre := ""
			if deferred[x] {
				pre = "defer "
			}
			if strings.Contains("."+name, ".pool.") && (l == "Get" || l == "Put") {
				usesPool = true
				poolseq = append(poolseq, pre+"pool."+l)
			} else if l == "Push" {
				poolseq = append(poolseq, pre+"Push")
			}
			switch {
			case l == "Lock" || l == "Unlock" || l == "RLock" || l == "RUnlock" || l == "TryLock" || l == "TryRLock":
				toks = append(toks, pre+l)
			case strings.HasPrefix(name, "atomic."):
				// atomic read-modify-write / load / store on shared words: in source order, like mutex operations
				toks = append(toks, "atomic:"+l)
			case name == "close":
				if len(x.Args) == 1 {
					chans = append(chans, "close:"+last(sel(x.Args[0])))
				}
			case interest[l]:
				// metric counters, the closed flag and time arithmetic are not steps of the machine
				if strings.Contains(name, "etrics.") || strings.Contains(name, "isClosed.") || strings.Contains(name, "Now()") {
					break
				}
				parts := strings.Split(name, ".")
				if len(parts) > 2 {
					parts = parts[len(parts)-2:]
				}
				calls[strings.Join(parts, ".")] = true
			}
		}
		return true
	})
	// calls of machine steps / callbacks: as a sorted set (branch order, helper closures and de-duplication of
	// identical calls do not matter; which steps a function can take does)
	// channel operations, select and go statements: as a sorted multiset (a helper closure moves them in the source)
	sort.Strings(chans)
	if len(chans) > 0 {
		toks = append(toks, "| chan:")
		toks = append(toks, chans...)
	}
	if usesPool {
		toks = append(toks, "| pool-order:")
		toks = append(toks, poolseq...)
	}
	var cs []string
	for c := range calls {
		cs = append(cs, c)
	}
	sort.Strings(cs)
	if len(cs) > 0 {
		toks = append(toks, "| calls:")
		toks = append(toks, cs...)
	}
	return toks
}

func main() {
	fset := token.NewFileSet()
	var lines []string
	for _, fn := range os.Args[1:] {
		f, err := parser.ParseFile(fset, fn, nil, 0)
		if err != nil {
			fmt.Fprintln(os.Stderr, err)
			os.Exit(2)
		}
		for _, d := range f.Decls {
			fd, ok := d.(*ast.FuncDecl)
			if !ok || fd.Body == nil {
				continue
			}
			recv := ""
			if fd.Recv != nil && len(fd.Recv.List) == 1 {
				recv = last(sel(fd.Recv.List[0].Type)) + "."
			}
			toks := shape(fd.Body)
			if len(toks) == 0 {
				continue
			}
			lines = append(lines, fmt.Sprintf("%s%s: %s", recv, fd.Name.Name, strings.Join(toks, " ")))
		}
	}
	sort.Strings(lines)
	for _, l := range lines {
		fmt.Println(l)
	}
}
