module lockorder

go 1.21
