// lockorder: static lock-acquisition order of a Go package, from its type-checked source.
//
// usage: lockorder DIR FILE...      (DIR = package directory; FILE = the files whose functions are analysed)
//
// Output (sorted, one fact per line):
//
//	class <C>                       a mutex class: the named type that embeds / the field that is a sync.Mutex / RWMutex
//	edge <held> <acquired> <func>   inside <func> (or something it calls, transitively) <acquired> is locked while <held> is held
//	chanop <held> <func>            inside <func> a channel operation that can block (send, receive, select without default,
//	                                range over a channel) is performed while <held> is held
//
// A lock is held from its Lock/RLock call to the matching Unlock/RUnlock at the same block level (an unlock inside a
// nested block only counts inside that block; a deferred unlock holds to the end of the function / function literal).
// Calls are resolved through the type checker; a call through an interface is resolved to every method of that name
// declared in the package.  Over-approximates the set of held locks, never under-approximates it.
package main

import (
	"fmt"
	"go/ast"
	"go/importer"
	"go/parser"
	"go/token"
	"go/types"
	"os"
	"path/filepath"
	"sort"
	"strings"
)

var (
	fset    = token.NewFileSet()
	info    *types.Info
	decls   = map[*types.Func]*ast.FuncDecl{}
	byName  = map[string][]*types.Func{}
	acq     = map[*types.Func]map[string]bool{} // classes a function may acquire (transitively)
	edges   = map[string]bool{}
	classes = map[string]bool{}
)

func named(t types.Type) string {
	for {
		switch x := t.(type) {
		case *types.Pointer:
			t = x.Elem()
			continue
		case *types.Named:
			return x.Obj().Name()
		}
		return ""
	}
}

func isMutex(t types.Type) bool {
	for {
		if p, ok := t.(*types.Pointer); ok {
			t = p.Elem()
			continue
		}
		break
	}
	if n, ok := t.(*types.Named); ok && n.Obj().Pkg() != nil && n.Obj().Pkg().Path() == "sync" {
		return n.Obj().Name() == "Mutex" || n.Obj().Name() == "RWMutex"
	}
	return false
}

// lockCall: is call a Lock/RLock/TryLock/Unlock/RUnlock of a sync mutex?  -> (class, op)
func lockCall(call *ast.CallExpr) (string, string) {
	sel, ok := call.Fun.(*ast.SelectorExpr)
	if !ok {
		return "", ""
	}
	op := sel.Sel.Name
	switch op {
	case "Lock", "RLock", "TryLock", "TryRLock", "Unlock", "RUnlock":
	default:
		return "", ""
	}
	s := info.Selections[sel]
	if s == nil {
		return "", ""
	}
	f, ok := s.Obj().(*types.Func)
	if !ok || f.Pkg() == nil || f.Pkg().Path() != "sync" {
		return "", ""
	}
	// the mutex is either the expression itself (a field / variable of mutex type) or embedded in its type
	xt := info.TypeOf(sel.X)
	if isMutex(xt) {
		if fs, ok := sel.X.(*ast.SelectorExpr); ok {
			return named(info.TypeOf(fs.X)) + "." + fs.Sel.Name, op
		}
		return types.ExprString(sel.X), op
	}
	return named(xt), op
}

func callees(call *ast.CallExpr) []*types.Func {
	var id *ast.Ident
	switch f := call.Fun.(type) {
	case *ast.Ident:
		id = f
	case *ast.SelectorExpr:
		id = f.Sel
	case *ast.IndexExpr:
		if i, ok := f.X.(*ast.Ident); ok {
			id = i
		} else if s, ok := f.X.(*ast.SelectorExpr); ok {
			id = s.Sel
		}
	}
	if id == nil {
		return nil
	}
	obj, _ := info.Uses[id].(*types.Func)
	if obj == nil {
		return nil
	}
	obj = obj.Origin()
	if _, ok := decls[obj]; ok {
		return []*types.Func{obj}
	}
	// interface method (or a method we have no body for): every declared method of that name
	if sig, ok := obj.Type().(*types.Signature); ok && sig.Recv() != nil {
		if _, isIface := sig.Recv().Type().Underlying().(*types.Interface); isIface {
			return byName[obj.Name()]
		}
	}
	return nil
}

type walker struct {
	fn       string
	self     *types.Func
	held     []string
	local    map[string]bool // classes acquired directly or through callees (for the fixpoint)
	inSelect bool            // inside the communication clause of a select (the select itself is the blocking point)
}

func (w *walker) acquire(c string) {
	if c == "#chan" { // a blocking channel operation, here or in a callee
		for _, h := range w.held {
			edges[fmt.Sprintf("chanop %s %s", h, w.fn)] = true
		}
		w.local[c] = true
		return
	}
	classes[c] = true
	for _, h := range w.held {
		edges[fmt.Sprintf("edge %s %s %s", h, c, w.fn)] = true
	}
	w.local[c] = true
}

func (w *walker) chanop() {
	if w.inSelect {
		return
	}
	w.acquire("#chan")
}

func isChan(t types.Type) bool {
	if t == nil {
		return false
	}
	_, ok := t.Underlying().(*types.Chan)
	return ok
}

func (w *walker) release(c string) {
	for i := len(w.held) - 1; i >= 0; i-- {
		if w.held[i] == c {
			w.held = append(append([]string{}, w.held[:i]...), w.held[i+1:]...)
			return
		}
	}
}

// block: statements in order; locks released by a non-deferred unlock at this level; nested blocks see a copy
func (w *walker) stmts(list []ast.Stmt) {
	for _, s := range list {
		w.stmt(s)
	}
}

func (w *walker) nested(f func()) {
	saved := append([]string{}, w.held...)
	f()
	w.held = saved
}

func (w *walker) stmt(s ast.Stmt) {
	switch x := s.(type) {
	case nil:
	case *ast.ExprStmt:
		w.expr(x.X, false)
	case *ast.DeferStmt:
		if c, op := lockCall(x.Call); c != "" && (op == "Unlock" || op == "RUnlock") {
			return // held to the end of the enclosing function body
		}
		w.expr(x.Call, false)
	case *ast.GoStmt:
		// a new goroutine holds nothing
		saved := w.held
		w.held = nil
		w.expr(x.Call, false)
		w.held = saved
	case *ast.AssignStmt:
		for _, e := range x.Rhs {
			w.expr(e, false)
		}
		for _, e := range x.Lhs {
			w.expr(e, false)
		}
	case *ast.DeclStmt:
		ast.Inspect(x, func(n ast.Node) bool {
			if e, ok := n.(ast.Expr); ok {
				w.expr(e, false)
				return false
			}
			return true
		})
	case *ast.ReturnStmt:
		for _, e := range x.Results {
			w.expr(e, false)
		}
	case *ast.IncDecStmt:
		w.expr(x.X, false)
	case *ast.SendStmt:
		w.expr(x.Chan, false)
		w.expr(x.Value, false)
		w.chanop()
	case *ast.BlockStmt:
		w.nested(func() { w.stmts(x.List) })
	case *ast.IfStmt:
		w.nested(func() {
			w.stmt(x.Init)
			w.expr(x.Cond, true)
			w.nested(func() { w.stmts(x.Body.List) })
			if x.Else != nil {
				w.nested(func() { w.stmt(x.Else) })
			}
		})
	case *ast.ForStmt:
		w.nested(func() {
			w.stmt(x.Init)
			w.expr(x.Cond, false)
			w.stmts(x.Body.List)
			w.stmt(x.Post)
			w.stmts(x.Body.List) // a second iteration starts with what the first one left held
		})
	case *ast.RangeStmt:
		w.nested(func() {
			w.expr(x.X, false)
			if isChan(info.TypeOf(x.X)) {
				w.chanop()
			}
			w.stmts(x.Body.List)
			w.stmts(x.Body.List)
		})
	case *ast.SwitchStmt:
		w.nested(func() {
			w.stmt(x.Init)
			w.expr(x.Tag, false)
			for _, c := range x.Body.List {
				cc := c.(*ast.CaseClause)
				w.nested(func() {
					for _, e := range cc.List {
						w.expr(e, false)
					}
					w.stmts(cc.Body)
				})
			}
		})
	case *ast.TypeSwitchStmt:
		w.nested(func() {
			w.stmt(x.Init)
			w.stmt(x.Assign)
			for _, c := range x.Body.List {
				cc := c.(*ast.CaseClause)
				w.nested(func() { w.stmts(cc.Body) })
			}
		})
	case *ast.SelectStmt:
		hasDefault := false
		for _, c := range x.Body.List {
			if c.(*ast.CommClause).Comm == nil {
				hasDefault = true
			}
		}
		if !hasDefault {
			w.chanop()
		}
		for _, c := range x.Body.List {
			cc := c.(*ast.CommClause)
			w.nested(func() {
				w.inSelect = true
				w.stmt(cc.Comm)
				w.inSelect = false
				w.stmts(cc.Body)
			})
		}
	case *ast.LabeledStmt:
		w.stmt(x.Stmt)
	}
}

// expr: find calls in evaluation order (approximately: arguments first, then the call)
func (w *walker) expr(e ast.Expr, _ bool) {
	if e == nil {
		return
	}
	switch x := e.(type) {
	case *ast.CallExpr:
		for _, a := range x.Args {
			w.expr(a, false)
		}
		if c, op := lockCall(x); c != "" {
			switch op {
			case "Lock", "RLock", "TryLock", "TryRLock":
				w.acquire(c)
				w.held = append(w.held, c)
			default:
				w.release(c)
			}
			return
		}
		if fl, ok := x.Fun.(*ast.FuncLit); ok {
			// immediately invoked literal: its deferred unlocks end with it
			w.nested(func() { w.stmts(fl.Body.List) })
			return
		}
		w.expr(x.Fun, false)
		for _, g := range callees(x) {
			for c := range acq[g] {
				w.acquire(c)
			}
		}
	case *ast.FuncLit:
		// a literal that is stored or passed: analysed where it stands, with what is held there (callbacks such as
		// the onEvict passed down run under the caller's locks only if called there; this is the conservative reading)
		w.nested(func() { w.stmts(x.Body.List) })
	case *ast.ParenExpr:
		w.expr(x.X, false)
	case *ast.SelectorExpr:
		w.expr(x.X, false)
	case *ast.IndexExpr:
		w.expr(x.X, false)
		w.expr(x.Index, false)
	case *ast.SliceExpr:
		w.expr(x.X, false)
		w.expr(x.Low, false)
		w.expr(x.High, false)
		w.expr(x.Max, false)
	case *ast.StarExpr:
		w.expr(x.X, false)
	case *ast.UnaryExpr:
		w.expr(x.X, false)
		if x.Op == token.ARROW {
			w.chanop()
		}
	case *ast.BinaryExpr:
		w.expr(x.X, false)
		w.expr(x.Y, false)
	case *ast.KeyValueExpr:
		w.expr(x.Value, false)
	case *ast.CompositeLit:
		for _, el := range x.Elts {
			w.expr(el, false)
		}
	case *ast.TypeAssertExpr:
		w.expr(x.X, false)
	}
}

func main() {
	dir := os.Args[1]
	want := map[string]bool{}
	for _, f := range os.Args[2:] {
		want[f] = true
	}
	pkgs, err := parser.ParseDir(fset, dir, func(fi os.FileInfo) bool {
		return !strings.HasSuffix(fi.Name(), "_test.go")
	}, 0)
	if err != nil {
		fmt.Println("error parse", err)
		os.Exit(2)
	}
	var files []*ast.File
	for _, p := range pkgs {
		if strings.HasSuffix(p.Name, "_test") {
			continue
		}
		names := make([]string, 0, len(p.Files))
		for n := range p.Files {
			names = append(names, n)
		}
		sort.Strings(names)
		for _, n := range names {
			files = append(files, p.Files[n])
		}
	}
	if err := os.Chdir(dir); err != nil {
		fmt.Println("error chdir", err)
		os.Exit(2)
	}
	info = &types.Info{Uses: map[*ast.Ident]types.Object{}, Defs: map[*ast.Ident]types.Object{},
		Selections: map[*ast.SelectorExpr]*types.Selection{}, Types: map[ast.Expr]types.TypeAndValue{}}
	conf := types.Config{Importer: importer.ForCompiler(fset, "source", nil), Error: func(err error) {}}
	if _, err := conf.Check("pkg", fset, files, info); err != nil {
		fmt.Println("# type errors (analysis continues):", err)
	}
	for _, f := range files {
		base := filepath.Base(fset.Position(f.Pos()).Filename)
		for _, d := range f.Decls {
			fd, ok := d.(*ast.FuncDecl)
			if !ok || fd.Body == nil {
				continue
			}
			obj, _ := info.Defs[fd.Name].(*types.Func)
			if obj == nil {
				continue
			}
			if !want[base] {
				continue
			}
			decls[obj] = fd
			if fd.Recv != nil {
				byName[obj.Name()] = append(byName[obj.Name()], obj)
			}
			acq[obj] = map[string]bool{}
		}
	}
	fname := func(obj *types.Func) string {
		fd := decls[obj]
		if fd.Recv != nil && len(fd.Recv.List) > 0 {
			return named(info.TypeOf(fd.Recv.List[0].Type)) + "." + obj.Name()
		}
		return obj.Name()
	}
	// fixpoint over "classes a function may acquire"
	for changed := true; changed; {
		changed = false
		for obj, fd := range decls {
			w := &walker{fn: fname(obj), self: obj, local: map[string]bool{}}
			w.stmts(fd.Body.List)
			for c := range w.local {
				if !acq[obj][c] {
					acq[obj][c] = true
					changed = true
				}
			}
		}
	}
	var out []string
	for c := range classes {
		out = append(out, "class "+c)
	}
	for e := range edges {
		out = append(out, e)
	}
	out = append(out, fmt.Sprintf("functions %d", len(decls)))
	sort.Strings(out)
	for _, l := range out {
		fmt.Println(l)
	}
}
