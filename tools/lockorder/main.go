// lockorder: static lock-acquisition order of a Go package, from its type-checked source.
//
// usage: lockorder [-fields T.f,T.g,...] DIR FILE...   (DIR = package directory; FILE = the files whose functions are analysed)
//
// Output (sorted, one fact per line):
//
//	class <C>                       a mutex class: the named type that embeds / the field that is a sync.Mutex / RWMutex
//	edge <held> <acquired> <func>   inside <func> (or something it calls, transitively) <acquired> is locked while <held> is held
//	chanop <held> <func>            inside <func> a channel operation that can block (send, receive, select without default,
//	                                range over a channel) is performed while <held> is held
//
// A lock is held from its Lock/RLock call to the matching Unlock/RUnlock at the same block level (an unlock inside a
// nested block only counts inside that block; a deferred unlock holds to the end of the function / function literal).
// Calls are resolved through the type checker; a call through an interface is resolved to every method of that name
// declared in the package.  Over-approximates the set of held locks, never under-approximates it.
package main

import (
	"fmt"
	"go/ast"
	"go/importer"
	"go/parser"
	"go/token"
	"go/types"
	"os"
	"path/filepath"
	"sort"
	"strings"
)

var (
	fset    = token.NewFileSet()
	info    *types.Info
	decls   = map[*types.Func]*ast.FuncDecl{}
	byName  = map[string][]*types.Func{}
	acq     = map[*types.Func]map[string]bool{} // classes a function may acquire (transitively)
	edges   = map[string]bool{}
	classes = map[string]bool{}
)

func named(t types.Type) string {
	for {
		switch x := t.(type) {
		case *types.Pointer:
			t = x.Elem()
			continue
		case *types.Named:
			return x.Obj().Name()
		}
		return ""
	}
}

func isMutex(t types.Type) bool {
	for {
		if p, ok := t.(*types.Pointer); ok {
			t = p.Elem()
			continue
		}
		break
	}
	if n, ok := t.(*types.Named); ok && n.Obj().Pkg() != nil && n.Obj().Pkg().Path() == "sync" {
		return n.Obj().Name() == "Mutex" || n.Obj().Name() == "RWMutex"
	}
	return false
}

// lockCall: is call a Lock/RLock/TryLock/Unlock/RUnlock of a sync mutex?  -> (class, op)
func lockCall(call *ast.CallExpr) (string, string) {
	sel, ok := call.Fun.(*ast.SelectorExpr)
	if !ok {
		return "", ""
	}
	op := sel.Sel.Name
	switch op {
	case "Lock", "RLock", "TryLock", "TryRLock", "Unlock", "RUnlock":
	default:
		return "", ""
	}
	s := info.Selections[sel]
	if s == nil {
		return "", ""
	}
	f, ok := s.Obj().(*types.Func)
	if !ok || f.Pkg() == nil || f.Pkg().Path() != "sync" {
		return "", ""
	}
	// the mutex is either the expression itself (a field / variable of mutex type) or embedded in its type
	xt := info.TypeOf(sel.X)
	if isMutex(xt) {
		if fs, ok := sel.X.(*ast.SelectorExpr); ok {
			return named(info.TypeOf(fs.X)) + "." + fs.Sel.Name, op
		}
		return types.ExprString(sel.X), op
	}
	return named(xt), op
}

func callees(call *ast.CallExpr) []*types.Func {
	var id *ast.Ident
	switch f := call.Fun.(type) {
	case *ast.Ident:
		id = f
	case *ast.SelectorExpr:
		id = f.Sel
	case *ast.IndexExpr:
		if i, ok := f.X.(*ast.Ident); ok {
			id = i
		} else if s, ok := f.X.(*ast.SelectorExpr); ok {
			id = s.Sel
		}
	}
	if id == nil {
		return nil
	}
	obj, _ := info.Uses[id].(*types.Func)
	if obj == nil {
		return nil
	}
	obj = obj.Origin()
	if _, ok := decls[obj]; ok {
		return []*types.Func{obj}
	}
	// interface method (or a method we have no body for): every declared method of that name
	if sig, ok := obj.Type().(*types.Signature); ok && sig.Recv() != nil {
		if _, isIface := sig.Recv().Type().Underlying().(*types.Interface); isIface {
			// every declared method of that name with the same numbers of parameters and results
			var out []*types.Func
			for _, c := range byName[obj.Name()] {
				cs := c.Type().(*types.Signature)
				if cs.Params().Len() == sig.Params().Len() && cs.Results().Len() == sig.Results().Len() {
					out = append(out, c)
				}
			}
			return out
		}
	}
	return nil
}

// localClosures: variables of a function body that are bound once to a function literal and only ever called
// (x := func() {...}; x()).  Their bodies are walked at each call, with what is held there.
func localClosures(body *ast.BlockStmt) map[types.Object]*ast.FuncLit {
	cand := map[types.Object]*ast.FuncLit{}
	ast.Inspect(body, func(n ast.Node) bool {
		if as, ok := n.(*ast.AssignStmt); ok && as.Tok == token.DEFINE && len(as.Lhs) == len(as.Rhs) {
			for i, r := range as.Rhs {
				if fl, ok := r.(*ast.FuncLit); ok {
					if id, ok := as.Lhs[i].(*ast.Ident); ok {
						if obj := info.Defs[id]; obj != nil {
							cand[obj] = fl
						}
					}
				}
			}
		}
		return true
	})
	if len(cand) == 0 {
		return cand
	}
	callPos := map[*ast.Ident]bool{}
	bad := map[types.Object]bool{}
	ast.Inspect(body, func(n ast.Node) bool {
		switch x := n.(type) {
		case *ast.CallExpr:
			if id, ok := x.Fun.(*ast.Ident); ok {
				callPos[id] = true
			}
		case *ast.GoStmt:
			if id, ok := x.Call.Fun.(*ast.Ident); ok {
				if obj := info.Uses[id]; obj != nil {
					bad[obj] = true
				}
			}
		case *ast.DeferStmt:
			if id, ok := x.Call.Fun.(*ast.Ident); ok {
				if obj := info.Uses[id]; obj != nil {
					bad[obj] = true
				}
			}
		}
		return true
	})
	ast.Inspect(body, func(n ast.Node) bool {
		if id, ok := n.(*ast.Ident); ok {
			if obj := info.Uses[id]; obj != nil {
				if _, ok := cand[obj]; ok && !callPos[id] {
					bad[obj] = true // passed on or stored: may run anywhere
				}
			}
		}
		return true
	})
	for obj := range bad {
		delete(cand, obj)
	}
	return cand
}

var closures map[types.Object]*ast.FuncLit // of the function being walked
var closureDepth int

func closureOf(call *ast.CallExpr) *ast.FuncLit {
	if id, ok := call.Fun.(*ast.Ident); ok {
		if obj := info.Uses[id]; obj != nil {
			return closures[obj]
		}
	}
	return nil
}

func isClosureDef(e ast.Expr) bool {
	fl, ok := e.(*ast.FuncLit)
	if !ok {
		return false
	}
	for _, c := range closures {
		if c == fl {
			return true
		}
	}
	return false
}

type walker struct {
	fn       string
	self     *types.Func
	held     []string
	local    map[string]bool // classes acquired directly or through callees (for the fixpoint)
	inSelect bool            // inside the communication clause of a select (the select itself is the blocking point)
}

func (w *walker) acquire(c string) {
	if c == "#chan" { // a blocking channel operation, here or in a callee
		for _, h := range w.held {
			edges[fmt.Sprintf("chanop %s %s", h, w.fn)] = true
		}
		w.local[c] = true
		return
	}
	classes[c] = true
	for _, h := range w.held {
		edges[fmt.Sprintf("edge %s %s %s", h, c, w.fn)] = true
	}
	w.local[c] = true
}

func (w *walker) chanop() {
	if w.inSelect {
		return
	}
	w.acquire("#chan")
}

func isChan(t types.Type) bool {
	if t == nil {
		return false
	}
	_, ok := t.Underlying().(*types.Chan)
	return ok
}

func (w *walker) release(c string) {
	for i := len(w.held) - 1; i >= 0; i-- {
		if w.held[i] == c {
			w.held = append(append([]string{}, w.held[:i]...), w.held[i+1:]...)
			return
		}
	}
}

// block: statements in order; locks released by a non-deferred unlock at this level; nested blocks see a copy
func (w *walker) stmts(list []ast.Stmt) {
	for _, s := range list {
		w.stmt(s)
	}
}

func (w *walker) nested(f func()) {
	saved := append([]string{}, w.held...)
	f()
	w.held = saved
}

func (w *walker) stmt(s ast.Stmt) {
	switch x := s.(type) {
	case nil:
	case *ast.ExprStmt:
		w.expr(x.X, false)
	case *ast.DeferStmt:
		if c, op := lockCall(x.Call); c != "" && (op == "Unlock" || op == "RUnlock") {
			return // held to the end of the enclosing function body
		}
		w.expr(x.Call, false)
	case *ast.GoStmt:
		// a new goroutine holds nothing
		saved := w.held
		w.held = nil
		w.expr(x.Call, false)
		w.held = saved
	case *ast.AssignStmt:
		for _, e := range x.Rhs {
			w.expr(e, false)
		}
		for _, e := range x.Lhs {
			w.expr(e, false)
		}
	case *ast.DeclStmt:
		ast.Inspect(x, func(n ast.Node) bool {
			if e, ok := n.(ast.Expr); ok {
				w.expr(e, false)
				return false
			}
			return true
		})
	case *ast.ReturnStmt:
		for _, e := range x.Results {
			w.expr(e, false)
		}
	case *ast.IncDecStmt:
		w.expr(x.X, false)
	case *ast.SendStmt:
		w.expr(x.Chan, false)
		w.expr(x.Value, false)
		w.chanop()
	case *ast.BlockStmt:
		w.nested(func() { w.stmts(x.List) })
	case *ast.IfStmt:
		w.nested(func() {
			w.stmt(x.Init)
			w.expr(x.Cond, true)
			w.nested(func() { w.stmts(x.Body.List) })
			if x.Else != nil {
				w.nested(func() { w.stmt(x.Else) })
			}
		})
	case *ast.ForStmt:
		w.nested(func() {
			w.stmt(x.Init)
			w.expr(x.Cond, false)
			w.stmts(x.Body.List)
			w.stmt(x.Post)
			w.stmts(x.Body.List) // a second iteration starts with what the first one left held
		})
	case *ast.RangeStmt:
		w.nested(func() {
			w.expr(x.X, false)
			if isChan(info.TypeOf(x.X)) {
				w.chanop()
			}
			w.stmts(x.Body.List)
			w.stmts(x.Body.List)
		})
	case *ast.SwitchStmt:
		w.nested(func() {
			w.stmt(x.Init)
			w.expr(x.Tag, false)
			for _, c := range x.Body.List {
				cc := c.(*ast.CaseClause)
				w.nested(func() {
					for _, e := range cc.List {
						w.expr(e, false)
					}
					w.stmts(cc.Body)
				})
			}
		})
	case *ast.TypeSwitchStmt:
		w.nested(func() {
			w.stmt(x.Init)
			w.stmt(x.Assign)
			for _, c := range x.Body.List {
				cc := c.(*ast.CaseClause)
				w.nested(func() { w.stmts(cc.Body) })
			}
		})
	case *ast.SelectStmt:
		hasDefault := false
		for _, c := range x.Body.List {
			if c.(*ast.CommClause).Comm == nil {
				hasDefault = true
			}
		}
		if !hasDefault {
			w.chanop()
		}
		for _, c := range x.Body.List {
			cc := c.(*ast.CommClause)
			w.nested(func() {
				w.inSelect = true
				w.stmt(cc.Comm)
				w.inSelect = false
				w.stmts(cc.Body)
			})
		}
	case *ast.LabeledStmt:
		w.stmt(x.Stmt)
	}
}

// expr: find calls in evaluation order (approximately: arguments first, then the call)
func (w *walker) expr(e ast.Expr, _ bool) {
	if e == nil {
		return
	}
	switch x := e.(type) {
	case *ast.CallExpr:
		for _, a := range x.Args {
			w.expr(a, false)
		}
		if c, op := lockCall(x); c != "" {
			switch op {
			case "Lock", "RLock", "TryLock", "TryRLock":
				w.acquire(c)
				w.held = append(w.held, c)
			default:
				w.release(c)
			}
			return
		}
		if fl, ok := x.Fun.(*ast.FuncLit); ok {
			// immediately invoked literal: its deferred unlocks end with it
			w.nested(func() { w.stmts(fl.Body.List) })
			return
		}
		if fl := closureOf(x); fl != nil && closureDepth < 4 {
			closureDepth++
			w.nested(func() { w.stmts(fl.Body.List) })
			closureDepth--
			return
		}
		w.expr(x.Fun, false)
		for _, g := range callees(x) {
			for c := range acq[g] {
				w.acquire(c)
			}
		}
	case *ast.FuncLit:
		if isClosureDef(x) {
			return // a local closure: walked at its calls
		}
		// a literal that is stored or passed: analysed where it stands, with what is held there (callbacks such as
		// the onEvict passed down run under the caller's locks only if called there; this is the conservative reading)
		w.nested(func() { w.stmts(x.Body.List) })
	case *ast.ParenExpr:
		w.expr(x.X, false)
	case *ast.SelectorExpr:
		w.expr(x.X, false)
	case *ast.IndexExpr:
		w.expr(x.X, false)
		w.expr(x.Index, false)
	case *ast.SliceExpr:
		w.expr(x.X, false)
		w.expr(x.Low, false)
		w.expr(x.High, false)
		w.expr(x.Max, false)
	case *ast.StarExpr:
		w.expr(x.X, false)
	case *ast.UnaryExpr:
		w.expr(x.X, false)
		if x.Op == token.ARROW {
			w.chanop()
		}
	case *ast.BinaryExpr:
		w.expr(x.X, false)
		w.expr(x.Y, false)
	case *ast.KeyValueExpr:
		w.expr(x.Value, false)
	case *ast.CompositeLit:
		for _, el := range x.Elts {
			w.expr(el, false)
		}
	case *ast.TypeAssertExpr:
		w.expr(x.X, false)
	}
}

// ---------------------------------------------------------------------------------------------------------------
// Second analysis: lock discipline.  For every access to a field of one of the package's struct types: which mutexes
// are certainly held (must-hold, an under-approximation), and in which mode.
//   access <Type>.<field> <r|w> <func> <class:mode,...|->
// Must-hold state: Lock/RLock add (W/R); any Unlock/RUnlock - at any nesting - removes, unless the block it is in ends in
// return / panic / continue / break / goto (control does not flow on from there); branches are intersected; a deferred
// unlock holds to the end of the function.  On entry a function holds what all its call sites in the analysed files hold
// (greatest fixpoint); functions that are exported, have no call site, are started with `go` or are used as values hold
// nothing on entry; function literals that are not invoked on the spot hold nothing.

type mstate map[string]string // class -> "W" | "R"; nil = unreachable

func (m mstate) clone() mstate {
	if m == nil {
		return nil
	}
	c := mstate{}
	for k, v := range m {
		c[k] = v
	}
	return c
}

func meet(a, b mstate) mstate {
	if a == nil {
		return b.clone()
	}
	if b == nil {
		return a.clone()
	}
	c := mstate{}
	for k, v := range a {
		if w, ok := b[k]; ok {
			if v == "R" || w == "R" {
				c[k] = "R"
			} else {
				c[k] = "W"
			}
		}
	}
	return c
}

func (m mstate) String() string {
	if len(m) == 0 {
		return "-"
	}
	var ks []string
	for k, v := range m {
		ks = append(ks, k+":"+v)
	}
	sort.Strings(ks)
	return strings.Join(ks, ",")
}

var (
	entry      = map[*types.Func]mstate{} // must-hold on entry (nil = not yet constrained = top)
	isRoot     = map[*types.Func]bool{}
	accesses   = map[string]bool{}
	pkgTypes   = map[string]bool{}
	record     bool
	onlyFields map[string]bool
)

type mwalker struct {
	fn     string
	st     mstate
	sites  map[*types.Func]mstate // call sites seen in this walk: callee -> meet of states
	atomic bool                   // inside the arguments of a sync/atomic call
}

func (w *mwalker) access(sel *ast.SelectorExpr, write bool) {
	if !record || w.st == nil {
		return
	}
	s := info.Selections[sel]
	if s == nil || s.Kind() != types.FieldVal {
		return
	}
	tn := named(s.Recv())
	if !pkgTypes[tn] {
		return
	}
	if onlyFields != nil && !onlyFields[tn+"."+sel.Sel.Name] {
		return
	}
	k := "r"
	if write {
		k = "w"
	}
	if w.atomic {
		k = "a"
	}
	accesses[fmt.Sprintf("access %s.%s %s %s %s", tn, sel.Sel.Name, k, w.fn, w.st.String())] = true
}

// lvalue: the expression is written to
func (w *mwalker) lvalue(e ast.Expr) {
	switch x := e.(type) {
	case *ast.SelectorExpr:
		w.access(x, true)
		w.rexpr(x.X)
	case *ast.IndexExpr:
		// m.f[k] = v writes the container held in field f
		w.rexpr(x.Index)
		if s, ok := x.X.(*ast.SelectorExpr); ok {
			w.access(s, true)
			w.rexpr(s.X)
		} else {
			w.lvalue(x.X)
		}
	case *ast.StarExpr:
		w.rexpr(x.X)
	case *ast.ParenExpr:
		w.lvalue(x.X)
	case *ast.Ident:
	default:
		w.rexpr(e)
	}
}

func isAtomicCall(x *ast.CallExpr) bool {
	if sel, ok := x.Fun.(*ast.SelectorExpr); ok {
		if pk, ok := sel.X.(*ast.Ident); ok {
			if pn, ok := info.Uses[pk].(*types.PkgName); ok && pn.Imported().Path() == "sync/atomic" {
				return true
			}
		}
	}
	return false
}

func (w *mwalker) call(x *ast.CallExpr) {
	if isAtomicCall(x) {
		w.atomic = true
	}
	for _, a := range x.Args {
		w.rexpr(a)
	}
	w.atomic = false
	if c, op := lockCall(x); c != "" {
		if w.st != nil {
			switch op {
			case "Lock":
				w.st[c] = "W"
			case "RLock":
				if w.st[c] != "W" {
					w.st[c] = "R"
				}
			case "Unlock", "RUnlock":
				delete(w.st, c)
			}
		}
		return
	}
	if sel, ok := x.Fun.(*ast.SelectorExpr); ok {
		if pk, ok := sel.X.(*ast.Ident); ok {
			if pn, ok := info.Uses[pk].(*types.PkgName); ok && pn.Imported().Path() == "sync/atomic" {
				return // the arguments were walked above; &x.f passed to sync/atomic is recorded as an atomic access there
			}
		}
	}
	if id, ok := x.Fun.(*ast.Ident); ok && id.Name == "delete" && len(x.Args) == 2 {
		if s, ok := x.Args[0].(*ast.SelectorExpr); ok {
			w.access(s, true)
		}
	}
	fl, ok := x.Fun.(*ast.FuncLit)
	if !ok && closureDepth < 4 {
		if c := closureOf(x); c != nil {
			fl, ok = c, true
		}
	}
	if ok {
		closureDepth++
		defer func() { closureDepth-- }()
		saved := w.st.clone()
		w.block(fl.Body.List)
		// its deferred unlocks end with it: what was held before is held after, minus what it released
		if w.st != nil {
			w.st = meet(w.st, saved)
		} else {
			w.st = saved
		}
		return
	}
	w.rexpr(x.Fun)
	if w.st != nil {
		for _, g := range callees(x) {
			if cur, ok := w.sites[g]; ok {
				w.sites[g] = meet(cur, w.st)
			} else {
				w.sites[g] = w.st.clone()
			}
		}
	}
}

func (w *mwalker) rexpr(e ast.Expr) {
	switch x := e.(type) {
	case nil:
	case *ast.CallExpr:
		w.call(x)
	case *ast.FuncLit:
		if isClosureDef(x) {
			return // a local closure: walked at its calls
		}
		// stored or passed: runs later, holding nothing for certain
		saved := w.st
		w.st = mstate{}
		w.block(x.Body.List)
		w.st = saved
	case *ast.SelectorExpr:
		w.access(x, false)
		w.rexpr(x.X)
	case *ast.ParenExpr:
		w.rexpr(x.X)
	case *ast.IndexExpr:
		w.rexpr(x.X)
		w.rexpr(x.Index)
	case *ast.SliceExpr:
		w.rexpr(x.X)
		w.rexpr(x.Low)
		w.rexpr(x.High)
		w.rexpr(x.Max)
	case *ast.StarExpr:
		w.rexpr(x.X)
	case *ast.UnaryExpr:
		if x.Op == token.AND {
			w.lvalue(x.X) // address taken: may be written through
		} else {
			w.rexpr(x.X)
		}
	case *ast.BinaryExpr:
		w.rexpr(x.X)
		w.rexpr(x.Y)
	case *ast.KeyValueExpr:
		w.rexpr(x.Value)
	case *ast.CompositeLit:
		for _, el := range x.Elts {
			w.rexpr(el)
		}
	case *ast.TypeAssertExpr:
		w.rexpr(x.X)
	}
}

func terminates(list []ast.Stmt) bool {
	if len(list) == 0 {
		return false
	}
	switch x := list[len(list)-1].(type) {
	case *ast.ReturnStmt:
		return true
	case *ast.BranchStmt:
		return true
	case *ast.ExprStmt:
		if c, ok := x.X.(*ast.CallExpr); ok {
			if id, ok := c.Fun.(*ast.Ident); ok && id.Name == "panic" {
				return true
			}
		}
	case *ast.BlockStmt:
		return terminates(x.List)
	}
	return false
}

// block: walk; afterwards w.st is the exit state (nil if control does not flow out)
func (w *mwalker) block(list []ast.Stmt) {
	for _, s := range list {
		w.stmt(s)
	}
	if terminates(list) {
		w.st = nil
	}
}

func (w *mwalker) branch(pre mstate, f func()) mstate {
	w.st = pre.clone()
	f()
	return w.st
}

func (w *mwalker) stmt(s ast.Stmt) {
	switch x := s.(type) {
	case nil:
	case *ast.ExprStmt:
		w.rexpr(x.X)
	case *ast.DeferStmt:
		if c, op := lockCall(x.Call); c != "" && (op == "Unlock" || op == "RUnlock") {
			return
		}
		if fl, ok := x.Call.Fun.(*ast.FuncLit); ok {
			// runs at function exit: whatever is held then is unknown here
			saved := w.st
			w.st = mstate{}
			w.block(fl.Body.List)
			w.st = saved
			return
		}
		saved := w.st.clone()
		w.st = mstate{}
		w.rexpr(x.Call)
		w.st = saved
	case *ast.GoStmt:
		saved := w.st
		w.st = mstate{}
		for _, a := range x.Call.Args {
			w.rexpr(a)
		}
		if fl, ok := x.Call.Fun.(*ast.FuncLit); ok {
			w.block(fl.Body.List)
		} else {
			for _, g := range callees(x.Call) {
				isRoot[g] = true
			}
		}
		w.st = saved
	case *ast.AssignStmt:
		for _, e := range x.Rhs {
			w.rexpr(e)
		}
		for _, e := range x.Lhs {
			w.lvalue(e)
		}
	case *ast.IncDecStmt:
		w.lvalue(x.X)
	case *ast.DeclStmt:
		ast.Inspect(x, func(n ast.Node) bool {
			if e, ok := n.(ast.Expr); ok {
				w.rexpr(e)
				return false
			}
			return true
		})
	case *ast.ReturnStmt:
		for _, e := range x.Results {
			w.rexpr(e)
		}
	case *ast.SendStmt:
		w.rexpr(x.Chan)
		w.rexpr(x.Value)
	case *ast.BlockStmt:
		w.block(x.List)
	case *ast.LabeledStmt:
		w.stmt(x.Stmt)
	case *ast.IfStmt:
		w.stmt(x.Init)
		w.rexpr(x.Cond)
		pre := w.st
		a := w.branch(pre, func() { w.block(x.Body.List) })
		var b mstate
		if x.Else != nil {
			b = w.branch(pre, func() { w.stmt(x.Else) })
		} else {
			b = pre.clone()
		}
		if a == nil && b == nil {
			w.st = nil
		} else {
			w.st = meet(a, b)
		}
	case *ast.ForStmt:
		w.stmt(x.Init)
		pre := w.st
		w.rexpr(x.Cond)
		a := w.branch(pre, func() { w.block(x.Body.List); w.stmt(x.Post) })
		if x.Cond == nil && a == nil {
			// for { ... } left only by return / break: approximate the state after it by the state before
			w.st = pre.clone()
		} else {
			w.st = meet(a, pre)
		}
	case *ast.RangeStmt:
		w.rexpr(x.X)
		pre := w.st
		a := w.branch(pre, func() { w.block(x.Body.List) })
		w.st = meet(a, pre)
	case *ast.SwitchStmt:
		w.stmt(x.Init)
		w.rexpr(x.Tag)
		pre := w.st
		var out mstate
		hasDefault, any := false, false
		for _, c := range x.Body.List {
			cc := c.(*ast.CaseClause)
			if cc.List == nil {
				hasDefault = true
			}
			e := w.branch(pre, func() {
				for _, ex := range cc.List {
					w.rexpr(ex)
				}
				w.block(cc.Body)
			})
			if e != nil {
				if !any {
					out, any = e, true
				} else {
					out = meet(out, e)
				}
			}
		}
		if !hasDefault {
			if !any {
				out, any = pre.clone(), true
			} else {
				out = meet(out, pre)
			}
		}
		if !any {
			w.st = nil
		} else {
			w.st = out
		}
	case *ast.TypeSwitchStmt:
		w.stmt(x.Init)
		pre := w.st
		out := pre.clone()
		for _, c := range x.Body.List {
			cc := c.(*ast.CaseClause)
			e := w.branch(pre, func() { w.block(cc.Body) })
			if e != nil {
				out = meet(out, e)
			}
		}
		w.st = out
	case *ast.SelectStmt:
		pre := w.st
		out := mstate(nil)
		any := false
		for _, c := range x.Body.List {
			cc := c.(*ast.CommClause)
			e := w.branch(pre, func() { w.stmt(cc.Comm); w.block(cc.Body) })
			if e != nil {
				if !any {
					out, any = e, true
				} else {
					out = meet(out, e)
				}
			}
		}
		if any {
			w.st = out
		} else {
			w.st = nil
		}
	}
}

func discipline(files []*ast.File, fname func(*types.Func) string) {
	// roots: exported functions / methods, functions without a call site, functions used as values or started with go
	called := map[*types.Func]bool{}
	for _, f := range files {
		ast.Inspect(f, func(n ast.Node) bool {
			switch x := n.(type) {
			case *ast.CallExpr:
				for _, g := range callees(x) {
					called[g] = true
				}
			case *ast.Ident:
				// a declared function mentioned outside a call position is used as a value
				if obj, ok := info.Uses[x].(*types.Func); ok {
					_ = obj
				}
			}
			return true
		})
	}
	// function values: every use of a declared function's identifier that is not the Fun of a call
	inCall := map[*ast.Ident]bool{}
	for _, f := range files {
		ast.Inspect(f, func(n ast.Node) bool {
			if c, ok := n.(*ast.CallExpr); ok {
				switch fn := c.Fun.(type) {
				case *ast.Ident:
					inCall[fn] = true
				case *ast.SelectorExpr:
					inCall[fn.Sel] = true
				case *ast.IndexExpr:
					if i, ok := fn.X.(*ast.Ident); ok {
						inCall[i] = true
					} else if s, ok := fn.X.(*ast.SelectorExpr); ok {
						inCall[s.Sel] = true
					}
				}
			}
			return true
		})
	}
	for id, obj := range info.Uses {
		if fo, ok := obj.(*types.Func); ok && !inCall[id] {
			if _, ok := decls[fo.Origin()]; ok {
				isRoot[fo.Origin()] = true
			}
		}
	}
	// functions started with `go`
	for _, f := range files {
		ast.Inspect(f, func(n ast.Node) bool {
			if g, ok := n.(*ast.GoStmt); ok {
				for _, callee := range callees(g.Call) {
					isRoot[callee] = true
				}
			}
			return true
		})
	}
	for obj, fd := range decls {
		exported := obj.Exported()
		if exported && fd.Recv != nil && len(fd.Recv.List) > 0 {
			// a method is reachable from outside only if its receiver type is exported too
			exported = ast.IsExported(named(info.TypeOf(fd.Recv.List[0].Type)))
		}
		if exported || !called[obj] {
			isRoot[obj] = true
		}
	}
	top := func() mstate {
		t := mstate{}
		for c := range classes {
			t[c] = "W"
		}
		return t
	}
	for obj := range decls {
		if isRoot[obj] {
			entry[obj] = mstate{}
		} else {
			entry[obj] = top()
		}
	}
	walkAll := func() map[*types.Func]mstate {
		all := map[*types.Func]mstate{}
		for obj, fd := range decls {
			closures = localClosures(fd.Body)
			w := &mwalker{fn: fname(obj), st: entry[obj].clone(), sites: map[*types.Func]mstate{}}
			w.block(fd.Body.List)
			for g, st := range w.sites {
				if cur, ok := all[g]; ok {
					all[g] = meet(cur, st)
				} else {
					all[g] = st
				}
			}
		}
		return all
	}
	for changed := true; changed; {
		changed = false
		sites := walkAll()
		for obj := range decls {
			if isRoot[obj] {
				continue
			}
			st, ok := sites[obj]
			if !ok {
				continue // only reachable from unreachable code: keep
			}
			n := meet(entry[obj], st)
			if n.String() != entry[obj].String() {
				entry[obj] = n
				changed = true
			}
		}
	}
	record = true
	walkAll()
	record = false
}

func main() {
	args := os.Args[1:]
	if len(args) >= 2 && args[0] == "-fields" {
		// only accesses to these Type.field names are reported (default: all)
		onlyFields = map[string]bool{}
		for _, f := range strings.Split(args[1], ",") {
			if f != "" {
				onlyFields[f] = true
			}
		}
		args = args[2:]
	}
	dir := args[0]
	want := map[string]bool{}
	for _, f := range args[1:] {
		want[f] = true
	}
	pkgs, err := parser.ParseDir(fset, dir, func(fi os.FileInfo) bool {
		return !strings.HasSuffix(fi.Name(), "_test.go")
	}, 0)
	if err != nil {
		fmt.Println("error parse", err)
		os.Exit(2)
	}
	var files []*ast.File
	for _, p := range pkgs {
		if strings.HasSuffix(p.Name, "_test") {
			continue
		}
		names := make([]string, 0, len(p.Files))
		for n := range p.Files {
			names = append(names, n)
		}
		sort.Strings(names)
		for _, n := range names {
			files = append(files, p.Files[n])
		}
	}
	if err := os.Chdir(dir); err != nil {
		fmt.Println("error chdir", err)
		os.Exit(2)
	}
	info = &types.Info{Uses: map[*ast.Ident]types.Object{}, Defs: map[*ast.Ident]types.Object{},
		Selections: map[*ast.SelectorExpr]*types.Selection{}, Types: map[ast.Expr]types.TypeAndValue{}}
	conf := types.Config{Importer: importer.ForCompiler(fset, "source", nil), Error: func(err error) {}}
	if _, err := conf.Check("pkg", fset, files, info); err != nil {
		fmt.Println("# type errors (analysis continues):", err)
	}
	for _, f := range files {
		base := filepath.Base(fset.Position(f.Pos()).Filename)
		for _, d := range f.Decls {
			fd, ok := d.(*ast.FuncDecl)
			if !ok || fd.Body == nil {
				continue
			}
			obj, _ := info.Defs[fd.Name].(*types.Func)
			if obj == nil {
				continue
			}
			if !want[base] {
				continue
			}
			decls[obj] = fd
			if fd.Recv != nil {
				byName[obj.Name()] = append(byName[obj.Name()], obj)
			}
			acq[obj] = map[string]bool{}
		}
	}
	fname := func(obj *types.Func) string {
		fd := decls[obj]
		if fd.Recv != nil && len(fd.Recv.List) > 0 {
			return named(info.TypeOf(fd.Recv.List[0].Type)) + "." + obj.Name()
		}
		return obj.Name()
	}
	// fixpoint over "classes a function may acquire"
	for changed := true; changed; {
		changed = false
		for obj, fd := range decls {
			closures = localClosures(fd.Body)
			w := &walker{fn: fname(obj), self: obj, local: map[string]bool{}}
			w.stmts(fd.Body.List)
			for c := range w.local {
				if !acq[obj][c] {
					acq[obj][c] = true
					changed = true
				}
			}
		}
	}
	for _, f := range files {
		for _, d := range f.Decls {
			if gd, ok := d.(*ast.GenDecl); ok && gd.Tok == token.TYPE {
				for _, sp := range gd.Specs {
					ts := sp.(*ast.TypeSpec)
					if _, ok := ts.Type.(*ast.StructType); ok {
						pkgTypes[ts.Name.Name] = true
					}
				}
			}
		}
	}
	discipline(files, fname)
	var out []string
	for a := range accesses {
		out = append(out, a)
	}
	for c := range classes {
		out = append(out, "class "+c)
	}
	for e := range edges {
		out = append(out, e)
	}
	out = append(out, fmt.Sprintf("functions %d", len(decls)))
	sort.Strings(out)
	for _, l := range out {
		fmt.Println(l)
	}
}
