(* What z.Buffer is supposed to be: a list of bytes that grows at the end (and, for buffers made of slices, a
   list of byte strings).  Definitions only; the theorems relating Buffer.v / Sort.v to these are in
   BufferProofs.v / SortProofs.v and restated in Properties/C11.v. *)
From Ristretto Require Import Base.Word Buffer.Buffer.
Open Scope N_scope.

(* bytes an operation asks Grow for first: what the WithMaxSize test sees *)
Definition op_need (o : op) : N :=
  match o with
  | OWrite p => lenN p
  | OWriteSlice p => 8 + lenN p
  | OAllocate n _ | OAllocateOffset n _ => n
  | OSliceAllocate sz _ => 8 + sz
  | OGrow n => n
  | OReset => 0
  end.

(* bytes an accepted operation appends (allocated memory the caller did not overwrite: zeros) *)
Definition op_payload (o : op) : list N :=
  match o with
  | OWrite p => p
  | OWriteSlice p => be64 (lenN p) ++ p
  | OAllocate n f | OAllocateOffset n f => overlay f (zeros n)
  | OSliceAllocate sz f => be64 sz ++ overlay f (zeros sz)
  | OGrow _ | OReset => []
  end.

Definition over_limit (maxSz : N) (len : N) (need : N) : bool :=
  (0 <? maxSz) && (maxSz <? pad + len + need).

(* the reference: a byte list; Reset empties it; an operation that would exceed the limit is refused *)
Definition spec_step (maxSz : N) (acc : list N) (o : op) : list N :=
  match o with
  | OReset => []
  | _ => if over_limit maxSz (lenN acc) (op_need o) then acc else acc ++ op_payload o
  end.
Definition spec_run (maxSz : N) (ops : list op) (acc : list N) : list N :=
  fold_left (spec_step maxSz) ops acc.

(* the caller filled everything it allocated *)
Definition filled (o : op) : Prop :=
  match o with
  | OAllocate n f | OAllocateOffset n f | OSliceAllocate n f => lenN f = n
  | _ => True
  end.
Definition not_reset (o : op) : Prop := o <> OReset.

(* ---- buffers made of slices ---- *)
Definition enc1 (s : list N) : list N := be64 (lenN s) ++ s.
Definition enc_slices (L : list (list N)) : list N := concat (map enc1 L).

Definition slice_op (o : op) : Prop :=
  match o with
  | OWriteSlice p => lenN p < two63
  | OSliceAllocate sz _ => sz < two63
  | OReset => True
  | _ => False
  end.
Definition op_slice (o : op) : list N :=
  match o with
  | OWriteSlice p => p
  | OSliceAllocate sz f => overlay f (zeros sz)
  | _ => []
  end.
Definition slices_step (maxSz : N) (L : list (list N)) (o : op) : list (list N) :=
  match o with
  | OReset => []
  | _ => if over_limit maxSz (lenN (enc_slices L)) (op_need o) then L else L ++ [op_slice o]
  end.
Definition slices_run (maxSz : N) (ops : list op) (L : list (list N)) : list (list N) :=
  fold_left (slices_step maxSz) ops L.

(* offsets of consecutive slices starting at [off] *)
Fixpoint offsets_from (off : N) (L : list (list N)) : list N :=
  match L with
  | [] => []
  | s :: tl => off :: offsets_from (off + 8 + lenN s) tl
  end.
Definition nonempty (s : list N) : bool := negb (is_nil s).

(* ---- sorting ---- *)
(* no adjacent inversion *)
Fixpoint sorted_gen {A} (lt : A -> A -> bool) (l : list A) : Prop :=
  match l with
  | [] => True
  | a :: tl => match tl with [] => True | b :: _ => lt b a = false end /\ sorted_gen lt tl
  end.
Definition sorted_by (less : list N -> list N -> bool) (L : list (list N)) : Prop := sorted_gen less L.
(* strict weak order: irreflexive, transitive, incomparability transitive (given as negative transitivity) *)
Definition strict_weak_order {A} (lt : A -> A -> bool) : Prop :=
  (forall a, lt a a = false) /\
  (forall a b c, lt a b = true -> lt b c = true -> lt a c = true) /\
  (forall a b c, lt a b = false -> lt b c = false -> lt a c = false).

(* the merge of sortHelper.merge on lists of slices: take the left head iff less(left, right) *)
Fixpoint lmerge (less : list N -> list N -> bool) (A B : list (list N)) : list (list N) :=
  let fix aux (B : list (list N)) : list (list N) :=
    match A, B with
    | [], _ => B
    | _, [] => A
    | a :: A', b :: B' => if less a b then a :: lmerge less A' B else b :: aux B'
    end in
  aux B.
