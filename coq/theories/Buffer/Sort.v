(* Model of the sorter of z/buffer.go: SortSlice, SortSliceBetween, sortHelper.sortSmall / merge / sort.
   Definitions only.

   The sorter works in place on the backing array; here the array is the list [mem] (= b_mem) and every
   function returns the new array.  [None] = the run ends in log.Fatalf (a failed assert) or in a runtime
   panic of the code (malformed slice data); neither happens on a buffer made of slices when start/end are
   slice boundaries (proved in SortProofs.v).

   sort.Slice is the section variable [sorter].  The code sorts the offsets s.small with
   less(i,j) = s.less(Slice(small[i]), Slice(small[j])) and afterwards copies rawSlice(buf[off:]) for each
   offset in the new order; the array does not change in between, so the model sorts the offsets decorated
   with their raw slices (offset, rawSlice(buf[off:])) and compares rawslice[8:].  The theorems assume of
   [sorter] only what DESIGN.md section 7 lists (a permutation; ordered when less is a strict weak order);
   the executable instance used by the runner is the stable insertion sort at the end of this file.

   merge: the left run is copied into the scratch buffer tmp (a z.Buffer, modelled by Buffer.v itself), then
   the output is written from [start] on.  The write cursor start = loff + (bytes taken from left) + (bytes
   taken from right) never passes the read cursor of the right run, moff + (bytes taken from right), and Go's
   copy is a memmove, so the unread part of the right run is never clobbered: the bytes produced are those of
   the list-level loop below, which reads the runs as values.  (That aliasing argument is about Go's memory,
   not about these lists; the correspondence exercises it.)  Go slices carry their length; the loop carries
   len(left), len(right) as numbers. *)
From Ristretto Require Import Base.Word Buffer.Buffer.
Open Scope N_scope.

(* len(rawSlice(buf)) = 8 + length prefix, where len(buf) = buflen; None = panic *)
Definition raw_len (buf : list N) (buflen : N) : option N :=
  if buflen <? 8 then None
  else
    let sz := be64_dec buf in
    if two63 <=? sz then None
    else if buflen <? 8 + sz then None
    else Some (8 + sz).

(* buf[lo:hi] and copy(buf[lo:], src) *)
Definition region (mem : list N) (lo hi : N) : list N := takeN (hi - lo) (dropN lo mem).
Definition splice (mem : list N) (lo : N) (src : list N) : list N :=
  takeN lo mem ++ src ++ dropN (lo + lenN src) mem.

Section Sort.
  Variable sorter : (N * list N -> N * list N -> bool) -> list (N * list N) -> list (N * list N).
  Variable less : list N -> list N -> bool.

  (* for next >= 0 && next < end { if count%every == 0 {visit next}; _, next = b.Slice(next); count++ }
     with m = buf[next:].  every = 1024 for the chunk offsets of SortSliceBetween, 1 for s.small in
     sortSmall.  A visited offset is returned with its raw slice buf[next : next+8+len]. *)
  Fixpoint walk_offsets (fuel : nat) (every : N) (m : list N) (memlen boff next end_ count : N)
    : option (list (N * list N)) :=
    if next <? end_ then
      match fuel with
      | O => None
      | S f =>
          match slice_suffix m memlen boff next with
          | None => None
          | Some (s, nx) =>
              let here := if count mod every =? 0 then [(next, takeN (8 + lenN s) m)] else [] in
              match nx with
              | None => Some here
              | Some nx =>
                  match walk_offsets f every (dropN (nx - next) m) memlen boff nx end_ (count + 1) with
                  | None => None
                  | Some l => Some (here ++ l)
                  end
              end
          end
      end
    else Some [].

  (* tmp.Write(rawSlice(b.buf[off:])) for each offset *)
  Fixpoint write_raws (tmp : buffer) (raws : list (list N)) : option buffer :=
    match raws with
    | [] => Some tmp
    | r :: tl =>
        match write tmp r with
        | None => None
        | Some t => write_raws t tl
        end
    end.

  Definition less_raw (x y : N * list N) : bool := less (dropN 8 (snd x)) (dropN 8 (snd y)).

  (* sortSmall(start, end) *)
  Definition sort_small (mem : list N) (boff : N) (tmp : buffer) (start end_ : N)
    : option (list N * buffer) :=
    match walk_offsets (S (length mem)) 1 (dropN start mem) (lenN mem) boff start end_ 0 with
    | None => None
    | Some small =>
        let sorted := sorter less_raw small in
        match write_raws (reset tmp) (map snd sorted) with
        | None => None
        | Some t =>
            (* assert(end-start == copy(s.b.buf[start:end], s.tmp.Bytes())) *)
            if lenN (bytes t) <? end_ - start then None
            else Some (splice mem start (takeN (end_ - start) (bytes t)), t)
        end
    end.

  (* the loop of merge: the bytes it writes to buf[start:end] *)
  Fixpoint merge_loop (fuel : nat) (left right : list N) (llen rlen start end_ : N)
    : option (list N) :=
    if start <? end_ then
      match fuel with
      | O => None
      | S f =>
          if llen =? 0 then
            (* assert(len(right) == copy(s.b.buf[start:end], right)); return *)
            if end_ - start <? rlen then None else Some right
          else if rlen =? 0 then
            if end_ - start <? llen then None else Some left
          else
            match raw_len left llen, raw_len right rlen with
            | Some ln, Some rn =>
                if less (takeN (ln - 8) (dropN 8 left)) (takeN (rn - 8) (dropN 8 right))
                then match merge_loop f (dropN ln left) right (llen - ln) rlen (start + ln) end_ with
                     | None => None
                     | Some o => Some (takeN ln left ++ o)
                     end
                else match merge_loop f left (dropN rn right) llen (rlen - rn) (start + rn) end_ with
                     | None => None
                     | Some o => Some (takeN rn right ++ o)
                     end
            | _, _ => None
            end
      end
    else Some [].

  (* merge(left, right, start, end) with left = buf[start:mid], right = buf[mid:end] *)
  Definition merge (mem : list N) (tmp : buffer) (start mid end_ : N) : option (list N * buffer) :=
    let left := region mem start mid in
    let right := region mem mid end_ in
    if is_nil left || is_nil right then Some (mem, tmp)
    else
      match write (reset tmp) left with
      | None => None
      | Some t =>
          match merge_loop (S (length left + length right)) (bytes t) right
                           (lenN left) (lenN right) start end_ with
          | None => None
          | Some out =>
              (* everything written lies inside buf[start:end] *)
              if lenN out =? end_ - start then Some (splice mem start out, t) else None
          end
      end.

  (* sort(lo, hi) over the chunk offsets; the recursion halves hi-lo, fuel = number of offsets *)
  Fixpoint sort_rec (fuel : nat) (offsets : list N) (mem : list N) (tmp : buffer) (lo hi : nat)
    : option (list N * buffer) :=
    let mid := (lo + (hi - lo) / 2)%nat in
    if Nat.eqb lo mid then Some (mem, tmp)
    else
      match fuel with
      | O => None
      | S f =>
          match sort_rec f offsets mem tmp lo mid with
          | None => None
          | Some (mem1, tmp1) =>
              match sort_rec f offsets mem1 tmp1 mid hi with
              | None => None
              | Some (mem2, tmp2) =>
                  merge mem2 tmp2 (nth lo offsets 0) (nth mid offsets 0) (nth hi offsets 0)
              end
          end
      end.

  (* left := offsets[0]; for _, off := range offsets[1:] { s.sortSmall(left, off); left = off } *)
  Fixpoint sort_chunks (mem : list N) (boff : N) (tmp : buffer) (left : N) (offs : list N)
    : option (list N * buffer) :=
    match offs with
    | [] => Some (mem, tmp)
    | off :: tl =>
        match sort_small mem boff tmp left off with
        | None => None
        | Some (mem', tmp') => sort_chunks mem' boff tmp' off tl
        end
    end.

  (* the chunk offsets: every 1024th slice offset in [start,end), then end unless it is already last *)
  Definition chunk_offsets (mem : list N) (boff start end_ : N) : option (list N) :=
    match walk_offsets (S (length mem)) 1024 (dropN start mem) (lenN mem) boff start end_ 0 with
    | None => None
    | Some [] => None                                   (* assert(len(offsets) > 0) *)
    | Some l => let offs := map fst l in
                Some (if last offs 0 =? end_ then offs else offs ++ [end_])
    end.

  (* szTmp := int(float64((end-start)/2) * 1.1): only the initial capacity of the scratch buffer, which no
     result depends on (the theorems hold for every tmp without a size limit) *)
  Definition tmp_capacity (start end_ : N) : N := (end_ - start) / 2 * 11 / 10.

  Inductive sort_result := SortOk (b : buffer) | SortPanicStartZero | SortFatal.

  (* SortSliceBetween(start, end, less) *)
  Definition sort_slice_between (b : buffer) (start end_ : N) : sort_result :=
    if end_ <=? start then SortOk b
    else if start =? 0 then SortPanicStartZero
    else
      let mem := b_mem b in
      let boff := b_off b in
      match chunk_offsets mem boff start end_ with
      | None => SortFatal
      | Some offsets =>
          let tmp := new_buffer (tmp_capacity start end_) in
          match sort_chunks mem boff tmp (hd 0 offsets) (tl offsets) with
          | None => SortFatal
          | Some (mem1, tmp1) =>
              match sort_rec (length offsets) offsets mem1 tmp1 0 (length offsets - 1) with
              | None => SortFatal
              | Some (mem2, _) => SortOk (set_mem b mem2)
              end
          end
      end.

  (* SortSlice(less) *)
  Definition sort_slice (b : buffer) : sort_result := sort_slice_between b pad (b_off b).
End Sort.

(* ---- executable instance of sort.Slice: stable insertion sort ---- *)
Fixpoint ins_by {A} (lt : A -> A -> bool) (x : A) (l : list A) : list A :=
  match l with
  | [] => [x]
  | y :: tl => if lt x y then x :: l else y :: ins_by lt x tl
  end.
Definition insertion_sort {A} (lt : A -> A -> bool) (l : list A) : list A :=
  fold_right (ins_by lt) [] l.

(* comparison functions used by the correspondence (the theorems quantify over all of them) *)
Fixpoint lex_lt (a b : list N) : bool :=
  match a, b with
  | _, [] => false
  | [], _ :: _ => true
  | x :: a', y :: b' => if x <? y then true else if y <? x then false else lex_lt a' b'
  end.
Definition len_lt (a b : list N) : bool := lenN a <? lenN b.
(* by first byte, the empty slice first *)
Definition first_lt (a b : list N) : bool :=
  match a, b with
  | _, [] => false
  | [], _ :: _ => true
  | x :: _, y :: _ => x <? y
  end.
(* descending bytewise order: a strict total order in which the empty slice is the LAST element *)
Definition rlex_lt (a b : list N) : bool := lex_lt b a.
Definition always_true (a b : list N) : bool := true.
Definition always_false (a b : list N) : bool := false.
(* not a strict weak order: compares sums of bytes modulo 3 cyclically *)
Definition cyclic_lt (a b : list N) : bool :=
  (fold_left N.add b 0 + 3 - fold_left N.add a 0 mod 3) mod 3 =? 1.

Definition sort_slice_between_exec := sort_slice_between (@insertion_sort (N * list N)).
Definition sort_slice_exec := sort_slice (@insertion_sort (N * list N)).
