(* Model of z/buffer.go (everything except the sorter, which is in Sort.v).  Definitions only.

   The backing array b.buf (length b.curSz) is kept as three consecutive pieces
       b_padb       = buf[0 : padding]        (padding is 8 for NewBuffer / NewBufferTmp)
       rev b_urev   = buf[padding : offset]   (what Bytes() returns; kept reversed so that appending is cheap
                                               when the extracted model runs)
       b_rest       = buf[offset : curSz]     (allocated, not handed out yet: zeros after a calloc growth,
                                               stale bytes after Reset)
   together with the fields offset (b_off), curSz, maxSz, bufType, autoMmapAfter of the code.  [b_mem] is the
   whole array again; the readers (Slice, SliceOffsets, SliceIterate) and the sorter address it with the
   code's absolute offsets.  Well-formed states ([wf] in BufferProofs.v) have b_off = 8 + length used and
   length b_mem = b_curSz.

   Growth: Calloc mode allocates a fresh zeroed array and copies buf[:offset] (the rest becomes zeros); the
   switch to mmap copies buf[:offset] into a fresh (zero) file; Mmap mode truncates + remaps the file, which
   keeps all curSz old bytes and appends zeros.  mmap/mremap/ftruncate are trusted to behave like that.

   A panic of the code (WithMaxSize exceeded) is [None]; the caller keeps the old state, as a Go caller that
   recovers would.  Sizes are N: the model is the code in the regime where no int overflows
   (offset + n < 2^63), and arguments of type int are non-negative.

   Loops that call b.Slice(next) repeatedly carry the suffix buf[next:] along ([slice_suffix]) instead of
   re-slicing the array from the start; [slice_mem] is the stand-alone Slice(offset). *)
From Ristretto Require Import Base.Word.
Open Scope N_scope.

Inductive bmode := Calloc | Mmap.

Record buffer := mkB {
  b_padb : list N; b_urev : list N; b_rest : list N;
  b_off : N; b_curSz : N; b_maxSz : N; b_mode : bmode; b_auto : N }.

Definition pad : N := 8.
Definition zeros (n : N) : list N := repeat 0 (N.to_nat n).
Definition takeN {A} (n : N) (l : list A) : list A := firstn (N.to_nat n) l.
Definition dropN {A} (n : N) (l : list A) : list A := skipn (N.to_nat n) l.

(* list reversal, linear time (= List.rev, lemma rev_alt) *)
Definition revT {A} (l : list A) : list A := rev_append l [].

Definition bytes (b : buffer) : list N := revT (b_urev b).
Definition b_mem (b : buffer) : list N := b_padb b ++ bytes b ++ b_rest b.

(* NewBuffer(capacity, tag) / NewBufferTmp(dir, capacity) *)
Definition default_capacity : N := 64.
Definition new_with (m : bmode) (capacity : N) : buffer :=
  let c := if capacity <? default_capacity then default_capacity else capacity in
  mkB (zeros pad) [] (zeros (c - pad)) pad c 0 m 0.
Definition new_buffer (capacity : N) : buffer := new_with Calloc capacity.
Definition new_buffer_tmp (capacity : N) : buffer := new_with Mmap capacity.

(* WithAutoMmap panics unless the buffer is in Calloc mode *)
Definition with_auto_mmap (b : buffer) (threshold : N) : option buffer :=
  match b_mode b with
  | Calloc => Some (mkB (b_padb b) (b_urev b) (b_rest b) (b_off b) (b_curSz b) (b_maxSz b) (b_mode b) threshold)
  | Mmap => None
  end.
Definition with_max_size (b : buffer) (size : N) : buffer :=
  mkB (b_padb b) (b_urev b) (b_rest b) (b_off b) (b_curSz b) size (b_mode b) (b_auto b).

Definition is_empty (b : buffer) : bool := b_off b =? pad.
Definition len_with_padding (b : buffer) : N := b_off b.
Definition len_no_padding (b : buffer) : N := b_off b - pad.

Definition one_gb : N := 1073741824.

(* Grow(n).  None = panic "z.Buffer max size exceeded". *)
Definition grow_by (curSz n : N) : N :=
  let g := curSz + n in
  let g := if one_gb <? g then one_gb else g in
  if g <? n then n else g.

Definition grow (b : buffer) (n : N) : option buffer :=
  if (0 <? b_maxSz b) && (b_maxSz b <? b_off b + n) then None
  else if b_off b + n <? b_curSz b then Some b
  else
    let g := grow_by (b_curSz b) n in
    let cur := b_curSz b + g in
    match b_mode b with
    | Calloc =>
        let m := if (0 <? b_auto b) && (b_auto b <? cur) then Mmap else Calloc in
        Some (mkB (b_padb b) (b_urev b) (zeros (cur - b_off b)) (b_off b) cur (b_maxSz b) m (b_auto b))
    | Mmap =>
        Some (mkB (b_padb b) (b_urev b) (b_rest b ++ zeros g) (b_off b) cur (b_maxSz b) Mmap (b_auto b))
    end.

(* offset += n: the first n bytes of the unused part become used *)
Definition advance (b : buffer) (n : N) : buffer :=
  mkB (b_padb b) (rev_append (takeN n (b_rest b)) (b_urev b)) (dropN n (b_rest b))
      (b_off b + n) (b_curSz b) (b_maxSz b) (b_mode b) (b_auto b).

(* Allocate(n): (offset of the returned slice, its current contents, new state).  AllocateOffset(n)
   returns the same offset. *)
Definition allocate (b : buffer) (n : N) : option (N * list N * buffer) :=
  match grow b n with
  | None => None
  | Some g => Some (b_off g, takeN n (b_rest g), advance g n)
  end.
Definition allocate_offset (b : buffer) (n : N) : option (N * buffer) :=
  match allocate b n with None => None | Some (off, _, b') => Some (off, b') end.

(* copy(dst, src) into a slice whose present contents are [old]: min(len) bytes are replaced *)
Definition overlay (src old : list N) : list N :=
  firstn (length old) src ++ skipn (length src) old.

(* The caller writes [src] through the slice of length n that the last Allocate returned, i.e. into
   buf[offset-n : offset]. *)
Definition fill_tail (b : buffer) (n : N) (src : list N) : buffer :=
  mkB (b_padb b) (rev_append (overlay src (revT (takeN n (b_urev b)))) (dropN n (b_urev b))) (b_rest b)
      (b_off b) (b_curSz b) (b_maxSz b) (b_mode b) (b_auto b).

(* Write(p): Grow(len p); copy(buf[offset:], p); offset += len p *)
Definition write (b : buffer) (p : list N) : option buffer :=
  match grow b (lenN p) with
  | None => None
  | Some g => Some (mkB (b_padb g) (rev_append p (b_urev g)) (dropN (lenN p) (b_rest g))
                        (b_off g + lenN p) (b_curSz g) (b_maxSz g) (b_mode g) (b_auto g))
  end.

(* binary.BigEndian.PutUint64 / Uint64 *)
Fixpoint be_enc (k : nat) (x : N) : list N :=
  match k with
  | O => []
  | S k' => be_enc k' (x / 256) ++ [x mod 256]
  end.
Definition be64 (x : N) : list N := be_enc 8 (x mod two64).
Definition be_dec (l : list N) : N := fold_left (fun acc byte => acc * 256 + byte) l 0.
Definition be64_dec (l : list N) : N := be_dec (firstn 8 l).

(* writeLen(sz) = Allocate(8) + PutUint64 *)
Definition write_len (b : buffer) (sz : N) : option buffer :=
  match allocate b 8 with
  | None => None
  | Some (_, _, b') => Some (fill_tail b' 8 (be64 sz))
  end.

(* SliceAllocate(sz) = Grow(8+sz); writeLen(sz); Allocate(sz) *)
Definition slice_allocate (b : buffer) (sz : N) : option (N * list N * buffer) :=
  match grow b (8 + sz) with
  | None => None
  | Some g => match write_len g sz with
              | None => None
              | Some w => allocate w sz
              end
  end.

(* WriteSlice(p) = SliceAllocate(len p) + copy *)
Definition write_slice (b : buffer) (p : list N) : option buffer :=
  match slice_allocate b (lenN p) with
  | None => None
  | Some (_, _, b') => Some (fill_tail b' (lenN p) p)
  end.

(* Reset: offset = padding; nothing is cleared *)
Definition reset (b : buffer) : buffer :=
  mkB (b_padb b) [] (bytes b ++ b_rest b) pad (b_curSz b) (b_maxSz b) (b_mode b) (b_auto b).

(* Slice(off) given m = buf[off:], len(buf) = memlen, b.offset = boff.
   Some (slice, Some next) | Some (slice, None) for next = -1 | None = the code panics
   (index / slice bounds out of range; a length >= 2^63 is a negative int and ends the same way). *)
Definition slice_suffix (m : list N) (memlen boff off : N) : option (list N * option N) :=
  if boff <=? off then Some ([], None)
  else if memlen <? off + 8 then None
  else
    let sz := be64_dec m in
    if two63 <=? sz then None
    else
      let next := off + 8 + sz in
      if memlen <? next then None
      else Some (takeN sz (dropN 8 m), if boff <=? next then None else Some next).

Definition slice_mem (mem : list N) (boff off : N) : option (list N * option N) :=
  slice_suffix (dropN off mem) (lenN mem) boff off.
Definition slice (b : buffer) (off : N) : option (list N * option N) :=
  slice_mem (b_mem b) (b_off b) off.

(* for next := StartOffset; next >= 0; { visit next; slice, next = Slice(next) }: the (offset, slice) pairs.
   m = buf[next:].  Every round advances by at least 8, so (length buf) rounds of fuel are never used up. *)
Fixpoint walk_loop (fuel : nat) (m : list N) (memlen boff next : N) : option (list (N * list N)) :=
  match fuel with
  | O => None
  | S f =>
      match slice_suffix m memlen boff next with
      | None => None
      | Some (s, None) => Some [(next, s)]
      | Some (s, Some nx) =>
          match walk_loop f (dropN (nx - next) m) memlen boff nx with
          | None => None
          | Some l => Some ((next, s) :: l)
          end
      end
  end.
Definition slice_walk (b : buffer) : option (list (N * list N)) :=
  let mem := b_mem b in
  walk_loop (S (length mem)) (dropN pad mem) (lenN mem) (b_off b) pad.

(* SliceOffsets *)
Definition slice_offsets (b : buffer) : option (list N) :=
  match slice_walk b with None => None | Some l => Some (map fst l) end.
(* for each offset of SliceOffsets, Slice(offset) *)
Definition slice_all (b : buffer) : option (list (list N)) :=
  match slice_walk b with None => None | Some l => Some (map snd l) end.

(* SliceIterate with a callback that never fails: the slices handed to the callback, in order. *)
Definition is_nil {A} (l : list A) : bool := match l with [] => true | _ => false end.
Fixpoint iterate_loop (fuel : nat) (m : list N) (memlen boff next : N) : option (list (list N)) :=
  match fuel with
  | O => None
  | S f =>
      match slice_suffix m memlen boff next with
      | None => None
      | Some (s, nx) =>
          match (match nx with
                 | None => Some []
                 | Some n => iterate_loop f (dropN (n - next) m) memlen boff n
                 end) with
          | None => None
          | Some l => Some (if is_nil s then l else s :: l)
          end
      end
  end.
Definition slice_iterate (b : buffer) : option (list (list N)) :=
  if is_empty b then Some []
  else let mem := b_mem b in
       iterate_loop (S (length mem)) (dropN pad mem) (lenN mem) (b_off b) pad.

(* the whole array back into the three pieces (used after the in-place sort) *)
Definition set_mem (b : buffer) (mem : list N) : buffer :=
  mkB (takeN pad mem) (revT (takeN (b_off b - pad) (dropN pad mem))) (dropN (b_off b) mem)
      (b_off b) (b_curSz b) (b_maxSz b) (b_mode b) (b_auto b).

(* ---- operation sequences (what the theorems and the correspondence run) ---- *)
Inductive op :=
| OWrite (p : list N)
| OWriteSlice (p : list N)
| OAllocate (n : N) (fill : list N)        (* Allocate(n), then copy(slice, fill) *)
| OAllocateOffset (n : N) (fill : list N)  (* AllocateOffset(n), then copy(buf[off:off+n], fill) *)
| OSliceAllocate (sz : N) (fill : list N)  (* SliceAllocate(sz), then copy(slice, fill) *)
| OGrow (n : N)
| OReset.

(* one operation; None = refused (panic) *)
Definition step_opt (b : buffer) (o : op) : option buffer :=
  match o with
  | OWrite p => write b p
  | OWriteSlice p => write_slice b p
  | OAllocate n f =>
      match allocate b n with None => None | Some (_, _, b') => Some (fill_tail b' n f) end
  | OAllocateOffset n f =>
      match allocate_offset b n with None => None | Some (_, b') => Some (fill_tail b' n f) end
  | OSliceAllocate sz f =>
      match slice_allocate b sz with None => None | Some (_, _, b') => Some (fill_tail b' sz f) end
  | OGrow n => grow b n
  | OReset => Some (reset b)
  end.
(* a refused operation leaves the state unchanged (the caller recovered from the panic) *)
Definition step (b : buffer) (o : op) : buffer :=
  match step_opt b o with Some b' => b' | None => b end.
Definition run (ops : list op) (b : buffer) : buffer := fold_left step ops b.
