(* Proofs about the sorter model (Sort.v): for every boolean less the result is a permutation of the slices
   and everything outside [start,end) is untouched; with a strict weak order there is no adjacent inversion. *)
From Ristretto Require Import Base.Word Base.ListX Buffer.Buffer Buffer.BufferSpec Buffer.BufferProofs Buffer.Sort.
From Coq Require Import ZifyN ZifyNat ZifyBool Permutation.
Open Scope N_scope.

(* ------------------------------------------------------------------ the scratch buffer *)
Definition tmp_ok (t : buffer) : Prop := wf t /\ b_maxSz t = 0.

Lemma tmp_ok_new c : tmp_ok (new_buffer c).
Proof. split; [apply wf_new|reflexivity]. Qed.

Lemma tmp_write t l : tmp_ok t -> exists t', write t l = Some t' /\ tmp_ok t' /\ bytes t' = bytes t ++ l.
Proof.
  intros (W & M). destruct (write t l) as [t'|] eqn:E.
  - destruct (write_spec _ _ _ E W) as (W' & B & M' & _). exists t'. unfold tmp_ok. splits; auto; congruence.
  - apply write_none in E. unfold refused in E. rewrite M in E. cbn in E. discriminate.
Qed.

Lemma tmp_reset t : tmp_ok t -> tmp_ok (reset t) /\ bytes (reset t) = [].
Proof.
  intros (W & M). destruct (reset_spec t W) as (W' & B & M' & _). unfold tmp_ok. splits; auto; congruence.
Qed.

(* ------------------------------------------------------------------ encodings *)
Lemma lenN_nil {A} : lenN (@nil A) = 0.
Proof. reflexivity. Qed.

Lemma small_perm L L' : Permutation L L' -> small_slices L -> small_slices L'.
Proof. intros P H. unfold small_slices in *. rewrite Forall_forall in *. intros x Hx. apply H. eapply Permutation_in; [symmetry|]; eauto. Qed.

Lemma enc_len_perm L L' : Permutation L L' -> lenN (enc_slices L) = lenN (enc_slices L').
Proof.
  induction 1; auto.
  - rewrite !enc_slices_cons, !lenN_app. lia.
  - rewrite !enc_slices_cons, !lenN_app. lia.
  - congruence.
Qed.

Lemma be64_dec_enc s tl rest : lenN s < two63 -> be64_dec (enc_slices (s :: tl) ++ rest) = lenN s.
Proof.
  intros Hs. rewrite enc_slices_cons. unfold enc1. rewrite <- !app_assoc.
  apply be64_dec_be64. unfold two63, two64 in *; lia.
Qed.
Lemma drop8_enc s tl rest : dropN 8 (enc_slices (s :: tl) ++ rest) = s ++ enc_slices tl ++ rest.
Proof.
  rewrite enc_slices_cons. unfold enc1. rewrite <- !app_assoc.
  apply dropN_app_exact'. now rewrite lenN_be64.
Qed.
Lemma drop8_enc1 s : dropN 8 (enc1 s) = s.
Proof. unfold enc1. apply dropN_app_exact'. now rewrite lenN_be64. Qed.

Lemma raw_len_enc s tl buflen : lenN s < two63 -> buflen = lenN (enc_slices (s :: tl)) ->
  raw_len (enc_slices (s :: tl)) buflen = Some (8 + lenN s).
Proof.
  intros Hs Hb. unfold raw_len.
  rewrite <- (app_nil_r (enc_slices (s :: tl))), be64_dec_enc by auto.
  rewrite enc_slices_cons, lenN_app, lenN_enc1 in Hb.
  replace (buflen <? 8) with false by lia.
  replace (two63 <=? lenN s) with false by lia.
  now replace (buflen <? 8 + lenN s) with false by lia.
Qed.

(* ------------------------------------------------------------------ lmerge *)
Section Merge.
  Variable less : list N -> list N -> bool.

  Lemma lmerge_nil_l B : lmerge less [] B = B.
  Proof. now destruct B. Qed.
  Lemma lmerge_nil_r A : lmerge less A [] = A.
  Proof. now destruct A. Qed.
  Lemma lmerge_cons a A b B :
    lmerge less (a :: A) (b :: B) =
    if less a b then a :: lmerge less A (b :: B) else b :: lmerge less (a :: A) B.
  Proof. reflexivity. Qed.

  Lemma lmerge_perm A : forall B, Permutation (lmerge less A B) (A ++ B).
  Proof.
    induction A as [|a A IHA]; intros B; [now rewrite lmerge_nil_l|].
    induction B as [|b B IHB]; [now rewrite lmerge_nil_r, app_nil_r|].
    rewrite lmerge_cons. destruct (less a b).
    - cbn. constructor. apply IHA.
    - rewrite IHB. cbn. rewrite (Permutation_middle (a :: A) B b). reflexivity.
  Qed.

  Lemma merge_loop_spec : forall fuel A B llen rlen start end_,
    (length A + length B < fuel)%nat -> small_slices A -> small_slices B ->
    llen = lenN (enc_slices A) -> rlen = lenN (enc_slices B) -> end_ = start + llen + rlen ->
    merge_loop less fuel (enc_slices A) (enc_slices B) llen rlen start end_ =
      Some (enc_slices (lmerge less A B)).
  Proof.
    induction fuel as [|f IH]; intros A B llen rlen start end_ Hf HA HB Hl Hr He; [lia|].
    cbn [merge_loop].
    destruct A as [|a A'].
    { change (enc_slices []) with (@nil N) in *. rewrite lenN_nil in Hl. subst llen.
      rewrite lmerge_nil_l. destruct (start <? end_) eqn:E.
      - cbn [N.eqb]. replace (end_ - start <? rlen) with false by lia. reflexivity.
      - assert (H0 : lenN (enc_slices B) = 0) by lia. apply lenN_nil_iff in H0. now rewrite H0. }
    destruct B as [|b B'].
    { change (enc_slices []) with (@nil N) in *. rewrite lenN_nil in Hr. subst rlen.
      rewrite lmerge_nil_r. rewrite enc_slices_cons, lenN_app, lenN_enc1 in Hl.
      replace (start <? end_) with true by lia.
      replace (llen =? 0) with false by lia. cbn [N.eqb].
      replace (end_ - start <? llen) with false by lia. reflexivity. }
    inversion HA; subst. inversion HB; subst.
    pose proof (lenN_enc1 a) as La. pose proof (lenN_enc1 b) as Lb.
    assert (Hl' : lenN (enc_slices (a :: A')) = 8 + lenN a + lenN (enc_slices A'))
      by (rewrite enc_slices_cons, lenN_app, La; reflexivity).
    assert (Hr' : lenN (enc_slices (b :: B')) = 8 + lenN b + lenN (enc_slices B'))
      by (rewrite enc_slices_cons, lenN_app, Lb; reflexivity).
    replace (start <? start + lenN (enc_slices (a :: A')) + lenN (enc_slices (b :: B'))) with true by lia.
    replace (lenN (enc_slices (a :: A')) =? 0) with false by lia.
    replace (lenN (enc_slices (b :: B')) =? 0) with false by lia.
    rewrite (raw_len_enc a A') by auto. rewrite (raw_len_enc b B') by auto.
    replace (8 + lenN a - 8) with (lenN a) by lia. replace (8 + lenN b - 8) with (lenN b) by lia.
    rewrite <- (app_nil_r (enc_slices (a :: A'))) at 1. rewrite drop8_enc, takeN_app_exact.
    rewrite <- (app_nil_r (enc_slices (b :: B'))) at 1. rewrite drop8_enc, takeN_app_exact.
    rewrite lmerge_cons.
    assert (Ta : takeN (8 + lenN a) (enc_slices (a :: A')) = enc1 a).
    { rewrite enc_slices_cons. apply takeN_app_exact'. lia. }
    assert (Da : dropN (8 + lenN a) (enc_slices (a :: A')) = enc_slices A').
    { rewrite enc_slices_cons. apply dropN_app_exact'. lia. }
    assert (Tb : takeN (8 + lenN b) (enc_slices (b :: B')) = enc1 b).
    { rewrite enc_slices_cons. apply takeN_app_exact'. lia. }
    assert (Db : dropN (8 + lenN b) (enc_slices (b :: B')) = enc_slices B').
    { rewrite enc_slices_cons. apply dropN_app_exact'. lia. }
    destruct (less a b).
    - rewrite Da, Ta. rewrite (IH A' (b :: B')); auto; try lia.
      + cbn [length] in *; lia.
    - rewrite Db, Tb. rewrite (IH (a :: A') B'); auto; try lia.
      + cbn [length] in *; lia.
  Qed.
End Merge.

(* ------------------------------------------------------------------ regions of the array *)
Lemma region_app pre X post a b : a = lenN pre -> b = a + lenN X -> region (pre ++ X ++ post) a b = X.
Proof.
  intros -> ->. unfold region. rewrite dropN_app_exact. apply takeN_app_exact'. lia.
Qed.
Lemma splice_app pre X post lo src : lo = lenN pre -> lenN src = lenN X ->
  splice (pre ++ X ++ post) lo src = pre ++ src ++ post.
Proof.
  intros -> Hs. unfold splice. rewrite takeN_app_exact. f_equal. f_equal.
  rewrite <- dropN_dropN, dropN_app_exact. apply dropN_app_exact'. auto.
Qed.
Lemma mem_split3 (mem : list N) a b : a <= b -> b <= lenN mem ->
  mem = takeN a mem ++ region mem a b ++ dropN b mem.
Proof.
  intros H1 H2. unfold region.
  rewrite <- (takeN_dropN a mem) at 1. f_equal.
  rewrite <- (takeN_dropN (b - a) (dropN a mem)) at 1. f_equal.
  rewrite dropN_dropN. f_equal. lia.
Qed.
Lemma lenN_region (mem : list N) a b : a <= b -> b <= lenN mem -> lenN (region mem a b) = b - a.
Proof. intros. unfold region. apply lenN_takeN. rewrite lenN_dropN. lia. Qed.
Lemma takeN_takeN_le {A} a b (l : list A) : a <= b -> takeN a (takeN b l) = takeN a l.
Proof.
  intros H. unfold takeN. rewrite firstn_firstn. f_equal. lia.
Qed.
Lemma takeN_eq_le {A} a b (l1 l2 : list A) : a <= b -> takeN b l1 = takeN b l2 -> takeN a l1 = takeN a l2.
Proof. intros H E. rewrite <- (takeN_takeN_le a b l1), <- (takeN_takeN_le a b l2), E; auto. Qed.
Lemma dropN_eq_ge {A} a b (l1 l2 : list A) : a <= b -> dropN a l1 = dropN a l2 -> dropN b l1 = dropN b l2.
Proof.
  intros H E. replace b with (a + (b - a)) by lia. now rewrite <- !dropN_dropN, E.
Qed.
Lemma region_drop_eq (m1 m2 : list N) c a b : c <= a -> dropN c m1 = dropN c m2 -> region m1 a b = region m2 a b.
Proof. intros H E. unfold region. now rewrite (dropN_eq_ge c a m1 m2 H E). Qed.
Lemma region_take_eq (m1 m2 : list N) c a b : a <= b -> b <= c -> takeN c m1 = takeN c m2 ->
  region m1 a b = region m2 a b.
Proof.
  intros H1 H2 E. unfold region.
  assert (R : forall m : list N, takeN (b - a) (dropN a m) = dropN a (takeN b m)).
  { intros m. unfold takeN, dropN. rewrite skipn_firstn_comm. f_equal. lia. }
  rewrite !R. f_equal. eapply takeN_eq_le; eauto.
Qed.

Definition seg (mem : list N) (a b : N) (Y : list (list N)) : Prop :=
  a <= b /\ b <= lenN mem /\ region mem a b = enc_slices Y /\ small_slices Y.

Section MergeMem.
  Variable less : list N -> list N -> bool.

  Lemma is_nil_enc L : is_nil (enc_slices L) = is_nil L.
  Proof.
    destruct L as [|s L]; [reflexivity|]. cbn [is_nil]. destruct (enc_slices (s :: L)) eqn:E; [|reflexivity].
    apply enc_slices_nil_iff in E. discriminate.
  Qed.

  Lemma merge_app pre A B post tmp start mid end_ :
    start = lenN pre -> mid = start + lenN (enc_slices A) -> end_ = mid + lenN (enc_slices B) ->
    small_slices A -> small_slices B -> tmp_ok tmp ->
    exists t', merge less (pre ++ enc_slices A ++ enc_slices B ++ post) tmp start mid end_ =
                 Some (pre ++ enc_slices (lmerge less A B) ++ post, t') /\ tmp_ok t'.
  Proof.
    intros Hs Hm He HA HB Ht. unfold merge.
    assert (RL : region (pre ++ enc_slices A ++ enc_slices B ++ post) start mid = enc_slices A)
      by (apply region_app; auto).
    assert (RR : region (pre ++ enc_slices A ++ enc_slices B ++ post) mid end_ = enc_slices B).
    { rewrite (app_assoc pre). apply region_app; auto. rewrite lenN_app. lia. }
    rewrite RL, RR, !is_nil_enc.
    destruct A as [|a A'].
    { exists tmp. cbn [is_nil orb]. rewrite lmerge_nil_l. auto. }
    destruct B as [|b B'].
    { exists tmp. cbn [is_nil orb]. rewrite lmerge_nil_r. change (enc_slices []) with (@nil N). auto. }
    cbn [is_nil orb].
    destruct (tmp_reset tmp Ht) as (Hr & Br).
    destruct (tmp_write (reset tmp) (enc_slices (a :: A')) Hr) as (t & Wt & Ht' & Bt).
    rewrite Wt, Bt, Br. cbn [app].
    rewrite (merge_loop_spec less _ (a :: A') (b :: B') _ _ start end_); auto.
    - assert (Hlen : lenN (enc_slices (lmerge less (a :: A') (b :: B'))) =
                     lenN (enc_slices (a :: A')) + lenN (enc_slices (b :: B'))).
      { rewrite (enc_len_perm _ _ (lmerge_perm less (a :: A') (b :: B'))), enc_slices_app, lenN_app. reflexivity. }
      replace (lenN (enc_slices (lmerge less (a :: A') (b :: B'))) =? end_ - start) with true by lia.
      exists t. split; auto. f_equal. f_equal.
      rewrite (app_assoc (enc_slices (a :: A'))).
      rewrite (splice_app pre (enc_slices (a :: A') ++ enc_slices (b :: B')) post); auto.
      rewrite lenN_app. lia.
    - pose proof (enc_slices_length (a :: A')). pose proof (enc_slices_length (b :: B')). lia.
    - lia.
  Qed.

  Lemma merge_seg mem tmp s m e A B :
    seg mem s m A -> seg mem m e B -> tmp_ok tmp ->
    exists mem' t', merge less mem tmp s m e = Some (mem', t') /\ tmp_ok t' /\
      lenN mem' = lenN mem /\ takeN s mem' = takeN s mem /\ dropN e mem' = dropN e mem /\
      seg mem' s e (lmerge less A B).
  Proof.
    intros (A1 & A2 & A3 & A4) (B1 & B2 & B3 & B4) Ht.
    assert (Hsplit : mem = takeN s mem ++ enc_slices A ++ enc_slices B ++ dropN e mem).
    { rewrite (mem_split3 mem s m A1 A2) at 1. rewrite A3. f_equal. f_equal.
      rewrite (mem_split3 (dropN m mem) 0 (e - m)) at 1 by (rewrite ?lenN_dropN; lia).
      rewrite takeN_0. cbn [app]. unfold region at 1. rewrite dropN_0, N.sub_0_r.
      unfold region in B3. rewrite B3. f_equal. rewrite dropN_dropN. f_equal. lia. }
    assert (Ls : lenN (takeN s mem) = s) by (apply lenN_takeN; lia).
    assert (LA : lenN (enc_slices A) = m - s) by (rewrite <- A3; apply lenN_region; lia).
    assert (LB : lenN (enc_slices B) = e - m) by (rewrite <- B3; apply lenN_region; lia).
    destruct (merge_app (takeN s mem) A B (dropN e mem) tmp s m e) as (t' & Hm & Ht'); auto; try lia.
    rewrite <- Hsplit in Hm.
    set (Y := lmerge less A B) in *.
    assert (LY : lenN (enc_slices Y) = e - s).
    { unfold Y. rewrite (enc_len_perm _ _ (lmerge_perm less A B)), enc_slices_app, lenN_app. lia. }
    exists (takeN s mem ++ enc_slices Y ++ dropN e mem), t'.
    assert (Ld : lenN (dropN e mem) = lenN mem - e) by apply lenN_dropN.
    unfold seg. splits; auto.
    - rewrite !lenN_app. lia.
    - apply takeN_app_exact'. lia.
    - rewrite app_assoc. apply dropN_app_exact'. rewrite lenN_app. lia.
    - lia.
    - rewrite !lenN_app. lia.
    - apply region_app; lia.
    - unfold Y. eapply small_perm; [symmetry; apply lmerge_perm|]. apply Forall_app; auto.
  Qed.
End MergeMem.

(* ------------------------------------------------------------------ order lemmas *)
Section Order.
  Context {A : Type} (lt : A -> A -> bool).
  Hypothesis swo : strict_weak_order lt.

  Definition lb (x : A) (l : list A) : Prop := Forall (fun y => lt y x = false) l.

  Lemma swo_asym a b : lt a b = true -> lt b a = false.
  Proof.
    destruct swo as (Irr & Tr & _). intros H. destruct (lt b a) eqn:E; [|reflexivity].
    pose proof (Tr _ _ _ H E). rewrite Irr in H0. discriminate.
  Qed.

  Lemma sorted_lb a l : sorted_gen lt (a :: l) -> lb a l.
  Proof.
    destruct swo as (_ & _ & NT).
    revert a; induction l as [|b l IH]; intros a (H1 & H2); [constructor|].
    constructor; [exact H1|]. specialize (IH b H2).
    unfold lb in *. rewrite Forall_forall in *. intros y Hy. eapply NT; [apply IH; exact Hy|exact H1].
  Qed.

  Lemma lb_sorted a l : lb a l -> sorted_gen lt l -> sorted_gen lt (a :: l).
  Proof. intros H S. split; [|exact S]. destruct l; [exact I|]. now inversion H. Qed.

  Lemma sorted_tail a l : sorted_gen lt (a :: l) -> sorted_gen lt l.
  Proof. now intros (_ & H). Qed.

  Lemma lb_perm x l l' : Permutation l l' -> lb x l -> lb x l'.
  Proof. intros P H. unfold lb in *. rewrite Forall_forall in *. intros y Hy. apply H. eapply Permutation_in; [symmetry|]; eauto. Qed.

  Lemma lb_trans x y l : lt x y = false -> lb x l -> lb y l.
  Proof.
    destruct swo as (_ & _ & NT). intros H L. unfold lb in *. rewrite Forall_forall in *.
    intros z Hz. eapply NT; [apply L; exact Hz|exact H].
  Qed.
End Order.

Section MergeSorted.
  Variable less : list N -> list N -> bool.
  Hypothesis swo : strict_weak_order less.

  Lemma lmerge_sorted A : forall B, sorted_by less A -> sorted_by less B -> sorted_by less (lmerge less A B).
  Proof.
    unfold sorted_by.
    induction A as [|a A IHA]; intros B SA SB; [now rewrite lmerge_nil_l|].
    induction B as [|b B IHB]; [now rewrite lmerge_nil_r|].
    rewrite lmerge_cons.
    pose proof (sorted_lb less swo _ _ SA) as LA. pose proof (sorted_lb less swo _ _ SB) as LB.
    destruct (less a b) eqn:E.
    - apply lb_sorted.
      + eapply lb_perm; [symmetry; apply lmerge_perm|]. apply Forall_app. split; [exact LA|].
        pose proof (swo_asym less swo _ _ E) as Hba.
        constructor; [exact Hba|]. eapply lb_trans; eauto.
      + apply IHA; [eapply sorted_tail; eauto|exact SB].
    - apply lb_sorted.
      + eapply lb_perm; [symmetry; apply lmerge_perm|]. apply Forall_app. split; [|exact LB].
        constructor; [exact E|]. eapply lb_trans; eauto.
      + apply IHB. eapply sorted_tail; eauto.
  Qed.
End MergeSorted.

(* ------------------------------------------------------------------ sort(lo, hi) *)
Ltac Zify.zify_post_hook ::= Z.div_mod_to_equations.

Section SortRec.
  Variable less : list N -> list N -> bool.
  Variable offsets : list N.
  Variable Cs : nat -> list (list N).
  Let o (i : nat) : N := nth i offsets 0.
  Definition flat (Cs : nat -> list (list N)) (lo hi : nat) : list (list N) :=
    concat (map Cs (seq lo (hi - lo))).

  Lemma flat_split lo mid hi : (lo <= mid <= hi)%nat -> flat Cs lo hi = flat Cs lo mid ++ flat Cs mid hi.
  Proof.
    intros H. unfold flat. replace (hi - lo)%nat with ((mid - lo) + (hi - mid))%nat by lia.
    rewrite seq_app, map_app, concat_app. repeat f_equal. lia.
  Qed.
  Lemma flat_one lo : flat Cs lo (S lo) = Cs lo.
  Proof. unfold flat. replace (S lo - lo)%nat with 1%nat by lia. cbn. apply app_nil_r. Qed.

  Lemma o_mono mem lo hi : (forall i, (lo <= i < hi)%nat -> seg mem (o i) (o (S i)) (Cs i)) ->
    forall i j, (lo <= i)%nat -> (i <= j)%nat -> (j <= hi)%nat -> o i <= o j.
  Proof.
    intros H i j Hi Hij. induction Hij; intros Hj; [lia|].
    specialize (IHHij ltac:(lia)). destruct (H m ltac:(lia)) as (Hm & _). lia.
  Qed.

  Lemma sort_rec_spec : forall fuel lo hi mem tmp,
    (lo < hi)%nat -> (hi - lo <= fuel)%nat ->
    (forall i, (lo <= i < hi)%nat -> seg mem (o i) (o (S i)) (Cs i)) -> tmp_ok tmp ->
    exists mem' t', sort_rec less fuel offsets mem tmp lo hi = Some (mem', t') /\ tmp_ok t' /\
      lenN mem' = lenN mem /\ takeN (o lo) mem' = takeN (o lo) mem /\
      dropN (o hi) mem' = dropN (o hi) mem /\
      exists Y, seg mem' (o lo) (o hi) Y /\ Permutation Y (flat Cs lo hi) /\
                (strict_weak_order less -> (forall i, (lo <= i < hi)%nat -> sorted_by less (Cs i)) ->
                 sorted_by less Y).
  Proof.
    induction fuel as [|f IH]; intros lo hi mem tmp Hlh Hf Hseg Ht.
    { lia. }
    cbn [sort_rec].
    destruct (Nat.eqb lo (lo + (hi - lo) / 2)) eqn:Emid.
    - apply Nat.eqb_eq in Emid. assert (hi = S lo) by lia. subst hi.
      exists mem, tmp. splits; auto. exists (Cs lo). rewrite flat_one.
      splits; auto; try (apply Hseg; lia); try (intros _ Hs; apply Hs; lia).
    - apply Nat.eqb_neq in Emid.
      set (mid := (lo + (hi - lo) / 2)%nat) in *.
      assert (Hmid : (lo < mid < hi)%nat) by (unfold mid in *; lia).
      pose proof (o_mono mem lo hi Hseg) as Mono.
      destruct (IH lo mid mem tmp) as (mem1 & t1 & E1 & Ht1 & L1 & T1 & D1 & Y1 & S1 & P1 & O1); auto; try lia.
      { intros i Hi; apply Hseg; lia. }
      rewrite E1.
      destruct (IH mid hi mem1 t1) as (mem2 & t2 & E2 & Ht2 & L2 & T2 & D2 & Y2 & S2 & P2 & O2); auto; try lia.
      { intros i Hi. destruct (Hseg i ltac:(lia)) as (G1 & G2 & G3 & G4).
        unfold seg; splits; auto; try lia.
        rewrite <- G3. apply (region_drop_eq mem1 mem (o mid)); auto. apply Mono; lia. }
      rewrite E2.
      assert (S1' : seg mem2 (o lo) (o mid) Y1).
      { destruct S1 as (G1 & G2 & G3 & G4). unfold seg; splits; auto; try lia.
        rewrite <- G3. apply (region_take_eq mem2 mem1 (o mid)); auto; lia. }
      destruct (merge_seg less mem2 t2 (o lo) (o mid) (o hi) Y1 Y2 S1' S2 Ht2)
        as (mem' & t' & Em & Ht' & L' & T' & D' & S').
      change (merge less mem2 t2 (nth lo offsets 0) (nth mid offsets 0) (nth hi offsets 0))
        with (merge less mem2 t2 (o lo) (o mid) (o hi)). rewrite Em.
      exists mem', t'. splits; auto; try lia.
      + rewrite T'. rewrite (takeN_eq_le (o lo) (o mid) mem2 mem1); auto. apply Mono; lia.
      + rewrite D', D2. apply (dropN_eq_ge (o mid) (o hi)); auto. apply Mono; lia.
      + exists (lmerge less Y1 Y2). splits; auto.
        * rewrite (lmerge_perm less Y1 Y2), P1, P2. rewrite (flat_split lo mid hi); auto. lia.
        * intros Hswo Hs. apply lmerge_sorted; auto.
          -- apply O1; auto. intros i Hi; apply Hs; lia.
          -- apply O2; auto. intros i Hi; apply Hs; lia.
  Qed.
End SortRec.

(* ------------------------------------------------------------------ walking the slices of [start,end) *)
Fixpoint decorate (off : N) (L : list (list N)) : list (N * list N) :=
  match L with
  | [] => []
  | s :: tl => (off, enc1 s) :: decorate (off + 8 + lenN s) tl
  end.
Fixpoint pick (every count : N) (l : list (N * list N)) : list (N * list N) :=
  match l with
  | [] => []
  | x :: tl => (if count mod every =? 0 then [x] else []) ++ pick every (count + 1) tl
  end.

Lemma slice_suffix_gen s tl rest memlen boff next :
  lenN s < two63 -> next + 8 + lenN s <= boff -> boff <= memlen ->
  slice_suffix (enc_slices (s :: tl) ++ rest) memlen boff next =
    Some (s, if boff <=? next + 8 + lenN s then None else Some (next + 8 + lenN s)).
Proof.
  intros Hs Hb Hm. unfold slice_suffix.
  rewrite be64_dec_enc, drop8_enc, takeN_app_exact by auto.
  replace (boff <=? next) with false by lia.
  replace (memlen <? next + 8) with false by lia.
  replace (two63 <=? lenN s) with false by lia.
  now replace (memlen <? next + 8 + lenN s) with false by lia.
Qed.

Lemma walk_offsets_spec every L : forall fuel rest memlen boff next end_ count,
  small_slices L -> (length L < fuel)%nat -> end_ = next + lenN (enc_slices L) ->
  end_ <= boff -> boff <= memlen ->
  walk_offsets fuel every (enc_slices L ++ rest) memlen boff next end_ count =
    Some (pick every count (decorate next L)).
Proof.
  induction L as [|s tl IH]; intros fuel rest memlen boff next end_ count HL Hf He Hb Hm;
    (destruct fuel as [|f]; [cbn in Hf; lia|]); cbn [walk_offsets].
  - change (enc_slices []) with (@nil N) in He. rewrite lenN_nil in He.
    now replace (next <? end_) with false by lia.
  - inversion HL; subst.
    pose proof (lenN_enc1 s) as Ls.
    assert (He' : lenN (enc_slices (s :: tl)) = 8 + lenN s + lenN (enc_slices tl))
      by (rewrite enc_slices_cons, lenN_app, Ls; reflexivity).
    replace (next <? next + lenN (enc_slices (s :: tl))) with true by lia.
    rewrite slice_suffix_gen by (auto; lia).
    assert (Tk : takeN (8 + lenN s) (enc_slices (s :: tl) ++ rest) = enc1 s).
    { rewrite enc_slices_cons, <- app_assoc. apply takeN_app_exact'. lia. }
    rewrite Tk. cbn [decorate pick].
    destruct (boff <=? next + 8 + lenN s) eqn:E.
    + assert (H0 : lenN (enc_slices tl) = 0) by lia. apply lenN_nil_iff, enc_slices_nil_iff in H0. subst tl.
      cbn [decorate pick]. now rewrite app_nil_r.
    + rewrite drop_enc1. rewrite (IH f rest memlen boff (next + 8 + lenN s) _ (count + 1)); auto; try lia.
      cbn [length] in Hf; lia.
Qed.

Lemma pick_one c l : pick 1 c l = l.
Proof.
  revert c; induction l as [|x l IH]; intros c; [reflexivity|]. cbn [pick].
  replace (c mod 1 =? 0) with true by (rewrite N.mod_1_r; reflexivity). cbn [app]. now rewrite IH.
Qed.

Definition payload (x : N * list N) : list N := dropN 8 (snd x).
Lemma decorate_payload off L : map payload (decorate off L) = L.
Proof. revert off; induction L as [|s L IH]; intros; cbn [decorate map]; [easy|]. unfold payload at 1. cbn [snd]. now rewrite drop8_enc1, IH. Qed.
Lemma decorate_raw off L : Forall (fun x => snd x = enc1 (payload x)) (decorate off L).
Proof.
  revert off; induction L as [|s L IH]; intros; cbn [decorate]; constructor; auto.
  all: try (unfold payload; cbn [snd]; now rewrite drop8_enc1).
Qed.
Lemma decorate_lt off L : Forall (fun x => fst x < off + lenN (enc_slices L)) (decorate off L).
Proof.
  revert off; induction L as [|s L IH]; intros; cbn [decorate]; constructor.
  - cbn [fst]. rewrite enc_slices_cons, lenN_app, lenN_enc1. lia.
  - specialize (IH (off + 8 + lenN s)). rewrite enc_slices_cons, lenN_app, lenN_enc1.
    eapply Forall_impl; [|exact IH]. intros a Ha. cbv beta in *. lia.
Qed.
Lemma pick_Forall (P : N * list N -> Prop) every c l : Forall P l -> Forall P (pick every c l).
Proof.
  intros H; revert c; induction H; intros c; cbn [pick]; [constructor|].
  apply Forall_app; split; auto. destruct (c mod every =? 0); auto.
Qed.

Lemma concat_raws l : Forall (fun x => snd x = enc1 (payload x)) l ->
  concat (map snd l) = enc_slices (map payload l).
Proof. induction 1 as [|x l Hx _ IH]; [reflexivity|]. cbn [map concat]. rewrite enc_slices_cons, <- Hx, IH. reflexivity. Qed.

Lemma write_raws_spec raws : forall t, tmp_ok t ->
  exists t', write_raws t raws = Some t' /\ tmp_ok t' /\ bytes t' = bytes t ++ concat raws.
Proof.
  induction raws as [|r raws IH]; intros t Ht; cbn [write_raws concat].
  - exists t. rewrite app_nil_r. auto.
  - destruct (tmp_write t r Ht) as (t1 & W1 & H1 & B1). rewrite W1.
    destruct (IH t1 H1) as (t2 & W2 & H2 & B2). exists t2. splits; auto. now rewrite B2, B1, <- app_assoc.
Qed.

Lemma sorted_map {A B} (f : A -> B) (ltA : A -> A -> bool) (ltB : B -> B -> bool) l :
  (forall x y, ltA x y = ltB (f x) (f y)) -> sorted_gen ltA l -> sorted_gen ltB (map f l).
Proof.
  intros H. induction l as [|a l IH]; [easy|]. intros (H1 & H2). cbn [map]. split; [|auto].
  destruct l; [exact I|]. cbn [map]. now rewrite <- H.
Qed.

(* ------------------------------------------------------------------ sortSmall, chunks, SortSliceBetween *)
Section Top.
  Variable sorter : (N * list N -> N * list N -> bool) -> list (N * list N) -> list (N * list N).
  Variable less : list N -> list N -> bool.
  (* what is assumed of sort.Slice *)
  Hypothesis sorter_perm : forall lt l, Permutation (sorter lt l) l.
  Definition sorter_sorts : Prop :=
    forall lt l, strict_weak_order lt -> sorted_gen lt (sorter lt l).

  Lemma less_raw_swo : strict_weak_order less -> strict_weak_order (less_raw less).
  Proof. intros (I & T & NT). unfold strict_weak_order, less_raw. splits; intros; eauto. Qed.

  Lemma sort_small_spec pre L post boff tmp start end_ :
    start = lenN pre -> end_ = start + lenN (enc_slices L) ->
    end_ <= boff -> boff <= lenN (pre ++ enc_slices L ++ post) ->
    small_slices L -> tmp_ok tmp ->
    exists L' t', sort_small sorter less (pre ++ enc_slices L ++ post) boff tmp start end_ =
                    Some (pre ++ enc_slices L' ++ post, t') /\ tmp_ok t' /\ Permutation L' L /\
                  (strict_weak_order less -> sorter_sorts -> sorted_by less L').
  Proof.
    intros Hs He Hb Hm HL Ht. unfold sort_small.
    rewrite (dropN_app_exact' start) by auto.
    rewrite (walk_offsets_spec 1 L); auto.
    2:{ pose proof (enc_slices_length L). rewrite !app_length. lia. }
    rewrite pick_one.
    set (sorted := sorter (less_raw less) (decorate start L)).
    assert (Ps : Permutation sorted (decorate start L)) by apply sorter_perm.
    assert (Raw : Forall (fun x => snd x = enc1 (payload x)) sorted).
    { pose proof (decorate_raw start L) as H. rewrite Forall_forall in *. intros x Hx. apply H.
      eapply Permutation_in; eauto. }
    set (L' := map payload sorted).
    assert (PL : Permutation L' L).
    { unfold L'. rewrite <- (decorate_payload start L). now apply Permutation_map. }
    destruct (tmp_reset tmp Ht) as (Hr & Br).
    destruct (write_raws_spec (map snd sorted) (reset tmp) Hr) as (t & Wt & Ht' & Bt).
    rewrite Wt, Bt, Br. cbn [app]. rewrite (concat_raws _ Raw). fold L'.
    assert (Len : lenN (enc_slices L') = end_ - start) by (rewrite (enc_len_perm _ _ PL); lia).
    replace (lenN (enc_slices L') <? end_ - start) with false by lia.
    exists L', t. splits; auto.
    - f_equal. f_equal. rewrite takeN_all by lia. apply splice_app; auto. rewrite Len; lia.
    - intros Hswo Hsort. unfold sorted_by, L'.
      apply (sorted_map payload (less_raw less) less); [reflexivity|].
      apply Hsort. now apply less_raw_swo.
  Qed.

  (* chunk boundaries *)
  Fixpoint bounds (off : N) (Cs : list (list (list N))) : list N :=
    off :: match Cs with [] => [] | C :: tl => bounds (off + lenN (enc_slices C)) tl end.

  Lemma pick_bounds every L : forall off count,
    exists C0 Cs, L = C0 ++ concat Cs /\
      map fst (pick every count (decorate off L)) ++ [off + lenN (enc_slices L)] =
        bounds (off + lenN (enc_slices C0)) Cs /\
      (count mod every = 0 -> L <> [] -> C0 = []).
  Proof.
    induction L as [|s tl IH]; intros off count.
    - exists [], []. change (enc_slices []) with (@nil N). rewrite lenN_nil. cbn. splits; auto.
    - destruct (IH (off + 8 + lenN s) (count + 1)) as (C0 & Cs & E1 & E2 & _).
      assert (Ls : forall X, off + lenN (enc_slices (s :: X)) = off + 8 + lenN s + lenN (enc_slices X)).
      { intros X. rewrite enc_slices_cons, lenN_app, lenN_enc1. lia. }
      cbn [decorate pick]. destruct (count mod every =? 0) eqn:Ec.
      + exists [], ((s :: C0) :: Cs). splits; auto.
        * cbn [concat app]. now rewrite <- E1.
        * cbn [app map fst]. change (enc_slices []) with (@nil N). rewrite lenN_nil, N.add_0_r.
          cbn [bounds]. f_equal. rewrite !Ls, E2. reflexivity.
      + exists (s :: C0), Cs. splits.
        * cbn [app]. now rewrite <- E1.
        * cbn [app]. rewrite !Ls, E2. reflexivity.
        * intros H. apply N.eqb_neq in Ec. contradiction.
  Qed.

  Lemma bounds_perm Cs' : forall Cs off, Forall2 (@Permutation (list N)) Cs' Cs -> bounds off Cs' = bounds off Cs.
  Proof.
    induction Cs' as [|C' Cs' IH]; intros Cs off H; inversion H; subst; [reflexivity|].
    cbn [bounds]. f_equal. rewrite (enc_len_perm _ _ H2). now apply IH.
  Qed.
  Lemma concat_perm Cs' : forall Cs, Forall2 (@Permutation (list N)) Cs' Cs -> Permutation (concat Cs') (concat Cs).
  Proof.
    induction Cs' as [|C' Cs' IH]; intros Cs H; inversion H; subst; [reflexivity|].
    cbn [concat]. apply Permutation_app; auto.
  Qed.
  Lemma small_app_l (A B : list (list N)) : small_slices (A ++ B) -> small_slices A.
  Proof. unfold small_slices. rewrite Forall_app. tauto. Qed.
  Lemma small_app_r (A B : list (list N)) : small_slices (A ++ B) -> small_slices B.
  Proof. unfold small_slices. rewrite Forall_app. tauto. Qed.

  Lemma sort_chunks_spec Cs : forall pre post boff tmp off,
    off = lenN pre ->
    off + lenN (enc_slices (concat Cs)) <= boff -> boff <= lenN (pre ++ enc_slices (concat Cs) ++ post) ->
    small_slices (concat Cs) -> tmp_ok tmp ->
    exists Cs' t', sort_chunks sorter less (pre ++ enc_slices (concat Cs) ++ post) boff tmp off (tl (bounds off Cs)) =
                     Some (pre ++ enc_slices (concat Cs') ++ post, t') /\ tmp_ok t' /\
                   Forall2 (@Permutation (list N)) Cs' Cs /\
                   (strict_weak_order less -> sorter_sorts -> Forall (sorted_by less) Cs').
  Proof.
    induction Cs as [|C Cs IH]; intros pre post boff tmp off Ho Hb Hm HL Ht.
    - exists [], tmp. cbn. splits; auto.
    - cbn [bounds tl concat] in *. rewrite enc_slices_app, lenN_app in Hb. rewrite enc_slices_app, <- app_assoc in *.
      destruct (bounds (off + lenN (enc_slices C)) Cs) as [|o1 rest] eqn:Eb; [destruct Cs; discriminate|].
      assert (o1 = off + lenN (enc_slices C)) by (destruct Cs; cbn in Eb; congruence). subst o1.
      assert (rest = tl (bounds (off + lenN (enc_slices C)) Cs)) by now rewrite Eb.
      cbn [sort_chunks].
      destruct (sort_small_spec pre C (enc_slices (concat Cs) ++ post) boff tmp off (off + lenN (enc_slices C)))
        as (C' & t1 & E1 & Ht1 & P1 & S1); auto; try lia.
      { eapply small_app_l; eauto. }
      rewrite E1.
      assert (LC : lenN (enc_slices C') = lenN (enc_slices C)) by now apply enc_len_perm.
      specialize (IH (pre ++ enc_slices C') post boff t1 (off + lenN (enc_slices C))).
      rewrite <- !app_assoc in IH.
      destruct IH as (Cs' & t2 & E2 & Ht2 & P2 & S2); auto.
      { rewrite lenN_app; lia. }
      { lia. }
      { revert Hm. rewrite !lenN_app. lia. }
      { eapply small_app_r; eauto. }
      subst rest. rewrite E2.
      exists (C' :: Cs'), t2. cbn [concat]. rewrite enc_slices_app, <- !app_assoc. splits; auto.
      all: try (intros Hswo Hsort; constructor; auto).
  Qed.

  Lemma chunks_seg Cs : forall pre post i,
    small_slices (concat Cs) -> (i < length Cs)%nat ->
    seg (pre ++ enc_slices (concat Cs) ++ post)
        (nth i (bounds (lenN pre) Cs) 0) (nth (S i) (bounds (lenN pre) Cs) 0) (nth i Cs []).
  Proof.
    induction Cs as [|C Cs IH]; intros pre post i HL Hi; [cbn in Hi; lia|].
    cbn [concat] in *. rewrite enc_slices_app, <- app_assoc.
    destruct i as [|i].
    - cbn [bounds nth]. replace (nth 0 (bounds (lenN pre + lenN (enc_slices C)) Cs) 0)
        with (lenN pre + lenN (enc_slices C)) by (destruct Cs; reflexivity).
      unfold seg. splits; try lia.
      + rewrite !lenN_app. lia.
      + apply region_app; auto.
      + eapply small_app_l; eauto.
    - cbn [bounds]. change (nth (S (S i)) (lenN pre :: ?l) 0) with (nth (S i) l 0).
      change (nth (S i) (lenN pre :: ?l) 0) with (nth i l 0). cbn [nth].
      specialize (IH (pre ++ enc_slices C) post i). rewrite lenN_app, <- app_assoc in IH.
      apply IH; [eapply small_app_r; eauto|cbn in Hi; lia].
  Qed.

  Lemma bounds_length off Cs : length (bounds off Cs) = S (length Cs).
  Proof. revert off; induction Cs; intros; cbn [bounds length]; auto. Qed.
  Lemma bounds_last Cs : forall off, nth (length Cs) (bounds off Cs) 0 = off + lenN (enc_slices (concat Cs)).
  Proof.
    induction Cs as [|C Cs IH]; intros off.
    - cbn [length bounds nth concat]. change (enc_slices []) with (@nil N). rewrite lenN_nil. lia.
    - cbn [length bounds nth concat]. rewrite IH, enc_slices_app, lenN_app. lia.
  Qed.
  Lemma bounds_hd off Cs : nth 0 (bounds off Cs) 0 = off /\ hd 0 (bounds off Cs) = off.
  Proof. destruct Cs; auto. Qed.
  Lemma flat_all Cs : flat (fun i => nth i Cs []) 0 (length Cs) = concat Cs.
  Proof.
    unfold flat. rewrite Nat.sub_0_r. f_equal.
    induction Cs as [|C Cs IH]; [reflexivity|]. cbn [length seq map nth]. f_equal.
    rewrite <- seq_shift, map_map. exact IH.
  Qed.
End Top.

Lemma last_Forall {A} (P : A -> Prop) (l : list A) d : Forall P l -> l <> [] -> P (last l d).
Proof.
  induction 1 as [|x l Hx Hl IH]; [easy|]. intros _. destruct l as [|y l]; [exact Hx|].
  change (P (last (y :: l) d)). apply IH. discriminate.
Qed.
Lemma Forall2_length' {A B} (R : A -> B -> Prop) l1 l2 : Forall2 R l1 l2 -> length l1 = length l2.
Proof. induction 1; cbn; auto. Qed.

Section Final.
  Variable sorter : (N * list N -> N * list N -> bool) -> list (N * list N) -> list (N * list N).
  Variable less : list N -> list N -> bool.
  Hypothesis sorter_perm : forall lt l, Permutation (sorter lt l) l.

  Theorem sort_between_spec b L0 L L2 start end_ :
    wf b -> bytes b = enc_slices (L0 ++ L ++ L2) -> small_slices (L0 ++ L ++ L2) ->
    start = pad + lenN (enc_slices L0) -> end_ = start + lenN (enc_slices L) ->
    exists b' L', sort_slice_between sorter less b start end_ = SortOk b' /\
      bytes b' = enc_slices (L0 ++ L' ++ L2) /\ Permutation L' L /\ wf b' /\
      b_padb b' = b_padb b /\ b_rest b' = b_rest b /\ b_off b' = b_off b /\
      b_curSz b' = b_curSz b /\ b_maxSz b' = b_maxSz b /\ b_mode b' = b_mode b /\ b_auto b' = b_auto b /\
      (strict_weak_order less -> sorter_sorts sorter -> sorted_by less L').
  Proof.
    intros W HB HS Hst Hen. unfold sort_slice_between.
    destruct L as [|s tl].
    { change (enc_slices []) with (@nil N) in Hen. rewrite lenN_nil, N.add_0_r in Hen. subst end_.
      rewrite N.leb_refl. exists b, []. splits; auto. intros _ _. exact I. }
    set (L := s :: tl) in *.
    assert (Hl8 : 8 <= lenN (enc_slices L)) by (unfold L; rewrite enc_slices_cons, lenN_app, lenN_enc1; lia).
    unfold pad in Hst.
    replace (end_ <=? start) with false by lia. replace (start =? 0) with false by lia.
    pose proof W as (W1 & W2 & W3). pose proof (wf_mem_len b W) as Hml. unfold pad in *.
    set (pre := b_padb b ++ enc_slices L0).
    set (post := enc_slices L2 ++ b_rest b).
    assert (Hmem : b_mem b = pre ++ enc_slices L ++ post).
    { unfold b_mem, pre, post. rewrite HB, !enc_slices_app, <- !app_assoc. reflexivity. }
    assert (Hpre : lenN pre = start) by (unfold pre; rewrite lenN_app; lia).
    assert (Hboff : b_off b = end_ + lenN (enc_slices L2)).
    { rewrite W2, <- lenN_bytes, HB, !enc_slices_app, !lenN_app. lia. }
    assert (Hcur : b_off b <= lenN (b_mem b)) by lia.
    (* chunk offsets *)
    cbv zeta. unfold chunk_offsets. rewrite Hmem. rewrite (dropN_app_exact' start) by auto.
    rewrite (walk_offsets_spec 1024 L); auto; try lia; try (rewrite <- Hmem; lia).
    2:{ eapply small_app_l, small_app_r; eauto. }
    2:{ pose proof (enc_slices_length L). rewrite !app_length. lia. }
    destruct (pick_bounds less 1024 L start 0) as (C0 & Cs & E1 & E2 & E3).
    rewrite (E3 eq_refl ltac:(discriminate)) in *. clear E3.
    assert (Hz : lenN (enc_slices []) = 0) by reflexivity. rewrite Hz, N.add_0_r in E2. clear Hz. cbn [app] in E1.
    assert (Hpick : exists p ps, pick 1024 0 (decorate start L) = p :: ps).
    { unfold L. cbn [decorate pick]. change (0 mod 1024 =? 0) with true. cbn [app]. eauto. }
    destruct Hpick as (p & ps & Hpick). rewrite Hpick in *.
    assert (Hlast : last (map fst (p :: ps)) 0 < end_).
    { apply last_Forall; [|discriminate]. rewrite <- Hpick.
      apply Forall_map. apply pick_Forall. subst end_. apply decorate_lt. }
    replace (last (map fst (p :: ps)) 0 =? end_) with false by lia.
    rewrite <- Hen in E2. rewrite E2.
    assert (HCs : Cs <> []) by (intros ->; discriminate).
    destruct (bounds_hd start Cs) as (_ & Hhd). rewrite Hhd.
    (* sortSmall on every chunk *)
    assert (HsL : small_slices L) by (eapply small_app_l, small_app_r; eauto).
    rewrite E1.
    destruct (sort_chunks_spec sorter less sorter_perm Cs pre post (b_off b)
                (new_buffer (tmp_capacity start end_)) start) as (Cs' & t1 & Ec & Ht1 & P2 & S2); auto.
    { rewrite <- E1. lia. }
    { rewrite <- E1, <- Hmem. lia. }
    { now rewrite <- E1. }
    { apply tmp_ok_new. }
    rewrite Ec.
    (* the merge sort over the chunk offsets *)
    pose proof (bounds_perm Cs' Cs start P2) as Hbp.
    pose proof (Forall2_length' _ _ _ P2) as Hlen2.
    assert (HCs' : Cs' <> []) by (intros ->; destruct Cs; [easy|cbn in Hlen2; lia]).
    assert (HsC' : small_slices (concat Cs')).
    { eapply small_perm; [symmetry; apply concat_perm; eauto|]. now rewrite <- E1. }
    rewrite <- Hbp. rewrite bounds_length. replace (S (length Cs') - 1)%nat with (length Cs') by lia.
    destruct (sort_rec_spec less (bounds start Cs') (fun i => nth i Cs' []) (S (length Cs')) 0 (length Cs')
                (pre ++ enc_slices (concat Cs') ++ post) t1)
      as (mem2 & t2 & Er & Ht2 & Lm & Tm & Dm & Y & SY & PY & OY); auto; try lia.
    { destruct Cs'; [easy|cbn; lia]. }
    { intros i Hi. rewrite <- Hpre. apply (chunks_seg less); auto. lia. }
    rewrite Er. rewrite flat_all in PY.
    destruct (bounds_hd start Cs') as (H0 & _). rewrite H0 in *. rewrite bounds_last in *.
    assert (LC' : lenN (enc_slices (concat Cs')) = lenN (enc_slices L)).
    { apply enc_len_perm. rewrite E1. now apply concat_perm. }
    rewrite LC', <- Hen in *.
    assert (PYL : Permutation Y L) by (rewrite PY, E1; now apply concat_perm).
    assert (LY : lenN (enc_slices Y) = lenN (enc_slices L)) by now apply enc_len_perm.
    assert (Hmem2 : mem2 = pre ++ enc_slices Y ++ post).
    { destruct SY as (G1 & G2 & G3 & G4).
      rewrite (mem_split3 mem2 start end_ G1 G2) at 1. rewrite G3, Tm, Dm. f_equal; [|f_equal].
      - now apply takeN_app_exact'.
      - rewrite app_assoc. apply dropN_app_exact'. rewrite lenN_app. lia. }
    exists (set_mem b mem2), Y.
    assert (Hb' : bytes (set_mem b mem2) = enc_slices (L0 ++ Y ++ L2)).
    { unfold bytes, set_mem. cbn [b_urev]. rewrite !revT_rev, rev_involutive.
      rewrite Hmem2. unfold pre, post. rewrite <- !app_assoc.
      rewrite (dropN_app_exact' 8) by auto.
      rewrite !enc_slices_app, !app_assoc. apply takeN_app_exact'.
      rewrite !lenN_app. unfold pad. lia. }
    splits; auto.
    - rewrite <- E1. exact PYL.
    - unfold wf. rewrite <- lenN_bytes, Hb'. unfold set_mem; cbn [b_padb b_off b_rest b_curSz].
      rewrite Hmem2. unfold pre, post. rewrite <- !app_assoc. splits.
      + rewrite (takeN_app_exact' 8); auto.
      + rewrite !enc_slices_app, !lenN_app in *. unfold pad. lia.
      + rewrite (app_assoc (enc_slices L0)), (app_assoc (enc_slices L0 ++ enc_slices Y)), (app_assoc (b_padb b)).
        rewrite dropN_app_exact' by (rewrite !lenN_app; lia).
        rewrite !enc_slices_app, !lenN_app in *. unfold pad. lia.
    - unfold set_mem; cbn [b_padb]. rewrite Hmem2. unfold pre. rewrite <- !app_assoc.
      now apply takeN_app_exact'.
    - unfold set_mem; cbn [b_rest]. rewrite Hmem2. unfold pre, post.
      rewrite (app_assoc (enc_slices Y)), (app_assoc (b_padb b ++ enc_slices L0)).
      apply dropN_app_exact'. rewrite !lenN_app. lia.
    - intros Hswo Hsort. apply OY; auto. intros i Hi.
      specialize (S2 Hswo Hsort). apply Forall_nth_d; [exact S2|exact I].
  Qed.
End Final.

(* ------------------------------------------------------------------ the executable sorter meets the assumptions *)
Lemma ins_by_perm {A} (lt : A -> A -> bool) x l : Permutation (ins_by lt x l) (x :: l).
Proof.
  induction l as [|y l IH]; cbn [ins_by]; [reflexivity|]. destruct (lt x y); [reflexivity|].
  rewrite IH. apply perm_swap.
Qed.
Lemma insertion_sort_perm {A} (lt : A -> A -> bool) l : Permutation (insertion_sort lt l) l.
Proof.
  unfold insertion_sort. induction l as [|x l IH]; cbn [fold_right]; [reflexivity|].
  rewrite ins_by_perm. now constructor.
Qed.
Lemma ins_by_sorted {A} (lt : A -> A -> bool) : strict_weak_order lt ->
  forall x l, sorted_gen lt l -> sorted_gen lt (ins_by lt x l).
Proof.
  intros swo x l. induction l as [|y l IH]; intros S; cbn [ins_by]; [now split|].
  destruct (lt x y) eqn:E.
  - split; [|exact S]. now apply swo_asym.
  - apply lb_sorted.
    + eapply lb_perm; [symmetry; apply ins_by_perm|]. constructor; [exact E|]. apply (sorted_lb lt swo); exact S.
    + apply IH. eapply sorted_tail; eauto.
Qed.
Lemma insertion_sort_sorts : sorter_sorts (@insertion_sort (N * list N)).
Proof.
  intros lt l swo. unfold insertion_sort. induction l as [|x l IH]; cbn [fold_right]; [exact I|].
  now apply ins_by_sorted.
Qed.
