(* Proofs about the sorter model (Sort.v): for every boolean less the result is a permutation of the slices
   and everything outside [start,end) is untouched; with a strict weak order there is no adjacent inversion. *)
From Ristretto Require Import Base.Word Buffer.Buffer Buffer.BufferSpec Buffer.BufferProofs Buffer.Sort.
From Coq Require Import ZifyN ZifyNat ZifyBool Permutation.
Open Scope N_scope.

(* ------------------------------------------------------------------ the scratch buffer *)
Definition tmp_ok (t : buffer) : Prop := wf t /\ b_maxSz t = 0.

Lemma tmp_ok_new c : tmp_ok (new_buffer c).
Proof. split; [apply wf_new|reflexivity]. Qed.

Lemma tmp_write t l : tmp_ok t -> exists t', write t l = Some t' /\ tmp_ok t' /\ bytes t' = bytes t ++ l.
Proof.
  intros (W & M). destruct (write t l) as [t'|] eqn:E.
  - destruct (write_spec _ _ _ E W) as (W' & B & M' & _). exists t'. unfold tmp_ok. splits; auto; congruence.
  - apply write_none in E. unfold refused in E. rewrite M in E. cbn in E. discriminate.
Qed.

Lemma tmp_reset t : tmp_ok t -> tmp_ok (reset t) /\ bytes (reset t) = [].
Proof.
  intros (W & M). destruct (reset_spec t W) as (W' & B & M' & _). unfold tmp_ok. splits; auto; congruence.
Qed.

(* ------------------------------------------------------------------ encodings *)
Lemma lenN_nil {A} : lenN (@nil A) = 0.
Proof. reflexivity. Qed.

Lemma small_perm L L' : Permutation L L' -> small_slices L -> small_slices L'.
Proof. intros P H. unfold small_slices in *. rewrite Forall_forall in *. intros x Hx. apply H. eapply Permutation_in; [symmetry|]; eauto. Qed.

Lemma enc_len_perm L L' : Permutation L L' -> lenN (enc_slices L) = lenN (enc_slices L').
Proof.
  induction 1; auto.
  - rewrite !enc_slices_cons, !lenN_app. lia.
  - rewrite !enc_slices_cons, !lenN_app. lia.
  - congruence.
Qed.

Lemma be64_dec_enc s tl rest : lenN s < two63 -> be64_dec (enc_slices (s :: tl) ++ rest) = lenN s.
Proof.
  intros Hs. rewrite enc_slices_cons. unfold enc1. rewrite <- !app_assoc.
  apply be64_dec_be64. unfold two63, two64 in *; lia.
Qed.
Lemma drop8_enc s tl rest : dropN 8 (enc_slices (s :: tl) ++ rest) = s ++ enc_slices tl ++ rest.
Proof.
  rewrite enc_slices_cons. unfold enc1. rewrite <- !app_assoc.
  apply dropN_app_exact'. now rewrite lenN_be64.
Qed.
Lemma drop8_enc1 s : dropN 8 (enc1 s) = s.
Proof. unfold enc1. apply dropN_app_exact'. now rewrite lenN_be64. Qed.

Lemma raw_len_enc s tl buflen : lenN s < two63 -> buflen = lenN (enc_slices (s :: tl)) ->
  raw_len (enc_slices (s :: tl)) buflen = Some (8 + lenN s).
Proof.
  intros Hs Hb. unfold raw_len.
  rewrite <- (app_nil_r (enc_slices (s :: tl))), be64_dec_enc by auto.
  rewrite enc_slices_cons, lenN_app, lenN_enc1 in Hb.
  replace (buflen <? 8) with false by lia.
  replace (two63 <=? lenN s) with false by lia.
  now replace (buflen <? 8 + lenN s) with false by lia.
Qed.

(* ------------------------------------------------------------------ lmerge *)
Section Merge.
  Variable less : list N -> list N -> bool.

  Lemma lmerge_nil_l B : lmerge less [] B = B.
  Proof. now destruct B. Qed.
  Lemma lmerge_nil_r A : lmerge less A [] = A.
  Proof. now destruct A. Qed.
  Lemma lmerge_cons a A b B :
    lmerge less (a :: A) (b :: B) =
    if less a b then a :: lmerge less A (b :: B) else b :: lmerge less (a :: A) B.
  Proof. reflexivity. Qed.

  Lemma lmerge_perm A : forall B, Permutation (lmerge less A B) (A ++ B).
  Proof.
    induction A as [|a A IHA]; intros B; [now rewrite lmerge_nil_l|].
    induction B as [|b B IHB]; [now rewrite lmerge_nil_r, app_nil_r|].
    rewrite lmerge_cons. destruct (less a b).
    - cbn. constructor. apply IHA.
    - rewrite IHB. cbn. rewrite (Permutation_middle (a :: A) B b). reflexivity.
  Qed.

  Lemma merge_loop_spec : forall fuel A B llen rlen start end_,
    (length A + length B < fuel)%nat -> small_slices A -> small_slices B ->
    llen = lenN (enc_slices A) -> rlen = lenN (enc_slices B) -> end_ = start + llen + rlen ->
    merge_loop less fuel (enc_slices A) (enc_slices B) llen rlen start end_ =
      Some (enc_slices (lmerge less A B)).
  Proof.
    induction fuel as [|f IH]; intros A B llen rlen start end_ Hf HA HB Hl Hr He; [lia|].
    cbn [merge_loop].
    destruct A as [|a A'].
    { change (enc_slices []) with (@nil N) in *. rewrite lenN_nil in Hl. subst llen.
      rewrite lmerge_nil_l. destruct (start <? end_) eqn:E.
      - cbn [N.eqb]. replace (end_ - start <? rlen) with false by lia. reflexivity.
      - assert (H0 : lenN (enc_slices B) = 0) by lia. apply lenN_nil_iff in H0. now rewrite H0. }
    destruct B as [|b B'].
    { change (enc_slices []) with (@nil N) in *. rewrite lenN_nil in Hr. subst rlen.
      rewrite lmerge_nil_r. rewrite enc_slices_cons, lenN_app, lenN_enc1 in Hl.
      replace (start <? end_) with true by lia.
      replace (llen =? 0) with false by lia. cbn [N.eqb].
      replace (end_ - start <? llen) with false by lia. reflexivity. }
    inversion HA; subst. inversion HB; subst.
    pose proof (lenN_enc1 a) as La. pose proof (lenN_enc1 b) as Lb.
    assert (Hl' : lenN (enc_slices (a :: A')) = 8 + lenN a + lenN (enc_slices A'))
      by (rewrite enc_slices_cons, lenN_app, La; reflexivity).
    assert (Hr' : lenN (enc_slices (b :: B')) = 8 + lenN b + lenN (enc_slices B'))
      by (rewrite enc_slices_cons, lenN_app, Lb; reflexivity).
    replace (start <? start + lenN (enc_slices (a :: A')) + lenN (enc_slices (b :: B'))) with true by lia.
    replace (lenN (enc_slices (a :: A')) =? 0) with false by lia.
    replace (lenN (enc_slices (b :: B')) =? 0) with false by lia.
    rewrite (raw_len_enc a A') by auto. rewrite (raw_len_enc b B') by auto.
    replace (8 + lenN a - 8) with (lenN a) by lia. replace (8 + lenN b - 8) with (lenN b) by lia.
    rewrite <- (app_nil_r (enc_slices (a :: A'))) at 1. rewrite drop8_enc, takeN_app_exact.
    rewrite <- (app_nil_r (enc_slices (b :: B'))) at 1. rewrite drop8_enc, takeN_app_exact.
    rewrite lmerge_cons.
    assert (Ta : takeN (8 + lenN a) (enc_slices (a :: A')) = enc1 a).
    { rewrite enc_slices_cons. apply takeN_app_exact'. lia. }
    assert (Da : dropN (8 + lenN a) (enc_slices (a :: A')) = enc_slices A').
    { rewrite enc_slices_cons. apply dropN_app_exact'. lia. }
    assert (Tb : takeN (8 + lenN b) (enc_slices (b :: B')) = enc1 b).
    { rewrite enc_slices_cons. apply takeN_app_exact'. lia. }
    assert (Db : dropN (8 + lenN b) (enc_slices (b :: B')) = enc_slices B').
    { rewrite enc_slices_cons. apply dropN_app_exact'. lia. }
    destruct (less a b).
    - rewrite Da, Ta. rewrite (IH A' (b :: B')); auto; try lia.
      + cbn [length] in *; lia.
    - rewrite Db, Tb. rewrite (IH (a :: A') B'); auto; try lia.
      + cbn [length] in *; lia.
  Qed.
End Merge.

(* ------------------------------------------------------------------ regions of the array *)
Lemma region_app pre X post a b : a = lenN pre -> b = a + lenN X -> region (pre ++ X ++ post) a b = X.
Proof.
  intros -> ->. unfold region. rewrite dropN_app_exact. apply takeN_app_exact'. lia.
Qed.
Lemma splice_app pre X post lo src : lo = lenN pre -> lenN src = lenN X ->
  splice (pre ++ X ++ post) lo src = pre ++ src ++ post.
Proof.
  intros -> Hs. unfold splice. rewrite takeN_app_exact. f_equal. f_equal.
  rewrite <- dropN_dropN, dropN_app_exact. apply dropN_app_exact'. auto.
Qed.
Lemma mem_split3 (mem : list N) a b : a <= b -> b <= lenN mem ->
  mem = takeN a mem ++ region mem a b ++ dropN b mem.
Proof.
  intros H1 H2. unfold region.
  rewrite <- (takeN_dropN a mem) at 1. f_equal.
  rewrite <- (takeN_dropN (b - a) (dropN a mem)) at 1. f_equal.
  rewrite dropN_dropN. f_equal. lia.
Qed.
Lemma lenN_region (mem : list N) a b : a <= b -> b <= lenN mem -> lenN (region mem a b) = b - a.
Proof. intros. unfold region. apply lenN_takeN. rewrite lenN_dropN. lia. Qed.
Lemma takeN_takeN_le {A} a b (l : list A) : a <= b -> takeN a (takeN b l) = takeN a l.
Proof.
  intros H. unfold takeN. rewrite firstn_firstn. f_equal. lia.
Qed.
Lemma takeN_eq_le {A} a b (l1 l2 : list A) : a <= b -> takeN b l1 = takeN b l2 -> takeN a l1 = takeN a l2.
Proof. intros H E. rewrite <- (takeN_takeN_le a b l1), <- (takeN_takeN_le a b l2), E; auto. Qed.
Lemma dropN_eq_ge {A} a b (l1 l2 : list A) : a <= b -> dropN a l1 = dropN a l2 -> dropN b l1 = dropN b l2.
Proof.
  intros H E. replace b with (a + (b - a)) by lia. now rewrite <- !dropN_dropN, E.
Qed.
Lemma region_drop_eq (m1 m2 : list N) c a b : c <= a -> dropN c m1 = dropN c m2 -> region m1 a b = region m2 a b.
Proof. intros H E. unfold region. now rewrite (dropN_eq_ge c a m1 m2 H E). Qed.
Lemma region_take_eq (m1 m2 : list N) c a b : a <= b -> b <= c -> takeN c m1 = takeN c m2 ->
  region m1 a b = region m2 a b.
Proof.
  intros H1 H2 E. unfold region.
  assert (R : forall m : list N, takeN (b - a) (dropN a m) = dropN a (takeN b m)).
  { intros m. unfold takeN, dropN. rewrite skipn_firstn_comm. f_equal. lia. }
  rewrite !R. f_equal. eapply takeN_eq_le; eauto.
Qed.

Definition seg (mem : list N) (a b : N) (Y : list (list N)) : Prop :=
  a <= b /\ b <= lenN mem /\ region mem a b = enc_slices Y /\ small_slices Y.

Section MergeMem.
  Variable less : list N -> list N -> bool.

  Lemma is_nil_enc L : is_nil (enc_slices L) = is_nil L.
  Proof.
    destruct L as [|s L]; [reflexivity|]. cbn [is_nil]. destruct (enc_slices (s :: L)) eqn:E; [|reflexivity].
    apply enc_slices_nil_iff in E. discriminate.
  Qed.

  Lemma merge_app pre A B post tmp start mid end_ :
    start = lenN pre -> mid = start + lenN (enc_slices A) -> end_ = mid + lenN (enc_slices B) ->
    small_slices A -> small_slices B -> tmp_ok tmp ->
    exists t', merge less (pre ++ enc_slices A ++ enc_slices B ++ post) tmp start mid end_ =
                 Some (pre ++ enc_slices (lmerge less A B) ++ post, t') /\ tmp_ok t'.
  Proof.
    intros Hs Hm He HA HB Ht. unfold merge.
    assert (RL : region (pre ++ enc_slices A ++ enc_slices B ++ post) start mid = enc_slices A)
      by (apply region_app; auto).
    assert (RR : region (pre ++ enc_slices A ++ enc_slices B ++ post) mid end_ = enc_slices B).
    { rewrite (app_assoc pre). apply region_app; auto. rewrite lenN_app. lia. }
    rewrite RL, RR, !is_nil_enc.
    destruct A as [|a A'].
    { exists tmp. cbn [is_nil orb]. rewrite lmerge_nil_l. auto. }
    destruct B as [|b B'].
    { exists tmp. cbn [is_nil orb]. rewrite lmerge_nil_r. change (enc_slices []) with (@nil N). auto. }
    cbn [is_nil orb].
    destruct (tmp_reset tmp Ht) as (Hr & Br).
    destruct (tmp_write (reset tmp) (enc_slices (a :: A')) Hr) as (t & Wt & Ht' & Bt).
    rewrite Wt, Bt, Br. cbn [app].
    rewrite (merge_loop_spec less _ (a :: A') (b :: B') _ _ start end_); auto.
    - assert (Hlen : lenN (enc_slices (lmerge less (a :: A') (b :: B'))) =
                     lenN (enc_slices (a :: A')) + lenN (enc_slices (b :: B'))).
      { rewrite (enc_len_perm _ _ (lmerge_perm less (a :: A') (b :: B'))), enc_slices_app, lenN_app. reflexivity. }
      replace (lenN (enc_slices (lmerge less (a :: A') (b :: B'))) =? end_ - start) with true by lia.
      exists t. split; auto. f_equal. f_equal.
      rewrite (app_assoc (enc_slices (a :: A'))).
      rewrite (splice_app pre (enc_slices (a :: A') ++ enc_slices (b :: B')) post); auto.
      rewrite lenN_app. lia.
    - pose proof (enc_slices_length (a :: A')). pose proof (enc_slices_length (b :: B')). lia.
    - lia.
  Qed.

  Lemma merge_seg mem tmp s m e A B :
    seg mem s m A -> seg mem m e B -> tmp_ok tmp ->
    exists mem' t', merge less mem tmp s m e = Some (mem', t') /\ tmp_ok t' /\
      lenN mem' = lenN mem /\ takeN s mem' = takeN s mem /\ dropN e mem' = dropN e mem /\
      seg mem' s e (lmerge less A B).
  Proof.
    intros (A1 & A2 & A3 & A4) (B1 & B2 & B3 & B4) Ht.
    assert (Hsplit : mem = takeN s mem ++ enc_slices A ++ enc_slices B ++ dropN e mem).
    { rewrite (mem_split3 mem s m A1 A2) at 1. rewrite A3. f_equal. f_equal.
      rewrite (mem_split3 (dropN m mem) 0 (e - m)) at 1 by (rewrite ?lenN_dropN; lia).
      rewrite takeN_0. cbn [app]. unfold region at 1. rewrite dropN_0, N.sub_0_r.
      unfold region in B3. rewrite B3. f_equal. rewrite dropN_dropN. f_equal. lia. }
    assert (Ls : lenN (takeN s mem) = s) by (apply lenN_takeN; lia).
    assert (LA : lenN (enc_slices A) = m - s) by (rewrite <- A3; apply lenN_region; lia).
    assert (LB : lenN (enc_slices B) = e - m) by (rewrite <- B3; apply lenN_region; lia).
    destruct (merge_app (takeN s mem) A B (dropN e mem) tmp s m e) as (t' & Hm & Ht'); auto; try lia.
    rewrite <- Hsplit in Hm.
    set (Y := lmerge less A B) in *.
    assert (LY : lenN (enc_slices Y) = e - s).
    { unfold Y. rewrite (enc_len_perm _ _ (lmerge_perm less A B)), enc_slices_app, lenN_app. lia. }
    exists (takeN s mem ++ enc_slices Y ++ dropN e mem), t'.
    assert (Ld : lenN (dropN e mem) = lenN mem - e) by apply lenN_dropN.
    unfold seg. splits; auto.
    - rewrite !lenN_app. lia.
    - apply takeN_app_exact'. lia.
    - rewrite app_assoc. apply dropN_app_exact'. rewrite lenN_app. lia.
    - lia.
    - rewrite !lenN_app. lia.
    - apply region_app; lia.
    - unfold Y. eapply small_perm; [symmetry; apply lmerge_perm|]. apply Forall_app; auto.
  Qed.
End MergeMem.

(* ------------------------------------------------------------------ order lemmas *)
Section Order.
  Context {A : Type} (lt : A -> A -> bool).
  Hypothesis swo : strict_weak_order lt.

  Definition lb (x : A) (l : list A) : Prop := Forall (fun y => lt y x = false) l.

  Lemma swo_asym a b : lt a b = true -> lt b a = false.
  Proof.
    destruct swo as (Irr & Tr & _). intros H. destruct (lt b a) eqn:E; [|reflexivity].
    pose proof (Tr _ _ _ H E). rewrite Irr in H0. discriminate.
  Qed.

  Lemma sorted_lb a l : sorted_gen lt (a :: l) -> lb a l.
  Proof.
    destruct swo as (_ & _ & NT).
    revert a; induction l as [|b l IH]; intros a (H1 & H2); [constructor|].
    constructor; [exact H1|]. specialize (IH b H2).
    unfold lb in *. rewrite Forall_forall in *. intros y Hy. eapply NT; [apply IH; exact Hy|exact H1].
  Qed.

  Lemma lb_sorted a l : lb a l -> sorted_gen lt l -> sorted_gen lt (a :: l).
  Proof. intros H S. split; [|exact S]. destruct l; [exact I|]. now inversion H. Qed.

  Lemma sorted_tail a l : sorted_gen lt (a :: l) -> sorted_gen lt l.
  Proof. now intros (_ & H). Qed.

  Lemma lb_perm x l l' : Permutation l l' -> lb x l -> lb x l'.
  Proof. intros P H. unfold lb in *. rewrite Forall_forall in *. intros y Hy. apply H. eapply Permutation_in; [symmetry|]; eauto. Qed.

  Lemma lb_trans x y l : lt x y = false -> lb x l -> lb y l.
  Proof.
    destruct swo as (_ & _ & NT). intros H L. unfold lb in *. rewrite Forall_forall in *.
    intros z Hz. eapply NT; [apply L; exact Hz|exact H].
  Qed.
End Order.

Section MergeSorted.
  Variable less : list N -> list N -> bool.
  Hypothesis swo : strict_weak_order less.

  Lemma lmerge_sorted A : forall B, sorted_by less A -> sorted_by less B -> sorted_by less (lmerge less A B).
  Proof.
    unfold sorted_by.
    induction A as [|a A IHA]; intros B SA SB; [now rewrite lmerge_nil_l|].
    induction B as [|b B IHB]; [now rewrite lmerge_nil_r|].
    rewrite lmerge_cons.
    pose proof (sorted_lb less swo _ _ SA) as LA. pose proof (sorted_lb less swo _ _ SB) as LB.
    destruct (less a b) eqn:E.
    - apply lb_sorted.
      + eapply lb_perm; [symmetry; apply lmerge_perm|]. apply Forall_app. split; [exact LA|].
        pose proof (swo_asym less swo _ _ E) as Hba.
        constructor; [exact Hba|]. eapply lb_trans; eauto.
      + apply IHA; [eapply sorted_tail; eauto|exact SB].
    - apply lb_sorted.
      + eapply lb_perm; [symmetry; apply lmerge_perm|]. apply Forall_app. split; [|exact LB].
        constructor; [exact E|]. eapply lb_trans; eauto.
      + apply IHB. eapply sorted_tail; eauto.
  Qed.
End MergeSorted.

(* ------------------------------------------------------------------ sort(lo, hi) *)
Ltac Zify.zify_post_hook ::= Z.div_mod_to_equations.

Section SortRec.
  Variable less : list N -> list N -> bool.
  Variable offsets : list N.
  Variable Cs : nat -> list (list N).
  Let o (i : nat) : N := nth i offsets 0.
  Definition flat (Cs : nat -> list (list N)) (lo hi : nat) : list (list N) :=
    concat (map Cs (seq lo (hi - lo))).

  Lemma flat_split lo mid hi : (lo <= mid <= hi)%nat -> flat Cs lo hi = flat Cs lo mid ++ flat Cs mid hi.
  Proof.
    intros H. unfold flat. replace (hi - lo)%nat with ((mid - lo) + (hi - mid))%nat by lia.
    rewrite seq_app, map_app, concat_app. repeat f_equal. lia.
  Qed.
  Lemma flat_one lo : flat Cs lo (S lo) = Cs lo.
  Proof. unfold flat. replace (S lo - lo)%nat with 1%nat by lia. cbn. apply app_nil_r. Qed.

  Lemma o_mono mem lo hi : (forall i, (lo <= i < hi)%nat -> seg mem (o i) (o (S i)) (Cs i)) ->
    forall i j, (lo <= i)%nat -> (i <= j)%nat -> (j <= hi)%nat -> o i <= o j.
  Proof.
    intros H i j Hi Hij. induction Hij; intros Hj; [lia|].
    specialize (IHHij ltac:(lia)). destruct (H m ltac:(lia)) as (Hm & _). lia.
  Qed.

  Lemma sort_rec_spec : forall fuel lo hi mem tmp,
    (lo < hi)%nat -> (hi - lo <= fuel)%nat ->
    (forall i, (lo <= i < hi)%nat -> seg mem (o i) (o (S i)) (Cs i)) -> tmp_ok tmp ->
    exists mem' t', sort_rec less fuel offsets mem tmp lo hi = Some (mem', t') /\ tmp_ok t' /\
      lenN mem' = lenN mem /\ takeN (o lo) mem' = takeN (o lo) mem /\
      dropN (o hi) mem' = dropN (o hi) mem /\
      exists Y, seg mem' (o lo) (o hi) Y /\ Permutation Y (flat Cs lo hi) /\
                (strict_weak_order less -> (forall i, (lo <= i < hi)%nat -> sorted_by less (Cs i)) ->
                 sorted_by less Y).
  Proof.
    induction fuel as [|f IH]; intros lo hi mem tmp Hlh Hf Hseg Ht.
    { lia. }
    cbn [sort_rec].
    destruct (Nat.eqb lo (lo + (hi - lo) / 2)) eqn:Emid.
    - apply Nat.eqb_eq in Emid. assert (hi = S lo) by lia. subst hi.
      exists mem, tmp. splits; auto. exists (Cs lo). rewrite flat_one.
      splits; auto; try (apply Hseg; lia); try (intros _ Hs; apply Hs; lia).
    - apply Nat.eqb_neq in Emid.
      set (mid := (lo + (hi - lo) / 2)%nat) in *.
      assert (Hmid : (lo < mid < hi)%nat) by (unfold mid in *; lia).
      pose proof (o_mono mem lo hi Hseg) as Mono.
      destruct (IH lo mid mem tmp) as (mem1 & t1 & E1 & Ht1 & L1 & T1 & D1 & Y1 & S1 & P1 & O1); auto; try lia.
      { intros i Hi; apply Hseg; lia. }
      rewrite E1.
      destruct (IH mid hi mem1 t1) as (mem2 & t2 & E2 & Ht2 & L2 & T2 & D2 & Y2 & S2 & P2 & O2); auto; try lia.
      { intros i Hi. destruct (Hseg i ltac:(lia)) as (G1 & G2 & G3 & G4).
        unfold seg; splits; auto; try lia.
        rewrite <- G3. apply (region_drop_eq mem1 mem (o mid)); auto. apply Mono; lia. }
      rewrite E2.
      assert (S1' : seg mem2 (o lo) (o mid) Y1).
      { destruct S1 as (G1 & G2 & G3 & G4). unfold seg; splits; auto; try lia.
        rewrite <- G3. apply (region_take_eq mem2 mem1 (o mid)); auto; lia. }
      destruct (merge_seg less mem2 t2 (o lo) (o mid) (o hi) Y1 Y2 S1' S2 Ht2)
        as (mem' & t' & Em & Ht' & L' & T' & D' & S').
      change (merge less mem2 t2 (nth lo offsets 0) (nth mid offsets 0) (nth hi offsets 0))
        with (merge less mem2 t2 (o lo) (o mid) (o hi)). rewrite Em.
      exists mem', t'. splits; auto; try lia.
      + rewrite T'. rewrite (takeN_eq_le (o lo) (o mid) mem2 mem1); auto. apply Mono; lia.
      + rewrite D', D2. apply (dropN_eq_ge (o mid) (o hi)); auto. apply Mono; lia.
      + exists (lmerge less Y1 Y2). splits; auto.
        * rewrite (lmerge_perm less Y1 Y2), P1, P2. rewrite (flat_split lo mid hi); auto. lia.
        * intros Hswo Hs. apply lmerge_sorted; auto.
          -- apply O1; auto. intros i Hi; apply Hs; lia.
          -- apply O2; auto. intros i Hi; apply Hs; lia.
  Qed.
End SortRec.
