(* Proofs about the z.Buffer model (Buffer.v): Bytes() = what was written, WithMaxSize, slices round trip. *)
From Ristretto Require Import Base.Word Buffer.Buffer Buffer.BufferSpec.
From Coq Require Import ZifyN ZifyNat ZifyBool Permutation.
Open Scope N_scope.

(* ------------------------------------------------------------------ list / length helpers *)
Lemma revT_rev {A} (l : list A) : revT l = rev l.
Proof. unfold revT; now rewrite rev_append_rev, app_nil_r. Qed.

Ltac len_norm :=
  unfold lenN, takeN, dropN, zeros, revT in *;
  repeat (rewrite ?app_length, ?firstn_length, ?skipn_length, ?repeat_length, ?rev_length,
            ?rev_append_rev, ?map_length in * ); cbn [length] in *.
Ltac len_solve := len_norm; lia.
Ltac splits := repeat match goal with |- _ /\ _ => split end.

Lemma lenN_app {A} (a b : list A) : lenN (a ++ b) = lenN a + lenN b.
Proof. len_solve. Qed.
Lemma lenN_zeros n : lenN (zeros n) = n.
Proof. len_solve. Qed.
Lemma lenN_takeN {A} n (l : list A) : n <= lenN l -> lenN (takeN n l) = n.
Proof. intros; len_solve. Qed.
Lemma lenN_dropN {A} n (l : list A) : lenN (dropN n l) = lenN l - n.
Proof. len_solve. Qed.
Lemma takeN_dropN {A} n (l : list A) : takeN n l ++ dropN n l = l.
Proof. apply firstn_skipn. Qed.
Lemma takeN_app_exact {A} (a b : list A) : takeN (lenN a) (a ++ b) = a.
Proof.
  unfold takeN, lenN; rewrite Nat2N.id, firstn_app, Nat.sub_diag, firstn_all; cbn; now rewrite app_nil_r.
Qed.
Lemma dropN_app_exact {A} (a b : list A) : dropN (lenN a) (a ++ b) = b.
Proof.
  unfold dropN, lenN; rewrite Nat2N.id, skipn_app, Nat.sub_diag, skipn_all; now cbn.
Qed.
Lemma takeN_app_exact' {A} n (a b : list A) : n = lenN a -> takeN n (a ++ b) = a.
Proof. intros ->; apply takeN_app_exact. Qed.
Lemma dropN_app_exact' {A} n (a b : list A) : n = lenN a -> dropN n (a ++ b) = b.
Proof. intros ->; apply dropN_app_exact. Qed.
Lemma takeN_all {A} n (l : list A) : lenN l <= n -> takeN n l = l.
Proof. intros; apply firstn_all2; unfold lenN in *; lia. Qed.
Lemma dropN_all {A} n (l : list A) : lenN l <= n -> dropN n l = [].
Proof. intros; apply skipn_all2; unfold lenN in *; lia. Qed.
Lemma dropN_0 {A} (l : list A) : dropN 0 l = l.
Proof. reflexivity. Qed.
Lemma takeN_0 {A} (l : list A) : takeN 0 l = [].
Proof. reflexivity. Qed.
Lemma skipn_skipn' {A} a b (l : list A) : skipn a (skipn b l) = skipn (b + a) l.
Proof. revert l; induction b; intros [|x l]; cbn; auto. now rewrite skipn_nil. Qed.
Lemma dropN_dropN {A} a b (l : list A) : dropN a (dropN b l) = dropN (b + a) l.
Proof. unfold dropN; rewrite skipn_skipn'; f_equal; lia. Qed.
Lemma dropN_app_ge {A} n (a b : list A) : lenN a <= n -> dropN n (a ++ b) = dropN (n - lenN a) b.
Proof.
  intros H; unfold dropN, lenN in *; rewrite skipn_app, skipn_all2 by lia; cbn; f_equal; lia.
Qed.
Lemma takeN_app_le {A} n (a b : list A) : n <= lenN a -> takeN n (a ++ b) = takeN n a.
Proof.
  intros H; unfold takeN, lenN in *; rewrite firstn_app.
  replace (N.to_nat n - length a)%nat with 0%nat by lia; cbn; now rewrite app_nil_r.
Qed.
Lemma takeN_app_ge {A} n (a b : list A) : lenN a <= n -> takeN n (a ++ b) = a ++ takeN (n - lenN a) b.
Proof.
  intros H; unfold takeN, lenN in *; rewrite firstn_app, firstn_all2 by lia; f_equal; f_equal; lia.
Qed.
Lemma lenN_nil_iff {A} (l : list A) : lenN l = 0 <-> l = [].
Proof. destruct l; cbn; split; intros; try easy; unfold lenN in *; cbn in *; lia. Qed.

Lemma takeN_zeros n k : n <= k -> takeN n (zeros k) = zeros n.
Proof.
  intros H; unfold takeN, zeros.
  replace (N.to_nat k) with (N.to_nat n + (N.to_nat k - N.to_nat n))%nat by lia.
  now rewrite repeat_app, firstn_app, repeat_length, Nat.sub_diag, firstn_all2, app_nil_r
    by (rewrite repeat_length; lia).
Qed.

(* ------------------------------------------------------------------ overlay *)
Lemma overlay_length src old : length (overlay src old) = length old.
Proof. unfold overlay; rewrite app_length, firstn_length, skipn_length; lia. Qed.
Lemma lenN_overlay src old : lenN (overlay src old) = lenN old.
Proof. unfold lenN; now rewrite overlay_length. Qed.
Lemma overlay_full src old : length src = length old -> overlay src old = src.
Proof.
  intros H; unfold overlay; rewrite H, firstn_all2, skipn_all2 by lia. apply app_nil_r.
Qed.
Lemma overlay_nil old : overlay [] old = old.
Proof. unfold overlay; now rewrite firstn_nil. Qed.

(* ------------------------------------------------------------------ well-formed states *)
Definition wf (b : buffer) : Prop :=
  lenN (b_padb b) = pad /\ b_off b = pad + lenN (b_urev b) /\
  pad + lenN (b_urev b) + lenN (b_rest b) = b_curSz b.

(* allocated-but-unused memory is all zero (true until the first Reset) *)
Definition clean (b : buffer) : Prop := Forall (fun x => x = 0) (b_rest b).

Lemma lenN_bytes b : lenN (bytes b) = lenN (b_urev b).
Proof. unfold bytes; len_solve. Qed.

Lemma wf_mem_len b : wf b -> lenN (b_mem b) = b_curSz b.
Proof. intros (H1 & H2 & H3); unfold b_mem; rewrite !lenN_app, lenN_bytes; lia. Qed.

Lemma wf_new m c : wf (new_with m c).
Proof.
  unfold wf, new_with; cbn [b_padb b_urev b_rest b_off b_curSz].
  rewrite !lenN_zeros; unfold lenN, pad, default_capacity; cbn [length].
  destruct (c <? 64) eqn:E; lia.
Qed.
Lemma clean_new m c : clean (new_with m c).
Proof. unfold clean, new_with; cbn [b_rest]; unfold zeros; apply Forall_forall; intros x Hx; now apply repeat_spec in Hx. Qed.
Lemma wf_with_max_size b s : wf b -> wf (with_max_size b s).
Proof. unfold wf, with_max_size; now cbn. Qed.
Lemma wf_with_auto b t b' : with_auto_mmap b t = Some b' -> wf b -> wf b'.
Proof. unfold with_auto_mmap; destruct (b_mode b); intros [= <-]; unfold wf; now cbn. Qed.

Lemma Forall_zeros n : Forall (fun x => x = 0) (zeros n).
Proof. unfold zeros; apply Forall_forall; intros x Hx; now apply repeat_spec in Hx. Qed.
Lemma Forall_firstn {A} (P : A -> Prop) n l : Forall P l -> Forall P (firstn n l).
Proof. intros H; revert n; induction H; intros [|n]; cbn; auto. Qed.
Lemma Forall_skipn {A} (P : A -> Prop) n l : Forall P l -> Forall P (skipn n l).
Proof. intros H; revert n; induction H; intros [|n]; cbn; auto. Qed.
Lemma all_zero_eq l : Forall (fun x => x = 0) l -> l = zeros (lenN l).
Proof.
  unfold zeros, lenN; rewrite Nat2N.id; induction 1 as [|x l Hx _ IH]; cbn; [easy|now rewrite Hx, <- IH].
Qed.

(* ------------------------------------------------------------------ Grow *)
Definition refused (b : buffer) (n : N) : bool := (0 <? b_maxSz b) && (b_maxSz b <? b_off b + n).

Lemma grow_by_ge c n : n <= grow_by c n.
Proof. unfold grow_by; repeat match goal with |- context [if ?c then _ else _] => destruct c eqn:? end; lia. Qed.

Lemma grow_none b n : grow b n = None <-> refused b n = true.
Proof.
  unfold grow, refused. destruct ((0 <? b_maxSz b) && (b_maxSz b <? b_off b + n)); [easy|].
  destruct (b_off b + n <? b_curSz b); [easy|]. destruct (b_mode b); easy.
Qed.

Lemma grow_spec b n g : grow b n = Some g -> wf b ->
  wf g /\ b_urev g = b_urev b /\ b_padb g = b_padb b /\ b_off g = b_off b /\
  b_maxSz g = b_maxSz b /\ b_auto g = b_auto b /\
  b_off b + n <= b_curSz g /\ b_curSz b <= b_curSz g /\
  (clean b -> clean g) /\
  (b_mode b = Mmap -> b_mode g = Mmap) /\
  (* Mmap growth keeps the unused bytes and appends zeros; Calloc growth zeroes them *)
  (exists k, b_rest g = b_rest b ++ zeros k \/ b_rest g = zeros k).
Proof.
  unfold grow. destruct ((0 <? b_maxSz b) && (b_maxSz b <? b_off b + n)); [easy|].
  intros H (W1 & W2 & W3).
  destruct (b_off b + n <? b_curSz b) eqn:E.
  - injection H as <-. splits; auto; try lia; [now unfold wf|].
    exists 0; left; unfold zeros; cbn; now rewrite app_nil_r.
  - pose proof (grow_by_ge (b_curSz b) n) as Hg.
    destruct (b_mode b) eqn:Em; injection H as <-; unfold wf, clean;
      cbn [b_padb b_urev b_rest b_off b_curSz b_maxSz b_mode b_auto];
      repeat split; auto; try lia;
      try (rewrite ?lenN_app, ?lenN_zeros; lia);
      try (intros _; apply Forall_zeros);
      try (intros Hc; apply Forall_app; split; [exact Hc|apply Forall_zeros]);
      try easy;
      try (eexists; right; reflexivity); try (eexists; left; reflexivity).
Qed.

(* ------------------------------------------------------------------ the mutators *)
Lemma advance_spec g n : wf g -> b_off g + n <= b_curSz g ->
  wf (advance g n) /\ bytes (advance g n) = bytes g ++ takeN n (b_rest g) /\
  lenN (takeN n (b_rest g)) = n /\ b_maxSz (advance g n) = b_maxSz g /\
  b_off (advance g n) = b_off g + n /\ (clean g -> clean (advance g n)) /\
  b_curSz (advance g n) = b_curSz g /\ b_mode (advance g n) = b_mode g.
Proof.
  intros (W1 & W2 & W3) Hr.
  assert (Hn : n <= lenN (b_rest g)) by lia.
  unfold advance, wf, bytes, clean; cbn [b_padb b_urev b_rest b_off b_curSz b_maxSz b_mode].
  splits; auto.
  - rewrite W2; len_solve.
  - len_solve.
  - unfold revT; rewrite !rev_append_rev, !app_nil_r, rev_app_distr, rev_involutive; reflexivity.
  - now apply lenN_takeN.
  - intros H; now apply Forall_skipn.
Qed.

Lemma allocate_spec b n off stale b' : allocate b n = Some (off, stale, b') -> wf b ->
  wf b' /\ bytes b' = bytes b ++ stale /\ lenN stale = n /\ off = b_off b /\
  b_maxSz b' = b_maxSz b /\ b_off b' = b_off b + n /\ refused b n = false /\
  (clean b -> clean b' /\ stale = zeros n).
Proof.
  unfold allocate. destruct (grow b n) as [g|] eqn:G; [|easy]. intros [= <- <- <-] W.
  assert (Hnr : refused b n = false).
  { destruct (refused b n) eqn:R; [|easy]. apply grow_none in R; congruence. }
  destruct (grow_spec _ _ _ G W) as (Wg & U & P & O & M & A & Room & _ & C & _).
  destruct (advance_spec g n Wg ltac:(lia)) as (Wa & By & Ln & Ma & Oa & Ca & _).
  splits; auto; try congruence.
  - rewrite By; unfold bytes; now rewrite U.
  - intros H; split; [now apply Ca, C|].
    specialize (C H). rewrite (all_zero_eq _ C). apply takeN_zeros.
    destruct Wg as (_ & W2 & W3); lia.
Qed.

Lemma fill_tail_spec b n src u s : wf b -> bytes b = u ++ s -> lenN s = n ->
  wf (fill_tail b n src) /\ bytes (fill_tail b n src) = u ++ overlay src s /\
  b_maxSz (fill_tail b n src) = b_maxSz b /\ b_off (fill_tail b n src) = b_off b /\
  b_rest (fill_tail b n src) = b_rest b.
Proof.
  intros (W1 & W2 & W3) Hb Hs.
  assert (Hu : b_urev b = rev s ++ rev u).
  { unfold bytes in Hb; rewrite revT_rev in Hb. rewrite <- rev_app_distr, <- Hb. now rewrite rev_involutive. }
  assert (Ht : takeN n (b_urev b) = rev s).
  { rewrite Hu; apply takeN_app_exact'; rewrite <- Hs; len_solve. }
  assert (Hd : dropN n (b_urev b) = rev u).
  { rewrite Hu; apply dropN_app_exact'; rewrite <- Hs; len_solve. }
  unfold fill_tail, wf, bytes; cbn [b_padb b_urev b_rest b_off b_curSz b_maxSz].
  rewrite Ht, Hd, revT_rev, rev_involutive.
  splits; auto.
  - rewrite W2, Hu. pose proof (overlay_length src s). len_solve.
  - rewrite <- W3, Hu. pose proof (overlay_length src s). len_solve.
  - rewrite revT_rev, rev_append_rev, rev_app_distr, !rev_involutive. reflexivity.
Qed.

Lemma write_spec b p b' : write b p = Some b' -> wf b ->
  wf b' /\ bytes b' = bytes b ++ p /\ b_maxSz b' = b_maxSz b /\ b_off b' = b_off b + lenN p /\
  refused b (lenN p) = false /\ (clean b -> clean b').
Proof.
  unfold write. destruct (grow b (lenN p)) as [g|] eqn:G; [|easy]. intros [= <-] W.
  assert (Hnr : refused b (lenN p) = false).
  { destruct (refused b (lenN p)) eqn:R; [|easy]. apply grow_none in R; congruence. }
  destruct (grow_spec _ _ _ G W) as (Wg & U & P & O & M & A & Room & _ & C & _).
  destruct Wg as (W1 & W2 & W3).
  unfold wf, bytes, clean; cbn [b_padb b_urev b_rest b_off b_curSz b_maxSz].
  splits; auto; try congruence.
  - rewrite W2; len_solve.
  - len_solve.
  - rewrite !revT_rev, rev_append_rev, rev_app_distr, rev_involutive, U; reflexivity.
  - intros H; apply Forall_skipn; now apply C.
Qed.

(* ------------------------------------------------------------------ big-endian length prefix *)
Lemma be_enc_length k x : length (be_enc k x) = k.
Proof. revert x; induction k; intros; cbn; [easy|rewrite app_length, IHk; cbn; lia]. Qed.
Lemma be64_length x : length (be64 x) = 8%nat.
Proof. apply be_enc_length. Qed.
Lemma lenN_be64 x : lenN (be64 x) = 8.
Proof. unfold lenN; now rewrite be64_length. Qed.

Lemma be_dec_app l1 l2 a :
  fold_left (fun acc byte => acc * 256 + byte) (l1 ++ l2) a =
  fold_left (fun acc byte => acc * 256 + byte) l2 (fold_left (fun acc byte => acc * 256 + byte) l1 a).
Proof. apply fold_left_app. Qed.

Lemma be_dec_enc k x : x < 256 ^ N.of_nat k -> be_dec (be_enc k x) = x.
Proof.
  revert x; induction k as [|k IH]; intros x Hx.
  - cbn in *; lia.
  - cbn [be_enc]. unfold be_dec in *. rewrite fold_left_app; cbn [fold_left].
    rewrite IH.
    + pose proof (N.div_mod x 256 ltac:(lia)); lia.
    + rewrite Nat2N.inj_succ, N.pow_succ_r' in Hx.
      apply N.div_lt_upper_bound; lia.
Qed.

Lemma be64_dec_be64 x rest : x < two64 -> be64_dec (be64 x ++ rest) = x.
Proof.
  intros Hx. unfold be64_dec.
  replace (firstn 8 (be64 x ++ rest)) with (be64 x).
  - unfold be64. rewrite N.mod_small by exact Hx. apply be_dec_enc. exact Hx.
  - rewrite firstn_app, be64_length, Nat.sub_diag, firstn_O, app_nil_r.
    symmetry; apply firstn_all2; rewrite be64_length; lia.
Qed.

(* ------------------------------------------------------------------ SliceAllocate / WriteSlice *)
Lemma write_len_spec b sz b' : write_len b sz = Some b' -> wf b ->
  wf b' /\ bytes b' = bytes b ++ be64 sz /\ b_maxSz b' = b_maxSz b /\ b_off b' = b_off b + 8 /\
  refused b 8 = false /\ (clean b -> clean b').
Proof.
  unfold write_len. destruct (allocate b 8) as [[[off st] a]|] eqn:A; [|easy]. intros [= <-] W.
  destruct (allocate_spec _ _ _ _ _ A W) as (Wa & By & Ln & _ & M & O & R & C).
  destruct (fill_tail_spec a 8 (be64 sz) (bytes b) st Wa By Ln) as (Wf & Bf & Mf & Of & Rf).
  splits; auto; try congruence.
  - rewrite Bf, overlay_full; [easy|]. rewrite be64_length. unfold lenN in Ln; lia.
  - intros H; unfold clean; rewrite Rf; now apply C.
Qed.

Lemma slice_allocate_spec b sz off stale b' : slice_allocate b sz = Some (off, stale, b') -> wf b ->
  wf b' /\ bytes b' = bytes b ++ be64 sz ++ stale /\ lenN stale = sz /\ off = b_off b + 8 /\
  b_maxSz b' = b_maxSz b /\ b_off b' = b_off b + 8 + sz /\ refused b (8 + sz) = false /\
  (clean b -> clean b' /\ stale = zeros sz).
Proof.
  unfold slice_allocate. destruct (grow b (8 + sz)) as [g|] eqn:G; [|easy].
  destruct (write_len g sz) as [w|] eqn:Wl; [|easy]. intros A W.
  assert (Hnr : refused b (8 + sz) = false).
  { destruct (refused b (8 + sz)) eqn:R; [|easy]. apply grow_none in R; congruence. }
  destruct (grow_spec _ _ _ G W) as (Wg & U & P & O & M & Au & Room & _ & C & _).
  destruct (write_len_spec _ _ _ Wl Wg) as (Ww & Bw & Mw & Ow & _ & Cw).
  destruct (allocate_spec _ _ _ _ _ A Ww) as (Wa & Ba & La & Oa & Ma & Ofa & _ & Ca).
  splits; auto; try congruence; try lia.
  rewrite Ba, Bw; unfold bytes; rewrite U, <- app_assoc; reflexivity.
Qed.

Lemma slice_allocate_none b sz : slice_allocate b sz = None -> wf b -> refused b (8 + sz) = true.
Proof.
  unfold slice_allocate. destruct (grow b (8 + sz)) as [g|] eqn:G.
  - intros H W. exfalso.
    destruct (grow_spec _ _ _ G W) as (Wg & U & P & O & M & Au & Room & _).
    assert (Hnr : refused b (8 + sz) = false).
    { destruct (refused b (8 + sz)) eqn:R; [|easy]. apply grow_none in R; congruence. }
    unfold write_len in H.
    destruct (allocate g 8) as [[[o1 s1] a1]|] eqn:A1.
    + destruct (allocate_spec _ _ _ _ _ A1 Wg) as (Wa & _ & _ & _ & Ma & Oa & _).
      set (f := fill_tail a1 8 (be64 sz)) in *.
      destruct (allocate f sz) as [r|] eqn:A2; [easy|].
      unfold allocate in A2. destruct (grow f sz) eqn:G2; [easy|].
      apply grow_none in G2. unfold refused in *. subst f; cbn [fill_tail b_maxSz b_off] in G2.
      rewrite Ma, M, Oa, O in G2. lia.
    + unfold allocate in A1. destruct (grow g 8) eqn:G2; [easy|].
      apply grow_none in G2. unfold refused in *. rewrite M, O in G2. lia.
  - intros _ _. now apply grow_none.
Qed.

Lemma allocate_none b n : allocate b n = None <-> refused b n = true.
Proof. unfold allocate. rewrite <- grow_none. destruct (grow b n); easy. Qed.
Lemma write_none b p : write b p = None <-> refused b (lenN p) = true.
Proof. unfold write. rewrite <- grow_none. destruct (grow b (lenN p)); easy. Qed.

Lemma write_slice_spec b p b' : write_slice b p = Some b' -> wf b ->
  wf b' /\ bytes b' = bytes b ++ be64 (lenN p) ++ p /\ b_maxSz b' = b_maxSz b /\
  b_off b' = b_off b + 8 + lenN p /\ refused b (8 + lenN p) = false /\ (clean b -> clean b').
Proof.
  unfold write_slice. destruct (slice_allocate b (lenN p)) as [[[off st] a]|] eqn:A; [|easy].
  intros [= <-] W.
  destruct (slice_allocate_spec _ _ _ _ _ A W) as (Wa & Ba & La & _ & Ma & Oa & R & C).
  rewrite app_assoc in Ba.
  destruct (fill_tail_spec a (lenN p) p _ st Wa Ba La) as (Wf & Bf & Mf & Of & Rf).
  splits; auto; try congruence.
  - rewrite Bf, overlay_full, <- app_assoc; [easy|]. unfold lenN in La; lia.
  - intros H; unfold clean; rewrite Rf; now apply C.
Qed.

Lemma reset_spec b : wf b -> wf (reset b) /\ bytes (reset b) = [] /\ b_maxSz (reset b) = b_maxSz b /\
  b_off (reset b) = pad.
Proof.
  intros (W1 & W2 & W3). unfold reset, wf, bytes; cbn [b_padb b_urev b_rest b_off b_curSz b_maxSz].
  splits; auto. rewrite <- W3. len_solve.
Qed.

(* ------------------------------------------------------------------ one operation against the reference *)
Lemma refused_over b n : wf b -> refused b n = over_limit (b_maxSz b) (lenN (bytes b)) n.
Proof. intros (_ & W2 & _). unfold refused, over_limit. now rewrite W2, lenN_bytes. Qed.

Lemma step_opt_none b o : wf b -> (step_opt b o = None <-> o <> OReset /\ refused b (op_need o) = true).
Proof.
  intros W. destruct o; cbn [step_opt op_need].
  - rewrite write_none. intuition congruence.
  - unfold write_slice. destruct (slice_allocate b (lenN p)) as [[[? ?] ?]|] eqn:E.
    + split; [easy|]. intros (_ & R). destruct (slice_allocate_spec _ _ _ _ _ E W) as (_ & _ & _ & _ & _ & _ & R' & _). congruence.
    + split; [|easy]. intros _. split; [easy|]. now apply slice_allocate_none.
  - destruct (allocate b n) as [[[? ?] ?]|] eqn:E.
    + split; [easy|]. intros (_ & R). apply allocate_none in R. congruence.
    + split; [|easy]. intros _. split; [easy|]. now apply allocate_none.
  - unfold allocate_offset. destruct (allocate b n) as [[[? ?] ?]|] eqn:E.
    + split; [easy|]. intros (_ & R). apply allocate_none in R. congruence.
    + split; [|easy]. intros _. split; [easy|]. now apply allocate_none.
  - destruct (slice_allocate b sz) as [[[? ?] ?]|] eqn:E.
    + split; [easy|]. intros (_ & R). destruct (slice_allocate_spec _ _ _ _ _ E W) as (_ & _ & _ & _ & _ & _ & R' & _). congruence.
    + split; [|easy]. intros _. split; [easy|]. now apply slice_allocate_none.
  - rewrite grow_none. intuition congruence.
  - split; [easy|]. intros (H & _). congruence.
Qed.

Lemma overlay_stale f stale n : lenN stale = n -> (lenN f = n \/ stale = zeros n) ->
  overlay f stale = overlay f (zeros n).
Proof.
  intros Hs [Hf | ->]; [|easy].
  rewrite !overlay_full; auto; unfold lenN, zeros in *; rewrite ?repeat_length; lia.
Qed.

Lemma step_spec b o : wf b -> (filled o \/ clean b) ->
  wf (step b o) /\ bytes (step b o) = spec_step (b_maxSz b) (bytes b) o /\
  b_maxSz (step b o) = b_maxSz b /\
  (clean b -> not_reset o -> clean (step b o)) /\
  (0 < b_maxSz b -> b_off b <= N.max pad (b_maxSz b) -> b_off (step b o) <= N.max pad (b_maxSz b)).
Proof.
  intros W Hfc. unfold step.
  destruct (step_opt b o) as [b'|] eqn:E.
  2:{ apply (step_opt_none b o W) in E. destruct E as (Hnr & R).
      rewrite (refused_over b _ W) in R.
      splits; auto. destruct o; cbn [spec_step]; try congruence; now rewrite R. }
  assert (Hacc : o <> OReset -> refused b (op_need o) = false).
  { intros Hnr. destruct (refused b (op_need o)) eqn:R; [|easy].
    assert (step_opt b o = None) by (apply step_opt_none; auto). congruence. }
  assert (Hoff : forall n, refused b n = false -> 0 < b_maxSz b -> b_off b + n <= N.max pad (b_maxSz b)).
  { unfold refused; intros n R Hm. lia. }
  destruct o; cbn [step_opt] in E; cbn [spec_step op_need op_payload];
    try (specialize (Hacc ltac:(discriminate)); cbn [op_need] in Hacc;
         rewrite <- (refused_over b _ W), Hacc).
  - destruct (write_spec _ _ _ E W) as (W' & B & M & O & _ & C). splits; auto.
    intros Hm _; rewrite O; now apply Hoff.
  - destruct (write_slice_spec _ _ _ E W) as (W' & B & M & O & _ & C). splits; auto.
    intros Hm _; rewrite O, <- N.add_assoc; now apply Hoff.
  - destruct (allocate b n) as [[[off st] a]|] eqn:A; [|easy]. injection E as <-.
    destruct (allocate_spec _ _ _ _ _ A W) as (Wa & Ba & La & _ & Ma & Oa & _ & Ca).
    destruct (fill_tail_spec a n fill _ st Wa Ba La) as (Wf & Bf & Mf & Of & Rf).
    splits; auto; try congruence.
    + rewrite Bf. f_equal. apply overlay_stale; auto. destruct Hfc as [Hf|Hc]; [now left|right; now apply Ca].
    + intros Hc _. unfold clean; rewrite Rf; now apply Ca.
    + intros Hm _; rewrite Of, Oa; now apply Hoff.
  - unfold allocate_offset in E.
    destruct (allocate b n) as [[[off st] a]|] eqn:A; [|easy]. injection E as <-.
    destruct (allocate_spec _ _ _ _ _ A W) as (Wa & Ba & La & _ & Ma & Oa & _ & Ca).
    destruct (fill_tail_spec a n fill _ st Wa Ba La) as (Wf & Bf & Mf & Of & Rf).
    splits; auto; try congruence.
    + rewrite Bf. f_equal. apply overlay_stale; auto. destruct Hfc as [Hf|Hc]; [now left|right; now apply Ca].
    + intros Hc _. unfold clean; rewrite Rf; now apply Ca.
    + intros Hm _; rewrite Of, Oa; now apply Hoff.
  - destruct (slice_allocate b sz) as [[[off st] a]|] eqn:A; [|easy]. injection E as <-.
    destruct (slice_allocate_spec _ _ _ _ _ A W) as (Wa & Ba & La & _ & Ma & Oa & _ & Ca).
    rewrite app_assoc in Ba.
    destruct (fill_tail_spec a sz fill _ st Wa Ba La) as (Wf & Bf & Mf & Of & Rf).
    splits; auto; try congruence.
    + rewrite Bf, <- app_assoc. do 2 f_equal. apply overlay_stale; auto.
      destruct Hfc as [Hf|Hc]; [now left|right; now apply Ca].
    + intros Hc _. unfold clean; rewrite Rf; now apply Ca.
    + intros Hm _; rewrite Of, Oa, <- N.add_assoc; now apply Hoff.
  - destruct (grow_spec _ _ _ E W) as (Wg & U & P & O & M & Au & Room & _ & C & _).
    splits; auto.
    + unfold bytes; rewrite U; now rewrite app_nil_r.
    + intros _ H; lia.
  - injection E as <-. destruct (reset_spec b W) as (Wr & Br & Mr & Or).
    splits; auto.
    + intros _ H; now elim H.
    + intros _ _; lia.
Qed.

(* ------------------------------------------------------------------ histories *)
Lemma run_cons o ops b : run (o :: ops) b = run ops (step b o).
Proof. reflexivity. Qed.

Theorem run_bytes ops : forall b, wf b ->
  (Forall filled ops \/ (clean b /\ Forall not_reset ops)) ->
  wf (run ops b) /\ bytes (run ops b) = spec_run (b_maxSz b) ops (bytes b) /\
  b_maxSz (run ops b) = b_maxSz b.
Proof.
  induction ops as [|o ops IH]; intros b W H; [now cbn|].
  assert (Ho : filled o \/ clean b).
  { destruct H as [H|(Hc & _)]; [left; now inversion H|now right]. }
  destruct (step_spec b o W Ho) as (W' & B & M & C & _).
  rewrite run_cons. unfold spec_run; cbn [fold_left]; fold (spec_run (b_maxSz b)).
  destruct (IH (step b o) W') as (Wr & Br & Mr).
  { destruct H as [H|(Hc & Hn)]; [left; now inversion H|right].
    inversion Hn; subst; split; auto. }
  rewrite Br, Mr, M, B. auto.
Qed.

Theorem run_maxsize ops : forall b, wf b -> 0 < b_maxSz b -> b_off b <= N.max pad (b_maxSz b) ->
  b_off (run ops b) <= N.max pad (b_maxSz b).
Proof.
  induction ops as [|o ops IH]; intros b W Hm Hb; [exact Hb|].
  rewrite run_cons.
  (* the bound does not depend on what allocated memory holds: run the step with a full fill or not *)
  assert (Hs : wf (step b o) /\ b_maxSz (step b o) = b_maxSz b /\ b_off (step b o) <= N.max pad (b_maxSz b)).
  { unfold step. destruct (step_opt b o) as [b'|] eqn:E; [|auto].
    assert (Hacc : o <> OReset -> refused b (op_need o) = false).
    { intros Hnr. destruct (refused b (op_need o)) eqn:R; [|easy].
      assert (step_opt b o = None) by (apply step_opt_none; auto). congruence. }
    assert (Hoff : forall n, refused b n = false -> b_off b + n <= N.max pad (b_maxSz b)).
    { unfold refused; intros n R. lia. }
    destruct o; cbn [step_opt] in E; try (specialize (Hacc ltac:(discriminate)); cbn [op_need] in Hacc).
    - destruct (write_spec _ _ _ E W) as (W' & B & M & O & _). splits; auto. rewrite O; auto.
    - destruct (write_slice_spec _ _ _ E W) as (W' & B & M & O & _). splits; auto.
      rewrite O, <- N.add_assoc; auto.
    - destruct (allocate b n) as [[[off st] a]|] eqn:A; [|easy]. injection E as <-.
      destruct (allocate_spec _ _ _ _ _ A W) as (Wa & Ba & La & _ & Ma & Oa & _).
      destruct (fill_tail_spec a n fill _ st Wa Ba La) as (Wf & Bf & Mf & Of & Rf).
      splits; auto; try congruence. rewrite Of, Oa; auto.
    - unfold allocate_offset in E.
      destruct (allocate b n) as [[[off st] a]|] eqn:A; [|easy]. injection E as <-.
      destruct (allocate_spec _ _ _ _ _ A W) as (Wa & Ba & La & _ & Ma & Oa & _).
      destruct (fill_tail_spec a n fill _ st Wa Ba La) as (Wf & Bf & Mf & Of & Rf).
      splits; auto; try congruence. rewrite Of, Oa; auto.
    - destruct (slice_allocate b sz) as [[[off st] a]|] eqn:A; [|easy]. injection E as <-.
      destruct (slice_allocate_spec _ _ _ _ _ A W) as (Wa & Ba & La & _ & Ma & Oa & _).
      rewrite app_assoc in Ba.
      destruct (fill_tail_spec a sz fill _ st Wa Ba La) as (Wf & Bf & Mf & Of & Rf).
      splits; auto; try congruence. rewrite Of, Oa, <- N.add_assoc; auto.
    - destruct (grow_spec _ _ _ E W) as (Wg & U & P & O & M & _). splits; auto. lia.
    - injection E as <-. destruct (reset_spec b W) as (Wr & Br & Mr & Or). splits; auto. lia. }
  destruct Hs as (W' & M & O).
  rewrite <- M. apply IH; auto; rewrite M; auto.
Qed.

(* ------------------------------------------------------------------ buffers made of slices *)
Definition small_slices (L : list (list N)) : Prop := Forall (fun s => lenN s < two63) L.

Lemma enc_slices_app L1 L2 : enc_slices (L1 ++ L2) = enc_slices L1 ++ enc_slices L2.
Proof. unfold enc_slices; now rewrite map_app, concat_app. Qed.
Lemma enc_slices_cons s L : enc_slices (s :: L) = enc1 s ++ enc_slices L.
Proof. reflexivity. Qed.
Lemma lenN_enc1 s : lenN (enc1 s) = 8 + lenN s.
Proof. unfold enc1; now rewrite lenN_app, lenN_be64. Qed.
Lemma enc_slices_nil_iff L : enc_slices L = [] <-> L = [].
Proof.
  split; [|now intros ->]. destruct L as [|s L]; [easy|]. rewrite enc_slices_cons. intros H.
  apply (f_equal lenN) in H. rewrite lenN_app, lenN_enc1 in H. change (lenN (@nil N)) with 0 in H. lia.
Qed.
Lemma enc_slices_length L : (8 * length L <= length (enc_slices L))%nat.
Proof.
  induction L as [|s L IH]; [cbn; lia|]. rewrite enc_slices_cons, app_length.
  pose proof (lenN_enc1 s) as H. unfold lenN in H. cbn [length]. lia.
Qed.

Lemma slices_step_spec m L o : slice_op o -> small_slices L ->
  spec_step m (enc_slices L) o = enc_slices (slices_step m L o) /\ small_slices (slices_step m L o).
Proof.
  intros Ho HL. destruct o; cbn in Ho; try easy; cbn [spec_step slices_step op_need op_payload op_slice].
  - destruct (over_limit m (lenN (enc_slices L)) (8 + lenN p)); [easy|].
    split; [|apply Forall_app; split; auto].
    rewrite enc_slices_app. f_equal. cbn. now rewrite app_nil_r.
  - destruct (over_limit m (lenN (enc_slices L)) (8 + sz)); [easy|].
    assert (Hl : lenN (overlay fill (zeros sz)) = sz) by now rewrite lenN_overlay, lenN_zeros.
    split; [|apply Forall_app; split; auto; constructor; auto; now rewrite Hl].
    rewrite enc_slices_app. f_equal. cbn. rewrite app_nil_r. unfold enc1. now rewrite Hl.
  - split; [easy|constructor].
Qed.

Lemma slices_run_spec m ops : forall L, Forall slice_op ops -> small_slices L ->
  spec_run m ops (enc_slices L) = enc_slices (slices_run m ops L) /\ small_slices (slices_run m ops L).
Proof.
  induction ops as [|o ops IH]; intros L Ho HL; [now cbn|].
  inversion Ho; subst.
  destruct (slices_step_spec m L o H1 HL) as (E & S).
  unfold spec_run, slices_run; cbn [fold_left]. rewrite E. now apply IH.
Qed.

(* Slice at the start of  enc1 s ++ rest *)
Lemma slice_suffix_head s tl rest memlen boff next :
  lenN s < two63 ->
  boff = next + lenN (enc_slices (s :: tl)) -> boff <= memlen ->
  slice_suffix (enc_slices (s :: tl) ++ rest) memlen boff next =
    Some (s, if is_nil tl then None else Some (next + 8 + lenN s)).
Proof.
  intros Hs Hb Hm. rewrite enc_slices_cons, lenN_app, lenN_enc1 in Hb.
  assert (Hdec : be64_dec (enc_slices (s :: tl) ++ rest) = lenN s).
  { rewrite enc_slices_cons. unfold enc1. rewrite <- !app_assoc.
    apply be64_dec_be64. unfold two63, two64 in *; lia. }
  assert (Hdrop : dropN 8 (enc_slices (s :: tl) ++ rest) = s ++ enc_slices tl ++ rest).
  { rewrite enc_slices_cons. unfold enc1. rewrite <- !app_assoc.
    apply dropN_app_exact'. now rewrite lenN_be64. }
  unfold slice_suffix. rewrite Hdec, Hdrop, takeN_app_exact.
  replace (boff <=? next) with false by lia.
  replace (memlen <? next + 8) with false by lia.
  replace (two63 <=? lenN s) with false by lia.
  replace (memlen <? next + 8 + lenN s) with false by lia.
  f_equal. f_equal.
  destruct tl as [|t tl]; cbn [is_nil].
  - change (enc_slices []) with (@nil N) in Hb. change (lenN (@nil N)) with 0 in Hb.
    replace (boff <=? next + 8 + lenN s) with true by lia. easy.
  - rewrite enc_slices_cons, lenN_app, lenN_enc1 in Hb.
    replace (boff <=? next + 8 + lenN s) with false by lia. easy.
Qed.

Lemma drop_enc1 s tl rest next :
  dropN (next + 8 + lenN s - next) (enc_slices (s :: tl) ++ rest) = enc_slices tl ++ rest.
Proof.
  rewrite enc_slices_cons, <- app_assoc. apply dropN_app_exact'. rewrite lenN_enc1. lia.
Qed.

Lemma walk_loop_spec L : forall fuel rest memlen boff next,
  L <> [] -> small_slices L -> (length L < fuel)%nat ->
  boff = next + lenN (enc_slices L) -> boff <= memlen ->
  walk_loop fuel (enc_slices L ++ rest) memlen boff next = Some (combine (offsets_from next L) L).
Proof.
  induction L as [|s tl IH]; intros fuel rest memlen boff next Hne HL Hf Hb Hm; [easy|].
  destruct fuel as [|f]; [cbn in Hf; lia|]. cbn [walk_loop].
  inversion HL; subst.
  rewrite (slice_suffix_head s tl rest memlen _ next) by auto.
  destruct tl as [|t tl']; cbn [is_nil]; [reflexivity|].
  rewrite drop_enc1.
  rewrite (IH f rest memlen _ (next + 8 + lenN s)); auto; try easy.
  - cbn in Hf |- *; lia.
  - rewrite (enc_slices_cons s), lenN_app, lenN_enc1. lia.
Qed.

Lemma iterate_loop_spec L : forall fuel rest memlen boff next,
  L <> [] -> small_slices L -> (length L < fuel)%nat ->
  boff = next + lenN (enc_slices L) -> boff <= memlen ->
  iterate_loop fuel (enc_slices L ++ rest) memlen boff next = Some (filter nonempty L).
Proof.
  induction L as [|s tl IH]; intros fuel rest memlen boff next Hne HL Hf Hb Hm; [easy|].
  destruct fuel as [|f]; [cbn in Hf; lia|]. cbn [iterate_loop].
  inversion HL; subst.
  rewrite (slice_suffix_head s tl rest memlen _ next) by auto.
  assert (Hflt : forall l, (if is_nil s then l else s :: l) = (if nonempty s then s :: l else l)).
  { intros l; unfold nonempty; now destruct (is_nil s). }
  destruct tl as [|t tl']; cbn [is_nil].
  - cbn [filter]. now rewrite Hflt.
  - rewrite drop_enc1.
    rewrite (IH f rest memlen _ (next + 8 + lenN s)); auto; try easy.
    + cbn [filter]. now rewrite Hflt.
    + cbn in Hf |- *; lia.
    + rewrite (enc_slices_cons s), lenN_app, lenN_enc1. lia.
Qed.

Lemma mem_drop_pad b : wf b -> dropN pad (b_mem b) = bytes b ++ b_rest b.
Proof. intros (W1 & _). unfold b_mem. apply dropN_app_exact'. now rewrite W1. Qed.

(* what the three readers return on a buffer whose bytes are the encoding of the slices L *)
Theorem read_slices b L : wf b -> bytes b = enc_slices L -> small_slices L ->
  slice_walk b = Some (match L with [] => [(pad, [])] | _ => combine (offsets_from pad L) L end) /\
  slice_iterate b = Some (filter nonempty L).
Proof.
  intros W HB HL. pose proof (wf_mem_len b W) as Hml.
  pose proof W as (W1 & W2 & W3).
  unfold slice_walk, slice_iterate, is_empty. rewrite mem_drop_pad, Hml, HB by auto.
  assert (Hoff : b_off b = pad + lenN (enc_slices L)) by (rewrite W2, <- lenN_bytes, HB; reflexivity).
  destruct L as [|s tl].
  - change (enc_slices []) with (@nil N) in Hoff. change (lenN (@nil N)) with 0 in Hoff.
    rewrite N.add_0_r in Hoff. rewrite Hoff.
    rewrite N.eqb_refl. split; [|reflexivity].
    cbn [walk_loop]. unfold slice_suffix. now rewrite N.leb_refl.
  - assert (Hlen : (length (s :: tl) < S (length (b_mem b)))%nat).
    { pose proof (enc_slices_length (s :: tl)).
      assert (length (b_mem b) >= length (enc_slices (s :: tl)))%nat.
      { unfold b_mem; rewrite !app_length, HB; lia. }
      cbn [length] in *; lia. }
    assert (Hcur : b_off b <= b_curSz b) by lia.
    split.
    + apply walk_loop_spec; auto; easy.
    + replace (b_off b =? pad) with false.
      * apply iterate_loop_spec; auto; easy.
      * rewrite enc_slices_cons, lenN_app, lenN_enc1 in Hoff. lia.
Qed.

(* Slice(offset) at the offset of any slice of the buffer *)
Theorem read_slice_at b L1 s L2 : wf b -> bytes b = enc_slices (L1 ++ s :: L2) -> lenN s < two63 ->
  slice b (pad + lenN (enc_slices L1)) =
    Some (s, if is_nil L2 then None else Some (pad + lenN (enc_slices L1) + 8 + lenN s)).
Proof.
  intros W HB Hs. pose proof (wf_mem_len b W) as Hml. pose proof W as (W1 & W2 & W3).
  unfold slice, slice_mem. rewrite Hml.
  assert (Hd : dropN (pad + lenN (enc_slices L1)) (b_mem b) = enc_slices (s :: L2) ++ b_rest b).
  { rewrite <- dropN_dropN, mem_drop_pad, HB, enc_slices_app, <- app_assoc by auto.
    apply dropN_app_exact. }
  rewrite Hd. apply slice_suffix_head; auto.
  - rewrite W2, <- lenN_bytes, HB, enc_slices_app, lenN_app. lia.
  - lia.
Qed.

(* Slice at or beyond the end: (nil, -1) *)
Lemma slice_beyond b off : b_off b <= off -> slice b off = Some ([], None).
Proof. intros H. unfold slice, slice_mem, slice_suffix. now replace (b_off b <=? off) with true by lia. Qed.

Lemma combine_fst {A B} (l1 : list A) (l2 : list B) : length l1 = length l2 -> map fst (combine l1 l2) = l1.
Proof. revert l2; induction l1; intros [|y l2] H; cbn in *; try easy. f_equal; apply IHl1; lia. Qed.
Lemma combine_snd {A B} (l1 : list A) (l2 : list B) : length l1 = length l2 -> map snd (combine l1 l2) = l2.
Proof. revert l2; induction l1; intros [|y l2] H; cbn in *; try easy. f_equal; apply IHl1; lia. Qed.
Lemma offsets_from_length off L : length (offsets_from off L) = length L.
Proof. revert off; induction L; intros; cbn; auto. Qed.

Theorem read_offsets_all b L : wf b -> bytes b = enc_slices L -> small_slices L -> L <> [] ->
  slice_offsets b = Some (offsets_from pad L) /\ slice_all b = Some L.
Proof.
  intros W HB HL Hne. destruct (read_slices b L W HB HL) as (Hw & _).
  unfold slice_offsets, slice_all. rewrite Hw. destruct L; [easy|].
  now rewrite combine_fst, combine_snd by apply offsets_from_length.
Qed.
Theorem read_offsets_all_empty b : wf b -> bytes b = [] ->
  slice_offsets b = Some [pad] /\ slice_all b = Some [[]].
Proof.
  intros W HB. destruct (read_slices b [] W HB ltac:(constructor)) as (Hw & _).
  unfold slice_offsets, slice_all. now rewrite Hw.
Qed.
