(* C17: the metric counters obey conservation laws.  Counters are uint64 (add64 wraps); laws are stated modulo
   2^64, which is what the accessors (uint64 arithmetic) compute. *)
From stdpp Require Import gmap.
From Ristretto Require Import Base.Word Base.WordProofs Cache.Policy Cache.PolicyProofs Cache.Store Cache.StoreProofs
  Cache.Machine Cache.MachineProofs Cache.SyncProofs.
Local Open Scope Z_scope.

Definition Z64 : Z := 18446744073709551616.
Definition eq64 (a b : Z) : Prop := a mod Z64 = b mod Z64.

Lemma eq64_refl a : eq64 a a. Proof. reflexivity. Qed.
Lemma eq64_sym a b : eq64 a b -> eq64 b a. Proof. unfold eq64; congruence. Qed.
Lemma eq64_trans a b c : eq64 a b -> eq64 b c -> eq64 a c. Proof. unfold eq64; congruence. Qed.
Lemma eq64_add a b c d : eq64 a b -> eq64 c d -> eq64 (a + c) (b + d).
Proof. unfold eq64. intros H1 H2. rewrite (Z.add_mod a c), (Z.add_mod b d) by (unfold Z64; lia). now rewrite H1, H2. Qed.
Lemma eq64_sub a b c d : eq64 a b -> eq64 c d -> eq64 (a - c) (b - d).
Proof. unfold eq64. intros H1 H2. rewrite (Zminus_mod a c), (Zminus_mod b d). now rewrite H1, H2. Qed.
Lemma eq64_eq a b : a = b -> eq64 a b. Proof. intros ->. reflexivity. Qed.

Lemma add64_eq64 x d : eq64 (Z.of_N (add64 x d)) (Z.of_N x + Z.of_N d).
Proof.
  unfold eq64, add64, u64, two64, Z64. rewrite N2Z.inj_mod, N2Z.inj_add. simpl.
  rewrite Z.mod_mod by lia. reflexivity.
Qed.

Lemma add64_le x d : (Z.of_N (add64 x d) <= Z.of_N x + Z.of_N d).
Proof.
  unfold add64, u64, two64. rewrite N2Z.inj_mod, N2Z.inj_add.
  apply Z.mod_le; lia.
Qed.

Lemma z2u64_eq64 z : eq64 (Z.of_N (z2u64 z)) z.
Proof.
  unfold eq64, z2u64, ztwo64, Z64. rewrite Z2N.id by (apply Z.mod_pos_bound; lia).
  rewrite Z.mod_mod by lia. reflexivity.
Qed.

(* ---------- metric updates ---------- *)
Definition mz (m : metrics) (t : mtype) : Z := Z.of_N (m_get m t).

Lemma mz_add_same m t d : m_on m = true -> eq64 (mz (m_add m t d) t) (mz m t + Z.of_N d).
Proof.
  intros Hon. unfold mz, m_add. rewrite Hon. simpl. rewrite decide_True by auto. apply add64_eq64.
Qed.
Lemma mz_add_other m t d t' : t' <> t -> mz (m_add m t d) t' = mz m t'.
Proof.
  intros Hne. unfold mz, m_add. destruct (m_on m); simpl; auto. rewrite decide_False by auto. reflexivity.
Qed.
Lemma m_add_on m t d : m_on (m_add m t d) = m_on m.
Proof. unfold m_add. destruct (m_on m) eqn:E; simpl; auto. Qed.
Lemma mz_add_le m t d : mz (m_add m t d) t <= mz m t + Z.of_N d.
Proof.
  unfold mz, m_add. destruct (m_on m); simpl; [|lia]. rewrite decide_True by auto. apply add64_le.
Qed.

(* the two conserved quantities of the policy *)
Definition KQ (p : policy) (m : metrics) : Z := mz m MKeyEvict + Z.of_nat (size (p_costs p)).
Definition CQ (p : policy) (m : metrics) : Z := mz m MCostAdd - mz m MCostEvict - p_used p.
(* counters the policy never touches *)
Definition same_outside (m m' : metrics) : Prop :=
  m_on m' = m_on m /\ forall t, t <> MKeyEvict -> t <> MCostAdd -> t <> MCostEvict -> t <> MKeyUpdate ->
                                t <> MRejectSets -> mz m' t = mz m t.

Lemma same_outside_refl m : same_outside m m.
Proof. split; auto. Qed.
Lemma same_outside_trans m1 m2 m3 : same_outside m1 m2 -> same_outside m2 m3 -> same_outside m1 m3.
Proof. intros [A1 B1] [A2 B2]. split; [congruence|]. intros t H1 H2 H3 H4 H5. rewrite B2, B1; auto. Qed.
Lemma same_outside_add m t d :
  (t = MKeyEvict \/ t = MCostAdd \/ t = MCostEvict \/ t = MKeyUpdate \/ t = MRejectSets) -> same_outside m (m_add m t d).
Proof.
  intros Ht. split; [apply m_add_on|]. intros t' H1 H2 H3 H4 H5. apply mz_add_other.
  intros ->. destruct Ht as [|[|[|[|]]]]; congruence.
Qed.

Lemma pol_del_met p m k : m_on m = true ->
  eq64 (KQ (pol_del p m k).1 (pol_del p m k).2) (KQ p m) /\
  eq64 (CQ (pol_del p m k).1 (pol_del p m k).2) (CQ p m) /\ same_outside m (pol_del p m k).2.
Proof.
  intros Hon. unfold pol_del. destruct (p_costs p !! k) as [c|] eqn:E; simpl.
  2: { repeat split; auto using eq64_refl. }
  assert (Hon1 : m_on (m_add m MCostEvict (z2u64 c)) = true) by now rewrite m_add_on.
  split; [|split].
  - unfold KQ; simpl. rewrite map_size_delete, E.
    assert (Hs : (0 < size (p_costs p))%nat).
    { destruct (size (p_costs p)) eqn:Es; [|lia]. apply map_size_empty_inv in Es. rewrite Es in E.
      rewrite lookup_empty in E. discriminate. }
    eapply eq64_trans.
    + apply eq64_add; [apply (mz_add_same _ MKeyEvict 1 Hon1)|apply eq64_refl].
    + rewrite mz_add_other by discriminate. apply eq64_eq. simpl. lia.
  - unfold CQ; simpl. rewrite !mz_add_other by discriminate.
    eapply eq64_trans.
    + apply eq64_sub; [apply eq64_sub; [apply eq64_refl|apply (mz_add_same _ MCostEvict (z2u64 c) Hon)]|apply eq64_refl].
    + eapply eq64_trans.
      * apply eq64_sub; [apply eq64_sub; [apply eq64_refl|apply eq64_add; [apply eq64_refl|apply z2u64_eq64]]|apply eq64_refl].
      * apply eq64_eq. lia.
  - eapply same_outside_trans; apply same_outside_add; auto.
Qed.

Lemma pol_update_if_has_met p m k cost : m_on m = true ->
  let r := pol_update_if_has p m k cost in
  eq64 (KQ r.1.2 r.2) (KQ p m) /\ eq64 (CQ r.1.2 r.2) (CQ p m) /\ same_outside m r.2.
Proof.
  intros Hon. unfold pol_update_if_has. destruct (p_costs p !! k) as [prev|] eqn:E; simpl.
  2: { repeat split; auto using eq64_refl. }
  assert (Hon1 : m_on (m_add m MKeyUpdate 1) = true) by now rewrite m_add_on.
  assert (Hsz : size (<[k:=cost]> (p_costs p)) = size (p_costs p)) by (apply map_size_insert_Some; eauto).
  destruct (Z.ltb_spec cost prev) as [Hlt|Hge]; [|destruct (Z.ltb_spec prev cost) as [Hlt|Hge']].
  - split; [|split].
    + unfold KQ; simpl. rewrite Hsz, !mz_add_other by discriminate. apply eq64_refl.
    + unfold CQ; simpl. rewrite (mz_add_other _ MCostAdd _ MCostEvict) by discriminate.
      rewrite (mz_add_other _ MKeyUpdate _ MCostEvict) by discriminate.
      eapply eq64_trans.
      * apply eq64_sub; [apply eq64_sub; [apply (mz_add_same _ MCostAdd _ Hon1)|apply eq64_refl]|apply eq64_refl].
      * rewrite (mz_add_other _ MKeyUpdate _ MCostAdd) by discriminate.
        eapply eq64_trans.
        -- apply eq64_sub; [apply eq64_sub; [apply eq64_add; [apply eq64_refl|apply z2u64_eq64]|apply eq64_refl]|apply eq64_refl].
        -- apply eq64_eq. lia.
    + eapply same_outside_trans; apply same_outside_add; auto.
  - split; [|split].
    + unfold KQ; simpl. rewrite Hsz, !mz_add_other by discriminate. apply eq64_refl.
    + unfold CQ; simpl. rewrite (mz_add_other _ MCostAdd _ MCostEvict) by discriminate.
      rewrite (mz_add_other _ MKeyUpdate _ MCostEvict) by discriminate.
      eapply eq64_trans.
      * apply eq64_sub; [apply eq64_sub; [apply (mz_add_same _ MCostAdd _ Hon1)|apply eq64_refl]|apply eq64_refl].
      * rewrite (mz_add_other _ MKeyUpdate _ MCostAdd) by discriminate.
        eapply eq64_trans.
        -- apply eq64_sub; [apply eq64_sub; [apply eq64_add; [apply eq64_refl|apply z2u64_eq64]|apply eq64_refl]|apply eq64_refl].
        -- apply eq64_eq. lia.
    + eapply same_outside_trans; apply same_outside_add; auto.
  - assert (cost = prev) by lia. subst cost. split; [|split].
    + unfold KQ; simpl. rewrite Hsz, !mz_add_other by discriminate. apply eq64_refl.
    + unfold CQ; simpl. rewrite !mz_add_other by discriminate. apply eq64_eq. lia.
    + apply same_outside_add; auto.
Qed.

Lemma add_loop_met fuel : forall orders est key cost inc p m sample victims rounds
    res_v res_a res_p res_m res_r res_j,
  add_loop fuel orders est key cost inc p m sample victims rounds = AddOk res_v res_a res_p res_m res_r res_j ->
  m_on m = true -> p_costs p !! key = None ->
  eq64 (KQ res_p res_m) (KQ p m + (if res_a then 1 else 0)) /\ eq64 (CQ res_p res_m) (CQ p m) /\
  same_outside m res_m.
Proof.
  assert (Hexit : forall key cost p m, m_on m = true -> p_costs p !! key = None ->
    eq64 (KQ (pol_insert p key cost) (m_add m MCostAdd (z2u64 cost))) (KQ p m + 1) /\
    eq64 (CQ (pol_insert p key cost) (m_add m MCostAdd (z2u64 cost))) (CQ p m) /\
    same_outside m (m_add m MCostAdd (z2u64 cost))).
  { intros key cost p m Hon Hk. split; [|split].
    - unfold KQ, pol_insert; simpl. rewrite mz_add_other by discriminate.
      rewrite map_size_insert_None by auto. apply eq64_eq. lia.
    - unfold CQ, pol_insert; simpl. rewrite (mz_add_other _ MCostAdd _ MCostEvict) by discriminate.
      eapply eq64_trans.
      + apply eq64_sub; [apply eq64_sub; [apply (mz_add_same _ MCostAdd _ Hon)|apply eq64_refl]|apply eq64_refl].
      + eapply eq64_trans.
        * apply eq64_sub; [apply eq64_sub; [apply eq64_add; [apply eq64_refl|apply z2u64_eq64]|apply eq64_refl]|apply eq64_refl].
        * apply eq64_eq. lia.
    - apply same_outside_add; auto. }
  assert (Hrej : forall p m, m_on m = true ->
    eq64 (KQ p (m_add m MRejectSets 1)) (KQ p m + 0) /\ eq64 (CQ p (m_add m MRejectSets 1)) (CQ p m) /\
    same_outside m (m_add m MRejectSets 1)).
  { intros p m Hon. unfold KQ, CQ. rewrite !mz_add_other by discriminate. split; [apply eq64_eq; lia|].
    split; [apply eq64_refl|]. apply same_outside_add; auto 6. }
  induction fuel as [|fuel IH]; intros orders est key cost inc p m sample victims rounds
    res_v res_a res_p res_m res_r res_j Hrun Hon Hk; simpl in Hrun.
  - destruct (0 <=? room_left p cost); [|discriminate]. inversion Hrun; subst. now apply Hexit.
  - destruct (0 <=? room_left p cost); [inversion Hrun; subst; now apply Hexit|].
    destruct (min_entry est _ 0 None) as [[[[i mk] mc] mh]|]; [|inversion Hrun; subst; now apply Hrej].
    destruct (inc <? mh); [inversion Hrun; subst; now apply Hrej|].
    pose proof (pol_del_met p m mk Hon) as (HK & HC & HS).
    destruct (pol_del p m mk) as [p' m'] eqn:Edel. simpl in *.
    assert (Hon' : m_on m' = true) by (destruct HS as [-> _]; exact Hon).
    assert (Hk' : p_costs p' !! key = None).
    { pose proof (pol_del_costs p m mk) as Hc. rewrite Edel in Hc. simpl in Hc. rewrite Hc.
      apply lookup_delete_None. now right. }
    destruct (IH _ _ _ _ _ _ _ _ _ _ _ _ _ _ _ _ Hrun Hon' Hk') as (IK & IC & IS).
    split; [|split].
    + eapply eq64_trans; [exact IK|]. apply eq64_add; [exact HK|apply eq64_refl].
    + eapply eq64_trans; [exact IC|exact HC].
    + eapply same_outside_trans; eauto.
Qed.

Lemma pol_add_met orders est p m key cost vs added p' m' rounds rej :
  pol_add orders est p m key cost = AddOk vs added p' m' rounds rej -> m_on m = true ->
  eq64 (KQ p' m') (KQ p m + (if added then 1 else 0)) /\ eq64 (CQ p' m') (CQ p m) /\ same_outside m m'.
Proof.
  unfold pol_add. intros Hrun Hon.
  destruct (p_max p <? cost).
  { inversion Hrun; subst. split; [apply eq64_eq; lia|]. split; [apply eq64_refl|apply same_outside_refl]. }
  pose proof (pol_update_if_has_met p m key cost Hon) as Hu.
  destruct (pol_update_if_has p m key cost) as [[has p1] m1] eqn:Eu. simpl in Hu.
  destruct has.
  - inversion Hrun; subst. destruct Hu as (H1 & H2 & H3). split; [|auto].
    eapply eq64_trans; [exact H1|apply eq64_eq; lia].
  - unfold pol_update_if_has in Eu. destruct (p_costs p !! key) eqn:E; [discriminate|].
    eapply add_loop_met; eauto.
Qed.

(* after policy.Clear and until the Clear restarts the applier, the accounting stays empty *)
Definition stg_inv (s : state) : Prop :=
  (exists tid, stage_P (th_pc (s_threads s) tid)) -> p_costs (s_pol s) = ∅ /\ p_used (s_pol s) = 0.

Lemma step_stg c s l s' : clr_inv s -> stg_inv s -> mstep c s l = Some s' -> stg_inv s'.
Proof.
  intros Hclr Hst H. unfold stg_inv in *.
  assert (Hidle : forall tid, t_op (get_thread s tid) = None -> th_pc (s_threads s) tid = CIdle).
  { intros tid Hop. unfold th_pc, get_thread in *. destruct (s_threads s !! tid) eqn:E; simpl in *; auto.
    eapply (ci_idle _ Hclr); eauto. }
  pose proof (app_not_busy s Hclr) as Hnb.
  step_cases H.
  all: rewrite ?get_thread_th_pc in *.
  all: try (match goal with Hop : t_op (get_thread _ ?tid) = None |- _ =>
              let Hpc := fresh "Hpc" in pose proof (Hidle tid Hop) as Hpc end).
  all: try exact Hst.
  (* thread changes that neither enter nor leave a stage *)
  all: try solve [ intros Hex; apply Hst; eapply ex_pc_insert_bwd; [|exact Hex];
                   pcr; simpl; tauto ].
  all: try solve [ intros _; split; reflexivity ].
  (* applier steps: no Clear can be in a stage *)
  all: try solve [ intros (tid0 & Hs0); exfalso; apply Hnb; [discriminate|]; exists tid0; now apply stage_P_in_clr ].
  intros Hex; apply Hst; eapply ex_pc_insert_bwd; [|exact Hex]; simpl; tauto.
Qed.

(* ---------- counting events of the ghost log ---------- *)
Fixpoint since_clear (log : list event) : list event :=
  match log with
  | [] => []
  | EMClear :: _ => []
  | e :: l => e :: since_clear l
  end.
Definition is_get_ret (e : event) : bool :=
  match e with ERet _ (OGet _ _) _ => true | _ => false end.
(* a Set refused on an open cache with a non-negative ttl: refused because the write buffer was full *)
Definition is_drop_ret (e : event) : bool :=
  match e with ERet _ (OSet _ _ _ _ ttl) (RBool false) => 0 <=? ttl | _ => false end.
Definition count (f : event -> bool) (l : list event) : Z := Z.of_nat (length (List.filter f l)).

Lemma count_cons f e l : count f (e :: l) = (if f e then 1 else 0) + count f l.
Proof. unfold count. simpl. destruct (f e); simpl; lia. Qed.

Definition pend_add (a : apc) : Z := match a with ANewSet _ _ => 1 | _ => 0 end.
(* between policy.Clear and Metrics.Clear of one Clear call *)
Definition win (pc : cpc) : Prop := match pc with CClr ClrStore _ | CClr ClrMetrics _ => True | _ => False end.
Definition in_window (T : gmap nat cthread) : Prop := exists tid, win (th_pc T tid).

Record met_inv (s : state) : Prop := {
  mi_on : m_on (s_met s) = true;
  mi_keys : ~ in_window (s_threads s) ->
            eq64 (mz (s_met s) MKeyAdd + pend_add (s_apc s)) (KQ (s_pol s) (s_met s));
  mi_cost : ~ in_window (s_threads s) -> eq64 (CQ (s_pol s) (s_met s)) 0;
  mi_gets : s_closed s = false ->
            eq64 (mz (s_met s) MHit + mz (s_met s) MMiss) (count is_get_ret (since_clear (s_log s)));
  mi_drops : s_closed s = false ->
             eq64 (mz (s_met s) MDropSets) (count is_drop_ret (since_clear (s_log s)));
  mi_ring : mz (s_met s) MKeepGets + mz (s_met s) MDropGets + Z.of_N (s_gets s) <= count is_get_ret (s_log s)
}.

(* the call a thread is inside of matches its program counter *)
Definition op_kind_ok (pc : cpc) (o : op) : Prop :=
  match pc with
  | CSetUpd _ | CSetSend _ => exists k c v cost ttl, o = OSet k c v cost ttl /\ 0 <= ttl
  | CIdle => True
  | _ => (forall k c, o <> OGet k c) /\ (forall k c v cost ttl, o <> OSet k c v cost ttl)
  end.
Definition opk_inv (s : state) : Prop :=
  forall tid t o, s_threads s !! tid = Some t -> t_op t = Some o -> op_kind_ok (t_pc t) o.

Lemma step_opk c s l s' : opk_inv s -> mstep c s l = Some s' -> opk_inv s'.
Proof.
  intros Hk H. unfold opk_inv in *.
  assert (Hg : forall tid o, t_op (get_thread s tid) = Some o -> op_kind_ok (t_pc (get_thread s tid)) o).
  { intros tid o Ho. unfold get_thread in *. destruct (s_threads s !! tid) eqn:E; simpl in *; eauto; discriminate. }
  step_cases H.
  all: try exact Hk.
  all: try (match goal with Hop : t_op (get_thread _ ?tid) = Some ?o |- _ =>
              let Hx := fresh "Hx" in pose proof (Hg tid o Hop) as Hx end).
  all: try (match goal with Hpc : t_pc (get_thread _ _) = _, Hx : op_kind_ok _ _ |- _ => rewrite Hpc in Hx; simpl in Hx end).
  all: intros tid0 t0 o0 Hl Ho; apply lookup_thread_insert in Hl as [[-> ->]|[Hne Hl]]; [|eauto]; simpl in Ho; try discriminate.
  all: inversion Ho; subst; simpl.
  all: try solve [ split; intros; discriminate ].
  all: try assumption.
  all: try solve [ eexists _, _, _, _, _; split; [reflexivity|]; match goal with Hd : (_ <? 0) = false |- _ => apply Z.ltb_ge in Hd; lia end ].
Qed.

Lemma in_window_insert_bwd (T : gmap nat cthread) tid t' :
  (win (t_pc t') -> win (th_pc T tid)) -> in_window (<[tid := t']> T) -> in_window T.
Proof. intros H. unfold in_window. apply ex_pc_insert_bwd. exact H. Qed.

Lemma in_window_insert_fwd (T : gmap nat cthread) tid t' :
  (win (th_pc T tid) -> win (t_pc t')) -> in_window T -> in_window (<[tid := t']> T).
Proof. intros H. unfold in_window. apply ex_pc_insert_fwd. exact H. Qed.

Lemma since_clear_cons e l : e <> EMClear -> since_clear (e :: l) = e :: since_clear l.
Proof. destruct e; simpl; congruence. Qed.

Ltac log_counts :=
  repeat (rewrite since_clear_cons by discriminate); repeat rewrite count_cons; simpl is_get_ret; simpl is_drop_ret.

Lemma mz_clear m t : mz (m_clear m) t = 0.
Proof. reflexivity. Qed.
Lemma mz_nonneg m t : 0 <= mz m t.
Proof. unfold mz. lia. Qed.

Lemma same_outside_laws m m' :
  same_outside m m' ->
  mz m' MKeyAdd = mz m MKeyAdd /\ mz m' MHit = mz m MHit /\ mz m' MMiss = mz m MMiss /\
  mz m' MDropSets = mz m MDropSets /\ mz m' MKeepGets = mz m MKeepGets /\ mz m' MDropGets = mz m MDropGets /\
  m_on m' = m_on m.
Proof. intros [Ho H]. repeat split; auto; apply H; discriminate. Qed.

Lemma keys_step ka ka' pa pa' kq kq' d :
  ka' = ka -> pa' = pa + d -> eq64 kq' (kq + d) -> eq64 (ka + pa) kq -> eq64 (ka' + pa') kq'.
Proof.
  intros -> -> H1 H2. eapply eq64_trans; [|apply eq64_sym; exact H1].
  replace (ka + (pa + d)) with ((ka + pa) + d) by lia. apply eq64_add; [exact H2|apply eq64_refl].
Qed.

Lemma pol_update_met p m k cost p' m' : pol_update p m k cost = (p', m') -> m_on m = true ->
  eq64 (KQ p' m') (KQ p m) /\ eq64 (CQ p' m') (CQ p m) /\ same_outside m m'.
Proof.
  unfold pol_update. intros H Hon. pose proof (pol_update_if_has_met p m k cost Hon) as Hu.
  destruct (pol_update_if_has p m k cost) as [[b p1] m1]. inversion H; subst. exact Hu.
Qed.

Lemma pol_del_met' p m k p' m' : pol_del p m k = (p', m') -> m_on m = true ->
  eq64 (KQ p' m') (KQ p m) /\ eq64 (CQ p' m') (CQ p m) /\ same_outside m m'.
Proof. intros H Hon. pose proof (pol_del_met p m k Hon) as Hd. rewrite H in Hd. exact Hd. Qed.

Lemma step_met c s l s' : clr_inv s -> stg_inv s -> opk_inv s -> met_inv s -> mstep c s l = Some s' -> met_inv s'.
Proof.
  intros Hclr Hstg Hopk [Hon Hk Hc Hg Hd Hr] H.
  assert (Hgo : forall tid o, t_op (get_thread s tid) = Some o -> op_kind_ok (t_pc (get_thread s tid)) o).
  { intros tid o Ho. unfold get_thread in *. destruct (s_threads s !! tid) eqn:E; simpl in *; eauto; discriminate. }
  assert (Hidle : forall tid, t_op (get_thread s tid) = None -> th_pc (s_threads s) tid = CIdle).
  { intros tid Hop. unfold th_pc, get_thread in *. destruct (s_threads s !! tid) eqn:E; simpl in *; auto.
    eapply (ci_idle _ Hclr); eauto. }
  pose proof (app_not_busy s Hclr) as Hnb.
  step_cases H.
  all: try (match goal with
            | E : pol_add _ _ _ _ _ _ = AddOk _ _ _ _ _ _ |- _ =>
                pose proof (pol_add_met _ _ _ _ _ _ _ _ _ _ _ _ E Hon) as (HK & HC & HS);
                pose proof (same_outside_laws _ _ HS) as (L1 & L2 & L3 & L4 & L5 & L6 & L7)
            | E : pol_del _ _ _ = (_, _) |- _ =>
                pose proof (pol_del_met' _ _ _ _ _ E Hon) as (HK & HC & HS);
                pose proof (same_outside_laws _ _ HS) as (L1 & L2 & L3 & L4 & L5 & L6 & L7)
            | E : pol_update _ _ _ _ = (_, _) |- _ =>
                pose proof (pol_update_met _ _ _ _ _ _ E Hon) as (HK & HC & HS);
                pose proof (same_outside_laws _ _ HS) as (L1 & L2 & L3 & L4 & L5 & L6 & L7)
            end).
  all: try (match goal with Hop : t_op (get_thread _ ?tid) = Some ?o, Hpc : t_pc (get_thread _ ?tid) = _ |- _ =>
              let Hx := fresh "Hx" in pose proof (Hgo tid o Hop) as Hx; rewrite Hpc in Hx; simpl in Hx end).
  all: try (match goal with Hx : exists k c v cost ttl, _ = OSet k c v cost ttl /\ _ |- _ =>
              destruct Hx as (k0 & c0 & v0 & cost0 & ttl0 & -> & Httl0) end).
  all: rewrite ?get_thread_th_pc in *.
  all: try (match goal with Hop : t_op (get_thread _ ?tid) = None |- _ =>
              let Hpc := fresh "Hpc" in pose proof (Hidle tid Hop) as Hpc end).
  all: constructor; msimpl.
  all: repeat match goal with Ha : s_apc _ = _ |- context [s_apc _] => rewrite Ha end.
  all: rewrite ?m_add_on.
  all: try assumption.
  all: try exact Hon.
  (* window-guarded laws, thread changes only *)
  all: try solve [ intros Hw; first [apply Hk | apply Hc]; intros Hw'; apply Hw;
                   eapply in_window_insert_fwd; [|exact Hw']; pcr; simpl; tauto ].
  (* counts: events that are neither Get returns nor refused Sets *)
  all: try solve [ log_counts; first [(intros Hcl; exact (Hg Hcl)) | (intros Hcl; exact (Hd Hcl)) | exact Hr | lia ] ].
  (* returns of calls that are neither Get nor Set *)
  all: try solve [ destruct Hx as [Hx1 Hx2]; destruct o; try (exfalso; eapply Hx1; reflexivity);
                   try (exfalso; eapply Hx2; reflexivity); log_counts;
                   first [(intros Hcl; exact (Hg Hcl)) | (intros Hcl; exact (Hd Hcl)) | exact Hr | lia ] ].
  (* closed cache: the guarded laws are vacuous *)
  all: try solve [ intros Hcl; congruence ].
  (* metric bumps that do not touch the counters of a law *)
  all: try solve [ intros Hw; unfold KQ, CQ; rewrite ?mz_add_other by discriminate;
                   first [apply Hk | apply Hc]; intros Hw'; apply Hw;
                   eapply in_window_insert_fwd; [|exact Hw']; pcr; simpl; tauto ].
  all: try solve [ intros Hcl; log_counts; rewrite ?mz_add_other by discriminate;
                   first [exact (Hg Hcl) | exact (Hd Hcl)] ].
  (* Get: hit / miss *)
  all: try solve [ intros Hcl; log_counts;
                   first [ (rewrite (mz_add_other _ MHit _ MMiss) by discriminate;
                            eapply eq64_trans; [apply eq64_add; [apply mz_add_same; exact Hon|apply eq64_refl]|];
                            eapply eq64_trans; [|apply eq64_add; [apply eq64_refl|exact (Hg Hcl)]]; apply eq64_eq; lia)
                         | (rewrite (mz_add_other _ MMiss _ MHit) by discriminate;
                            eapply eq64_trans; [apply eq64_add; [apply eq64_refl|apply mz_add_same; exact Hon]|];
                            eapply eq64_trans; [|apply eq64_add; [apply eq64_refl|exact (Hg Hcl)]]; apply eq64_eq; lia) ] ].
  all: try solve [ log_counts; rewrite ?mz_add_other by discriminate; rewrite ?N2Z.inj_add; simpl; lia ].
  (* a Set with a negative ttl is not a drop *)
  all: try solve [ intros Hcl; log_counts;
                   match goal with Hn : (?t <? 0) = true |- _ => apply Z.ltb_lt in Hn;
                     destruct (Z.leb_spec 0 t); [lia|] end; exact (Hd Hcl) ].
  (* a drop *)
  all: try solve [ intros Hcl; log_counts; destruct (Z.leb_spec 0 ttl0); [|lia];
                   eapply eq64_trans; [apply mz_add_same; exact Hon|];
                   eapply eq64_trans; [apply eq64_add; [exact (Hd Hcl)|apply eq64_refl]|]; apply eq64_eq; simpl; lia ].
  (* Clear: policy.Clear enters the window *)
  all: try solve [ intros Hw; exfalso; apply Hw; match goal with Hpc : th_pc _ ?tid = _ |- _ => exists tid end;
                   rewrite th_pc_insert, decide_True by auto; exact I ].
  (* Clear: Metrics.Clear leaves it: everything is zero *)
  all: try solve [ intros _;
                   match goal with Hpc : th_pc _ ?tid = CClr ClrMetrics _ |- _ =>
                     destruct (Hstg ltac:(exists tid; rewrite Hpc; exact I)) as [HP0 HU0];
                     destruct (th_lookup_pc _ _ _ Hpc ltac:(discriminate)) as (t0 & Hl0 & Hpc0);
                     destruct (ci_exited _ Hclr _ _ Hl0 ltac:(rewrite Hpc0; simpl; split; discriminate)) as [Hax _]
                   end;
                   unfold KQ, CQ; rewrite ?mz_clear, ?Hax, ?HP0, ?HU0, ?map_size_empty; apply eq64_eq; simpl; lia ].
  all: try solve [ intros _; simpl; rewrite ?mz_clear; apply eq64_eq; reflexivity ].
  all: try solve [ rewrite !mz_clear; rewrite count_cons; simpl;
                   pose proof (mz_nonneg (s_met s) MKeepGets); pose proof (mz_nonneg (s_met s) MDropGets); lia ].
  (* delivering a callback *)
  all: try solve [ intros Hw; first [apply Hk | apply Hc]; intros Hw'; apply Hw;
                   eapply in_window_insert_fwd; [|exact Hw']; simpl; tauto ].
  (* policy operations of the applier *)
  all: try solve [ rewrite L7; exact Hon ].
  all: try solve [ intros Hw; eapply keys_step; [exact L1| |exact HK|exact (Hk Hw)]; simpl; lia ].
  all: try solve [ intros Hw; eapply eq64_trans; [exact HC|exact (Hc Hw)] ].
  all: try solve [ intros Hcl; rewrite ?L2, ?L3, ?L4; first [exact (Hg Hcl) | exact (Hd Hcl)] ].
  all: try solve [ rewrite L5, L6; exact Hr ].
  (* store.Set: KeysAdded is bumped *)
  all: try solve [ intros Hw; unfold KQ, CQ; rewrite ?mz_add_other by discriminate;
                   first [ (eapply eq64_trans; [apply eq64_add; [apply mz_add_same; exact Hon|apply eq64_refl]|];
                            specialize (Hk Hw); simpl in Hk; simpl; eapply eq64_trans; [|exact Hk]; apply eq64_eq; lia)
                         | exact (Hc Hw) ] ].
  (* ring buffer batches *)
  all: try solve [ intros Hw; unfold KQ, CQ; rewrite ?mz_add_other by discriminate; first [exact (Hk Hw) | exact (Hc Hw)] ].
  all: try solve [ intros Hw; eapply (keys_step _ _ _ _ _ _ 0); [exact L1| |rewrite Z.add_0_r; exact HK|exact (Hk Hw)]; simpl; lia ].
  all: try solve [ match goal with Hn : (_ <? ?n)%N = false |- _ => apply N.ltb_ge in Hn;
                     first [ (pose proof (mz_add_le (s_met s) MKeepGets n); rewrite (mz_add_other _ MKeepGets _ MDropGets) by discriminate)
                           | (pose proof (mz_add_le (s_met s) MDropGets n); rewrite (mz_add_other _ MDropGets _ MKeepGets) by discriminate) ];
                     lia end ].
  - intros Hw. specialize (Hk Hw). simpl in Hk. unfold KQ in *. rewrite (mz_add_other _ MKeyAdd _ MKeyEvict) by discriminate.
    simpl pend_add. rewrite Z.add_0_r. eapply eq64_trans; [apply mz_add_same; exact Hon|]. exact Hk.
Qed.

Record minv (s : state) : Prop := {
  mv_clr : clr_inv s; mv_stg : stg_inv s; mv_opk : opk_inv s; mv_met : met_inv s
}.

Lemma init_minv maxCost bdur now : minv (init_state maxCost bdur now true).
Proof.
  constructor.
  - apply init_clr.
  - intros (tid & H). unfold th_pc in H. simpl in H. try rewrite lookup_empty in H. exact H || destruct H.
  - intros tid t o H. simpl in H. rewrite lookup_empty in H. discriminate.
  - constructor; simpl; try reflexivity; try (intros; apply eq64_eq; reflexivity); try lia.
Qed.

Theorem reachable_minv c maxCost bdur now sched : minv (mrun c (init_state maxCost bdur now true) sched).
Proof.
  apply (mrun_invariant c minv).
  - intros s l s' [H1 H2 H3 H4] H. constructor.
    + eapply step_clr; eauto.
    + eapply step_stg; eauto.
    + eapply step_opk; eauto.
    + eapply step_met; eauto.
  - apply init_minv.
Qed.

Lemma quiescent_no_window s : quiescent s -> ~ in_window (s_threads s).
Proof. intros Hq (tid & Hw). rewrite quiescent_th_pc in Hw by auto. exact Hw. Qed.
