(* Invariants of the cache machine (Machine.v), proved for every schedule. *)
From stdpp Require Import gmap.
From Ristretto Require Import Base.Word Cache.Policy Cache.PolicyProofs Cache.Store Cache.Machine.
Local Open Scope Z_scope.

(* ---------- generic: invariants lift to every schedule ---------- *)
Lemma mrun_invariant (c : cfg) (P : state -> Prop) :
  (forall s l s', P s -> mstep c s l = Some s' -> P s') ->
  forall sched s, P s -> P (mrun c s sched).
Proof.
  intros Hstep sched. induction sched as [|l sched IH]; intros s Hs; [exact Hs|].
  simpl. apply IH. unfold step_skip. destruct (mstep c s l) eqn:E; simpl; eauto.
Qed.

(* projections of the state updaters *)
Ltac msimpl :=
  cbn [s_store s_em s_pol s_met s_est s_buf s_now s_closed s_chan_closed s_markers s_next_marker s_threads
       s_apc s_apend s_gets s_panic s_log
       with_log with_thread with_store with_pol with_buf with_app with_markers with_misc with_closed
       ret goto_pc] in *.

(* case analysis of one machine step: leaves one goal per atomic action of the code *)
Ltac step_cases H :=
  unfold mstep, client_step, app_step, start_call, try_send in H;
  repeat (case_match; simplify_eq; try discriminate);
  msimpl.

(* ---------- C03: used = sum of the accounted costs, in every reachable state ---------- *)
Lemma step_pol_ok c s l s' : pol_ok (s_pol s) -> mstep c s l = Some s' -> pol_ok (s_pol s').
Proof.
  intros Hok H. step_cases H; auto using pol_clear_ok, pol_set_max_ok.
  all: try (match goal with
            | E : pol_add _ _ _ _ _ _ = AddOk _ _ _ _ _ _ |- _ =>
                exact (proj1 (pol_add_spec _ _ _ _ _ _ _ _ _ _ _ _ E Hok))
            end).
  all: try (match goal with
            | E : pol_update ?p ?m ?k ?x = (_, _) |- _ =>
                let H := fresh in pose proof (pol_update_ok p m k x Hok) as H; rewrite E in H; exact H
            | E : pol_del ?p ?m ?k = (_, _) |- _ =>
                let H := fresh in pose proof (pol_del_ok p m k Hok) as H; rewrite E in H; exact H
            end).
Qed.

Theorem reachable_pol_ok c maxCost bdur now mon sched :
  pol_ok (s_pol (mrun c (init_state maxCost bdur now mon) sched)).
Proof.
  apply (mrun_invariant c (fun s => pol_ok (s_pol s))).
  - intros s l s' Hs H. eapply step_pol_ok; eauto.
  - apply pol_new_ok.
Qed.

(* ================================================================================================
   Provenance (C01, C07): every (key, conflict, value, expiration) held anywhere in the cache was supplied by
   a logged Set call for that very key, the expiration being that call's time plus its ttl.
   ================================================================================================ *)
From Ristretto Require Import Cache.StoreProofs.

Definition exp_of (t ttl : Z) : Z := if ttl =? 0 then 0 else t + ttl.

Definition supplied (log : list event) (k cf v : N) (exp : Z) : Prop :=
  exists tid cost ttl t, In (ECall tid (OSet k cf v cost ttl) t) log /\ 0 <= ttl /\ exp = exp_of t ttl.

Lemma supplied_cons log e k cf v exp : supplied log k cf v exp -> supplied (e :: log) k cf v exp.
Proof. intros (tid & cost & ttl & t & H & H1 & H2). exists tid, cost, ttl, t. split; [now right|auto]. Qed.

Definition item_ok (log : list event) (i : item) : Prop :=
  it_wait i = None -> it_flag i <> FDel -> supplied log (it_key i) (it_conf i) (it_val i) (it_exp i).

Definition item_sup (log : list event) (i : item) : Prop :=
  supplied log (it_key i) (it_conf i) (it_val i) (it_exp i).
Definition cpc_ok (log : list event) (pc : cpc) : Prop :=
  match pc with
  | CSetUpd i | CSetSend i => item_sup log i
  | _ => True
  end.
Definition apc_ok (log : list event) (a : apc) : Prop :=
  match a with
  | AGot i => it_flag i <> FDel -> item_sup log i
  | ANewSet i _ => item_sup log i
  | _ => True
  end.

(* what a logged return may say, relative to the log before it *)
Definition ev_ok (log : list event) (e : event) : Prop :=
  match e with
  | ERet tid (OGet k c) (RVal v true) =>
      (* the value was supplied by a Set of that very key (same hash, matching conflict) that had begun before,
         and the Get was called no later than the expiration instant fixed by that Set *)
      exists cf exp now rest, log = ECall tid (OGet k c) now :: rest /\
        (c = 0%N \/ c = cf) /\ supplied rest k cf v exp /\ (exp = 0 \/ now <= exp)
  | ERet _ (OGetTTL k c) (RTtl d true) =>
      d = 0 \/ exists tid cf v cost ttl t, In (ECall tid (OSet k cf v cost ttl) t) log /\ 0 < d <= ttl
  | _ => True
  end.
Fixpoint log_ok (log : list event) : Prop :=
  match log with
  | [] => True
  | e :: l => ev_ok l e /\ log_ok l
  end.

Definition times_ok (log : list event) (now : Z) : Prop :=
  forall tid o t, In (ECall tid o t) log -> 0 < t <= now.

Record prov_inv (s : state) : Prop := {
  pv_store : store_all (fun k it => supplied (s_log s) k (si_conf it) (si_val it) (si_exp it)) (s_store s);
  pv_buf : Forall (item_ok (s_log s)) (s_buf s);
  pv_threads : forall tid t, s_threads s !! tid = Some t -> cpc_ok (s_log s) (t_pc t);
  pv_apc : apc_ok (s_log s) (s_apc s);
  pv_log : log_ok (s_log s);
  pv_times : times_ok (s_log s) (s_now s);
  pv_pos : 0 < s_now s
}.

Lemma item_ok_cons log e i : item_ok log i -> item_ok (e :: log) i.
Proof. unfold item_ok. intros H H1 H2. apply supplied_cons. auto. Qed.
Lemma item_sup_cons log e i : item_sup log i -> item_sup (e :: log) i.
Proof. apply supplied_cons. Qed.
Lemma cpc_ok_cons log e pc : cpc_ok log pc -> cpc_ok (e :: log) pc.
Proof. destruct pc; simpl; auto using item_sup_cons. Qed.
Lemma apc_ok_cons log e a : apc_ok log a -> apc_ok (e :: log) a.
Proof. destruct a; simpl; auto using item_sup_cons. Qed.
Lemma store_prov_cons log e st :
  store_all (fun k it => supplied log k (si_conf it) (si_val it) (si_exp it)) st ->
  store_all (fun k it => supplied (e :: log) k (si_conf it) (si_val it) (si_exp it)) st.
Proof. intros H. eapply store_all_impl; [exact H|]. intros k it. apply supplied_cons. Qed.

Lemma item_ok_set_flag log i f : f <> FDel -> item_ok log i -> it_flag i <> FDel -> item_ok log (set_flag i f).
Proof. unfold item_ok; simpl. auto. Qed.
Lemma item_ok_set_cost log i z : item_ok log i -> item_ok log (set_cost i z).
Proof. unfold item_ok; simpl. auto. Qed.
Lemma item_ok_marker log id : item_ok log (marker id).
Proof. unfold item_ok; simpl. discriminate. Qed.
Lemma item_ok_tombstone log k c : item_ok log (tombstone k c).
Proof. unfold item_ok; simpl. congruence. Qed.

Lemma threads_ok_insert log (ths : gmap nat cthread) tid t :
  (forall tid' t', ths !! tid' = Some t' -> cpc_ok log (t_pc t')) -> cpc_ok log (t_pc t) ->
  forall tid' t', <[tid := t]> ths !! tid' = Some t' -> cpc_ok log (t_pc t').
Proof.
  intros H Ht tid' t' Hl. destruct (decide (tid' = tid)) as [->|Hne].
  - rewrite lookup_insert in Hl. now inversion Hl; subst.
  - rewrite lookup_insert_ne in Hl by auto. eauto.
Qed.

Lemma threads_ok_cons log e (ths : gmap nat cthread) :
  (forall tid' t', ths !! tid' = Some t' -> cpc_ok log (t_pc t')) ->
  forall tid' t', ths !! tid' = Some t' -> cpc_ok (e :: log) (t_pc t').
Proof. intros H tid' t' Hl. apply cpc_ok_cons. eauto. Qed.

Lemma get_thread_pc_ok s tid :
  (forall tid' t', s_threads s !! tid' = Some t' -> cpc_ok (s_log s) (t_pc t')) ->
  cpc_ok (s_log s) (t_pc (get_thread s tid)).
Proof.
  intros H. unfold get_thread. destruct (s_threads s !! tid) eqn:E; simpl; eauto.
Qed.

Lemma times_ok_cons log now e :
  times_ok log now -> (forall tid o t, e = ECall tid o t -> 0 < t <= now) -> times_ok (e :: log) now.
Proof. intros H He tid o t [->|Hin]; eauto. Qed.

Lemma Forall_item_cons log e l : Forall (item_ok log) l -> Forall (item_ok (e :: log)) l.
Proof. intros H. eapply List.Forall_impl; [|exact H]. intros i. apply item_ok_cons. Qed.

Ltac log_mono :=
  repeat first [ apply supplied_cons | apply store_prov_cons | apply Forall_item_cons | apply apc_ok_cons
               | apply cpc_ok_cons | apply item_sup_cons | apply item_ok_cons ].

Ltac solve_store Hst :=
  log_mono;
  first [ exact Hst
        | apply store_all_empty
        | match goal with
          | E : store_update _ _ _ _ _ _ _ _ = _ |- _ => eapply (store_update_all _ _ _ _ _ _ _ _ _ _ _ _ E); [exact Hst|]
          | E : store_set _ _ _ _ _ _ _ _ = _ |- _ => eapply (store_set_all _ _ _ _ _ _ _ _ _ _ _ E); [exact Hst|]
          | E : store_del _ _ _ _ _ = _ |- _ => eapply (store_del_all _ _ _ _ _ _ _ _ _ E); exact Hst
          | E : store_del_expired _ _ _ _ _ _ = _ |- _ => eapply (store_del_expired_all _ _ _ _ _ _ _ _ _ _ E); exact Hst
          end ].


Ltac solve_threads Hth Hgt :=
  first [ exact Hth
        | (apply threads_ok_insert; [ log_mono; exact Hth || (intros ? ? ?; log_mono; eauto) | ]) ].

Lemma threads_mono log log' (ths : gmap nat cthread) :
  (forall pc, cpc_ok log pc -> cpc_ok log' pc) ->
  (forall tid' t', ths !! tid' = Some t' -> cpc_ok log (t_pc t')) ->
  forall tid' t', ths !! tid' = Some t' -> cpc_ok log' (t_pc t').
Proof. intros Hm H tid' t' Hl. eauto. Qed.


Lemma ev_ok_get_hit s tid k c v :
  store_all (fun k it => supplied (s_log s) k (si_conf it) (si_val it) (si_exp it)) (s_store s) ->
  store_get (s_store s) (s_now s) k c = (v, true) ->
  ev_ok (ECall tid (OGet k c) (s_now s) :: s_log s) (ERet tid (OGet k c) (RVal v true)).
Proof.
  intros Hst Hg. apply store_get_hit in Hg. destruct Hg as (it & Hl & <- & Hc & He).
  simpl. exists (si_conf it), (si_exp it), (s_now s), (s_log s). split; [reflexivity|].
  split; [exact Hc|]. split; [eapply Hst; eauto|exact He].
Qed.

Lemma ev_ok_ttl s tid k :
  store_all (fun k it => supplied (s_log s) k (si_conf it) (si_val it) (si_exp it)) (s_store s) ->
  times_ok (s_log s) (s_now s) ->
  (store_expiration (s_store s) k =? 0) = false -> (store_expiration (s_store s) k <? s_now s) = false ->
  forall c, ev_ok (s_log s) (ERet tid (OGetTTL k c) (RTtl (store_expiration (s_store s) k - s_now s) true)).
Proof.
  intros Hst Htm H0 H1 c. simpl. unfold store_expiration in *.
  destruct (s_store s !! k) as [it|] eqn:E; [|discriminate].
  destruct (Hst _ _ E) as (tid' & cost & ttl & t & Hin & Httl & Hexp).
  apply Z.eqb_neq in H0. apply Z.ltb_ge in H1.
  destruct (Z.eq_dec (si_exp it - s_now s) 0) as [->|Hd]; [now left|right].
  exists tid', (si_conf it), (si_val it), cost, ttl, t. split; [exact Hin|].
  specialize (Htm _ _ _ Hin). unfold exp_of in Hexp.
  destruct (Z.eqb_spec ttl 0); lia.
Qed.

Lemma step_prov c s l s' : prov_inv s -> mstep c s l = Some s' -> prov_inv s'.
Proof.
  intros [Hst Hbuf Hth Hapc Hlog Htm Hpos] H.
  pose proof (fun tid => get_thread_pc_ok s tid Hth) as Hgt.
  step_cases H.
  all: try (match goal with
            | Hpc : t_pc (get_thread _ ?tid) = _ |- _ =>
                let Hx := fresh "Hx" in pose proof (Hgt tid) as Hx; rewrite Hpc in Hx; simpl in Hx
            end).
  all: try (match goal with Hb : Forall _ (_ :: _) |- _ => inversion Hb as [|? ? Hhd Htl]; subst end).
  all: simpl in Hapc.
  all: constructor; msimpl.
  all: repeat match goal with Hb : s_buf _ = _ |- context [s_buf _] => rewrite Hb end.
  all: repeat match goal with Ha : s_apc _ = _ |- context [s_apc _] => rewrite Ha end.
  (* store *)
  all: try solve [solve_store Hst; unfold item_sup in *; log_mono; assumption].
  (* buffer *)
  all: try solve [log_mono; first [exact Hbuf | assumption]].
  all: try solve [apply List.Forall_app; split; [log_mono; exact Hbuf|];
                  constructor; [|constructor];
                  first [apply item_ok_tombstone | apply item_ok_marker | (intros _ _; log_mono; assumption)]].
  (* applier pc *)
  all: try solve [log_mono; exact Hapc].
  all: try exact I.
  all: try solve [simpl; unfold item_sup in *; simpl; auto].
  (* threads *)
  all: try solve [ apply threads_ok_insert;
                   [ eapply threads_mono; [|exact Hth]; intros pc Hpc; log_mono; exact Hpc
                   | simpl; first [exact I | log_mono; assumption | (unfold item_sup in *; simpl; log_mono; assumption) ] ] ].
  all: try solve [ eapply threads_mono; [|exact Hth]; intros pc Hpc; log_mono; exact Hpc ].
  (* times *)
  all: try solve [ repeat (apply times_ok_cons; [|intros ? ? ? [=]; subst; lia]); exact Htm ].
  (* log *)
  all: try exact Hlog.
  all: try solve [ simpl; repeat split; try exact I; try exact Hlog ].
  all: try solve [ simpl; split; [|exact Hlog]; destruct o; simpl; auto;
                   match goal with |- context [RBool ?b] => destruct b end; auto ].
  (* a new Set call supplies its own item *)
  all: try solve [ apply threads_ok_insert;
                   [ eapply threads_mono; [|exact Hth]; intros pc Hpc; log_mono; exact Hpc |];
                   simpl; unfold item_sup; simpl;
                   eexists _, _, _, _; split; [left; reflexivity|]; split; [lia|]; unfold exp_of;
                   match goal with |- context [?a =? 0] => destruct (Z.eqb_spec a 0) end; try lia; reflexivity ].
  all: try solve [ simpl; split; [|split; [exact I|exact Hlog]]; eapply ev_ok_get_hit; eauto ].
  all: try solve [ simpl; split; [|exact Hlog]; apply ev_ok_ttl; assumption ].
  all: try solve [ apply threads_ok_insert; [ eapply threads_mono; [|exact Hth]; intros pc Hpc; log_mono; exact Hpc |];
                   simpl; log_mono; apply Hgt ].
  all: try solve [ intros tid' o' t' Hin; specialize (Htm _ _ _ Hin); lia ].
  all: try solve [ simpl; intros Hfl; apply Hhd; auto ].
  all: try solve [ simpl; apply Hapc; congruence ].
  all: try solve [ repeat match goal with Hd : (_ <? _) = false |- _ => apply Z.ltb_ge in Hd end; lia ].
  all: try solve [ intros tid' o' t' Hin; specialize (Htm _ _ _ Hin);
                   repeat match goal with Hd : (_ <? _) = false |- _ => apply Z.ltb_ge in Hd end; lia ].
Qed.

Lemma init_prov maxCost bdur now mon : 0 < now -> prov_inv (init_state maxCost bdur now mon).
Proof.
  intros Hpos. constructor; simpl; auto using store_all_empty.
  - intros tid t H. rewrite lookup_empty in H. discriminate.
  - intros tid o t [].
Qed.

Theorem reachable_prov c maxCost bdur now mon sched : 0 < now ->
  prov_inv (mrun c (init_state maxCost bdur now mon) sched).
Proof.
  intros Hpos. apply (mrun_invariant c prov_inv).
  - intros s l s' Hs H. eapply step_prov; eauto.
  - now apply init_prov.
Qed.

Lemma log_ok_split l1 e l2 : log_ok (l1 ++ e :: l2) -> ev_ok l2 e.
Proof. induction l1 as [|x l1 IH]; simpl; intros [H1 H2]; auto. Qed.
