(* Invariants of the cache machine (Machine.v), proved for every schedule. *)
From stdpp Require Import gmap.
From Ristretto Require Import Base.Word Cache.Policy Cache.PolicyProofs Cache.Store Cache.Machine.
Local Open Scope Z_scope.

(* ---------- generic: invariants lift to every schedule ---------- *)
Lemma mrun_invariant (c : cfg) (P : state -> Prop) :
  (forall s l s', P s -> mstep c s l = Some s' -> P s') ->
  forall sched s, P s -> P (mrun c s sched).
Proof.
  intros Hstep sched. induction sched as [|l sched IH]; intros s Hs; [exact Hs|].
  simpl. apply IH. unfold step_skip. destruct (mstep c s l) eqn:E; simpl; eauto.
Qed.

(* projections of the state updaters *)
Ltac msimpl :=
  cbn [s_store s_em s_pol s_met s_est s_buf s_now s_closed s_chan_closed s_markers s_next_marker s_threads
       s_apc s_apend s_gets s_panic s_log
       with_log with_thread with_store with_pol with_buf with_app with_markers with_misc with_closed
       ret goto_pc] in *.

(* case analysis of one machine step: leaves one goal per atomic action of the code *)
Ltac step_cases H :=
  unfold mstep, client_step, app_step, start_call, try_send in H;
  repeat (case_match; simplify_eq; try discriminate);
  msimpl.

(* ---------- C03: used = sum of the accounted costs, in every reachable state ---------- *)
Lemma step_pol_ok c s l s' : pol_ok (s_pol s) -> mstep c s l = Some s' -> pol_ok (s_pol s').
Proof.
  intros Hok H. step_cases H; auto using pol_clear_ok, pol_set_max_ok.
  all: try (match goal with
            | E : pol_add _ _ _ _ _ _ = AddOk _ _ _ _ _ _ |- _ =>
                exact (proj1 (pol_add_spec _ _ _ _ _ _ _ _ _ _ _ _ E Hok))
            end).
  all: try (match goal with
            | E : pol_update ?p ?m ?k ?x = (_, _) |- _ =>
                let H := fresh in pose proof (pol_update_ok p m k x Hok) as H; rewrite E in H; exact H
            | E : pol_del ?p ?m ?k = (_, _) |- _ =>
                let H := fresh in pose proof (pol_del_ok p m k Hok) as H; rewrite E in H; exact H
            end).
Qed.

Theorem reachable_pol_ok c maxCost bdur now mon sched :
  pol_ok (s_pol (mrun c (init_state maxCost bdur now mon) sched)).
Proof.
  apply (mrun_invariant c (fun s => pol_ok (s_pol s))).
  - intros s l s' Hs H. eapply step_pol_ok; eauto.
  - apply pol_new_ok.
Qed.
