(* Proofs about Policy.v: accounting (C03) and the TinyLFU / sampled-LFU discipline (C09). *)
From stdpp Require Import gmap.
From Ristretto Require Import Base.Word Cache.Policy.
Local Open Scope Z_scope.

(* ---------- sum of accounted costs ---------- *)
Lemma sum_costs_empty : sum_costs ∅ = 0.
Proof. apply map_fold_empty. Qed.

Lemma sum_costs_insert_new (m : gmap N Z) k c : m !! k = None -> sum_costs (<[k := c]> m) = c + sum_costs m.
Proof.
  intros H. unfold sum_costs. rewrite map_fold_insert_L; auto. intros; lia.
Qed.

Lemma sum_costs_delete (m : gmap N Z) k c : m !! k = Some c -> sum_costs (delete k m) = sum_costs m - c.
Proof.
  intros H. rewrite <- (insert_delete m k c H) at 2.
  rewrite sum_costs_insert_new by apply lookup_delete. lia.
Qed.

Lemma sum_costs_insert_upd (m : gmap N Z) k c prev :
  m !! k = Some prev -> sum_costs (<[k := c]> m) = sum_costs m + (c - prev).
Proof.
  intros H. rewrite <- insert_delete_insert.
  rewrite sum_costs_insert_new by apply lookup_delete.
  rewrite (sum_costs_delete m k prev H). lia.
Qed.

Lemma sum_costs_nonneg (m : gmap N Z) : (forall k c, m !! k = Some c -> 0 <= c) -> 0 <= sum_costs m.
Proof.
  induction m as [|k c m Hk IH] using map_ind; intros Hpos; [rewrite sum_costs_empty; lia|].
  rewrite sum_costs_insert_new by auto.
  assert (0 <= c) by (apply (Hpos k); apply lookup_insert).
  assert (0 <= sum_costs m); [|lia].
  apply IH. intros k' c' H'. apply (Hpos k'). rewrite lookup_insert_ne; auto. intros ->. congruence.
Qed.

Lemma sum_costs_subseteq (small big : gmap N Z) :
  small ⊆ big -> (forall k c, big !! k = Some c -> 0 <= c) -> sum_costs small <= sum_costs big.
Proof.
  revert big. induction small as [|k c small Hk IH] using map_ind; intros big Hsub Hpos.
  - rewrite sum_costs_empty. now apply sum_costs_nonneg.
  - rewrite sum_costs_insert_new by auto.
    assert (Hb : big !! k = Some c) by (eapply lookup_weaken; [apply lookup_insert|exact Hsub]).
    rewrite <- (insert_delete big k c Hb). rewrite sum_costs_insert_new by apply lookup_delete.
    assert (sum_costs small <= sum_costs (delete k big)); [|lia].
    apply IH.
    + apply map_subseteq_spec. intros k' c' H'.
      destruct (decide (k' = k)) as [->|Hne]; [congruence|].
      rewrite lookup_delete_ne by auto. eapply lookup_weaken; [|exact Hsub]. rewrite lookup_insert_ne; auto.
    + intros k' c' H'. apply (Hpos k'). apply lookup_delete_Some in H'. tauto.
Qed.

(* the policy's invariant: used is exactly the sum of the accounted costs *)
Definition pol_ok (p : policy) : Prop := p_used p = sum_costs (p_costs p).

Lemma pol_new_ok mx : pol_ok (pol_new mx).
Proof. unfold pol_ok, pol_new; simpl. now rewrite sum_costs_empty. Qed.

Lemma pol_clear_ok p : pol_ok (pol_clear p).
Proof. unfold pol_ok, pol_clear; simpl. now rewrite sum_costs_empty. Qed.

Lemma pol_set_max_ok p mx : pol_ok p -> pol_ok (pol_set_max p mx).
Proof. auto. Qed.

Lemma pol_del_ok p m k : pol_ok p -> pol_ok (pol_del p m k).1.
Proof.
  unfold pol_ok, pol_del. intros H. destruct (p_costs p !! k) eqn:E; simpl; auto.
  rewrite (sum_costs_delete _ _ _ E). lia.
Qed.

Lemma pol_insert_ok p k c : pol_ok p -> p_costs p !! k = None -> pol_ok (pol_insert p k c).
Proof.
  unfold pol_ok, pol_insert. intros H E; simpl. rewrite sum_costs_insert_new by auto. lia.
Qed.

Lemma pol_update_if_has_ok p m k c : pol_ok p -> pol_ok (pol_update_if_has p m k c).1.2.
Proof.
  unfold pol_ok, pol_update_if_has. intros H. destruct (p_costs p !! k) eqn:E; simpl; auto.
  rewrite (sum_costs_insert_upd _ _ _ _ E). lia.
Qed.

Lemma pol_update_ok p m k c : pol_ok p -> pol_ok (pol_update p m k c).1.
Proof.
  intros H. unfold pol_update.
  pose proof (pol_update_if_has_ok p m k c H) as H'.
  destruct (pol_update_if_has p m k c) as [[b p1] m1]. exact H'.
Qed.

Lemma pol_cap_spec p : pol_ok p -> pol_cap p = p_max p - sum_costs (p_costs p).
Proof. unfold pol_cap, pol_ok. intros ->. reflexivity. Qed.

(* ---------- pol_del / costs facts ---------- *)
Lemma pol_del_costs p m k : p_costs (pol_del p m k).1 = delete k (p_costs p).
Proof.
  unfold pol_del. destruct (p_costs p !! k) eqn:E; simpl; auto. symmetry. now apply delete_notin.
Qed.
Lemma pol_del_max p m k : p_max (pol_del p m k).1 = p_max p.
Proof. unfold pol_del. destruct (p_costs p !! k); reflexivity. Qed.

(* ---------- fill_sample / min_entry ---------- *)
Lemma fill_sample_length costs order sample :
  (length (fill_sample costs order sample) <= Nat.max lfu_sample (length sample))%nat.
Proof.
  revert sample; induction order as [|k rest IH]; intros sample; cbn [fill_sample].
  - destruct (lfu_sample <=? length sample)%nat; apply Nat.le_max_r.
  - destruct (lfu_sample <=? length sample)%nat eqn:E; [apply Nat.le_max_r|].
    apply Nat.leb_gt in E.
    destruct (costs !! k).
    + etrans; [apply IH|]. rewrite app_length. cbn [length]. unfold lfu_sample in *.
      rewrite (Nat.max_l 5 (length sample + 1)) by lia. apply Nat.le_max_l.
    + apply IH.
Qed.

Lemma fill_sample_elem costs order sample x :
  x ∈ fill_sample costs order sample -> x ∈ sample \/ costs !! x.1 = Some x.2.
Proof.
  revert sample; induction order as [|k rest IH]; intros sample; cbn [fill_sample].
  - destruct (lfu_sample <=? length sample)%nat; auto.
  - destruct (lfu_sample <=? length sample)%nat; auto.
    destruct (costs !! k) eqn:E; auto.
    intros H. apply IH in H. destruct H as [H|H]; auto.
    apply elem_of_app in H. destruct H as [H|H]; auto.
    apply elem_of_list_singleton in H. subst x. now right.
Qed.

Lemma fill_sample_keeps costs order sample x : x ∈ sample -> x ∈ fill_sample costs order sample.
Proof.
  revert sample; induction order as [|k rest IH]; intros sample H; cbn [fill_sample].
  - destruct (lfu_sample <=? length sample)%nat; auto.
  - destruct (lfu_sample <=? length sample)%nat; auto.
    destruct (costs !! k); auto. apply IH. apply elem_of_app. now left.
Qed.

(* min_entry returns an element of the list (or the incoming best) with the smallest estimate *)
Lemma min_entry_spec est s : forall i0 best r,
  min_entry est s i0 best = Some r ->
  (best = Some r \/ (i0 <= r.1.1.1)%nat /\ s !! (r.1.1.1 - i0)%nat = Some (r.1.1.2, r.1.2) /\ r.2 = est r.1.1.2) /\
  (forall x, x ∈ s -> r.2 <= est x.1) /\
  (forall b, best = Some b -> r.2 <= b.2).
Proof.
  induction s as [|[k c] rest IH]; intros i0 best r H; simpl in H.
  - subst best. split; [now left|]. split; [intros x Hx; inversion Hx|].
    intros b [= <-]. lia.
  - set (best' := match best with
                  | Some (_, _, _, bh) => if est k <? bh then Some (i0, k, c, est k) else best
                  | None => Some (i0, k, c, est k) end) in *.
    apply IH in H. destruct H as (Hsel & Hmin & Hbest).
    assert (Hk : r.2 <= est k).
    { subst best'. destruct best as [[[[bi bk] bc] bh]|].
      - destruct (Z.ltb_spec (est k) bh).
        + specialize (Hbest _ eq_refl). simpl in Hbest. lia.
        + specialize (Hbest _ eq_refl). simpl in Hbest. lia.
      - specialize (Hbest _ eq_refl). simpl in Hbest. lia. }
    split; [|split].
    + destruct Hsel as [Hsel|(Hi & Hl & Hh)].
      * subst best'. destruct best as [[[[bi bk] bc] bh]|].
        -- destruct (Z.ltb_spec (est k) bh).
           ++ inversion Hsel; subst r; simpl. right. split; [lia|]. rewrite Nat.sub_diag. auto.
           ++ now left.
        -- inversion Hsel; subst r; simpl. right. split; [lia|]. rewrite Nat.sub_diag. auto.
      * right. split; [lia|]. split; [|exact Hh].
        replace (r.1.1.1 - i0)%nat with (S (r.1.1.1 - S i0)) by lia. exact Hl.
    + intros x Hx. apply elem_of_cons in Hx. destruct Hx as [->|Hx]; [exact Hk|auto].
    + intros b ->. subst best'. destruct b as [[[bi bk] bc] bh].
      destruct (Z.ltb_spec (est k) bh).
      * specialize (Hbest _ eq_refl). simpl in *. lia.
      * specialize (Hbest _ eq_refl). simpl in *. lia.
Qed.

Lemma min_entry_none est s i0 : min_entry est s i0 None = None -> s = [].
Proof.
  destruct s as [|[k c] rest]; auto. simpl. intros H. exfalso.
  assert (G : forall l i b, min_entry est l i (Some b) <> None).
  { induction l as [|[k' c'] l IHl]; intros i b; simpl; [discriminate|].
    destruct b as [[[bi bk] bc] bh]. destruct (est k' <? bh); apply IHl. }
  exact (G _ _ _ H).
Qed.

Lemma remove_swap_elem {A} (s : list A) i x : x ∈ remove_swap s i -> x ∈ s.
Proof.
  unfold remove_swap. destruct (s !! (length s - 1)%nat) as [l|] eqn:E; auto.
  intros H. apply elem_of_take in H. destruct H as (j & Hj & _).
  destruct (decide (i = j)) as [->|Hne].
  - destruct (decide (j < length s)%nat).
    + rewrite list_lookup_insert in Hj by lia. inversion Hj; subst. eapply elem_of_list_lookup_2; eauto.
    + rewrite list_insert_ge in Hj by lia. eapply elem_of_list_lookup_2; eauto.
  - rewrite list_lookup_insert_ne in Hj by auto. eapply elem_of_list_lookup_2; eauto.
Qed.

Lemma remove_swap_length {A} (s : list A) i : (length (remove_swap s i) <= length s)%nat.
Proof.
  unfold remove_swap. destruct (s !! (length s - 1)%nat); auto.
  rewrite take_length, insert_length. lia.
Qed.

(* ---------- the eviction loop ---------- *)
(* what holds of every round: the victim belongs to the (at most 5) sampled candidates, has the smallest
   estimate among them, and that estimate does not exceed the newcomer's *)
Definition round_ok (est : N -> Z) (inc : Z) (dom0 : gmap N Z) (r : round) : Prop :=
  rd_victim r ∈ rd_sample r /\
  rd_hits r = est (rd_victim r).1 /\
  (forall x, x ∈ rd_sample r -> est (rd_victim r).1 <= est x.1) /\
  est (rd_victim r).1 <= inc /\
  (length (rd_sample r) <= lfu_sample)%nat /\
  (forall x, x ∈ rd_sample r -> is_Some (dom0 !! x.1)).

(* what the loop guarantees about its result, for every map order and every estimate function *)
Record loop_post (est : N -> Z) (inc : Z) (dom0 : gmap N Z) (key : N) (cost : Z) (p : policy)
    (res_v : list (N * Z)) (res_a : bool) (res_p : policy) (res_r : list round)
    (res_j : option (list (N * Z) * Z)) : Prop := {
  lp_ok : pol_ok res_p;
  lp_max : p_max res_p = p_max p;
  lp_rounds : Forall (round_ok est inc dom0) res_r;
  lp_victims : res_v = map rd_victim res_r;
  lp_added : res_a = true ->
     res_j = None /\ p_used res_p <= p_max res_p /\ p_costs res_p !! key = Some cost /\
     delete key (p_costs res_p) ⊆ p_costs p;
  lp_rejected : res_a = false ->
     p_costs res_p ⊆ p_costs p /\
     exists smp mh, res_j = Some (smp, mh) /\
       (smp = [] \/ (inc < mh /\ (exists x, x ∈ smp /\ mh = est x.1) /\ (forall x, x ∈ smp -> mh <= est x.1))) /\
       (length smp <= lfu_sample)%nat /\ (forall x, x ∈ smp -> is_Some (dom0 !! x.1))
}.

Lemma add_loop_spec fuel : forall orders est key cost inc p m sample victims rounds dom0
    res_v res_a res_p res_m res_r res_j,
  add_loop fuel orders est key cost inc p m sample victims rounds = AddOk res_v res_a res_p res_m res_r res_j ->
  pol_ok p -> p_costs p !! key = None -> p_costs p ⊆ dom0 ->
  (forall x, x ∈ sample -> is_Some (dom0 !! x.1)) -> (length sample <= lfu_sample)%nat ->
  Forall (round_ok est inc dom0) rounds -> victims = map rd_victim rounds ->
  loop_post est inc dom0 key cost p res_v res_a res_p res_r res_j.
Proof.
  assert (Hexit : forall est key cost inc p m victims rounds dom0 res_v res_a res_p res_m res_r res_j,
    0 <= room_left p cost ->
    AddOk victims true (pol_insert p key cost) (m_add m MCostAdd (z2u64 cost)) rounds None
      = AddOk res_v res_a res_p res_m res_r res_j ->
    pol_ok p -> p_costs p !! key = None ->
    Forall (round_ok est inc dom0) rounds -> victims = map rd_victim rounds ->
    loop_post est inc dom0 key cost p res_v res_a res_p res_r res_j).
  { intros est key cost inc p m victims rounds dom0 res_v res_a res_p res_m res_r res_j
      Hroom Heq Hok Hkey Hrounds Hvict. inversion Heq; subst; clear Heq.
    constructor; auto.
    - now apply pol_insert_ok.
    - intros _. unfold pol_insert, room_left in *; simpl. split; [reflexivity|]. split; [lia|].
      split; [apply lookup_insert|]. rewrite delete_insert by exact Hkey. reflexivity.
    - discriminate. }
  induction fuel as [|fuel IH]; intros orders est key cost inc p m sample victims rounds dom0
    res_v res_a res_p res_m res_r res_j Hrun Hok Hkey Hsub Hsmp Hlen Hrounds Hvict; simpl in Hrun.
  - destruct (Z.leb_spec 0 (room_left p cost)) as [Hroom|Hroom]; [|discriminate]. eapply Hexit; eauto.
  - destruct (Z.leb_spec 0 (room_left p cost)) as [Hroom|Hroom]; [eapply Hexit; eauto|].
    set (order := match orders with o :: _ => o | [] => (map_to_list (p_costs p)).*1 end) in *.
    set (sample1 := fill_sample (p_costs p) order sample) in *.
    assert (Hs1 : forall x, x ∈ sample1 -> is_Some (dom0 !! x.1)).
    { intros x Hx. apply fill_sample_elem in Hx. destruct Hx as [Hx|Hx]; auto.
      exists x.2. eapply lookup_weaken; eauto. }
    assert (Hl1 : (length sample1 <= lfu_sample)%nat).
    { subst sample1. etrans; [apply fill_sample_length|]. lia. }
    destruct (min_entry est sample1 0 None) as [[[[i mk] mc] mh]|] eqn:Emin.
    + pose proof (min_entry_spec est sample1 0 None _ Emin) as (Hsel & Hmin & _). simpl in *.
      destruct Hsel as [Hsel|(_ & Hl & Hh)]; [discriminate|].
      rewrite Nat.sub_0_r in Hl.
      assert (Hin : (mk, mc) ∈ sample1) by (eapply elem_of_list_lookup_2; eauto).
      destruct (Z.ltb_spec inc mh) as [Hrej|Hacc].
      * inversion Hrun; subst; clear Hrun. constructor; auto.
        -- discriminate.
        -- intros _. split; [reflexivity|]. exists sample1, (est mk). split; [reflexivity|].
           split; [right; split; [exact Hrej|]; split; [exists (mk, mc); auto|exact Hmin]|]. split; auto.
      * destruct (pol_del p m mk) as [p' m'] eqn:Edel.
        assert (Hp' : p' = (pol_del p m mk).1) by now rewrite Edel.
        eapply IH in Hrun.
        -- destruct Hrun as [R1 R2 R3 R4 R5 R6]. constructor.
           ++ exact R1.
           ++ rewrite R2, Hp'. apply pol_del_max.
           ++ exact R3.
           ++ exact R4.
           ++ intros Ha. destruct (R5 Ha) as (J1 & J2 & J3 & J4). repeat split; auto.
              etrans; [exact J4|]. rewrite Hp', pol_del_costs. apply delete_subseteq.
           ++ intros Ha. destruct (R6 Ha) as (J1 & J2). split; auto.
              etrans; [exact J1|]. rewrite Hp', pol_del_costs. apply delete_subseteq.
        -- rewrite Hp'. now apply pol_del_ok.
        -- rewrite Hp', pol_del_costs. apply lookup_delete_None. now right.
        -- rewrite Hp', pol_del_costs. etrans; [apply delete_subseteq|exact Hsub].
        -- intros x Hx. apply remove_swap_elem in Hx. auto.
        -- etrans; [apply remove_swap_length|exact Hl1].
        -- apply Forall_app. split; [exact Hrounds|]. constructor; [|constructor].
           unfold round_ok; cbn [rd_sample rd_victim rd_hits fst snd]. subst mh.
           split; [exact Hin|]. split; [reflexivity|]. split; [exact Hmin|]. split; [lia|]. split; [exact Hl1|exact Hs1].
        -- rewrite map_app. simpl. now rewrite Hvict.
    + apply min_entry_none in Emin. inversion Hrun; subst; clear Hrun. constructor; auto.
      * discriminate.
      * intros _. split; [reflexivity|]. exists sample1, 9223372036854775807. split; [reflexivity|].
        split; [now left|]. split; auto.
Qed.

(* ---------- defaultPolicy.Add ---------- *)
Theorem pol_add_spec orders est p m key cost vs added p' m' rounds rej :
  pol_add orders est p m key cost = AddOk vs added p' m' rounds rej -> pol_ok p ->
  pol_ok p' /\ p_max p' = p_max p /\
  Forall (round_ok est (est key) (p_costs p)) rounds /\ vs = map rd_victim rounds /\
  (added = true ->
     p_costs p !! key = None /\ cost <= p_max p /\ p_used p' <= p_max p' /\
     p_costs p' !! key = Some cost /\ delete key (p_costs p') ⊆ p_costs p) /\
  (added = false ->
     (p_max p < cost /\ p' = p /\ vs = []) \/
     (is_Some (p_costs p !! key) /\ vs = [] /\ p_costs p' = <[key := cost]> (p_costs p)) \/
     (p_costs p !! key = None /\ cost <= p_max p /\ p_costs p' ⊆ p_costs p /\
      exists smp mh, rej = Some (smp, mh) /\
        (smp = [] \/ (est key < mh /\ (exists x, x ∈ smp /\ mh = est x.1) /\ (forall x, x ∈ smp -> mh <= est x.1))) /\
        (length smp <= lfu_sample)%nat /\ (forall x, x ∈ smp -> is_Some (p_costs p !! x.1)))).
Proof.
  unfold pol_add. intros Hrun Hok.
  destruct (Z.ltb_spec (p_max p) cost) as [Hbig|Hfit].
  { inversion Hrun; subst. split; [exact Hok|]. split; [reflexivity|]. split; [constructor|].
    split; [reflexivity|]. split; [discriminate|]. intros _. left. auto. }
  destruct (pol_update_if_has p m key cost) as [[has p1] m1] eqn:Eu.
  unfold pol_update_if_has in Eu.
  destruct (p_costs p !! key) as [prev|] eqn:Ek.
  - inversion Eu; subst; clear Eu. inversion Hrun; subst; clear Hrun.
    split.
    { pose proof (pol_update_if_has_ok p m key cost Hok) as H. unfold pol_update_if_has in H.
      rewrite Ek in H. exact H. }
    split; [reflexivity|]. split; [constructor|]. split; [reflexivity|]. split; [discriminate|].
    intros _. right; left. split; [eauto|]. split; reflexivity.
  - inversion Eu; subst; clear Eu.
    pose proof (add_loop_spec _ _ _ _ _ _ _ _ _ _ _ (p_costs p1) _ _ _ _ _ _ Hrun Hok Ek
                  (reflexivity _) ltac:(intros x Hx; inversion Hx) ltac:(simpl; lia)
                  (Forall_nil_2 _) eq_refl) as [R1 R2 R3 R4 R5 R6].
    split; [exact R1|]. split; [exact R2|]. split; [exact R3|]. split; [exact R4|]. split.
    + intros Ha. destruct (R5 Ha) as (_ & J2 & J3 & J4). repeat split; auto.
    + intros Ha. destruct (R6 Ha) as (J1 & smp & mh & J2 & J3 & J4 & J5).
      right; right. repeat split; auto. exists smp, mh. repeat split; auto.
Qed.

(* a new item that fits is admitted without evicting anything, and nothing else changes *)
Theorem pol_add_fits orders est p m key cost :
  cost <= p_max p -> p_costs p !! key = None -> p_used p + cost <= p_max p ->
  pol_add orders est p m key cost =
    AddOk [] true (pol_insert p key cost) (m_add m MCostAdd (z2u64 cost)) [] None.
Proof.
  intros Hc Hk Hroom. unfold pol_add.
  destruct (Z.ltb_spec (p_max p) cost); [lia|].
  unfold pol_update_if_has. rewrite Hk.
  unfold add_fuel. destruct (6 * (size (p_costs p) + 1))%nat; simpl;
    unfold room_left; destruct (Z.leb_spec 0 (p_max p - (p_used p + cost))); try lia; reflexivity.
Qed.

(* RemainingCost stays non-negative as long as no step raises the cost of an accounted key and the capacity
   is not lowered: stated on single policy operations (the machine-level statement is in Properties/C03.v) *)
Lemma pol_add_cap_nonneg orders est p m key cost vs added p' m' rounds rej :
  pol_add orders est p m key cost = AddOk vs added p' m' rounds rej -> pol_ok p ->
  0 <= pol_cap p -> (forall prev, p_costs p !! key = Some prev -> cost <= prev) ->
  (forall k c, p_costs p !! k = Some c -> 0 <= c) ->
  0 <= pol_cap p'.
Proof.
  intros Hrun Hok Hcap Hnoraise Hpos.
  destruct (pol_add_spec _ _ _ _ _ _ _ _ _ _ _ _ Hrun Hok) as (Hok' & Hmax & _ & _ & Hadd & Hrej).
  unfold pol_cap in *. destruct added.
  - destruct (Hadd eq_refl) as (_ & _ & Hu & _). lia.
  - destruct (Hrej eq_refl) as [(Hbig & -> & _)|[(Hhas & _ & Hc)|(Hk & _ & Hsub & _)]]; auto.
    + destruct Hhas as [prev Hprev]. unfold pol_ok in *. rewrite Hmax, Hok', Hc.
      rewrite (sum_costs_insert_upd _ _ _ _ Hprev). specialize (Hnoraise _ Hprev). lia.
    + (* some victims were deleted, then rejected: used only went down *)
      unfold pol_ok in *. rewrite Hmax, Hok'.
      pose proof (sum_costs_subseteq _ _ Hsub Hpos).
      lia.
Qed.

(* the victim list only grows during the loop *)
Lemma add_loop_victims_grow est key cost inc f : forall o pp mm s v r rv ra rp rm rr rj x,
  add_loop f o est key cost inc pp mm s v r = AddOk rv ra rp rm rr rj -> x ∈ v.*1 -> x ∈ rv.*1.
Proof.
  induction f as [|f IHf]; intros o pp mm s v r rv ra rp rm rr rj x Hr Hx; simpl in Hr.
  - destruct (0 <=? room_left pp cost); [|discriminate]. now inversion Hr; subst.
  - destruct (0 <=? room_left pp cost); [now inversion Hr; subst|].
    destruct (min_entry est _ 0 None) as [[[[i' mk'] mc'] mh']|]; [|now inversion Hr; subst].
    destruct (inc <? mh'); [now inversion Hr; subst|].
    destruct (pol_del pp mm mk') as [pp' mm'].
    eapply IHf; [exact Hr|]. rewrite fmap_app. apply elem_of_app. now left.
Qed.

(* every key that leaves the key-cost map during Add is reported as a victim *)
Lemma add_loop_removed fuel : forall orders est key cost inc p m sample victims rounds
    res_v res_a res_p res_m res_r res_j k' c',
  add_loop fuel orders est key cost inc p m sample victims rounds = AddOk res_v res_a res_p res_m res_r res_j ->
  p_costs p !! k' = Some c' -> k' <> key ->
  p_costs res_p !! k' = Some c' \/ k' ∈ res_v.*1.
Proof.
  induction fuel as [|fuel IH]; intros orders est key cost inc p m sample victims rounds
    res_v res_a res_p res_m res_r res_j k' c' Hrun Hk Hne; simpl in Hrun.
  - destruct (0 <=? room_left p cost); [|discriminate]. inversion Hrun; subst.
    left. unfold pol_insert; simpl. rewrite lookup_insert_ne; auto.
  - destruct (0 <=? room_left p cost).
    { inversion Hrun; subst. left. unfold pol_insert; simpl. rewrite lookup_insert_ne; auto. }
    destruct (min_entry est _ 0 None) as [[[[i mk] mc] mh]|].
    + destruct (inc <? mh); [inversion Hrun; subst; now left|].
      destruct (pol_del p m mk) as [p' m'] eqn:Edel.
      assert (Hp' : p_costs p' = delete mk (p_costs p)).
      { pose proof (pol_del_costs p m mk) as H. now rewrite Edel in H. }
      destruct (decide (k' = mk)) as [->|Hmk].
      * right. eapply add_loop_victims_grow; [exact Hrun|].
        rewrite fmap_app. apply elem_of_app. right. simpl. apply elem_of_list_singleton. reflexivity.
      * eapply IH; [exact Hrun| |exact Hne]. rewrite Hp'. rewrite lookup_delete_ne; auto.
    + inversion Hrun; subst. now left.
Qed.

Lemma pol_add_removed orders est p m key cost vs added p' m' rounds rej k' c' :
  pol_add orders est p m key cost = AddOk vs added p' m' rounds rej ->
  p_costs p !! k' = Some c' -> k' <> key -> p_costs p' !! k' = Some c' \/ k' ∈ vs.*1.
Proof.
  unfold pol_add. intros Hrun Hk Hne.
  destruct (p_max p <? cost); [inversion Hrun; subst; now left|].
  unfold pol_update_if_has in Hrun. destruct (p_costs p !! key) eqn:E.
  - inversion Hrun; subst. left. simpl. rewrite lookup_insert_ne; auto.
  - eapply add_loop_removed; eauto.
Qed.

(* apart from the newcomer, Add only deletes from the key-cost map *)
Lemma add_loop_sub fuel : forall orders est key cost inc p m sample victims rounds
    res_v res_a res_p res_m res_r res_j,
  add_loop fuel orders est key cost inc p m sample victims rounds = AddOk res_v res_a res_p res_m res_r res_j ->
  delete key (p_costs res_p) ⊆ p_costs p.
Proof.
  induction fuel as [|fuel IH]; intros orders est key cost inc p m sample victims rounds
    res_v res_a res_p res_m res_r res_j Hrun; simpl in Hrun.
  - destruct (0 <=? room_left p cost); [|discriminate]. inversion Hrun; subst.
    unfold pol_insert; simpl. rewrite delete_insert_delete. apply delete_subseteq.
  - destruct (0 <=? room_left p cost).
    { inversion Hrun; subst. unfold pol_insert; simpl. rewrite delete_insert_delete. apply delete_subseteq. }
    destruct (min_entry est _ 0 None) as [[[[i mk] mc] mh]|]; [|inversion Hrun; subst; apply delete_subseteq].
    destruct (inc <? mh); [inversion Hrun; subst; apply delete_subseteq|].
    destruct (pol_del p m mk) as [p' m'] eqn:Edel.
    assert (Hp' : p_costs p' = delete mk (p_costs p)).
    { pose proof (pol_del_costs p m mk) as H. now rewrite Edel in H. }
    etrans; [eapply IH; exact Hrun|]. rewrite Hp'. apply delete_subseteq.
Qed.

(* victims are gone from the key-cost map when Add returns *)
Lemma add_loop_victims_gone fuel : forall orders est key cost inc p m sample victims rounds
    res_v res_a res_p res_m res_r res_j x,
  add_loop fuel orders est key cost inc p m sample victims rounds = AddOk res_v res_a res_p res_m res_r res_j ->
  x ∈ res_v.*1 -> x <> key -> x ∈ victims.*1 \/ p_costs res_p !! x = None.
Proof.
  induction fuel as [|fuel IH]; intros orders est key cost inc p m sample victims rounds
    res_v res_a res_p res_m res_r res_j x Hrun Hx Hne; simpl in Hrun.
  - destruct (0 <=? room_left p cost); [|discriminate]. inversion Hrun; subst. now left.
  - destruct (0 <=? room_left p cost); [inversion Hrun; subst; now left|].
    destruct (min_entry est _ 0 None) as [[[[i mk] mc] mh]|]; [|inversion Hrun; subst; now left].
    destruct (inc <? mh); [inversion Hrun; subst; now left|].
    destruct (pol_del p m mk) as [p' m'] eqn:Edel.
    assert (Hp' : p_costs p' = delete mk (p_costs p)).
    { pose proof (pol_del_costs p m mk) as H. now rewrite Edel in H. }
    destruct (IH _ _ _ _ _ _ _ _ _ _ _ _ _ _ _ _ _ Hrun Hx Hne) as [Hin|Hgone]; [|now right].
    rewrite fmap_app in Hin. apply elem_of_app in Hin. destruct Hin as [Hin|Hin]; [now left|].
    simpl in Hin. apply elem_of_list_singleton in Hin. subst x. right.
    pose proof (add_loop_sub _ _ _ _ _ _ _ _ _ _ _ _ _ _ _ _ _ Hrun) as Hsub.
    destruct (p_costs res_p !! mk) as [c0|] eqn:E; auto. exfalso.
    assert (Hd : delete key (p_costs res_p) !! mk = Some c0) by (rewrite lookup_delete_ne; auto).
    pose proof (lookup_weaken _ _ _ _ Hd Hsub) as Hw. rewrite Hp', lookup_delete in Hw. discriminate.
Qed.

Lemma pol_add_victims_gone orders est p m key cost vs added p' m' rounds rej x :
  pol_add orders est p m key cost = AddOk vs added p' m' rounds rej -> pol_ok p ->
  x ∈ vs.*1 -> x <> key /\ p_costs p' !! x = None.
Proof.
  intros Hrun Hok Hx.
  pose proof (pol_add_spec _ _ _ _ _ _ _ _ _ _ _ _ Hrun Hok) as (_ & _ & Hrounds & Hvs & _ & _).
  unfold pol_add in Hrun.
  destruct (p_max p <? cost); [inversion Hrun; subst; inversion Hx|].
  unfold pol_update_if_has in Hrun. destruct (p_costs p !! key) eqn:Ek; [inversion Hrun; subst; inversion Hx|].
  assert (Hne : x <> key).
  { subst vs. rewrite <- list_fmap_compose in Hx. apply elem_of_list_fmap in Hx. destruct Hx as (r & -> & Hr).
    rewrite List.Forall_forall in Hrounds. apply elem_of_list_In in Hr.
    destruct (Hrounds r Hr) as (Hin & _ & _ & _ & _ & Hdom).
    destruct (Hdom _ Hin) as [c0 Hc0]. simpl. intros E. rewrite E in Hc0. congruence. }
  split; [exact Hne|].
  destruct (add_loop_victims_gone _ _ _ _ _ _ _ _ _ _ _ _ _ _ _ _ _ _ Hrun Hx Hne) as [Hin|]; auto. inversion Hin.
Qed.

(* ================================================================================================
   Termination of the eviction loop: the fuel of pol_add is never exhausted
   ================================================================================================ *)
Local Open Scope nat_scope.
Definition stale (costs : gmap N Z) (s : list (N * Z)) : nat :=
  length (List.filter (fun x => bool_decide (costs !! x.1 = None)) s).

Lemma filter_length_perm' {A} (f : A -> bool) l1 l2 : l1 ≡ₚ l2 -> length (List.filter f l1) = length (List.filter f l2).
Proof.
  induction 1; simpl; auto.
  - destruct (f x); simpl; lia.
  - destruct (f x), (f y); simpl; lia.
  - lia.
Qed.

(* sample[i] = sample[last]; sample = sample[:last]  removes exactly the i-th element *)
Lemma remove_swap_perm {A} (s : list A) i x : s !! i = Some x -> remove_swap s i ≡ₚ delete i s.
Proof.
  intros Hi. unfold remove_swap.
  assert (Hlt : (i < length s)%nat) by (eapply lookup_lt_Some; eauto).
  destruct (s !! (length s - 1)%nat) as [l|] eqn:El.
  2: { apply lookup_ge_None in El. lia. }
  destruct (decide (i = length s - 1)%nat) as [->|Hne].
  - rewrite list_insert_id by exact El. rewrite delete_take_drop.
    rewrite (drop_ge s (S (length s - 1))) by lia. now rewrite app_nil_r.
  - rewrite take_insert_lt by lia.
    assert (Hs : s = take (length s - 1) s ++ [l]).
    { rewrite <- (take_drop_middle s (length s - 1) l El) at 1.
      rewrite (drop_ge s (S (length s - 1))) by lia. reflexivity. }
    set (t := take (length s - 1) s) in *.
    assert (Hti : t !! i = Some x).
    { subst t. rewrite lookup_take by lia. exact Hi. }
    assert (Htl : (i < length t)%nat) by (eapply lookup_lt_Some; eauto).
    clearbody t. rewrite Hs. rewrite delete_take_drop.
    rewrite take_app_le by lia. rewrite drop_app_le by lia.
    rewrite insert_take_drop by lia.
    apply Permutation_app_head. rewrite (Permutation_app_comm (drop (S i) t) [l]). reflexivity.
Qed.

Lemma stale_remove_swap costs (s : list (N * Z)) i x : s !! i = Some x ->
  stale costs (remove_swap s i) + (if bool_decide (costs !! x.1 = None) then 1 else 0) = stale costs s.
Proof.
  intros Hi. unfold stale. rewrite (filter_length_perm' _ _ _ (remove_swap_perm s i x Hi)).
  rewrite <- (take_drop_middle s i x Hi) at 2. rewrite delete_take_drop.
  rewrite !filter_app, !app_length. simpl. destruct (bool_decide (costs !! x.1 = None)); simpl; lia.
Qed.

Lemma stale_fill costs order s : stale costs (fill_sample costs order s) = stale costs s.
Proof.
  revert s; induction order as [|k rest IH]; intros s; cbn [fill_sample].
  - destruct (lfu_sample <=? length s)%nat; reflexivity.
  - destruct (lfu_sample <=? length s)%nat; [reflexivity|].
    destruct (costs !! k) eqn:E; [|apply IH].
    rewrite IH. unfold stale. rewrite filter_app, app_length. simpl.
    rewrite bool_decide_false by (rewrite E; discriminate). simpl. lia.
Qed.

Lemma stale_delete_le costs k (s : list (N * Z)) : stale (delete k costs) s <= stale costs s + length s.
Proof.
  unfold stale. induction s as [|x s IH]; simpl; [lia|].
  destruct (bool_decide (delete k costs !! x.1 = None)), (bool_decide (costs !! x.1 = None)); simpl; lia.
Qed.

Lemma stale_le_length costs (s : list (N * Z)) : stale costs s <= length s.
Proof. unfold stale. induction s as [|x s IH]; simpl; [lia|]. destruct (bool_decide _); simpl; lia. Qed.

Lemma remove_swap_length_lt {A} (s : list A) i x : s !! i = Some x -> length (remove_swap s i) = (length s - 1)%nat.
Proof.
  intros Hi. rewrite (Permutation_length (remove_swap_perm s i x Hi)).
  rewrite length_delete by eauto. reflexivity.
Qed.

Lemma add_loop_terminates fuel : forall orders est key cost inc p m sample victims rounds,
  (length sample <= lfu_sample)%nat ->
  (6 * size (p_costs p) + stale (p_costs p) sample < fuel)%nat ->
  add_loop fuel orders est key cost inc p m sample victims rounds <> AddOutOfFuel.
Proof.
  induction fuel as [|fuel IH]; intros orders est key cost inc p m sample victims rounds Hlen Hf; [lia|].
  simpl. destruct (0 <=? room_left p cost)%Z; [discriminate|].
  set (order := match orders with o :: _ => o | [] => (map_to_list (p_costs p)).*1 end).
  set (sample1 := fill_sample (p_costs p) order sample).
  assert (Hl1 : (length sample1 <= lfu_sample)%nat).
  { subst sample1. etrans; [apply fill_sample_length|]. lia. }
  assert (Hst1 : stale (p_costs p) sample1 = stale (p_costs p) sample) by apply stale_fill.
  destruct (min_entry est sample1 0 None) as [[[[i mk] mc] mh]|] eqn:Emin; [|discriminate].
  destruct (inc <? mh)%Z; [discriminate|].
  pose proof (min_entry_spec est sample1 0 None _ Emin) as (Hsel & _ & _). simpl in Hsel.
  destruct Hsel as [Hsel|(_ & Hi & _)]; [discriminate|]. rewrite Nat.sub_0_r in Hi.
  destruct (pol_del p m mk) as [p' m'] eqn:Edel.
  assert (Hp' : p_costs p' = delete mk (p_costs p)).
  { pose proof (pol_del_costs p m mk) as H. now rewrite Edel in H. }
  pose proof (stale_remove_swap (p_costs p) sample1 i (mk, mc) Hi) as Hrs. simpl in Hrs.
  pose proof (remove_swap_length_lt sample1 i (mk, mc) Hi) as Hrl.
  assert (Hpos : (0 < length sample1)%nat) by (apply lookup_lt_Some in Hi; lia).
  apply IH.
  - unfold lfu_sample in *. lia.
  - rewrite Hp'. destruct (p_costs p !! mk) as [c0|] eqn:Ek.
    + rewrite map_size_delete, Ek.
      assert (Hs : (0 < size (p_costs p))%nat).
      { destruct (size (p_costs p)) eqn:Es; [|lia]. apply map_size_empty_inv in Es. rewrite Es in Ek.
        rewrite lookup_empty in Ek. discriminate. }
      rewrite bool_decide_false in Hrs by discriminate.
      pose proof (stale_delete_le (p_costs p) mk (remove_swap sample1 i)). unfold lfu_sample in *. lia.
    + rewrite delete_notin by exact Ek. rewrite bool_decide_true in Hrs by reflexivity. lia.
Qed.

Theorem pol_add_terminates orders est p m key cost : pol_add orders est p m key cost <> AddOutOfFuel.
Proof.
  unfold pol_add. destruct (p_max p <? cost)%Z; [discriminate|].
  destruct (pol_update_if_has p m key cost) as [[has p1] m1] eqn:Eu. destruct has; [discriminate|].
  apply add_loop_terminates; [simpl; lia|]. unfold add_fuel, stale. simpl. lia.
Qed.

(* ---------- the number of victims of one Add is paid for by the keys it removes ---------- *)
Lemma map_size_insert_le (m : gmap N Z) k v : size (<[k := v]> m) <= S (size m).
Proof. destruct (m !! k) eqn:E; [rewrite map_size_insert_Some by eauto|rewrite map_size_insert_None by auto]; lia. Qed.

Lemma add_loop_bound fuel : forall orders est key cost inc p m sample victims rounds vs added p' m' r rej,
  (length sample <= lfu_sample)%nat ->
  add_loop fuel orders est key cost inc p m sample victims rounds = AddOk vs added p' m' r rej ->
  length vs + 6 * size (p_costs p') <= length victims + 6 * size (p_costs p) + stale (p_costs p) sample + 6.
Proof.
  induction fuel as [|fuel IH]; intros orders est key cost inc p m sample victims rounds vs added p' m' r rej Hlen Hrun.
  - simpl in Hrun. destruct (0 <=? room_left p cost)%Z; [|discriminate]. inversion Hrun; subst. simpl.
    pose proof (map_size_insert_le (p_costs p) key cost). lia.
  - simpl in Hrun. destruct (0 <=? room_left p cost)%Z.
    { inversion Hrun; subst. simpl. pose proof (map_size_insert_le (p_costs p) key cost). lia. }
    set (order := match orders with o :: _ => o | [] => (map_to_list (p_costs p)).*1 end) in *.
    set (sample1 := fill_sample (p_costs p) order sample) in *.
    assert (Hl1 : (length sample1 <= lfu_sample)%nat).
    { subst sample1. etrans; [apply fill_sample_length|]. lia. }
    assert (Hst1 : stale (p_costs p) sample1 = stale (p_costs p) sample) by apply stale_fill.
    destruct (min_entry est sample1 0 None) as [[[[i mk] mc] mh]|] eqn:Emin.
    2: { inversion Hrun; subst. lia. }
    destruct (inc <? mh)%Z; [inversion Hrun; subst; lia|].
    pose proof (min_entry_spec est sample1 0 None _ Emin) as (Hsel & _ & _). simpl in Hsel.
    destruct Hsel as [Hsel|(_ & Hi & _)]; [discriminate|]. rewrite Nat.sub_0_r in Hi.
    destruct (pol_del p m mk) as [p1 m1] eqn:Edel.
    assert (Hp1 : p_costs p1 = delete mk (p_costs p)).
    { pose proof (pol_del_costs p m mk) as H. now rewrite Edel in H. }
    pose proof (stale_remove_swap (p_costs p) sample1 i (mk, mc) Hi) as Hrs. simpl in Hrs.
    pose proof (remove_swap_length_lt sample1 i (mk, mc) Hi) as Hrl.
    assert (Hpos : (0 < length sample1)%nat) by (apply lookup_lt_Some in Hi; lia).
    apply IH in Hrun; [|unfold lfu_sample in *; lia].
    rewrite app_length in Hrun. simpl in Hrun. rewrite Hp1 in Hrun.
    destruct (p_costs p !! mk) as [c0|] eqn:Ek.
    + rewrite map_size_delete, Ek in Hrun.
      assert (Hs : (0 < size (p_costs p))%nat).
      { destruct (size (p_costs p)) eqn:Es; [|lia]. apply map_size_empty_inv in Es. rewrite Es in Ek.
        rewrite lookup_empty in Ek. discriminate. }
      rewrite bool_decide_false in Hrs by discriminate.
      pose proof (stale_delete_le (p_costs p) mk (remove_swap sample1 i)). unfold lfu_sample in *. lia.
    + rewrite delete_notin in Hrun by exact Ek. rewrite bool_decide_true in Hrs by reflexivity. lia.
Qed.

Theorem pol_add_bound orders est p m key cost vs added p' m' r rej :
  pol_add orders est p m key cost = AddOk vs added p' m' r rej ->
  length vs + 6 * size (p_costs p') <= 6 * size (p_costs p) + 6.
Proof.
  unfold pol_add. destruct (p_max p <? cost)%Z; [intros [= <- <- <- <- <- <-]; simpl; lia|].
  destruct (pol_update_if_has p m key cost) as [[has p1] m1] eqn:Eu. unfold pol_update_if_has in Eu.
  destruct (p_costs p !! key) eqn:Ek; inversion Eu; subst; clear Eu.
  - intros [= <- <- <- <- <- <-]. simpl. rewrite map_size_insert_Some by eauto. lia.
  - intros Hrun. apply add_loop_bound in Hrun; [|simpl; lia]. unfold stale in Hrun. simpl in Hrun. lia.
Qed.
