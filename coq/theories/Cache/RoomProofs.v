(* The "room to spare" regime of C06: when every key comes from a finite set K, every (effective) cost is at most B
   and |K| * B <= MaxCost, the policy never evicts and never rejects for lack of room. *)
From stdpp Require Import gmap.
From Ristretto Require Import Base.Word Cache.Policy Cache.PolicyProofs Cache.Store Cache.StoreProofs Cache.Machine
  Cache.MachineProofs Cache.SyncProofs Cache.DelProofs.
Local Open Scope Z_scope.

Lemma sum_costs_bound (m : gmap N Z) B : (forall k c, m !! k = Some c -> c <= B) -> sum_costs m <= Z.of_nat (size m) * B.
Proof.
  induction m as [|k c m Hk IH] using map_ind; intros H.
  - rewrite sum_costs_empty, map_size_empty. lia.
  - rewrite sum_costs_insert_new by exact Hk. rewrite map_size_insert_None by exact Hk.
    assert (c <= B) by (apply (H k); now rewrite lookup_insert).
    assert (sum_costs m <= Z.of_nat (size m) * B).
    { apply IH. intros k' c' Hl. apply (H k'). rewrite lookup_insert_ne; auto. intros ->. congruence. }
    lia.
Qed.

Lemma size_new_key (m : gmap N Z) (K : gset N) k :
  (forall k' c, m !! k' = Some c -> k' ∈ K) -> k ∈ K -> m !! k = None -> (size m + 1 <= size K)%nat.
Proof.
  intros Hd Hk Hn. rewrite <- (size_dom (D := gset N)).
  assert (Hsub : {[k]} ∪ dom m ⊆ K).
  { intros x Hx. apply elem_of_union in Hx as [Hx|Hx]; [apply elem_of_singleton in Hx; now subst|].
    apply elem_of_dom in Hx as [c Hc]. eauto. }
  apply subseteq_size in Hsub. rewrite size_union in Hsub.
  - rewrite size_singleton in Hsub. lia.
  - intros x Hx1 Hx2. apply elem_of_singleton in Hx1; subst. apply elem_of_dom in Hx2 as [c Hc]. congruence.
Qed.

Lemma pol_add_room orders est p m key cost :
  cost <= p_max p -> (p_costs p !! key = None -> p_used p + cost <= p_max p) ->
  exists added p' m', pol_add orders est p m key cost = AddOk [] added p' m' [] None /\
    p_costs p' = <[key := cost]> (p_costs p) /\ p_max p' = p_max p /\
    (added = true <-> p_costs p !! key = None).
Proof.
  intros Hc Hroom. destruct (p_costs p !! key) as [prev|] eqn:E.
  - unfold pol_add. destruct (Z.ltb_spec (p_max p) cost); [lia|].
    unfold pol_update_if_has. rewrite E. eexists _, _, _. split; [reflexivity|]. simpl.
    repeat split; auto; discriminate.
  - rewrite pol_add_fits by auto. eexists _, _, _. split; [reflexivity|]. simpl. repeat split; auto.
Qed.

Section Room.
Context (cf : cfg) (K : gset N) (B : Z).

Definition item_r (i : item) : Prop :=
  it_wait i = None -> it_flag i <> FDel -> it_key i ∈ K /\ 0 <= item_cost cf i <= B.
Definition lab_room (l : label) : Prop :=
  match l with
  | LCall _ (OSet k _ v cost _) =>
      k ∈ K /\ forall i, it_flag i = FNew -> it_val i = v -> it_cost i = cost -> 0 <= item_cost cf i <= B
  | LCall _ (OUpdMax mx) => Z.of_nat (size K) * B <= mx
  | _ => True
  end.

Record Rinv (s : state) : Prop := {
  r_dom : forall k c, p_costs (s_pol s) !! k = Some c -> k ∈ K /\ 0 <= c <= B;
  r_max : Z.of_nat (size K) * B <= p_max (s_pol s);
  r_ok : pol_ok (s_pol s);
  r_thr : forall tid t, s_threads s !! tid = Some t ->
          match t_pc t with CSetUpd i | CSetSend i => it_flag i <> FDel /\ item_r i | _ => True end;
  r_buf : Forall item_r (s_buf s);
  r_apc : match s_apc s with
          | AGot i => it_flag i <> FDel -> it_key i ∈ K /\ 0 <= it_cost i <= B
          | ANewSet _ vs | AVict vs => vs = []
          | _ => True
          end
}.

Lemma item_cost_set_flag i f : it_flag i <> FDel -> f <> FDel -> item_cost cf (set_flag i f) = item_cost cf i.
Proof.
  intros H1 H2. unfold item_cost, set_flag; simpl.
  rewrite !bool_decide_eq_false_2 by assumption. reflexivity.
Qed.

Lemma item_r_set_flag i f : it_flag i <> FDel -> f <> FDel -> item_r i -> item_r (set_flag i f).
Proof.
  intros H1 H2 Hr Hw _. simpl in Hw. destruct (Hr Hw H1) as [Hk Hc]. split; [exact Hk|].
  now rewrite item_cost_set_flag.
Qed.

Definition dom_ok (p : policy) : Prop :=
  (forall k c, p_costs p !! k = Some c -> k ∈ K /\ 0 <= c <= B) /\ Z.of_nat (size K) * B <= p_max p.

Lemma R_add orders est p m key cost vs added p' m' r rej :
  dom_ok p -> pol_ok p -> key ∈ K -> 0 <= cost <= B ->
  pol_add orders est p m key cost = AddOk vs added p' m' r rej ->
  vs = [] /\ dom_ok p' /\ p_costs p' = <[key := cost]> (p_costs p) /\ (added = true <-> p_costs p !! key = None).
Proof.
  intros [Hd Hm] Hok Hk Hc E.
  assert (HK : (1 <= size K)%nat).
  { destruct (decide (size K = 0%nat)) as [E0|]; [|lia]. apply size_empty_iff in E0. set_solver. }
  assert (Hmax : cost <= p_max p) by nia.
  destruct (pol_add_room orders est p m key cost Hmax) as (a & p1 & m1 & E1 & Hc1 & Hm1 & Ha1).
  { intros Hn. rewrite Hok.
    pose proof (sum_costs_bound (p_costs p) B ltac:(intros k0 c0 H0; apply (Hd k0 c0 H0))) as Hs.
    pose proof (size_new_key (p_costs p) K key ltac:(intros k0 c0 H0; apply (Hd k0 c0 H0)) Hk Hn) as Hz. nia. }
  rewrite E1 in E. inversion E; subst. split; [reflexivity|]. split; [|split; [exact Hc1|exact Ha1]].
  split; [|lia]. intros k0 c0. rewrite Hc1. destruct (decide (k0 = key)) as [->|Hne].
  - rewrite lookup_insert. intros [= <-]. auto.
  - rewrite lookup_insert_ne by congruence. apply Hd.
Qed.
Lemma R_update p m key cost p' m' :
  dom_ok p -> key ∈ K -> 0 <= cost <= B -> pol_update p m key cost = (p', m') -> dom_ok p'.
Proof.
  intros [Hd Hm] Hk Hc E. unfold pol_update, pol_update_if_has in E.
  destruct (p_costs p !! key) eqn:E1; inversion E; subst; [|split; auto]. split; simpl; [|exact Hm].
  intros k0 c0. destruct (decide (k0 = key)) as [->|Hne].
  - rewrite lookup_insert. intros [= <-]. auto.
  - rewrite lookup_insert_ne by congruence. apply Hd.
Qed.
Lemma R_del p m key p' m' : dom_ok p -> pol_del p m key = (p', m') -> dom_ok p'.
Proof.
  intros [Hd Hm] E. unfold pol_del in E. destruct (p_costs p !! key) eqn:E1; inversion E; subst; [|split; auto].
  split; simpl; [|exact Hm]. intros k0 c0 Hl. apply lookup_delete_Some in Hl as [_ Hl]. eauto.
Qed.

Lemma step_R s l s' : lab_nc l -> lab_room l -> base_inv s -> Rinv s -> mstep cf s l = Some s' -> Rinv s'.
Proof.
  intros HN HL [Hbt _ Hba _] [Hd Hm Hok Ht Hb Ha] H.
  assert (Hg : forall tid, match t_pc (get_thread s tid) with
                           | CSetUpd i | CSetSend i => it_flag i <> FDel /\ item_r i | _ => True end).
  { intros tid. unfold get_thread. destruct (s_threads s !! tid) eqn:E; simpl; [eapply Ht; eauto|exact I]. }
  assert (Hgb : forall tid, match t_pc (get_thread s tid) with
                            | CSetUpd i | CSetSend i => it_wait i = None | CClr _ _ => False | _ => True end).
  { intros tid. unfold get_thread. destruct (s_threads s !! tid) eqn:E; simpl; [eapply Hbt; eauto|exact I]. }
  pose proof (step_pol_ok cf s l s' Hok H) as Hok'.
  step_cases H.
  all: try (match goal with Hpc : t_pc (get_thread _ ?tid) = _ |- _ =>
              let Hx := fresh "Hx" in pose proof (Hg tid) as Hx; rewrite Hpc in Hx; simpl in Hx;
              let Hy := fresh "Hy" in pose proof (Hgb tid) as Hy; rewrite Hpc in Hy; simpl in Hy end).
  all: try contradiction.
  all: try solve [ exfalso; exact HN ].
  all: try (simpl in Ha); try (simpl in Hba).
  all: constructor; msimpl.
  all: try exact Hok'.
  all: try exact Hd.
  all: try exact Hm.
  all: try exact Hb.
  all: try exact Ht.
  all: repeat match goal with Hb : s_apc _ = _ |- context [s_apc _] => rewrite Hb end.
  all: try exact Ha.
  all: try exact I.
  all: try reflexivity.
  (* threads *)
  all: try solve [ intros tid0 t0 Hl; apply lookup_thread_insert in Hl as [[-> ->]|[_ Hl]]; [|exact (Ht _ _ Hl)]; simpl;
                   first [ exact I | exact Hx | apply Hg
                         | (split; [discriminate|]; intros _ _; split; [exact (proj1 HL)|apply (proj2 HL); reflexivity])
                         | (destruct Hx as [Hx1 Hx2]; split; [discriminate|apply item_r_set_flag; [assumption|discriminate|assumption]]) ] ].
  all: try solve [ simpl; exact HL ].
  all: try solve [ apply List.Forall_app; split; [exact Hb|]; constructor; [|constructor];
                   first [ apply Hx | (intros _ Hf; simpl in Hf; congruence) | (intros Hw; discriminate) ] ].
  all: try solve [ inversion Hb; subst; assumption ].
  all: try solve [ simpl; intros Hf; inversion Hb as [|? ? Hhd Htl]; subst; apply Hhd; assumption ].
  all: try (match goal with E : pol_add _ _ _ _ _ _ = AddOk _ _ _ _ _ _ |- _ =>
              let J := fresh "J" in
              pose proof (R_add _ _ _ _ _ _ _ _ _ _ _ _ (conj Hd Hm) Hok (proj1 (Ha ltac:(congruence))) (proj2 (Ha ltac:(congruence))) E)
                as (J1 & [J2 J3] & J4 & J5) end).
  all: try (match goal with E : pol_update _ _ _ _ = _ |- _ =>
              pose proof (R_update _ _ _ _ _ _ (conj Hd Hm) (proj1 (Ha ltac:(congruence))) (proj2 (Ha ltac:(congruence))) E) as [J2 J3] end).
  all: try (match goal with E : pol_del _ _ _ = _ |- _ => pose proof (R_del _ _ _ _ _ (conj Hd Hm) E) as [J2 J3] end).
  all: try assumption.
Qed.

Lemma init_R maxCost bdur now mon : Z.of_nat (size K) * B <= maxCost -> Rinv (init_state maxCost bdur now mon).
Proof.
  intros Hm. constructor; simpl; auto.
  - intros k c H. rewrite lookup_empty in H. discriminate.
  - apply pol_new_ok.
  - intros tid t H. rewrite lookup_empty in H. discriminate.
Qed.
End Room.
