(* z.KeyToHash: the (primary hash, conflict hash) pair under which a key is filed.
   Integer kinds: (uint64(k), 0) - two's-complement conversion for the signed kinds.  string / []byte kinds, named or
   not: (runtime memhash of the contents, XXH64 of the contents).  The runtime's memhash is seeded per process and is a
   parameter of the model (the correspondence feeds it what z.MemHash returned in the same process). *)
From Coq Require Import List NArith ZArith Lia.
From Ristretto Require Import Base.Word Base.WordProofs Base.Xxhash.
Import ListNotations.

Inductive ikind := IUint64 | IByte | IUint | IInt | IInt32 | IUint32 | IInt64.
Inductive hkey := HInt (kd : ikind) (v : Z) | HStr (b : list N) | HBytes (b : list N).

Definition in_range (kd : ikind) (v : Z) : Prop :=
  match kd with
  | IUint64 | IUint => 0 <= v < ztwo64
  | IByte => 0 <= v < 256
  | IInt | IInt64 => - ztwo63 <= v < ztwo63
  | IInt32 => - 2147483648 <= v < 2147483648
  | IUint32 => 0 <= v < 4294967296
  end%Z.

Definition wf_key (k : hkey) : Prop := match k with HInt kd v => in_range kd v | _ => True end.

(* [named]: whether K is a defined type (type MyKey string) taking the reflect path; the result does not depend on it *)
Definition key_to_hash (memhash : list N -> N) (named : bool) (k : hkey) : N * N :=
  match k with
  | HInt _ v => (z2u64 v, 0%N)
  | HStr b | HBytes b => (memhash b, xxh64 b)
  end.

Lemma key_to_hash_named mh n1 n2 k : key_to_hash mh n1 k = key_to_hash mh n2 k.
Proof. reflexivity. Qed.

(* Integer keys: the conflict hash is 0 (so the store's conflict checks are disabled for them) and the primary hash
   identifies the key: two keys of one integer kind never share it.  With C01_provenance (value returned for a hash
   was written under that hash) a Get on an integer key returns only values written under that very key. *)
Lemma z2u64_inj v1 v2 : (- ztwo63 <= v1 < ztwo64)%Z -> (- ztwo63 <= v2 < ztwo64)%Z ->
  (v1 < 0 <-> v2 < 0)%Z \/ ((0 <= v1 < ztwo63 \/ v1 < 0) /\ (0 <= v2 < ztwo63 \/ v2 < 0))%Z ->
  z2u64 v1 = z2u64 v2 -> v1 = v2.
Proof.
  unfold z2u64, ztwo64, ztwo63. intros H1 H2 Hs E.
  apply Z2N.inj in E; try (apply Z.mod_pos_bound; lia).
  assert (v1 mod 18446744073709551616 = if (v1 <? 0)%Z then v1 + 18446744073709551616 else v1)%Z as E1.
  { destruct (Z.ltb_spec v1 0).
    - symmetry. apply (Z.mod_unique _ _ (-1)); lia.
    - apply Z.mod_small. lia. }
  assert (v2 mod 18446744073709551616 = if (v2 <? 0)%Z then v2 + 18446744073709551616 else v2)%Z as E2.
  { destruct (Z.ltb_spec v2 0).
    - symmetry. apply (Z.mod_unique _ _ (-1)); lia.
    - apply Z.mod_small. lia. }
  rewrite E1, E2 in E. destruct (Z.ltb_spec v1 0), (Z.ltb_spec v2 0); lia.
Qed.

Theorem int_keys_exact mh n1 n2 kd v1 v2 : in_range kd v1 -> in_range kd v2 ->
  fst (key_to_hash mh n1 (HInt kd v1)) = fst (key_to_hash mh n2 (HInt kd v2)) -> v1 = v2.
Proof.
  cbn [key_to_hash fst]. intros H1 H2 E.
  apply z2u64_inj; auto; destruct kd; unfold in_range, ztwo64, ztwo63 in *; lia.
Qed.

Theorem int_keys_conflict0 mh n kd v : snd (key_to_hash mh n (HInt kd v)) = 0%N.
Proof. reflexivity. Qed.

(* string and []byte keys with the same contents are filed under the same pair; the conflict hash is XXH64 of the
   contents, a 64-bit value, and does not depend on the process seed *)
Theorem str_bytes_agree mh n1 n2 b : key_to_hash mh n1 (HStr b) = key_to_hash mh n2 (HBytes b).
Proof. reflexivity. Qed.

Theorem content_conflict mh mh' n n' b :
  snd (key_to_hash mh n (HStr b)) = xxh64 b /\ snd (key_to_hash mh' n' (HBytes b)) = xxh64 b.
Proof. split; reflexivity. Qed.

Lemma lxor_lt64 a b : (a < two64 -> b < two64 -> N.lxor a b < two64)%N.
Proof.
  change two64 with (2 ^ 64)%N. intros Ha Hb.
  assert (forall x, (x < 2 ^ 64 -> x <> 0 -> N.log2 x < 64)%N) as Hl.
  { intros x Hx Hx0. apply N.log2_lt_pow2; lia. }
  destruct (N.eq_dec (N.lxor a b) 0) as [->|Hn]; [reflexivity|].
  apply N.log2_lt_pow2; [lia|].
  pose proof (N.log2_lxor a b) as H.
  destruct (N.eq_dec a 0) as [->|Ha0]; [rewrite N.lxor_0_l in *; apply Hl; auto|].
  destruct (N.eq_dec b 0) as [->|Hb0]; [rewrite N.lxor_0_r in *; apply Hl; auto|].
  specialize (Hl a Ha Ha0) as H1. specialize (Hl b Hb Hb0) as H2. lia.
Qed.

Lemma shr_le x s : (shr64 x s <= x)%N.
Proof.
  unfold shr64. rewrite N.shiftr_div_pow2.
  assert (2 ^ s <> 0)%N as Hnz by (apply N.pow_nonzero; lia).
  apply N.div_le_upper_bound; [exact Hnz|]. nia.
Qed.

Theorem xxh64_lt b : (xxh64 b < two64)%N.
Proof.
  unfold xxh64. repeat match goal with |- context [let '(_, _) := ?x in _] => destruct x end.
  unfold xavalanche.
  match goal with |- (N.lxor ?a (shr64 ?a ?k) < _)%N =>
    assert (a < two64)%N as Ha by (apply u64_lt); pose proof (shr_le a k); apply lxor_lt64; [exact Ha|lia] end.
Qed.

(* End-to-end prediction used by the correspondence (a cache with the default hash: Set k1, Wait, Get k2): the Get hits
   when the keys are equal, misses when the pairs differ in a way that no memhash can hide (different integer hashes;
   different non-zero conflict hashes), and is left open (None) otherwise - a real XXH64 collision. *)
Definition key_eqb (k1 k2 : hkey) : bool :=
  match k1, k2 with
  | HInt _ v1, HInt _ v2 => (z2u64 v1 =? z2u64 v2)%N
  | HStr b1, HStr b2 | HBytes b1, HBytes b2 => if list_eq_dec N.eq_dec b1 b2 then true else false
  | _, _ => false
  end.
Definition e2e_hit (k1 k2 : hkey) : option bool :=
  if key_eqb k1 k2 then Some true
  else
    let '(h1, c1) := key_to_hash (fun _ => 0%N) false k1 in
    let '(h2, c2) := key_to_hash (fun _ => 0%N) false k2 in
    if negb (h1 =? h2)%N then Some false
    else if negb (c2 =? 0)%N && negb (c1 =? c2)%N then Some false
    else None.
