(* Mutex-level deadlock freedom (C08), below the grain of the cache machine.
   Gen/LockOrder.v is regenerated from /repo's source on every run: the mutex classes of the cache, every pair
   (held, acquired) of classes such that some function locks [acquired] - itself or in a callee - while [held] is held,
   and every blocking channel operation performed under a mutex.  Here: the intended hierarchy as a rank, the check
   that every generated pair climbs it, and the classical consequence - no cycle of threads each waiting for a mutex
   held by the next. *)
From Coq Require Import List String Arith Lia Bool.
From Ristretto Require Import Gen.LockOrder.
Import ListNotations.
Local Open Scope string_scope.

(* the hierarchy: a store shard's lock may be held while the expiry index is locked, never the other way round; the
   policy's mutex and the metrics' mutex are leaves (nothing is locked under them) *)
Definition lock_rank (c : string) : nat :=
  if String.eqb c "lockedMap" then 1
  else if String.eqb c "expirationMap" then 2
  else if String.eqb c "defaultPolicy" then 3
  else if String.eqb c "Metrics.mu" then 4
  else 0.

Definition shard_class : string := "lockedMap".
Definition expiry_class : string := "expirationMap".

Definition known_class (c : string) : bool := negb (Nat.eqb (lock_rank c) 0).
Definition edge_ok (e : string * string * string) : bool :=
  let '(a, b, _) := e in known_class a && known_class b && Nat.ltb (lock_rank a) (lock_rank b).

Definition order_ok : bool :=
  forallb known_class lock_classes && forallb edge_ok lock_edges &&
  match lock_chanops with [] => true | _ => false end.

(* every mutex of the current source is one the hierarchy knows, every acquisition under a held mutex climbs the
   hierarchy (in particular no class is acquired under itself: no second shard, no recursive read lock), and no
   blocking channel operation happens under a mutex *)
Lemma order_ok_now : order_ok = true.
Proof. vm_compute. reflexivity. Qed.

Lemma edges_climb a b f : In (a, b, f) lock_edges -> lock_rank a < lock_rank b.
Proof.
  intros H. pose proof order_ok_now as Hok. unfold order_ok in Hok.
  apply andb_prop in Hok as [Hok _]. apply andb_prop in Hok as [_ Hok].
  rewrite forallb_forall in Hok. specialize (Hok _ H). cbn in Hok.
  apply andb_prop in Hok as [_ Hok]. apply Nat.ltb_lt in Hok. exact Hok.
Qed.

Lemma no_chanop_under_mutex : lock_chanops = [].
Proof.
  pose proof order_ok_now as Hok. unfold order_ok in Hok. apply andb_prop in Hok as [_ Hok].
  destruct lock_chanops; [reflexivity|discriminate].
Qed.

(* ---- the consequence, for any set of threads ---- *)
Section WaitFor.
  Variable T : Type.
  Variable held : T -> list string.          (* the mutex classes a thread holds *)
  Variable waits : T -> option string.       (* the mutex a blocked thread is waiting for *)
  (* what the generated pairs over-approximate: a thread that waits for [c] while holding [h] does so inside some
     analysed function, so (h, c) is one of the pairs *)
  Hypothesis discipline : forall t c h, waits t = Some c -> In h (held t) -> exists f, In (h, c, f) lock_edges.

  (* t waits for a mutex that u holds *)
  Definition blocked_by (t u : T) : Prop := exists c, waits t = Some c /\ In c (held u).

  Fixpoint chain (t : T) (mid : list T) (last : T) : Prop :=
    match mid with
    | [] => blocked_by t last
    | x :: mid' => blocked_by t x /\ chain x mid' last
    end.

  Definition wrank (t : T) : nat := match waits t with Some c => lock_rank c | None => 0 end.

  Lemma blocked_climbs t u : blocked_by t u -> (exists c, waits u = Some c) -> wrank t < wrank u.
  Proof.
    intros (c & Hw & Hin) (c' & Hw'). unfold wrank. rewrite Hw, Hw'.
    destruct (discipline u c' c Hw' Hin) as (f & Hf). exact (edges_climb _ _ _ Hf).
  Qed.

  Lemma chain_head_waits t mid last : chain t mid last -> exists c, waits t = Some c.
  Proof. destruct mid; cbn; [intros (c & H & _)|intros [(c & H & _) _]]; eauto. Qed.

  Lemma chain_climbs : forall mid t last, chain t mid last -> (exists c, waits last = Some c) -> wrank t < wrank last.
  Proof.
    induction mid as [|x mid IH]; intros t last H Hl; cbn in H.
    - apply blocked_climbs; assumption.
    - destruct H as [H1 H2]. pose proof (chain_head_waits _ _ _ H2) as Hx.
      pose proof (blocked_climbs _ _ H1 Hx). pose proof (IH _ _ H2 Hl). lia.
  Qed.

  (* no wait-for cycle among mutexes, of any length, among any number of threads *)
  Theorem no_mutex_cycle t mid : ~ chain t mid t.
  Proof.
    intros H. pose proof (chain_climbs _ _ _ H (chain_head_waits _ _ _ H)). lia.
  Qed.

  (* a thread that is blocked on a mutex is blocked by a thread whose own wait, if any, is strictly higher in the
     hierarchy: following the blocked_by relation from any thread reaches, in at most as many steps as there are
     ranks, a thread that is not waiting for a mutex; since no channel operation blocks under a mutex
     (no_chanop_under_mutex) that thread is running inside a critical section, all of which are loop-free or proved
     terminating (C09_terminates) *)
  Theorem blocker_is_higher t u : blocked_by t u -> waits u = None \/ wrank t < wrank u.
  Proof.
    intros H. destruct (waits u) as [c|] eqn:E; [right|left; reflexivity].
    apply blocked_climbs; eauto.
  Qed.
End WaitFor.

(* ================================================================================================
   Lock discipline: which mutex guards which field.
   [lock_accesses] (generated) lists every access to a field of the package's struct types with the mutexes that are
   certainly held there.  The table below is the intended discipline; [discipline_ok] checks every generated access to
   a guarded field against it, and [no_conflicting_access] is what it buys: two goroutines never access a guarded
   field at the same time unless both only read it.
   ================================================================================================ *)

(* (field, guard, strict): strict = the field is a pointer / slice whose contents are mutated through it, so that even
   reading it to reach the contents needs the guard exclusively *)
Definition guards : list (string * string * bool) :=
  [("lockedMap.data", "lockedMap", false);
   ("expirationMap.buckets", "expirationMap", false);
   ("expirationMap.lastCleanedBucketNum", "expirationMap", false);
   ("sampledLFU.keyCosts", "defaultPolicy", false);
   ("sampledLFU.used", "defaultPolicy", false);
   ("tinyLFU.incrs", "defaultPolicy", false);
   ("tinyLFU.freq", "defaultPolicy", true);
   ("tinyLFU.door", "defaultPolicy", true);
   ("cmSketch.rows", "defaultPolicy", true);
   ("Metrics.life", "Metrics.mu", false)].

(* functions that mutate the contents reached through a non-strict field they only read *)
Definition content_writers : list (string * string) := [("Metrics.life", "Metrics.trackEviction")].

(* constructors: the object is not shared yet *)
Definition constructors : list string :=
  ["newCmSketch"; "newTinyLFU"; "newSampledLFU"; "newDefaultPolicy"; "newPolicy"; "newLockedMap"; "newExpirationMap";
   "newShardedMap"; "newStore"; "newMetrics"; "NewCache"].

(* fields that are shared without a mutex and must therefore only ever be touched through sync/atomic *)
Definition atomics : list string := ["sampledLFU.maxCost"].

Definition guard_of (field : string) : option (string * bool) :=
  match find (fun g => String.eqb (fst (fst g)) field) guards with
  | Some (_, g, strict) => Some (g, strict)
  | None => None
  end.

Definition holds (held : list (string * bool)) (g : string) (exclusive : bool) : bool :=
  existsb (fun h => String.eqb (fst h) g && (negb exclusive || snd h)) held.

Definition needs_exclusive (field kind fn : string) (strict : bool) : bool :=
  String.eqb kind "w" || strict || existsb (fun p => String.eqb (fst p) field && String.eqb (snd p) fn) content_writers.

Definition access_ok (a : string * string * string * list (string * bool)) : bool :=
  let '(field, kind, fn, held) := a in
  match guard_of field with
  | None =>
      (* an atomic field: every access outside a constructor goes through sync/atomic *)
      negb (existsb (String.eqb field) atomics) || existsb (String.eqb fn) constructors || String.eqb kind "a"
  | Some (g, strict) =>
      existsb (String.eqb fn) constructors ||
      (negb (String.eqb kind "a") && holds held g (needs_exclusive field kind fn strict))
  end.

Definition discipline_ok : bool := forallb access_ok lock_accesses.

Lemma discipline_ok_now : discipline_ok = true.
Proof. vm_compute. reflexivity. Qed.

(* how many accesses the table actually constrains in the current source, and that each guarded field occurs *)
Definition guarded_accesses : list (string * string * string * list (string * bool)) :=
  filter (fun a => match guard_of (fst (fst (fst a))) with Some _ => negb (existsb (String.eqb (snd (fst a))) constructors) | None => false end)
         lock_accesses.
Lemma discipline_nonvacuous :
  30 <= List.length guarded_accesses /\
  forallb (fun g => existsb (fun a => String.eqb (fst (fst (fst a))) (fst (fst g))) guarded_accesses) guards = true.
Proof. vm_compute. split; [repeat constructor|reflexivity]. Qed.
(* ... and every atomic field is accessed at least once, atomically *)
Lemma atomics_nonvacuous :
  forallb (fun f => existsb (fun a => String.eqb (fst (fst (fst a))) f && String.eqb (snd (fst (fst a))) "a") lock_accesses) atomics = true.
Proof. vm_compute. reflexivity. Qed.

(* ---- what the discipline buys ---- *)
Section Discipline.
  Variable T : Type.
  Variable holding : T -> list (string * bool).      (* the mutexes a goroutine holds now, with mode *)
  (* mutual exclusion, as sync.Mutex / RWMutex provide it: an exclusive holder excludes every other holder *)
  Hypothesis mutex : forall t u g m, t <> u -> In (g, true) (holding t) -> In (g, m) (holding u) -> False.

  (* a goroutine is performing, right now, an access to [field] of [kind] inside [fn]: the analysis says what it holds *)
  Definition performs (t : T) (field kind fn : string) : Prop :=
    exists held, In (field, kind, fn, held) lock_accesses /\
                 (forall g m, In (g, m) held -> In (g, m) (holding t) \/ (m = false /\ In (g, true) (holding t))).

  Lemma holds_spec held g ex : holds held g ex = true -> exists m, In (g, m) held /\ (ex = true -> m = true).
  Proof.
    unfold holds. rewrite existsb_exists. intros ((g', m) & Hin & H). cbn in H.
    apply andb_prop in H as [H1 H2]. apply String.eqb_eq in H1. subst g'.
    exists m. split; [exact Hin|]. intros ->. cbn in H2. exact H2.
  Qed.

  Lemma access_guard field kind fn held g strict :
    In (field, kind, fn, held) lock_accesses -> guard_of field = Some (g, strict) ->
    existsb (String.eqb fn) constructors = false ->
    kind <> "a" /\ exists m, In (g, m) held /\ (needs_exclusive field kind fn strict = true -> m = true).
  Proof.
    intros Hin Hg Hc. pose proof discipline_ok_now as Hok. unfold discipline_ok in Hok.
    rewrite forallb_forall in Hok. specialize (Hok _ Hin). unfold access_ok in Hok. rewrite Hg, Hc in Hok.
    rewrite orb_false_l in Hok.
    apply andb_prop in Hok as [Hk Hh]. split.
    - intros ->. rewrite String.eqb_refl in Hk. discriminate.
    - exact (holds_spec _ _ _ Hh).
  Qed.

  (* two different goroutines, neither inside a constructor, access the same guarded field at the same time: then both
     accesses are reads (and the field is not one whose contents are written through it) *)
  Theorem no_conflicting_access t u field k1 f1 k2 f2 g strict : t <> u ->
    guard_of field = Some (g, strict) ->
    existsb (String.eqb f1) constructors = false -> existsb (String.eqb f2) constructors = false ->
    performs t field k1 f1 -> performs u field k2 f2 ->
    needs_exclusive field k1 f1 strict = false /\ needs_exclusive field k2 f2 strict = false.
  Proof.
    intros Hne Hg Hc1 Hc2 (h1 & Hin1 & Hh1) (h2 & Hin2 & Hh2).
    destruct (access_guard _ _ _ _ _ _ Hin1 Hg Hc1) as (_ & m1 & Hm1 & Hx1).
    destruct (access_guard _ _ _ _ _ _ Hin2 Hg Hc2) as (_ & m2 & Hm2 & Hx2).
    assert (forall tt hh m, (forall g0 m0, In (g0, m0) hh -> In (g0, m0) (holding tt) \/ (m0 = false /\ In (g0, true) (holding tt))) ->
                             In (g, m) hh -> exists m', In (g, m') (holding tt) /\ (m = true -> m' = true)) as Hold.
    { intros tt hh m Hh Hi. destruct (Hh _ _ Hi) as [H|[-> H]].
      - exists m. split; [exact H|auto].
      - exists true. split; [exact H|auto]. }
    destruct (Hold _ _ _ Hh1 Hm1) as (a1 & Ha1 & Hb1). destruct (Hold _ _ _ Hh2 Hm2) as (a2 & Ha2 & Hb2).
    split.
    - destruct (needs_exclusive field k1 f1 strict) eqn:E; [|reflexivity].
      exfalso. rewrite (Hb1 (Hx1 eq_refl)) in Ha1. exact (mutex t u g a2 Hne Ha1 Ha2).
    - destruct (needs_exclusive field k2 f2 strict) eqn:E; [|reflexivity].
      exfalso. rewrite (Hb2 (Hx2 eq_refl)) in Ha2. exact (mutex u t g a1 (fun e => Hne (eq_sym e)) Ha2 Ha1).
  Qed.
End Discipline.
