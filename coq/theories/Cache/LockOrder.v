(* Mutex-level deadlock freedom (C08), below the grain of the cache machine.
   Gen/LockOrder.v is regenerated from /repo's source on every run: the mutex classes of the cache, every pair
   (held, acquired) of classes such that some function locks [acquired] - itself or in a callee - while [held] is held,
   and every blocking channel operation performed under a mutex.  Here: the intended hierarchy as a rank, the check
   that every generated pair climbs it, and the classical consequence - no cycle of threads each waiting for a mutex
   held by the next. *)
From Coq Require Import List String Arith Lia Bool.
From Ristretto Require Import Gen.LockOrder.
Import ListNotations.
Local Open Scope string_scope.

(* the hierarchy: a store shard's lock may be held while the expiry index is locked, never the other way round; the
   policy's mutex and the metrics' mutex are leaves (nothing is locked under them) *)
Definition lock_rank (c : string) : nat :=
  if String.eqb c "lockedMap" then 1
  else if String.eqb c "expirationMap" then 2
  else if String.eqb c "defaultPolicy" then 3
  else if String.eqb c "Metrics.mu" then 4
  else 0.

Definition shard_class : string := "lockedMap".
Definition expiry_class : string := "expirationMap".

Definition known_class (c : string) : bool := negb (Nat.eqb (lock_rank c) 0).
Definition edge_ok (e : string * string * string) : bool :=
  let '(a, b, _) := e in known_class a && known_class b && Nat.ltb (lock_rank a) (lock_rank b).

Definition order_ok : bool :=
  forallb known_class lock_classes && forallb edge_ok lock_edges &&
  match lock_chanops with [] => true | _ => false end.

(* every mutex of the current source is one the hierarchy knows, every acquisition under a held mutex climbs the
   hierarchy (in particular no class is acquired under itself: no second shard, no recursive read lock), and no
   blocking channel operation happens under a mutex *)
Lemma order_ok_now : order_ok = true.
Proof. vm_compute. reflexivity. Qed.

Lemma edges_climb a b f : In (a, b, f) lock_edges -> lock_rank a < lock_rank b.
Proof.
  intros H. pose proof order_ok_now as Hok. unfold order_ok in Hok.
  apply andb_prop in Hok as [Hok _]. apply andb_prop in Hok as [_ Hok].
  rewrite forallb_forall in Hok. specialize (Hok _ H). cbn in Hok.
  apply andb_prop in Hok as [_ Hok]. apply Nat.ltb_lt in Hok. exact Hok.
Qed.

Lemma no_chanop_under_mutex : lock_chanops = [].
Proof.
  pose proof order_ok_now as Hok. unfold order_ok in Hok. apply andb_prop in Hok as [_ Hok].
  destruct lock_chanops; [reflexivity|discriminate].
Qed.

(* ---- the consequence, for any set of threads ---- *)
Section WaitFor.
  Variable T : Type.
  Variable held : T -> list string.          (* the mutex classes a thread holds *)
  Variable waits : T -> option string.       (* the mutex a blocked thread is waiting for *)
  (* what the generated pairs over-approximate: a thread that waits for [c] while holding [h] does so inside some
     analysed function, so (h, c) is one of the pairs *)
  Hypothesis discipline : forall t c h, waits t = Some c -> In h (held t) -> exists f, In (h, c, f) lock_edges.

  (* t waits for a mutex that u holds *)
  Definition blocked_by (t u : T) : Prop := exists c, waits t = Some c /\ In c (held u).

  Fixpoint chain (t : T) (mid : list T) (last : T) : Prop :=
    match mid with
    | [] => blocked_by t last
    | x :: mid' => blocked_by t x /\ chain x mid' last
    end.

  Definition wrank (t : T) : nat := match waits t with Some c => lock_rank c | None => 0 end.

  Lemma blocked_climbs t u : blocked_by t u -> (exists c, waits u = Some c) -> wrank t < wrank u.
  Proof.
    intros (c & Hw & Hin) (c' & Hw'). unfold wrank. rewrite Hw, Hw'.
    destruct (discipline u c' c Hw' Hin) as (f & Hf). exact (edges_climb _ _ _ Hf).
  Qed.

  Lemma chain_head_waits t mid last : chain t mid last -> exists c, waits t = Some c.
  Proof. destruct mid; cbn; [intros (c & H & _)|intros [(c & H & _) _]]; eauto. Qed.

  Lemma chain_climbs : forall mid t last, chain t mid last -> (exists c, waits last = Some c) -> wrank t < wrank last.
  Proof.
    induction mid as [|x mid IH]; intros t last H Hl; cbn in H.
    - apply blocked_climbs; assumption.
    - destruct H as [H1 H2]. pose proof (chain_head_waits _ _ _ H2) as Hx.
      pose proof (blocked_climbs _ _ H1 Hx). pose proof (IH _ _ H2 Hl). lia.
  Qed.

  (* no wait-for cycle among mutexes, of any length, among any number of threads *)
  Theorem no_mutex_cycle t mid : ~ chain t mid t.
  Proof.
    intros H. pose proof (chain_climbs _ _ _ H (chain_head_waits _ _ _ H)). lia.
  Qed.

  (* a thread that is blocked on a mutex is blocked by a thread whose own wait, if any, is strictly higher in the
     hierarchy: following the blocked_by relation from any thread reaches, in at most as many steps as there are
     ranks, a thread that is not waiting for a mutex; since no channel operation blocks under a mutex
     (no_chanop_under_mutex) that thread is running inside a critical section, all of which are loop-free or proved
     terminating (C09_terminates) *)
  Theorem blocker_is_higher t u : blocked_by t u -> waits u = None \/ wrank t < wrank u.
  Proof.
    intros H. destruct (waits u) as [c|] eqn:E; [right|left; reflexivity].
    apply blocked_climbs; eauto.
  Qed.
End WaitFor.
