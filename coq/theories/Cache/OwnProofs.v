(* C02 / C04: ownership of values.  Every non-zero value lives in at most one place: the map, the write buffer
   (as a new item), a client or applier program counter, a pending OnExit callback, or the log of delivered
   OnExit callbacks.  Values are unique per Set call (a hypothesis on the schedule). *)
From stdpp Require Import gmap.
From Ristretto Require Import Base.Word Cache.Policy Cache.PolicyProofs Cache.Store Cache.StoreProofs Cache.Machine
  Cache.MachineProofs Cache.SyncProofs.
Local Open Scope nat_scope.

Definition b2n (b : bool) : nat := if b then 1 else 0.
Definition veq (a b : N) : bool := (a =? b)%N.

(* ---------- occurrences of a value in each place ---------- *)
Definition cnt_store (st : store) (v : N) : nat :=
  length (List.filter (fun kv => veq (si_val kv.2) v) (map_to_list st)).

Definition item_new (i : item) : bool :=
  match it_wait i, it_flag i with None, FNew => true | _, _ => false end.
Definition item_holds (i : item) (v : N) : nat := b2n (item_new i && veq (it_val i) v).
Definition cnt_buf (B : list item) (v : N) : nat := list_sum (List.map (fun i => item_holds i v) B).

Definition cb_holds (c : cb) (v : N) : nat := match c with CbExit u => b2n (veq u v) | _ => 0 end.
Definition cnt_pend (l : list cb) (v : N) : nat := list_sum (List.map (fun c => cb_holds c v) l).

Definition cpc_holds (pc : cpc) (v : N) : nat :=
  match pc with CSetUpd i | CSetSend i => item_holds i v | _ => 0 end.
Definition thr_holds (t : cthread) (v : N) : nat := cpc_holds (t_pc t) v + cnt_pend (t_pend t) v.
Definition cnt_threads (T : gmap nat cthread) (v : N) : nat :=
  list_sum (List.map (fun kt => thr_holds kt.2 v) (map_to_list T)).

Definition apc_holds (a : apc) (v : N) : nat :=
  match a with
  | AGot i | ANewSet i _ => item_holds i v
  | ASweepPol _ it _ _ => b2n (veq (si_val it) v)
  | _ => 0
  end.

Definition ev_exit (e : event) (v : N) : nat := match e with ECb _ (CbExit u) => b2n (veq u v) | _ => 0 end.
Definition cnt_log (log : list event) (v : N) : nat := list_sum (List.map (fun e => ev_exit e v) log).

Definition occ (s : state) (v : N) : nat :=
  cnt_store (s_store s) v + cnt_buf (s_buf s) v + cnt_threads (s_threads s) v +
  apc_holds (s_apc s) v + cnt_pend (s_apend s) v + cnt_log (s_log s) v.

(* ---------- list sums ---------- *)
Lemma list_sum_app l1 l2 : list_sum (l1 ++ l2) = list_sum l1 + list_sum l2.
Proof. induction l1; simpl; lia. Qed.

Lemma cnt_buf_app B i v : cnt_buf (B ++ [i]) v = cnt_buf B v + item_holds i v.
Proof. unfold cnt_buf. rewrite map_app, list_sum_app. simpl. lia. Qed.
Lemma cnt_buf_cons B i v : cnt_buf (i :: B) v = item_holds i v + cnt_buf B v.
Proof. reflexivity. Qed.
Lemma cnt_pend_cons l c v : cnt_pend (c :: l) v = cb_holds c v + cnt_pend l v.
Proof. reflexivity. Qed.
Lemma cnt_log_cons l e v : cnt_log (e :: l) v = ev_exit e v + cnt_log l v.
Proof. reflexivity. Qed.

(* ---------- the store ---------- *)
Lemma filter_length_perm {A} (f : A -> bool) l1 l2 : l1 ≡ₚ l2 -> length (List.filter f l1) = length (List.filter f l2).
Proof.
  induction 1; simpl; auto.
  - destruct (f x); simpl; lia.
  - destruct (f x), (f y); simpl; lia.
  - lia.
Qed.

Lemma cnt_store_empty v : cnt_store ∅ v = 0.
Proof. unfold cnt_store. now rewrite map_to_list_empty. Qed.

Lemma cnt_store_insert_new (st : store) k it v : st !! k = None ->
  cnt_store (<[k := it]> st) v = b2n (veq (si_val it) v) + cnt_store st v.
Proof.
  intros H. unfold cnt_store. rewrite (filter_length_perm _ _ _ (map_to_list_insert st k it H)).
  simpl. destruct (veq (si_val it) v); reflexivity.
Qed.

Lemma cnt_store_delete (st : store) k it v : st !! k = Some it ->
  cnt_store st v = b2n (veq (si_val it) v) + cnt_store (delete k st) v.
Proof.
  intros H. unfold cnt_store. rewrite <- (filter_length_perm _ _ _ (map_to_list_delete st k it H)).
  simpl. destruct (veq (si_val it) v); reflexivity.
Qed.

Lemma cnt_store_insert_over (st : store) k it0 it v : st !! k = Some it0 ->
  cnt_store (<[k := it]> st) v + b2n (veq (si_val it0) v) = b2n (veq (si_val it) v) + cnt_store st v.
Proof.
  intros H. rewrite <- insert_delete_insert.
  rewrite cnt_store_insert_new by apply lookup_delete.
  rewrite (cnt_store_delete st k it0 v H). lia.
Qed.

(* Update: the previous value leaves the map exactly when the new one enters *)
Lemma store_update_cnt bdur should st e k cf val exp prev upd st' e' v :
  store_update bdur should st e k cf val exp = ((prev, upd), st', e') ->
  if upd then cnt_store st' v + b2n (veq prev v) = b2n (veq val v) + cnt_store st v
  else st' = st.
Proof.
  unfold store_update. destruct (st !! k) as [it0|] eqn:E; [|intros [= <- <- <- <-]; reflexivity].
  destruct (negb (conf_ok cf (si_conf it0))); [intros [= <- <- <- <-]; reflexivity|].
  destruct (negb (should val (si_val it0))); intros [= <- <- <- <-]; [reflexivity|].
  apply (cnt_store_insert_over st k it0 {| si_conf := cf; si_val := val; si_exp := exp |} v E).
Qed.

(* Set by the applier: the value enters; an overwritten previous value (possible only with colliding or
   concurrently re-inserted keys) silently disappears *)
Lemma store_set_cnt bdur should st e k cf val exp st' e' v :
  store_set bdur should st e k cf val exp = (st', e') -> cnt_store st' v <= b2n (veq val v) + cnt_store st v.
Proof.
  unfold store_set. destruct (st !! k) as [it0|] eqn:E.
  - destruct (negb (conf_ok cf (si_conf it0))); [intros [= <- <-]; lia|].
    destruct (negb (should val (si_val it0))); intros [= <- <-]; [lia|].
    pose proof (cnt_store_insert_over st k it0 {| si_conf := cf; si_val := val; si_exp := exp |} v E). simpl in *. lia.
  - intros [= <- <-]. rewrite cnt_store_insert_new by auto. simpl. lia.
Qed.

Lemma store_del_cnt bdur st e k cf cf' u st' e' v : v <> 0%N ->
  store_del bdur st e k cf = ((cf', u), st', e') -> cnt_store st v = b2n (veq u v) + cnt_store st' v.
Proof.
  intros Hv. unfold store_del.
  assert (H0 : b2n (veq 0 v) = 0) by (unfold veq; destruct (N.eqb_spec 0 v); [congruence|reflexivity]).
  destruct (st !! k) as [it0|] eqn:E; [|intros [= <- <- <- <-]; lia].
  destruct (negb (conf_ok cf (si_conf it0))); intros [= <- <- <- <-]; [lia|].
  apply (cnt_store_delete st k it0 v E).
Qed.

Lemma store_del_expired_cnt bdur st e k cf t r st' e' v :
  store_del_expired bdur st e k cf t = (r, st', e') ->
  cnt_store st v = match r with Some it => b2n (veq (si_val it) v) | None => 0 end + cnt_store st' v.
Proof.
  unfold store_del_expired. destruct (st !! k) as [it0|] eqn:E; [|intros [= <- <- <-]; lia].
  destruct (negb (conf_ok cf (si_conf it0))); [intros [= <- <- <-]; lia|].
  destruct ((si_exp it0 =? 0)%Z || (t <? si_exp it0)%Z); intros [= <- <- <-]; [lia|].
  apply (cnt_store_delete st k it0 v E).
Qed.

(* Clear: every stored value moves into the clearing thread's pending callbacks *)
Lemma clear_cbs_cnt (st : store) v : cnt_pend (clear_cbs st) v = cnt_store st v.
Proof.
  unfold clear_cbs, cnt_store. induction (map_to_list st) as [|[k it] l IH]; simpl; auto.
  unfold cnt_pend in *. simpl. rewrite IH. destruct (veq (si_val it) v); simpl; lia.
Qed.

(* ---------- threads ---------- *)
Lemma cnt_threads_insert (T : gmap nat cthread) tid t' v :
  cnt_threads (<[tid := t']> T) v + thr_holds (default idle_thread (T !! tid)) v = cnt_threads T v + thr_holds t' v.
Proof.
  unfold cnt_threads. destruct (T !! tid) as [t0|] eqn:E; simpl.
  - rewrite <- insert_delete_insert.
    assert (P1 : map_to_list (<[tid:=t']> (delete tid T)) ≡ₚ (tid, t') :: map_to_list (delete tid T))
      by (apply map_to_list_insert, lookup_delete).
    assert (P2 : map_to_list T ≡ₚ (tid, t0) :: map_to_list (delete tid T)) by (symmetry; now apply map_to_list_delete).
    assert (S : forall l1 l2 : list (nat * cthread), l1 ≡ₚ l2 ->
                list_sum (List.map (fun kt => thr_holds kt.2 v) l1) = list_sum (List.map (fun kt => thr_holds kt.2 v) l2)).
    { induction 1; simpl; lia. }
    rewrite (S _ _ P1), (S _ _ P2). simpl. lia.
  - assert (P1 : map_to_list (<[tid:=t']> T) ≡ₚ (tid, t') :: map_to_list T) by (now apply map_to_list_insert).
    assert (S : forall l1 l2 : list (nat * cthread), l1 ≡ₚ l2 ->
                list_sum (List.map (fun kt => thr_holds kt.2 v) l1) = list_sum (List.map (fun kt => thr_holds kt.2 v) l2)).
    { induction 1; simpl; lia. }
    rewrite (S _ _ P1). simpl. change (thr_holds idle_thread v) with 0. lia.
Qed.

Lemma cnt_threads_empty v : cnt_threads ∅ v = 0.
Proof. unfold cnt_threads. now rewrite map_to_list_empty. Qed.

Definition bonus (l : label) (v : N) : nat :=
  match l with LCall _ (OSet _ _ u _ _) => b2n (veq u v) | _ => 0 end.

Lemma item_holds_set_cost i z v : item_holds (set_cost i z) v = item_holds i v.
Proof. reflexivity. Qed.
Lemma item_holds_upd i v : item_holds (set_flag i FUpd) v = 0.
Proof. unfold item_holds, item_new. simpl. destruct (it_wait i); reflexivity. Qed.
Lemma item_holds_marker id v : item_holds (marker id) v = 0.
Proof. reflexivity. Qed.
Lemma item_holds_tomb k c v : item_holds (tombstone k c) v = 0.
Proof. reflexivity. Qed.
Lemma b2n_veq0 v : v <> 0%N -> b2n (veq 0 v) = 0.
Proof. intros H. unfold veq. destruct (N.eqb_spec 0 v); [congruence|reflexivity]. Qed.

Lemma cnt_pend_nil v : cnt_pend [] v = 0.
Proof. reflexivity. Qed.
Lemma item_holds_lit k c val cost exp v :
  item_holds {| it_flag := FNew; it_key := k; it_conf := c; it_val := val; it_cost := cost; it_exp := exp;
                it_wait := None |} v = b2n (veq val v).
Proof. reflexivity. Qed.
Lemma cb_holds_exit u v : cb_holds (CbExit u) v = b2n (veq u v).
Proof. reflexivity. Qed.
Lemma cb_holds_evict k c u z v : cb_holds (CbEvict k c u z) v = 0.
Proof. reflexivity. Qed.
Lemma cb_holds_reject k c u z v : cb_holds (CbReject k c u z) v = 0.
Proof. reflexivity. Qed.

(* shape of the items held in program counters and in the buffer *)
Definition cpc_new (pc : cpc) : Prop :=
  match pc with CSetUpd i => item_new i = true | CSetSend i => it_flag i <> FDel | _ => True end.
Definition apc_new (a : apc) : Prop :=
  match a with AGot i => it_wait i = None | ANewSet i _ => item_new i = true | _ => True end.
Definition buf_item_ok (i : item) : Prop := it_wait i = None -> it_flag i = FDel -> it_val i = 0%N.
Record new_inv (s : state) : Prop := {
  ni_threads : forall tid t, s_threads s !! tid = Some t -> cpc_new (t_pc t);
  ni_apc : apc_new (s_apc s);
  ni_buf : Forall buf_item_ok (s_buf s)
}.

Lemma step_new c s l s' : new_inv s -> mstep c s l = Some s' -> new_inv s'.
Proof.
  intros [Hth Hap Hbuf] H.
  assert (Hgt : forall tid, cpc_new (t_pc (get_thread s tid))).
  { intros tid. unfold get_thread. destruct (s_threads s !! tid) eqn:E; simpl; eauto. }
  step_cases H.
  all: try (match goal with Hpc : t_pc (get_thread _ ?tid) = _ |- _ =>
              let Hx := fresh "Hx" in pose proof (Hgt tid) as Hx; rewrite Hpc in Hx; simpl in Hx end).
  all: try (match goal with Hb : Forall _ (_ :: _) |- _ => inversion Hb as [|? ? Hhd Htl]; subst end).
  all: simpl in Hap.
  all: constructor; msimpl.
  all: repeat match goal with Hb : s_buf _ = _ |- context [s_buf _] => rewrite Hb end.
  all: repeat match goal with Ha : s_apc _ = _ |- context [s_apc _] => rewrite Ha end.
  all: try assumption.
  all: try exact I.
  all: try solve [ intros tid0 t0 Hl; apply lookup_thread_insert in Hl as [[-> ->]|[Hne Hl]];
                   [simpl; first [exact I|reflexivity|discriminate|apply Hgt
                                 |(unfold item_new in Hx; destruct (it_wait i), (it_flag i); congruence)]|eauto] ].
  all: try solve [ apply List.Forall_app; split; [assumption|]; constructor; [|constructor];
                   unfold buf_item_ok, tombstone, marker; simpl; intros; first [reflexivity|discriminate|congruence] ].
  all: try solve [ simpl; unfold item_new; match goal with Hf : it_flag _ = FNew |- _ => rewrite Hf end; rewrite Hap; reflexivity ].
Qed.

Lemma item_holds_new i v : item_new i = true -> item_holds i v = b2n (veq (it_val i) v).
Proof. unfold item_holds. now intros ->. Qed.

Lemma step_occ c s l s' v : v <> 0%N -> clr_inv s -> new_inv s -> mstep c s l = Some s' -> occ s' v <= occ s v + bonus l v.
Proof.
  intros Hv Hclr [Nth Nap Nbuf] H.
  assert (Ngt : forall tid, cpc_new (t_pc (get_thread s tid))).
  { intros tid. unfold get_thread. destruct (s_threads s !! tid) eqn:E; simpl; eauto. }
  assert (Hidle : forall tid, t_op (get_thread s tid) = None -> t_pc (get_thread s tid) = CIdle).
  { intros tid Hop. unfold get_thread in *. destruct (s_threads s !! tid) eqn:E; simpl in *; auto.
    eapply (ci_idle _ Hclr); eauto. }
  pose proof (b2n_veq0 v Hv) as H0.
  step_cases H.
  all: try (match goal with Hpc : t_pc (get_thread _ ?tid) = CSetUpd ?i |- _ =>
              let Hx := fresh "Hx" in pose proof (Ngt tid) as Hx; rewrite Hpc in Hx; simpl in Hx;
              pose proof (item_holds_new i v Hx) end).
  all: try (match goal with Hb : Forall _ (_ :: _) |- _ => inversion Hb as [|? ? Nhd Ntl]; subst end).
  all: simpl in Nap.
  all: try (match goal with Hop : t_op (get_thread _ ?tid) = None |- _ =>
              let Hpc := fresh "Hpc" in pose proof (Hidle tid Hop) as Hpc end).
  all: try (match goal with E : store_update _ _ _ _ _ _ _ _ = (_, ?u, _, _) |- _ =>
              let Hs := fresh "Hs" in pose proof (store_update_cnt _ _ _ _ _ _ _ _ _ _ _ _ v E) as Hs; cbn beta iota in Hs end).
  all: try (match goal with E : store_set _ _ _ _ _ _ _ _ = _ |- _ =>
              let Hs := fresh "Hs" in pose proof (store_set_cnt _ _ _ _ _ _ _ _ _ _ v E) as Hs end).
  all: try (match goal with E : store_del _ _ _ _ _ = _ |- _ =>
              let Hs := fresh "Hs" in pose proof (store_del_cnt _ _ _ _ _ _ _ _ _ v Hv E) as Hs end).
  all: try (match goal with E : store_del_expired _ _ _ _ _ _ = _ |- _ =>
              let Hs := fresh "Hs" in pose proof (store_del_expired_cnt _ _ _ _ _ _ _ _ _ v E) as Hs; cbn beta iota in Hs end).
  all: unfold occ; msimpl.
  all: repeat match goal with Hb : s_buf _ = _ |- context [s_buf _] => rewrite Hb end.
  all: repeat match goal with Ha : s_apc _ = _ |- context [s_apc _] => rewrite Ha end.
  all: repeat match goal with Ha : s_apend _ = _ |- context [s_apend _] => rewrite Ha end.
  all: repeat rewrite cnt_log_cons; cbn [ev_exit].
  all: try (match goal with |- context [cnt_threads (<[?tid := ?t']> ?T) _] =>
              let HT := fresh "HT" in pose proof (cnt_threads_insert T tid t' v) as HT;
              change (default idle_thread (T !! tid)) with (get_thread s tid) in HT;
              unfold thr_holds in HT; cbn [t_pc t_pend] in HT end).
  all: repeat match goal with Hp : t_pc (get_thread _ _) = _ |- _ => rewrite Hp in * end.
  all: repeat match goal with Hp : t_pend (get_thread _ _) = _ |- _ => rewrite Hp in * end.
  all: cbn [cpc_holds cnt_pend cb_holds apc_holds bonus List.map list_sum evict_cbs reject_cbs
            item_holds item_new it_wait it_flag it_val andb cnt_buf] in *.
  all: unfold evict_cbs, reject_cbs in *.
  all: rewrite ?clear_cbs_cnt, ?cnt_store_empty, ?cnt_pend_cons, ?cnt_pend_nil, ?cnt_buf_cons, ?item_holds_lit,
         ?cb_holds_exit, ?cb_holds_evict, ?cb_holds_reject in *.
  all: rewrite ?cnt_buf_app, ?item_holds_set_cost, ?item_holds_upd, ?item_holds_marker, ?item_holds_tomb in *.
  all: try lia.
  all: try solve [ destruct c0; simpl; lia ].
  (* drained / rejected / set items *)
  all: try solve [ unfold item_holds, item_new in *;
                   repeat match goal with Hf : it_flag _ = _ |- _ => rewrite Hf in * end;
                   repeat match goal with Hw : it_wait _ = _ |- _ => rewrite Hw in * end;
                   simpl in *; lia ].
  all: try solve [ subst g; lia ].
  all: try solve [ destruct c0; simpl in *; lia ].
  all: try solve [ rewrite (item_holds_new i v Nap); lia ].
  all: try solve [ destruct (it_flag i) eqn:Ef; try congruence;
                   [ (assert (Hn : item_new i = true) by (unfold item_new; rewrite H6, Ef; reflexivity);
                      rewrite (item_holds_new i v Hn); lia)
                   | (rewrite (Nhd H6 Ef) in *; lia) ] ].
Qed.

(* ---------- lifting to schedules ---------- *)
Definition label_val (l : label) : list N :=
  match l with LCall _ (OSet _ _ u _ _) => [u] | _ => [] end.
Definition set_vals (sched : list label) : list N := flat_map label_val sched.

Lemma bonus_count l v : bonus l v = count_occ N.eq_dec (label_val l) v.
Proof.
  destruct l as [tid o| | | | |]; simpl; auto. destruct o; simpl; auto.
  unfold veq. destruct (N.eq_dec v0 v) as [->|Hne]; [now rewrite N.eqb_refl|].
  destruct (N.eqb_spec v0 v); [congruence|reflexivity].
Qed.

Record aux_inv (s : state) : Prop := { ax_clr : clr_inv s; ax_new : new_inv s }.

Lemma init_new maxCost bdur now mon : new_inv (init_state maxCost bdur now mon).
Proof.
  constructor; simpl; auto. intros tid t H. rewrite lookup_empty in H. discriminate.
Qed.

Lemma step_aux c s l s' : aux_inv s -> mstep c s l = Some s' -> aux_inv s'.
Proof. intros [H1 H2] H. constructor; [eapply step_clr|eapply step_new]; eauto. Qed.

Lemma run_occ c sched : forall s v, v <> 0%N -> aux_inv s ->
  occ (mrun c s sched) v <= occ s v + count_occ N.eq_dec (set_vals sched) v.
Proof.
  induction sched as [|l sched IH]; intros s v Hv Ha; simpl; [lia|].
  unfold set_vals in *. simpl. rewrite count_occ_app.
  unfold step_skip. destruct (mstep c s l) as [s'|] eqn:E; simpl.
  - pose proof (step_occ c s l s' v Hv (ax_clr _ Ha) (ax_new _ Ha) E) as H1.
    pose proof (IH s' v Hv (step_aux _ _ _ _ Ha E)) as H2. rewrite bonus_count in H1. lia.
  - pose proof (IH s v Hv Ha). lia.
Qed.

Lemma init_occ maxCost bdur now mon v : occ (init_state maxCost bdur now mon) v = 0.
Proof. unfold occ; simpl. rewrite cnt_store_empty, cnt_threads_empty. reflexivity. Qed.

(* every non-zero value lives in at most one place, provided every Set call carries its own value *)
Theorem occ_le_one c maxCost bdur now mon sched v : v <> 0%N -> NoDup (set_vals sched) ->
  occ (mrun c (init_state maxCost bdur now mon) sched) v <= 1.
Proof.
  intros Hv Hnd.
  pose proof (run_occ c sched (init_state maxCost bdur now mon) v Hv
                ltac:(constructor; [apply init_clr|apply init_new])) as H.
  rewrite init_occ in H.
  assert (count_occ N.eq_dec (set_vals sched) v <= 1) by (apply NoDup_count_occ; exact Hnd). lia.
Qed.

Lemma veq_refl v : veq v v = true.
Proof. apply N.eqb_refl. Qed.

Lemma cnt_store_lookup (st : store) k it : st !! k = Some it -> 1 <= cnt_store st (si_val it).
Proof. intros H. rewrite (cnt_store_delete st k it _ H). rewrite veq_refl. simpl. lia. Qed.

Lemma cnt_threads_lookup (T : gmap nat cthread) tid t v : T !! tid = Some t -> thr_holds t v <= cnt_threads T v.
Proof.
  intros H. unfold cnt_threads.
  assert (S : forall l1 l2 : list (nat * cthread), l1 ≡ₚ l2 ->
              list_sum (List.map (fun kt => thr_holds kt.2 v) l1) = list_sum (List.map (fun kt => thr_holds kt.2 v) l2)).
  { induction 1; simpl; lia. }
  rewrite <- (S _ _ (map_to_list_delete T tid t H)). simpl. lia.
Qed.

(* what a logged event may say about the OnExit callbacks delivered before it *)
Definition ev_own (before : list event) (e : event) : Prop :=
  match e with
  | ERet _ (OGet _ _) (RVal v true) => v <> 0%N -> cnt_log before v = 0
  | ECb _ (CbExit v) => v <> 0%N -> cnt_log before v = 0
  | _ => True
  end.
Fixpoint log_own (log : list event) : Prop :=
  match log with [] => True | e :: l => ev_own l e /\ log_own l end.

Definition owned_ok (s : state) : Prop := forall v, v <> 0%N -> occ s v <= 1.

Lemma step_log_own c s l s' : owned_ok s -> log_own (s_log s) -> mstep c s l = Some s' -> log_own (s_log s').
Proof.
  intros Hown Hlog H.
  step_cases H.
  all: try exact Hlog.
  all: try solve [ simpl; repeat split; try exact I; try exact Hlog ].
  all: try solve [ simpl; split; [|exact Hlog]; destruct o; simpl; auto;
                   match goal with |- context [RBool ?b] => destruct b end; auto ].
  - (* Get hit: the value is in the map, hence was never passed to OnExit *)
    simpl. split; [|split; [exact I|exact Hlog]]. intros Hn.
    match goal with Hg : store_get _ _ _ _ = _ |- _ => apply store_get_hit in Hg; destruct Hg as (it & Hl & <- & _) end.
    pose proof (cnt_store_lookup _ _ _ Hl). pose proof (Hown _ Hn) as Ho. unfold occ in Ho.
    rewrite cnt_log_cons. simpl ev_exit. lia.
  - (* a client thread delivers a callback *)
    simpl. split; [|exact Hlog]. destruct c0 as [u| |]; simpl; auto. intros Hn.
    assert (Hm : s_threads s !! tid = Some (get_thread s tid)).
    { unfold get_thread in *. destruct (s_threads s !! tid) eqn:E; simpl in *; auto. discriminate. }
    pose proof (cnt_threads_lookup _ _ _ u Hm) as Ht. unfold thr_holds in Ht.
    match goal with Hp : t_pend (get_thread s tid) = _ |- _ => rewrite Hp in Ht end.
    rewrite cnt_pend_cons in Ht. simpl in Ht. rewrite veq_refl in Ht. simpl in Ht.
    pose proof (Hown _ Hn) as Ho. unfold occ in Ho. lia.
  - (* the applier delivers a callback *)
    simpl. split; [|exact Hlog]. destruct c0 as [u| |]; simpl; auto. intros Hn.
    pose proof (Hown _ Hn) as Ho. unfold occ in Ho.
    match goal with Hp : s_apend s = _ |- _ => rewrite Hp in Ho end.
    rewrite cnt_pend_cons in Ho. simpl in Ho. rewrite veq_refl in Ho. simpl in Ho. lia.
Qed.

Lemma set_vals_app a b : set_vals (a ++ b) = set_vals a ++ set_vals b.
Proof. unfold set_vals. apply flat_map_app. Qed.

Lemma mrun_app c s a b : mrun c s (a ++ b) = mrun c (mrun c s a) b.
Proof. unfold mrun. apply fold_left_app. Qed.

Lemma NoDup_app_l {A} (a b : list A) : List.NoDup (a ++ b) -> List.NoDup a.
Proof.
  induction a as [|x a IH]; simpl; intros H; [constructor|].
  inversion H as [|? ? Hn Hd]; subst. constructor; [|auto].
  intros Hin. apply Hn. apply in_or_app. now left.
Qed.

Theorem run_log_own c maxCost bdur now mon sched : NoDup (set_vals sched) ->
  log_own (s_log (mrun c (init_state maxCost bdur now mon) sched)).
Proof.
  induction sched as [|l pre IH] using rev_ind; intros Hnd; [exact I|].
  rewrite set_vals_app in Hnd. pose proof (NoDup_app_l _ _ Hnd) as Hpre.
  rewrite mrun_app. simpl. unfold step_skip.
  destruct (mstep c (mrun c (init_state maxCost bdur now mon) pre) l) as [s'|] eqn:E; simpl; [|auto].
  eapply step_log_own; [|apply IH; exact Hpre|exact E].
  intros v Hv. now apply occ_le_one.
Qed.

Lemma log_own_split l1 e l2 : log_own (l1 ++ e :: l2) -> ev_own l2 e.
Proof. induction l1 as [|x l1 IH]; simpl; intros [H1 H2]; auto. Qed.

Lemma cnt_log_zero log v w : cnt_log log v = 0 -> ~ In (ECb w (CbExit v)) log.
Proof.
  induction log as [|e log IH]; simpl; intros H; [tauto|].
  rewrite cnt_log_cons in H. intros [->|Hin].
  - simpl in H. rewrite veq_refl in H. simpl in H. lia.
  - apply IH; [lia|exact Hin].
Qed.
