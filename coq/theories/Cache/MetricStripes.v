(* Model of the striped counters of cache.go: Metrics.add / Metrics.get / Metrics.Clear for one metric type.
   Each metric is 256 uint64 slots; add picks slot (hash % 25) * 10 (padding against false sharing) and adds with
   wrap-around; get sums all slots with wrap-around.  Cache/Policy.v models a metric as one uint64 (m_add / m_get);
   the theorems below are the refinement between the two.  Definitions and proofs (small file). *)
From Coq Require Import List NArith ZArith Lia.
From Coq Require Import ZifyN ZifyNat ZifyBool.
Import ListNotations.
From Ristretto Require Import Base.Word Base.ListX.
Open Scope N_scope.

Definition ms_slots : nat := 256.
Definition ms_new : list N := repeat 0 ms_slots.
Definition ms_idx (hash : N) : N := (hash mod 25) * 10.

(* None = index out of range (a panic in Go) *)
Definition ms_add (s : list N) (hash delta : N) : option (list N) :=
  let i := ms_idx hash in
  if i <? lenN s then Some (updN s i (add64 (nthN s i 0) delta)) else None.

Definition ms_get (s : list N) : N := fold_left add64 s 0.

Definition ms_run (s : list N) (adds : list (N * N)) : option (list N) :=
  fold_left (fun os hd => match os with Some s => ms_add s (fst hd) (snd hd) | None => None end) adds (Some s).

Fixpoint sumN (l : list N) : N := match l with [] => 0 | x :: t => x + sumN t end.

Lemma u64_add_l a b : u64 (u64 a + b) = u64 (a + b).
Proof. unfold u64, two64. rewrite N.add_mod_idemp_l by lia. reflexivity. Qed.

Lemma fold_add64_sum l : forall acc, fold_left add64 l acc = u64 (acc + sumN l) \/ (l = [] /\ fold_left add64 l acc = acc).
Proof.
  induction l as [|x t IH]; intros acc; [right; auto|].
  left. cbn [fold_left sumN]. destruct (IH (add64 acc x)) as [H|[-> H]].
  - rewrite H. unfold add64. rewrite u64_add_l. f_equal. lia.
  - cbn. unfold add64. f_equal. lia.
Qed.

Lemma ms_get_sum s : ms_get s = u64 (sumN s).
Proof.
  unfold ms_get. destruct (fold_add64_sum s 0) as [H|[-> H]]; [rewrite H; f_equal|reflexivity].
Qed.

Lemma sumN_upd l : forall i x, (i < length l)%nat -> sumN (upd l i x) + nth i l 0 = sumN l + x.
Proof.
  induction l as [|h t IH]; intros i x Hi; [cbn in Hi; lia|].
  destruct i as [|j]; cbn [upd sumN nth]; [lia|].
  cbn in Hi. specialize (IH j x ltac:(lia)). lia.
Qed.

Lemma ms_idx_bound hash : ms_idx hash <= 240.
Proof. unfold ms_idx. pose proof (N.mod_upper_bound hash 25 ltac:(lia)). lia. Qed.

(* no hash makes add index out of range, and the number of slots never changes *)
Lemma ms_add_total s hash delta : length s = ms_slots -> exists s', ms_add s hash delta = Some s' /\ length s' = ms_slots.
Proof.
  intros Hl. unfold ms_add. pose proof (ms_idx_bound hash) as Hb.
  assert (Hlt : (ms_idx hash <? lenN s) = true) by (unfold lenN; rewrite Hl; unfold ms_slots; apply N.ltb_lt; lia).
  rewrite Hlt. eexists; split; [reflexivity|]. unfold updN. rewrite length_upd. exact Hl.
Qed.

(* one add raises the sum read by get by delta, modulo 2^64, whatever the hash: this is Policy.v's m_add *)
Lemma ms_get_add s hash delta s' :
  ms_add s hash delta = Some s' -> ms_get s' = add64 (ms_get s) delta.
Proof.
  unfold ms_add. destruct (ms_idx hash <? lenN s) eqn:Hlt; [|discriminate]. intros [= <-].
  apply N.ltb_lt in Hlt. unfold lenN in Hlt.
  rewrite !ms_get_sum. unfold updN, nthN.
  pose proof (sumN_upd s (N.to_nat (ms_idx hash)) (add64 (nth (N.to_nat (ms_idx hash)) s 0) delta) ltac:(lia)) as H.
  set (old := nth (N.to_nat (ms_idx hash)) s 0) in *.
  set (S' := sumN (upd s (N.to_nat (ms_idx hash)) (add64 old delta))) in *.
  unfold add64, u64, two64 in *.
  assert (Hold : old <= sumN s).
  { unfold old. clear. generalize (N.to_nat (ms_idx hash)). induction s as [|h t IH]; intros [|j]; cbn; try lia.
    specialize (IH j). lia. }
  (* S' + old = sum + (old + delta) mod M  ==>  S' mod M = (sum mod M + delta) mod M *)
  rewrite N.add_mod_idemp_l by lia.
  assert (E : S' = sumN s - old + (old + delta) mod 18446744073709551616) by lia.
  rewrite E. rewrite N.add_mod_idemp_r by lia. f_equal. lia.
Qed.

(* any sequence of adds (any hashes): never a panic, and get returns the wrapped sum of the deltas *)
Lemma ms_run_spec adds : forall s, length s = ms_slots ->
  exists s', ms_run s adds = Some s' /\ length s' = ms_slots /\
             ms_get s' = u64 (ms_get s + sumN (map snd adds)).
Proof.
  induction adds as [|[h d] adds IH]; intros s Hl.
  - exists s. cbn. repeat split; auto. rewrite ms_get_sum. rewrite N.add_0_r. unfold u64, two64.
    rewrite N.mod_mod by lia. reflexivity.
  - destruct (ms_add_total s h d Hl) as (s1 & H1 & Hl1). unfold ms_run in *. cbn [fold_left fst snd]. rewrite H1.
    destruct (IH s1 Hl1) as (s' & Hr & Hl' & Hg). exists s'. repeat split; auto.
    rewrite Hg, (ms_get_add _ _ _ _ H1). cbn [map snd sumN]. unfold add64. rewrite u64_add_l. f_equal. lia.
Qed.

Lemma ms_new_len : length ms_new = ms_slots.
Proof. apply repeat_length. Qed.

Lemma ms_new_get : ms_get ms_new = 0.
Proof. vm_compute. reflexivity. Qed.
