(* C03, history form: RemainingCost() stays >= 0 along every run in which no step raises the accounted cost of a
   resident key, MaxCost is never lowered and no accounted cost is negative.  The hypothesis is a predicate on the run
   itself (a relation between each state and its successor), so it covers every way a cost can be raised: an overwrite
   applied by the applier (itemUpdate), a second buffered insert of a key that is already accounted (Add's
   updateIfHas), Config.Cost returning more than before. *)
From stdpp Require Import gmap.
From Ristretto Require Import Base.Word Cache.Policy Cache.PolicyProofs Cache.Store Cache.Machine Cache.MachineProofs.
Local Open Scope Z_scope.

(* one step is calm when it neither lowers MaxCost nor raises the accounted cost of a key that stays accounted, and
   leaves no negative accounted cost *)
Definition calm_pol (p p' : policy) : Prop :=
  p_max p <= p_max p' /\
  (forall k c c', p_costs p !! k = Some c -> p_costs p' !! k = Some c' -> c' <= c) /\
  (forall k c, p_costs p' !! k = Some c -> 0 <= c).
Definition calm (s s' : state) : Prop := calm_pol (s_pol s) (s_pol s').

Fixpoint calm_run (c : cfg) (s : state) (sched : list label) : Prop :=
  match sched with
  | [] => True
  | l :: rest => calm s (step_skip c s l) /\ calm_run c (step_skip c s l) rest
  end.

Definition cap_inv (p : policy) : Prop :=
  pol_ok p /\ 0 <= pol_cap p /\ (forall k c, p_costs p !! k = Some c -> 0 <= c).

Lemma cap_inv_max p : cap_inv p -> 0 <= p_max p.
Proof.
  intros (Hok & Hcap & Hpos). pose proof (sum_costs_nonneg _ Hpos). unfold pol_cap, pol_ok in *. lia.
Qed.

Lemma cap_add orders est p m key cost vs added p' m' rounds rej :
  pol_add orders est p m key cost = AddOk vs added p' m' rounds rej ->
  cap_inv p -> calm_pol p p' -> 0 <= pol_cap p'.
Proof.
  intros Hrun (Hok & Hcap & Hpos) (Hmx & Hnr & Hpos').
  destruct (pol_add_spec _ _ _ _ _ _ _ _ _ _ _ _ Hrun Hok) as (Hok' & Hmax & _ & _ & Hadd & Hrej).
  unfold pol_cap in *. destruct added.
  - destruct (Hadd eq_refl) as (_ & _ & Hu & _). lia.
  - destruct (Hrej eq_refl) as [(Hbig & -> & _)|[(Hhas & _ & Hc)|(Hk & _ & Hsub & _)]]; auto.
    + destruct Hhas as [prev Hprev]. unfold pol_ok in *. rewrite Hmax, Hok', Hc.
      rewrite (sum_costs_insert_upd _ _ _ _ Hprev).
      assert (cost <= prev) by (apply (Hnr key prev cost Hprev); rewrite Hc; apply lookup_insert). lia.
    + unfold pol_ok in *. rewrite Hmax, Hok'. pose proof (sum_costs_subseteq _ _ Hsub Hpos). lia.
Qed.

Lemma cap_update p m k x p' m' :
  pol_update p m k x = (p', m') -> cap_inv p -> calm_pol p p' -> 0 <= pol_cap p'.
Proof.
  intros E (Hok & Hcap & Hpos) (Hmx & Hnr & Hpos').
  unfold pol_update, pol_update_if_has in E. destruct (p_costs p !! k) as [prev|] eqn:Ek.
  - inversion E; subst; clear E. unfold pol_cap in *. cbn in *.
    assert (x <= prev) by (apply (Hnr k prev x Ek); apply lookup_insert). lia.
  - inversion E; subst. exact Hcap.
Qed.

Lemma cap_del p m k p' m' :
  pol_del p m k = (p', m') -> cap_inv p -> 0 <= pol_cap p'.
Proof.
  intros E (Hok & Hcap & Hpos). unfold pol_del in E. destruct (p_costs p !! k) as [c|] eqn:Ek.
  - inversion E; subst; clear E. unfold pol_cap in *. cbn. specialize (Hpos _ _ Ek). lia.
  - inversion E; subst. exact Hcap.
Qed.

Lemma step_cap c s l s' :
  cap_inv (s_pol s) -> mstep c s l = Some s' -> calm s s' -> cap_inv (s_pol s').
Proof.
  intros Hi H Hcalm. split; [eapply step_pol_ok; [apply Hi|exact H]|].
  split; [|apply Hcalm].
  unfold calm in Hcalm. pose proof (cap_inv_max _ Hi) as Hmaxpos.
  step_cases H; try (apply Hi).
  all: try (match goal with
            | E : pol_add _ _ _ _ _ _ = AddOk _ _ _ _ _ _ |- _ => exact (cap_add _ _ _ _ _ _ _ _ _ _ _ _ E Hi Hcalm)
            | E : pol_update _ _ _ _ = (_, _) |- _ => exact (cap_update _ _ _ _ _ _ E Hi Hcalm)
            | E : pol_del _ _ _ = (_, _) |- _ => exact (cap_del _ _ _ _ _ E Hi)
            end).
  all: try (unfold pol_cap; cbn; lia).
  all: try (destruct Hcalm as (Hmx & _); destruct Hi as (_ & Hc & _); unfold pol_cap in *; cbn in *; lia).
Qed.

Lemma calm_run_app c s a b : calm_run c s (a ++ b) -> calm_run c s a /\ calm_run c (mrun c s a) b.
Proof.
  revert s. induction a as [|l a IH]; intros s H; cbn in *; [auto|].
  destruct H as [H1 H2]. destruct (IH _ H2). auto.
Qed.

Lemma run_cap c : forall sched s, cap_inv (s_pol s) -> calm_run c s sched -> cap_inv (s_pol (mrun c s sched)).
Proof.
  induction sched as [|l sched IH]; intros s Hi Hc; [exact Hi|].
  cbn in Hc. destruct Hc as [H1 H2]. cbn. apply IH; [|exact H2].
  unfold step_skip in *. destruct (mstep c s l) as [s'|] eqn:E; cbn in *; [|exact Hi].
  eapply step_cap; eauto.
Qed.

(* at every point of a calm run, RemainingCost() >= 0 *)
Theorem remaining_nonneg c maxCost bdur now mon pre post : 0 <= maxCost ->
  calm_run c (init_state maxCost bdur now mon) (pre ++ post) ->
  0 <= pol_cap (s_pol (mrun c (init_state maxCost bdur now mon) pre)).
Proof.
  intros Hm H. apply calm_run_app in H as [H _].
  apply (run_cap c pre (init_state maxCost bdur now mon)); [|exact H].
  split; [apply pol_new_ok|]. split; [cbn; unfold pol_cap; cbn; lia|].
  intros k x Hk. cbn in Hk. rewrite lookup_empty in Hk. discriminate.
Qed.

(* the hypothesis is not only sufficient: a single step that raises a resident key's cost can drive RemainingCost()
   below zero (which is why the property excludes such histories) *)
Definition cap_cfg : cfg :=
  {| c_cap := 4; c_bdur := 5; c_ignore_internal := true; c_item_size := 56; c_should := fun _ _ => true;
     c_costfn := None |}.
(* Set(7, cost 60) applied, then the overwrite Set(7, cost 150) applied: the accounted cost of the resident key is
   raised past MaxCost = 100 *)
Definition cap_sched_raise : list label :=
  [LCall 1 (OSet 7 100 11 60 0); LStep 1; LStep 1; LApp false []; LApp false []; LApp false []; LApp false [];
   LCall 1 (OSet 7 100 12 150 0); LStep 1; LStep 1; LStep 1; LApp false []; LApp false []].
Example raise_goes_negative :
  pol_cap (s_pol (mrun cap_cfg (init_state 100 5 1000 true) cap_sched_raise)) = -50.
Proof. vm_compute. reflexivity. Qed.

(* non-vacuity: a run with an admission, an eviction on behalf of a newcomer and a cheaper overwrite is calm *)
Definition cap_sched_calm : list label :=
  [LCall 1 (OSet 7 100 11 60 0); LStep 1; LStep 1; LApp false []; LApp false []; LApp false []; LApp false [];
   LCall 1 (OSet 7 100 12 50 0); LStep 1; LStep 1; LStep 1; LApp false []; LApp false [];
   LCall 2 (OSet 8 100 13 70 0); LStep 2; LStep 2; LApp false []; LApp false [[7%N]]; LApp false []; LApp false []; LApp false []].

(* a decision procedure for calm runs (used for the non-vacuity example only) *)
Definition calm_polb (p p' : policy) : bool :=
  (p_max p <=? p_max p') &&
  forallb (fun kc : N * Z => (0 <=? kc.2) && match p_costs p !! kc.1 with Some c => kc.2 <=? c | None => true end)
          (map_to_list (p_costs p')).
Fixpoint calm_runb (c : cfg) (s : state) (sched : list label) : bool :=
  match sched with
  | [] => true
  | l :: rest => calm_polb (s_pol s) (s_pol (step_skip c s l)) && calm_runb c (step_skip c s l) rest
  end.
Lemma calm_polb_ok p p' : calm_polb p p' = true -> calm_pol p p'.
Proof.
  unfold calm_polb, calm_pol. intros H. apply andb_prop in H as [H1 H2].
  rewrite forallb_forall in H2. split; [lia|].
  assert (forall k c', p_costs p' !! k = Some c' ->
            0 <= c' /\ forall c, p_costs p !! k = Some c -> c' <= c) as Hall.
  { intros k c' Hk. apply elem_of_map_to_list in Hk. apply elem_of_list_In in Hk.
    specialize (H2 _ Hk). cbn in H2. apply andb_prop in H2 as [H3 H4]. split; [lia|].
    intros c Hc. rewrite Hc in H4. lia. }
  split.
  - intros k c c' Hc Hc'. apply (Hall _ _ Hc'). exact Hc.
  - intros k c Hc. apply (Hall _ _ Hc).
Qed.
Lemma calm_runb_ok c : forall sched s, calm_runb c s sched = true -> calm_run c s sched.
Proof.
  induction sched as [|l sched IH]; intros s H; cbn in *; [exact I|].
  apply andb_prop in H as [H1 H2]. split; [apply calm_polb_ok; exact H1|apply IH; exact H2].
Qed.
Example calm_example :
  calm_run cap_cfg (init_state 100 5 1000 true) cap_sched_calm /\
  map_to_list (p_costs (s_pol (mrun cap_cfg (init_state 100 5 1000 true) cap_sched_calm))) = [(8%N, 70)].
Proof. split; [apply calm_runb_ok; vm_compute; reflexivity|vm_compute; reflexivity]. Qed.
