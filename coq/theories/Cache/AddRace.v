(* defaultPolicy.Add against a concurrent UpdateMaxCost.
   UpdateMaxCost stores MaxCost atomically WITHOUT the policy mutex, and Add re-reads it on every turn of its eviction
   loop (getMaxCost in roomLeft), so the budget Add sees may change between any two turns.  The cache machine takes Add
   as one step against one MaxCost; here the loop is re-stated with an arbitrary stream of budgets, one per read, and
   the two facts the machine relies on are proved for every stream: the loop terminates within the same fuel, and the
   accounting stays exact (used = sum of the accounted costs).  With a constant stream it is the loop of Policy.v. *)
From stdpp Require Import gmap.
From Ristretto Require Import Base.Word Cache.Policy Cache.PolicyProofs.
Local Open Scope Z_scope.

Definition with_max (p : policy) (maxs : list Z) : policy :=
  match maxs with mx :: _ => pol_set_max p mx | [] => p end.

(* [maxs]: what getMaxCost returns at each successive read (the first guard of Add, then one per loop turn); when the
   stream runs out the last value written stays *)
Fixpoint add_loop_mx (fuel : nat) (maxs : list Z) (orders : list (list N)) (est : N -> Z) (key : N) (cost inc : Z)
    (p : policy) (m : metrics) (sample : list (N * Z)) (victims : list (N * Z)) (rounds : list round)
  : add_result :=
  let p := with_max p maxs in
  if 0 <=? room_left p cost then
    AddOk victims true (pol_insert p key cost) (m_add m MCostAdd (z2u64 cost)) rounds None
  else
    match fuel with
    | O => AddOutOfFuel
    | S f =>
        let order := match orders with o :: _ => o | [] => (map_to_list (p_costs p)).*1 end in
        let sample1 := fill_sample (p_costs p) order sample in
        match min_entry est sample1 0 None with
        | None => AddOk victims false p (m_add m MRejectSets 1) rounds (Some (sample1, 9223372036854775807))
        | Some (i, mk, mc, mh) =>
            if inc <? mh then AddOk victims false p (m_add m MRejectSets 1) rounds (Some (sample1, mh))
            else
              let '(p', m') := pol_del p m mk in
              add_loop_mx f (tail maxs) (tail orders) est key cost inc p' m' (remove_swap sample1 i)
                          (victims ++ [(mk, mc)])
                          (rounds ++ [{| rd_sample := sample1; rd_victim := (mk, mc); rd_hits := mh |}])
        end
    end.

Definition pol_add_mx (maxs : list Z) (orders : list (list N)) (est : N -> Z) (p : policy) (m : metrics)
    (key : N) (cost : Z) : add_result :=
  let p0 := with_max p maxs in
  if p_max p0 <? cost then AddOk [] false p0 m [] None
  else
    let '(has, p1, m1) := pol_update_if_has p0 m key cost in
    if has then AddOk [] false p1 m1 [] None
    else add_loop_mx (add_fuel p) (tail maxs) orders est key cost (est key) p0 m [] [] [].

Lemma with_max_costs p maxs : p_costs (with_max p maxs) = p_costs p.
Proof. destruct maxs; reflexivity. Qed.
Lemma with_max_ok p maxs : pol_ok p -> pol_ok (with_max p maxs).
Proof. destruct maxs; [auto|apply pol_set_max_ok]. Qed.

(* termination, for every stream of budgets *)
Lemma add_loop_mx_terminates fuel : forall maxs orders est key cost inc p m sample victims rounds,
  (length sample <= lfu_sample)%nat ->
  (6 * size (p_costs p) + stale (p_costs p) sample < fuel)%nat ->
  add_loop_mx fuel maxs orders est key cost inc p m sample victims rounds <> AddOutOfFuel.
Proof.
  induction fuel as [|fuel IH]; intros maxs orders est key cost inc p m sample victims rounds Hlen Hf; [lia|].
  cbn [add_loop_mx]. pose proof (with_max_costs p maxs) as Hc. set (q := with_max p maxs) in *.
  destruct (0 <=? room_left q cost)%Z; [discriminate|].
  set (order := match orders with o :: _ => o | [] => (map_to_list (p_costs q)).*1 end).
  set (sample1 := fill_sample (p_costs q) order sample).
  assert (Hl1 : (length sample1 <= lfu_sample)%nat).
  { subst sample1. etrans; [apply fill_sample_length|]. lia. }
  assert (Hst1 : stale (p_costs q) sample1 = stale (p_costs q) sample) by apply stale_fill.
  destruct (min_entry est sample1 0 None) as [[[[i mk] mc] mh]|] eqn:Emin; [|discriminate].
  destruct (inc <? mh)%Z; [discriminate|].
  pose proof (min_entry_spec est sample1 0 None _ Emin) as (Hsel & _ & _). simpl in Hsel.
  destruct Hsel as [Hsel|(_ & Hi & _)]; [discriminate|]. rewrite Nat.sub_0_r in Hi.
  destruct (pol_del q m mk) as [p' m'] eqn:Edel.
  assert (Hp' : p_costs p' = delete mk (p_costs q)).
  { pose proof (pol_del_costs q m mk) as H. now rewrite Edel in H. }
  pose proof (stale_remove_swap (p_costs q) sample1 i (mk, mc) Hi) as Hrs. simpl in Hrs.
  pose proof (remove_swap_length_lt sample1 i (mk, mc) Hi) as Hrl.
  assert (Hpos : (0 < length sample1)%nat) by (apply lookup_lt_Some in Hi; lia).
  rewrite Hc in *.
  apply IH.
  - unfold lfu_sample in *. lia.
  - rewrite Hp'. destruct (p_costs p !! mk) as [c0|] eqn:Ek.
    + rewrite map_size_delete, Ek.
      assert (Hs : (0 < size (p_costs p))%nat).
      { destruct (size (p_costs p)) eqn:Es; [|lia]. apply map_size_empty_inv in Es. rewrite Es in Ek.
        rewrite lookup_empty in Ek. discriminate. }
      rewrite bool_decide_false in Hrs by discriminate.
      pose proof (stale_delete_le (p_costs p) mk (remove_swap sample1 i)). unfold lfu_sample in *. lia.
    + rewrite delete_notin by exact Ek. rewrite bool_decide_true in Hrs by reflexivity. lia.
Qed.

Theorem pol_add_mx_terminates maxs orders est p m key cost :
  pol_add_mx maxs orders est p m key cost <> AddOutOfFuel.
Proof.
  unfold pol_add_mx. destruct (_ <? cost); [discriminate|].
  destruct (pol_update_if_has (with_max p maxs) m key cost) as [[has p1] m1].
  destruct has; [discriminate|].
  apply add_loop_mx_terminates; [simpl; lia|].
  rewrite with_max_costs. unfold add_fuel, stale. simpl. lia.
Qed.

(* the accounting stays exact, for every stream of budgets *)
Lemma add_loop_mx_ok fuel : forall maxs orders est key cost inc p m sample victims rounds vs added p' m' r rej,
  add_loop_mx fuel maxs orders est key cost inc p m sample victims rounds = AddOk vs added p' m' r rej ->
  pol_ok p -> p_costs p !! key = None -> pol_ok p'.
Proof.
  induction fuel as [|fuel IH]; intros maxs orders est key cost inc p m sample victims rounds vs added p' m' r rej H Hok Hk;
    cbn [add_loop_mx] in H; pose proof (with_max_costs p maxs) as Hc; pose proof (with_max_ok p maxs Hok) as Hq;
    set (q := with_max p maxs) in *.
  - destruct (0 <=? room_left q cost)%Z; [|discriminate]. inversion H; subst.
    apply pol_insert_ok; [exact Hq|]. rewrite Hc. exact Hk.
  - destruct (0 <=? room_left q cost)%Z.
    { inversion H; subst. apply pol_insert_ok; [exact Hq|]. rewrite Hc. exact Hk. }
    destruct (min_entry est _ 0 None) as [[[[i mk] mc] mh]|]; [|inversion H; subst; exact Hq].
    destruct (inc <? mh)%Z; [inversion H; subst; exact Hq|].
    destruct (pol_del q m mk) as [p1 m1] eqn:Edel.
    eapply IH; [exact H| |].
    + pose proof (pol_del_ok q m mk Hq) as Hd. now rewrite Edel in Hd.
    + pose proof (pol_del_costs q m mk) as Hd. rewrite Edel in Hd. cbn in Hd. rewrite Hd, Hc.
      destruct (decide (mk = key)) as [->|Hne]; [apply lookup_delete|rewrite lookup_delete_ne by exact Hne; exact Hk].
Qed.

Theorem pol_add_mx_ok maxs orders est p m key cost vs added p' m' r rej :
  pol_add_mx maxs orders est p m key cost = AddOk vs added p' m' r rej -> pol_ok p -> pol_ok p'.
Proof.
  unfold pol_add_mx. intros H Hok. pose proof (with_max_ok p maxs Hok) as Hq. pose proof (with_max_costs p maxs) as Hc.
  set (q := with_max p maxs) in *.
  destruct (p_max q <? cost); [inversion H; subst; exact Hq|].
  destruct (pol_update_if_has q m key cost) as [[has p1] m1] eqn:Eu.
  destruct has.
  - inversion H; subst. pose proof (pol_update_if_has_ok q m key cost Hq) as Hu. now rewrite Eu in Hu.
  - unfold pol_update_if_has in Eu. destruct (p_costs q !! key) eqn:Ek; [inversion Eu|].
    eapply add_loop_mx_ok; [exact H|exact Hq|exact Ek].
Qed.

(* with the budget unchanged it is the loop of Policy.v *)
Lemma add_loop_mx_const fuel : forall orders est key cost inc p m sample victims rounds,
  add_loop_mx fuel [] orders est key cost inc p m sample victims rounds =
  add_loop fuel orders est key cost inc p m sample victims rounds.
Proof.
  induction fuel as [|fuel IH]; intros; cbn [add_loop_mx add_loop with_max]; [reflexivity|].
  destruct (0 <=? room_left p cost)%Z; [reflexivity|].
  destruct (min_entry est _ 0 None) as [[[[i mk] mc] mh]|]; [|reflexivity].
  destruct (inc <? mh)%Z; [reflexivity|]. destruct (pol_del p m mk) as [p1 m1]. apply IH.
Qed.

Theorem pol_add_mx_const orders est p m key cost :
  pol_add_mx [] orders est p m key cost = pol_add orders est p m key cost.
Proof.
  unfold pol_add_mx, pol_add. cbn [with_max tail]. destruct (p_max p <? cost); [reflexivity|].
  destruct (pol_update_if_has p m key cost) as [[has p1] m1]. destruct has; [reflexivity|].
  apply add_loop_mx_const.
Qed.

(* the case the loop would otherwise never see: the budget drops below the item's cost after the first guard, every
   resident is evicted (key 2 is listed twice: the sample's stale copy of an already evicted key is "evicted" again, the
   duplicate-victim behaviour of the code, see DESIGN.md section 9), and the item is turned away with an empty sample *)
Example budget_lowered_mid_add :
  exists p' m' r, pol_add_mx [100; 100; 1; 1; 1; 1] [] (fun _ => 0)
                    (pol_insert (pol_insert (pol_new 100) 1 60) 2 30) (m_zero true) 3 40
                  = AddOk [(1%N, 60); (2%N, 30); (2%N, 30)] false p' m' r (Some ([], 9223372036854775807)) /\
                  map_to_list (p_costs p') = [] /\ p_used p' = 0.
Proof. vm_compute. eexists _, _, _. split; [reflexivity|]. split; reflexivity. Qed.
