(* Proofs about Cache/Ring.v: conservation of recorded Gets through stripes, itemsCh, the policy goroutine and the
   keepGets / dropGets counters, for every sequence of pushes, stripe choices of sync.Pool, GC drops, receipts and Close. *)
From Coq Require Import List ZArith NArith Bool Lia Permutation.
From Coq Require Import ZifyN ZifyNat ZifyBool.
Import ListNotations.
From Ristretto Require Import Sketch.TinyLFU Cache.Ring.
Open Scope N_scope.

Definition cnt (k : N) (l : list N) : nat := count_occ N.eq_dec l k.

Lemma cnt_app k a b : cnt k (a ++ b) = (cnt k a + cnt k b)%nat.
Proof. unfold cnt. apply count_occ_app. Qed.

Lemma cnt_concat_app k a b : cnt k (concat (a ++ b)) = (cnt k (concat a) + cnt k (concat b))%nat.
Proof. rewrite concat_app. apply cnt_app. Qed.

Lemma nth_nil_any (i : nat) : nth i (@nil (list N)) [] = [].
Proof. destruct i; reflexivity. Qed.

Lemma cnt_set_nth k l : forall i x,
  (cnt k (nth i l []) + cnt k (concat (set_nth l i x)) = cnt k x + cnt k (concat l))%nat.
Proof.
  induction l as [|h t IH]; intros i x.
  - rewrite nth_nil_any. cbn [set_nth concat]. rewrite cnt_app. cbn. lia.
  - destruct i as [|j]; cbn [set_nth concat nth]; rewrite !cnt_app.
    + lia.
    + specialize (IH j x). lia.
Qed.

Lemma len_set_nth l : forall i (x : list N),
  (length (nth i l []) + length (concat (set_nth l i x)) = length x + length (concat l))%nat.
Proof.
  induction l as [|h t IH]; intros i x.
  - rewrite nth_nil_any. cbn [set_nth concat]. rewrite app_length. cbn. lia.
  - destruct i as [|j]; cbn [set_nth concat nth]; rewrite !app_length.
    + lia.
    + specialize (IH j x). lia.
Qed.

Lemma Forall_set_nth {A} (P : A -> Prop) l : forall i x, Forall P l -> P x -> Forall P (set_nth l i x).
Proof.
  induction l as [|h t IH]; intros i x Hl Hx.
  - cbn. constructor; [exact Hx|constructor].
  - inversion Hl as [|? ? Hh Ht]; subst. destruct i as [|j]; cbn [set_nth].
    + constructor; assumption.
    + constructor; [assumption|apply IH; assumption].
Qed.

Lemma Forall_nth_default {A} (P : A -> Prop) l d : Forall P l -> P d -> forall i, P (nth i l d).
Proof.
  intros Hl Hd. induction Hl as [|h t Hh Ht IH]; intros i.
  - destruct i; exact Hd.
  - destruct i as [|j]; cbn [nth]; [exact Hh|apply IH].
Qed.

Definition bsize (r : ring) : Z := Z.max (r_capa r) 1.

Record rinv (r : ring) : Prop := {
  ri_count : forall k,
    cnt k (r_pushed r) =
    (cnt k (concat (r_recv r)) + cnt k (concat (r_ch r)) + cnt k (r_dropl r) + cnt k (r_lostl r)
     + cnt k (concat (r_stripes r)))%nat;
  ri_len :
    length (r_pushed r) =
    (length (concat (r_recv r)) + length (concat (r_ch r)) + length (r_dropl r) + length (r_lostl r)
     + length (concat (r_stripes r)))%nat;
  ri_kept : r_kept r = N.of_nat (length (concat (r_recv r)) + length (concat (r_ch r)));
  ri_dropped : r_dropped r = N.of_nat (length (r_dropl r));
  ri_batch : Forall (fun b => Z.of_nat (length b) = bsize r) (r_recv r ++ r_ch r);
  ri_stripe : Forall (fun d => (Z.of_nat (length d) < bsize r)%Z) (r_stripes r);
  ri_ch : (length (r_ch r) <= r_chcap r)%nat
}.

Lemma rinv_new capa chcap : rinv (ring_new capa chcap).
Proof.
  constructor; cbn; try reflexivity; try constructor; try lia.
Qed.

Lemma step_consts r o : r_capa (fst (ring_step r o)) = r_capa r /\ r_chcap (fst (ring_step r o)) = r_chcap r.
Proof.
  destruct o as [i item| |i|]; cbn [ring_step].
  - destruct (r_capa r <=? _)%Z; [destruct (policy_verdict r)|]; cbn; auto.
  - destruct (r_closed r); [cbn; auto|]. destruct (r_ch r); cbn; auto.
  - cbn; auto.
  - cbn; auto.
Qed.

Lemma concat_snoc {A} (l : list (list A)) x : concat (l ++ [x]) = concat l ++ x.
Proof. rewrite concat_app. cbn. rewrite app_nil_r. reflexivity. Qed.

Lemma rinv_step r o : rinv r -> rinv (fst (ring_step r o)).
Proof.
  intros [Hc Hl Hk Hd Hb Hs Hch].
  assert (Hnil : (Z.of_nat (length (@nil N)) < bsize r)%Z) by (unfold bsize; cbn; lia).
  destruct o as [i item| |i|]; cbn [ring_step].
  - pose proof (Forall_nth_default _ _ [] Hs Hnil i) as Hold. cbn beta in Hold.
    set (old := nth i (r_stripes r) []) in *.
    assert (Hdl : length (old ++ [item]) = S (length old)) by (rewrite app_length; cbn; lia).
    destruct (r_capa r <=? Z.of_nat (length (old ++ [item])))%Z eqn:Hfull.
    + (* drain *)
      assert (Hsz : Z.of_nat (length (old ++ [item])) = bsize r) by (unfold bsize in *; lia).
      pose proof (len_set_nth (r_stripes r) i []) as Hlen. fold old in Hlen. cbn [length] in Hlen.
      assert (Hss : Forall (fun d => (Z.of_nat (length d) < bsize r)%Z) (set_nth (r_stripes r) i []))
        by (apply Forall_set_nth; assumption).
      unfold policy_verdict. destruct (r_closed r) eqn:Hcl; [|destruct (Nat.ltb _ _) eqn:Hroom];
        cbn [fst]; constructor; cbn [r_pushed r_recv r_ch r_dropl r_lostl r_stripes r_kept r_dropped r_chcap r_capa];
        unfold bsize in *; cbn [r_capa]; try assumption.
      all: try (intros k; pose proof (cnt_set_nth k (r_stripes r) i []) as Hcs; fold old in Hcs;
                specialize (Hc k); rewrite ?concat_snoc, !cnt_app in *; cbn in Hcs |- *; rewrite ?cnt_app; cbn; lia).
      all: try (rewrite ?concat_snoc, !app_length in *; cbn [length] in *; lia).
      rewrite app_assoc. apply Forall_app. split; [exact Hb|]. constructor; [exact Hsz|constructor].
    + (* stored *)
      cbn [fst]. pose proof (len_set_nth (r_stripes r) i (old ++ [item])) as Hlen. fold old in Hlen.
      constructor; cbn [r_pushed r_recv r_ch r_dropl r_lostl r_stripes r_kept r_dropped r_chcap r_capa];
        unfold bsize in *; cbn [r_capa]; try assumption.
      * intros k. pose proof (cnt_set_nth k (r_stripes r) i (old ++ [item])) as Hcs. fold old in Hcs.
        specialize (Hc k). rewrite !cnt_app in *. lia.
      * rewrite !app_length in *. cbn [length] in *. lia.
      * apply Forall_set_nth; [assumption|]. lia.
  - destruct (r_closed r) eqn:Hcl; [cbn [fst]; constructor; assumption|].
    destruct (r_ch r) as [|b rest] eqn:Hchq; [cbn [fst]; constructor; rewrite ?Hchq; assumption|].
    cbn [fst]. constructor; cbn [r_pushed r_recv r_ch r_dropl r_lostl r_stripes r_kept r_dropped r_chcap r_capa];
      unfold bsize in *; cbn [r_capa]; try assumption.
    + intros k. specialize (Hc k). rewrite concat_snoc, cnt_app. cbn [concat] in Hc. rewrite cnt_app in Hc. lia.
    + rewrite concat_snoc, app_length. cbn [concat] in Hl. rewrite app_length in Hl. lia.
    + rewrite concat_snoc, app_length. cbn [concat] in Hk. rewrite app_length in Hk. lia.
    + rewrite <- app_assoc. exact Hb.
    + cbn [length] in Hch. lia.
  - cbn [fst]. pose proof (Forall_nth_default _ _ [] Hs Hnil i) as Hold. cbn beta in Hold.
    set (old := nth i (r_stripes r) []) in *.
    constructor; cbn [r_pushed r_recv r_ch r_dropl r_lostl r_stripes r_kept r_dropped r_chcap r_capa];
      unfold bsize in *; cbn [r_capa]; try assumption.
    + intros k. specialize (Hc k). rewrite cnt_app. destruct (Nat.ltb i (length (r_stripes r))) eqn:Hi.
      * pose proof (cnt_set_nth k (r_stripes r) i []) as Hcs. fold old in Hcs. cbn in Hcs. lia.
      * apply Nat.ltb_ge in Hi. unfold old. rewrite (nth_overflow _ _ Hi). cbn. lia.
    + rewrite app_length. destruct (Nat.ltb i (length (r_stripes r))) eqn:Hi.
      * pose proof (len_set_nth (r_stripes r) i []) as Hcs. fold old in Hcs. cbn in Hcs. lia.
      * apply Nat.ltb_ge in Hi. unfold old. rewrite (nth_overflow _ _ Hi). cbn. lia.
    + destruct (Nat.ltb i (length (r_stripes r))); [apply Forall_set_nth; assumption|assumption].
  - cbn [fst]. constructor; assumption.
Qed.

Lemma run_consts ops : forall r, r_capa (ring_run r ops) = r_capa r /\ r_chcap (ring_run r ops) = r_chcap r.
Proof.
  induction ops as [|o ops IH]; intros r; [split; reflexivity|].
  unfold ring_run in *. cbn [fold_left]. destruct (IH (fst (ring_step r o))) as [A B].
  destruct (step_consts r o) as [C D]. rewrite A, B. auto.
Qed.

Lemma rinv_run ops : forall r, rinv r -> rinv (ring_run r ops).
Proof.
  induction ops as [|o ops IH]; intros r Hr; [exact Hr|].
  unfold ring_run in *. cbn [fold_left]. apply IH, rinv_step, Hr.
Qed.

Lemma reachable_rinv capa chcap ops : rinv (ring_run (ring_new capa chcap) ops).
Proof. apply rinv_run, rinv_new. Qed.

(* ---- the statements used by Properties/C17.v ---- *)

Lemma ring_conservation capa chcap ops :
  let r := ring_run (ring_new capa chcap) ops in
  (N.to_nat (r_kept r) + N.to_nat (r_dropped r) + length (r_lostl r) + undecided r = length (r_pushed r))%nat.
Proof.
  intros r. destruct (reachable_rinv capa chcap ops) as [_ Hl Hk Hd _ _ _]. fold r in Hl, Hk, Hd.
  unfold undecided. lia.
Qed.

Lemma ring_kept_dropped_le capa chcap ops :
  let r := ring_run (ring_new capa chcap) ops in
  r_kept r + r_dropped r <= N.of_nat (length (r_pushed r)).
Proof. intros r. pose proof (ring_conservation capa chcap ops) as H. cbv zeta in H. fold r in H. lia. Qed.

Lemma ring_permutation capa chcap ops :
  let r := ring_run (ring_new capa chcap) ops in
  Permutation (r_pushed r)
    (concat (r_recv r) ++ concat (r_ch r) ++ r_dropl r ++ r_lostl r ++ concat (r_stripes r)).
Proof.
  intros r. apply (Permutation_count_occ N.eq_dec). intros k.
  destruct (reachable_rinv capa chcap ops) as [Hc _ _ _ _ _ _]. fold r in Hc. specialize (Hc k). unfold cnt in Hc.
  rewrite !count_occ_app. lia.
Qed.

(* the policy never hears of an access that did not happen: per key, applied + queued occurrences <= Gets of that key *)
Lemma ring_no_invented_access capa chcap ops k :
  let r := ring_run (ring_new capa chcap) ops in
  (cnt k (concat (r_recv r)) + cnt k (concat (r_ch r)) <= cnt k (r_pushed r))%nat.
Proof.
  intros r. destruct (reachable_rinv capa chcap ops) as [Hc _ _ _ _ _ _]. fold r in Hc. specialize (Hc k). lia.
Qed.

Lemma ring_batches capa chcap ops :
  let r := ring_run (ring_new capa chcap) ops in
  Forall (fun b => Z.of_nat (length b) = Z.max capa 1) (r_recv r ++ r_ch r) /\
  Forall (fun d => (Z.of_nat (length d) < Z.max capa 1)%Z) (r_stripes r) /\
  (length (r_ch r) <= chcap)%nat.
Proof.
  intros r. destruct (reachable_rinv capa chcap ops) as [_ _ _ _ Hb Hs Hch]. fold r in Hb, Hs, Hch.
  destruct (run_consts ops (ring_new capa chcap)) as [Hc1 Hc2]. fold r in Hc1, Hc2. cbn in Hc1, Hc2.
  unfold bsize in *. rewrite Hc1 in *. rewrite Hc2 in *. auto.
Qed.

(* counters are exact, not only bounded *)
Lemma ring_counters_exact capa chcap ops :
  let r := ring_run (ring_new capa chcap) ops in
  r_kept r = N.of_nat (length (concat (r_recv r ++ r_ch r))) /\ r_dropped r = N.of_nat (length (r_dropl r)).
Proof.
  intros r. destruct (reachable_rinv capa chcap ops) as [_ _ Hk Hd _ _ _]. fold r in Hk, Hd.
  rewrite concat_app, app_length. auto.
Qed.

(* what the policy goroutine did to the sketch is one tinyLFU.Push of the concatenated batches *)
Lemma tl_push_app t a b : tl_push (tl_push t a) b = tl_push t (a ++ b).
Proof. unfold tl_push. rewrite fold_left_app. reflexivity. Qed.

Lemma ring_tl_concat bs : forall t0, fold_left tl_push bs t0 = tl_push t0 (concat bs).
Proof.
  induction bs as [|b bs IH]; intros t0; [reflexivity|].
  cbn [fold_left concat]. rewrite IH. apply tl_push_app.
Qed.

Lemma ring_applied t0 r : ring_tl t0 r = tl_push t0 (concat (r_recv r)).
Proof. apply ring_tl_concat. Qed.

(* Refinement of Machine.v's environment step [LGets kept n] (enabled when n <= s_gets, subtracts n): every step of
   the ring either records one more undecided Get, or decides exactly bsize of them and bumps exactly one counter by
   that number, or (GC, closed policy) forgets some without touching a counter, or leaves everything as it is. *)
Lemma ring_refines_lgets r o :
  rinv r ->
  let r' := fst (ring_step r o) in
  match snd (ring_step r o) with
  | OStored _ => undecided r' = S (undecided r) /\ r_kept r' = r_kept r /\ r_dropped r' = r_dropped r
  | ODrain keys v =>
      (length keys <= S (undecided r))%nat /\ (undecided r' + length keys = S (undecided r))%nat /\
      match v with
      | VKept => r_kept r' = r_kept r + N.of_nat (length keys) /\ r_dropped r' = r_dropped r
      | VDropped => r_kept r' = r_kept r /\ r_dropped r' = r_dropped r + N.of_nat (length keys)
      | VClosed => r_kept r' = r_kept r /\ r_dropped r' = r_dropped r
      end
  | _ => (undecided r' <= undecided r)%nat /\ r_kept r' = r_kept r /\ r_dropped r' = r_dropped r
  end.
Proof.
  intros Hinv. unfold undecided.
  destruct o as [i item| |i|]; cbn [ring_step].
  - set (old := nth i (r_stripes r) []).
    destruct (r_capa r <=? Z.of_nat (length (old ++ [item])))%Z eqn:Hfull.
    + pose proof (len_set_nth (r_stripes r) i []) as Hlen. fold old in Hlen. cbn [length] in Hlen.
      assert (Hdl : length (old ++ [item]) = S (length old)) by (rewrite app_length; cbn; lia).
      destruct (policy_verdict r); cbn [fst snd r_stripes r_kept r_dropped]; repeat split; lia.
    + pose proof (len_set_nth (r_stripes r) i (old ++ [item])) as Hlen. fold old in Hlen.
      rewrite app_length in Hlen. cbn [length] in Hlen.
      cbn [fst snd r_stripes r_kept r_dropped]. repeat split; lia.
  - destruct (r_closed r); [cbn; repeat split; lia|]. destruct (r_ch r); cbn; repeat split; lia.
  - cbn [fst snd r_stripes r_kept r_dropped]. repeat split; try reflexivity.
    destruct (Nat.ltb i (length (r_stripes r))); [|lia].
    pose proof (len_set_nth (r_stripes r) i []) as Hlen. cbn [length] in Hlen. lia.
  - cbn. repeat split; lia.
Qed.
