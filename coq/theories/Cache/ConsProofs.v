(* C04, conservation half: a value whose Set returned true is held in exactly one place (or has been passed to
   OnExit exactly once) in every state reachable without Close and without primary-hash collisions; a value whose
   Set returned false is nowhere. *)
From stdpp Require Import gmap.
From Ristretto Require Import Base.Word Cache.Policy Cache.PolicyProofs Cache.Store Cache.StoreProofs Cache.Machine
  Cache.MachineProofs Cache.SyncProofs Cache.OwnProofs Cache.ProtoProofs.
Local Open Scope Z_scope.

Definition ev_started (e : event) (v : N) : nat :=
  match e with ECall _ (OSet _ _ u _ _) _ => b2n (veq u v) | _ => 0%nat end.
Definition ev_refused (e : event) (v : N) : nat :=
  match e with
  | ERet _ o (RBool false) => match o with OSet _ _ u _ _ => b2n (veq u v) | _ => 0%nat end
  | _ => 0%nat
  end.
Definition started (log : list event) (v : N) : nat := list_sum (List.map (fun e => ev_started e v) log).
Definition refused (log : list event) (v : N) : nat := list_sum (List.map (fun e => ev_refused e v) log).
Lemma started_cons l e v : started (e :: l) v = (ev_started e v + started l v)%nat.
Proof. reflexivity. Qed.
Lemma refused_cons l e v : refused (e :: l) v = (ev_refused e v + refused l v)%nat.
Proof. reflexivity. Qed.

(* the goroutine inside Set holds the value its call was given *)
Definition opv_inv (s : state) : Prop :=
  forall tid t, s_threads s !! tid = Some t ->
    match t_pc t with
    | CSetUpd i | CSetSend i => it_wait i = None /\ exists k c cost ttl, t_op t = Some (OSet k c (it_val i) cost ttl)
    | _ => True
    end.
(* the applier is about to insert only a key that is not in the map *)
Definition fresh_inv (s : state) : Prop :=
  match s_apc s with ANewSet i _ => s_store s !! it_key i = None | _ => True end.
Notation lab_noclose := label_noclose.

Lemma step_opv c s l s' : opv_inv s -> mstep c s l = Some s' -> opv_inv s'.
Proof.
  intros Ho H. unfold opv_inv in *.
  assert (Hg : forall tid, match t_pc (get_thread s tid) with
                           | CSetUpd i | CSetSend i => it_wait i = None /\ exists k c cost ttl, t_op (get_thread s tid) = Some (OSet k c (it_val i) cost ttl)
                           | _ => True end).
  { intros tid. unfold get_thread. destruct (s_threads s !! tid) eqn:E; simpl; [eapply Ho; eauto|exact I]. }
  step_cases H.
  all: try exact Ho.
  all: try (match goal with Hpc : t_pc (get_thread _ ?tid) = _ |- _ =>
              let Hx := fresh "Hx" in pose proof (Hg tid) as Hx; rewrite Hpc in Hx; simpl in Hx end).
  all: intros tid0 t0 Hl; apply lookup_thread_insert in Hl as [[-> ->]|[_ Hl]]; [|exact (Ho _ _ Hl)]; simpl.
  all: try exact I.
  all: try solve [ split; [reflexivity|]; eexists _, _, _, _; reflexivity ].
  all: try solve [ destruct Hx as (Hw0 & k0 & c0 & cost0 & ttl0 & Hx); split; [exact Hw0|]; exists k0, c0, cost0, ttl0; congruence ].
  all: try solve [ pose proof (Hg tid) as Hy; destruct (t_pc (get_thread s tid)); auto;
                   destruct Hy as (Hw0 & kk & cc & cost0 & ttl0 & Hy); (split; [exact Hw0|]); exists kk, cc, cost0, ttl0; congruence ].
Qed.

Lemma init_opv maxCost bdur now mon : opv_inv (init_state maxCost bdur now mon).
Proof. intros tid t H. simpl in H. rewrite lookup_empty in H. discriminate. Qed.

Lemma store_update_keeps_none bdur should st e k' cf v exp r st' e' k :
  store_update bdur should st e k' cf v exp = (r, st', e') -> st !! k = None -> st' !! k = None.
Proof.
  unfold store_update. intros H Hn. destruct (st !! k') as [it|] eqn:E; [|now inversion H; subst].
  destruct (negb (conf_ok cf (si_conf it))); [now inversion H; subst|].
  destruct (negb (should v (si_val it))); inversion H; subst; auto.
  rewrite lookup_insert_ne; auto. intros ->. congruence.
Qed.
Lemma store_del_keeps_none bdur st e k' cf r st' e' k :
  store_del bdur st e k' cf = (r, st', e') -> st !! k = None -> st' !! k = None.
Proof.
  unfold store_del. intros H Hn. destruct (st !! k') as [it|] eqn:E; [|now inversion H; subst].
  destruct (negb (conf_ok cf (si_conf it))); inversion H; subst; auto.
  apply lookup_delete_None. now right.
Qed.

Lemma fresh_at_add kc s i orders vs p m r rej :
  cache_inv kc s -> s_apc s = AGot i ->
  pol_add orders (s_est s) (s_pol s) (s_met s) (it_key i) (it_cost i) = AddOk vs true p m r rej ->
  s_store s !! it_key i = None.
Proof.
  intros [Hkc Hclr Hpok Hsy] Ha E.
  destruct (pol_add_spec _ _ _ _ _ _ _ _ _ _ _ _ E Hpok) as (_ & _ & _ & _ & Hadd & _).
  destruct (Hadd eq_refl) as (Hnone & _).
  destruct (s_store s !! it_key i) as [it|] eqn:Est; [|reflexivity]. exfalso.
  assert (Hnb : ~ clr_busy (s_threads s)) by (apply app_not_busy; [exact Hclr|congruence]).
  destruct (sy_SP _ _ _ _ _ Hsy Hnb (it_key i) ltac:(rewrite Est; eauto)) as [Hs|[Hs|Hs]]; try (rewrite Ha in Hs); simpl in Hs.
  - rewrite Hnone in Hs. destruct Hs; discriminate.
  - inversion Hs.
  - exact Hs.
Qed.

Lemma step_fresh kc c s l s' : cache_inv kc s -> fresh_inv s -> mstep c s l = Some s' -> fresh_inv s'.
Proof.
  intros [Hkc Hclr Hpok Hsy] Hf H. unfold fresh_inv in *.
  pose proof (app_not_busy s Hclr) as Hnb.
  step_cases H.
  all: repeat match goal with Hb : s_apc _ = _ |- context [s_apc _] => rewrite Hb end.
  all: try (simpl in Hf).
  all: try congruence.
  all: try exact Hf.
  all: try exact I.
  all: try solve [ apply lookup_empty ].
  all: try solve [ eapply store_update_keeps_none; eassumption ].
  all: try solve [ eapply store_del_keeps_none; eassumption ].
  all: try solve [ match goal with Ha : s_apc ?s0 = _, Hb : s_apc ?s0 = _ |- _ => rewrite Ha in Hb; inversion Hb; subst end;
                   first [ (eapply store_update_keeps_none; eassumption) | (eapply store_del_keeps_none; eassumption) ] ].
  all: try solve [ match goal with Hq : ANewSet _ _ = ANewSet _ _ |- _ => inversion Hq; subst end;
                   eapply fresh_at_add; [constructor; eassumption|eassumption|eassumption] ].
Qed.

Lemma item_holds_notnew i v : it_flag i <> FNew -> item_holds i v = 0%nat.
Proof. unfold item_holds, item_new. destruct (it_wait i), (it_flag i); simpl; congruence. Qed.

Lemma store_set_cnt_fresh bdur should st e k cf val exp st' e' v : st !! k = None ->
  store_set bdur should st e k cf val exp = (st', e') -> cnt_store st' v = (b2n (veq val v) + cnt_store st v)%nat.
Proof.
  unfold store_set. intros Hn. rewrite Hn. intros [= <- <-]. rewrite cnt_store_insert_new by auto. reflexivity.
Qed.

(* exact bookkeeping of one value: every step moves it, releases it (OnExit, counted in occ through the log), or
   drops it together with a Set that returns false *)
Lemma step_bal c s l s' v : v <> 0%N -> clr_inv s -> new_inv s -> opv_inv s -> fresh_inv s ->
  s_chan_closed s = false -> lab_noclose l ->
  mstep c s l = Some s' ->
  (occ s' v + refused (s_log s') v + started (s_log s) v = occ s v + refused (s_log s) v + started (s_log s') v)%nat.
Proof.
  intros Hv Hclr [Nth Nap Nbuf] Hopv Hfr Hcc HL H.
  assert (Ngt : forall tid, cpc_new (t_pc (get_thread s tid))).
  { intros tid. unfold get_thread. destruct (s_threads s !! tid) eqn:E; simpl; eauto. }
  assert (Hidle : forall tid, t_op (get_thread s tid) = None -> t_pc (get_thread s tid) = CIdle).
  { intros tid Hop. unfold get_thread in *. destruct (s_threads s !! tid) eqn:E; simpl in *; auto.
    eapply (ci_idle _ Hclr); eauto. }
  assert (Hog : forall tid, match t_pc (get_thread s tid) with
                            | CSetUpd i | CSetSend i => it_wait i = None /\ exists k c cost ttl, t_op (get_thread s tid) = Some (OSet k c (it_val i) cost ttl)
                            | _ => True end).
  { intros tid. unfold get_thread. destruct (s_threads s !! tid) eqn:E; simpl; [eapply Hopv; eauto|exact I]. }
  pose proof (b2n_veq0 v Hv) as H0. unfold fresh_inv in Hfr.
  step_cases H.
  all: try congruence.
  all: try solve [ exfalso; exact HL ].
  all: try (match goal with Hpc : t_pc (get_thread _ ?tid) = CSetUpd ?i |- _ =>
              let Hx := fresh "Hx" in pose proof (Ngt tid) as Hx; rewrite Hpc in Hx; simpl in Hx;
              pose proof (item_holds_new i v Hx) end).
  all: try (match goal with Hpc : t_pc (get_thread _ ?tid) = CSetSend ?i |- _ =>
              let Hy := fresh "Hy" in pose proof (Hog tid) as Hy; rewrite Hpc in Hy; simpl in Hy;
              destruct Hy as (Hw0 & kk & cc & cost0 & ttl0 & Hy) end).
  all: try (match goal with Hb : Forall _ (_ :: _) |- _ => inversion Hb as [|? ? Nhd Ntl]; subst end).
  all: simpl in Nap; try (simpl in Hfr).
  all: try (match goal with Hop : t_op (get_thread _ ?tid) = None |- _ =>
              let Hpc := fresh "Hpc" in pose proof (Hidle tid Hop) as Hpc end).
  all: try (match goal with E : store_update _ _ _ _ _ _ _ _ = (_, ?u, _, _) |- _ =>
              let Hs := fresh "Hs" in pose proof (store_update_cnt _ _ _ _ _ _ _ _ _ _ _ _ v E) as Hs; cbn beta iota in Hs end).
  all: try (match goal with E : store_set _ _ _ _ _ _ _ _ = _ |- _ =>
              let Hs := fresh "Hs" in pose proof (store_set_cnt_fresh _ _ _ _ _ _ _ _ _ _ v Hfr E) as Hs end).
  all: try (match goal with E : store_del _ _ _ _ _ = _ |- _ =>
              let Hs := fresh "Hs" in pose proof (store_del_cnt _ _ _ _ _ _ _ _ _ v Hv E) as Hs end).
  all: try (match goal with E : store_del_expired _ _ _ _ _ _ = _ |- _ =>
              let Hs := fresh "Hs" in pose proof (store_del_expired_cnt _ _ _ _ _ _ _ _ _ v E) as Hs; cbn beta iota in Hs end).
  all: unfold occ; msimpl.
  all: repeat match goal with Hb : s_buf _ = _ |- context [s_buf _] => rewrite Hb end.
  all: repeat match goal with Ha : s_apc _ = _ |- context [s_apc _] => rewrite Ha end.
  all: repeat match goal with Ha : s_apend _ = _ |- context [s_apend _] => rewrite Ha end.
  all: repeat rewrite cnt_log_cons; repeat rewrite started_cons; repeat rewrite refused_cons; cbn [ev_exit ev_started ev_refused].
  all: try (match goal with |- context [cnt_threads (<[?tid := ?t']> ?T) _] =>
              let HT := fresh "HT" in pose proof (cnt_threads_insert T tid t' v) as HT;
              change (default idle_thread (T !! tid)) with (get_thread s tid) in HT;
              unfold thr_holds in HT; cbn [t_pc t_pend] in HT end).
  all: repeat match goal with Hp : t_pc (get_thread _ _) = _ |- _ => rewrite Hp in * end.
  all: repeat match goal with Hp : t_pend (get_thread _ _) = _ |- _ => rewrite Hp in * end.
  all: cbn [cpc_holds cnt_pend cb_holds apc_holds bonus List.map list_sum evict_cbs reject_cbs
            item_holds item_new it_wait it_flag it_val andb cnt_buf] in *.
  all: unfold evict_cbs, reject_cbs in *.
  all: rewrite ?clear_cbs_cnt, ?cnt_store_empty, ?cnt_pend_cons, ?cnt_pend_nil, ?cnt_buf_cons, ?item_holds_lit,
         ?cb_holds_exit, ?cb_holds_evict, ?cb_holds_reject in *.
  all: rewrite ?cnt_buf_app, ?item_holds_set_cost, ?item_holds_upd, ?item_holds_marker, ?item_holds_tomb in *.
  all: try lia.
  all: repeat match goal with Hd : decide _ = _ |- _ => clear Hd end.
  all: try solve [ match goal with Hf : it_flag ?i = _ |- _ => rewrite (item_holds_notnew i v) in * by congruence end; lia ].
  (* a dropped new item: Set returns false *)
  all: try solve [ match goal with Ho : t_op (get_thread _ _) = Some ?o, Hy : t_op (get_thread _ _) = Some (OSet _ _ _ _ _) |- _ =>
                     rewrite Ho in Hy; inversion Hy; subst o end;
                   match goal with Hpc : cpc_new (CSetSend ?i) |- _ => idtac | _ => idtac end;
                   match goal with Hn : it_flag ?i <> FUpd |- _ =>
                     pose proof (Ngt tid) as Hcn;
                     match goal with Hp : t_pc (get_thread _ _) = CSetSend i |- _ => rewrite Hp in Hcn; simpl in Hcn end;
                     assert (Hnew : item_new i = true) by (unfold item_new; rewrite Hw0; destruct (it_flag i); congruence);
                     rewrite (item_holds_new i v Hnew) in *
                   end; lia ].
  all: try solve [ destruct c0; simpl; lia ].
  all: try solve [ unfold item_holds, item_new in *;
                   repeat match goal with Hf : it_flag _ = _ |- _ => rewrite Hf in * end;
                   repeat match goal with Hw : it_wait _ = _ |- _ => rewrite Hw in * end;
                   simpl in *; lia ].
  all: try solve [ subst g; lia ].
  all: try solve [ destruct c0; simpl in *; lia ].
  all: try solve [ rewrite (item_holds_new i v Nap); lia ].
  all: try solve [ match goal with Hw : it_wait ?i = None, Hn : it_flag ?i <> FUpd, Nhd : buf_item_ok ?i |- _ =>
                     destruct (it_flag i) eqn:Ef; try congruence;
                     [ (assert (Hnw : item_new i = true) by (unfold item_new; rewrite Hw, Ef; reflexivity);
                        rewrite (item_holds_new i v Hnw) in *; lia)
                     | (rewrite (Nhd Hw Ef) in *; rewrite (item_holds_notnew i v) in * by congruence; lia) ] end ].
  all: try solve [ match goal with Hpc : t_pc (get_thread _ ?tid) = CClr _ _ |- _ =>
                     assert (Hm : s_threads s !! tid = Some (get_thread s tid))
                       by (apply get_thread_in_map; rewrite Hpc; discriminate);
                     destruct (ci_exited _ Hclr _ _ Hm ltac:(rewrite Hpc; simpl; split; discriminate)) as [_ Hap];
                     rewrite Hap in *; rewrite ?cnt_pend_nil in *; lia end ].
Qed.


(* ---------- calls of Set(v) that have started / finished / are in flight ---------- *)
Definition is_set (o : option op) (v : N) : nat :=
  match o with Some (OSet _ _ u _ _) => b2n (veq u v) | _ => 0%nat end.
Definition ev_fin (e : event) (v : N) : nat := match e with ERet _ o _ => is_set (Some o) v | _ => 0%nat end.
Definition ev_acc (e : event) (v : N) : nat :=
  match e with ERet _ o (RBool true) => is_set (Some o) v | _ => 0%nat end.
Definition finished (log : list event) (v : N) : nat := list_sum (List.map (fun e => ev_fin e v) log).
Definition accepted (log : list event) (v : N) : nat := list_sum (List.map (fun e => ev_acc e v) log).
Definition inflight (T : gmap nat cthread) (v : N) : nat :=
  list_sum (List.map (fun kt => is_set (t_op kt.2) v) (map_to_list T)).

Lemma list_sum_cons a l : list_sum (a :: l) = (a + list_sum l)%nat.
Proof. reflexivity. Qed.

Lemma inflight_insert (T : gmap nat cthread) tid t' v :
  (inflight (<[tid := t']> T) v + is_set (t_op (default idle_thread (T !! tid))) v = inflight T v + is_set (t_op t') v)%nat.
Proof.
  unfold inflight. destruct (T !! tid) as [t0|] eqn:E; simpl.
  - rewrite <- insert_delete_insert.
    assert (P1 : map_to_list (<[tid:=t']> (delete tid T)) ≡ₚ (tid, t') :: map_to_list (delete tid T))
      by (apply map_to_list_insert, lookup_delete).
    assert (P2 : map_to_list T ≡ₚ (tid, t0) :: map_to_list (delete tid T)) by (symmetry; now apply map_to_list_delete).
    assert (S : forall l1 l2 : list (nat * cthread), l1 ≡ₚ l2 ->
                list_sum (List.map (fun kt => is_set (t_op kt.2) v) l1) = list_sum (List.map (fun kt => is_set (t_op kt.2) v) l2)).
    { induction 1; simpl; lia. }
    rewrite (S _ _ P1), (S _ _ P2). cbn [List.map snd]. rewrite !list_sum_cons. lia.
  - assert (P1 : map_to_list (<[tid:=t']> T) ≡ₚ (tid, t') :: map_to_list T) by (now apply map_to_list_insert).
    assert (S : forall l1 l2 : list (nat * cthread), l1 ≡ₚ l2 ->
                list_sum (List.map (fun kt => is_set (t_op kt.2) v) l1) = list_sum (List.map (fun kt => is_set (t_op kt.2) v) l2)).
    { induction 1; simpl; lia. }
    rewrite (S _ _ P1). cbn [List.map snd]. rewrite !list_sum_cons. change (is_set (t_op idle_thread) v) with 0%nat. lia.
Qed.

Lemma acc_ref_le_fin log v : (accepted log v + refused log v <= finished log v)%nat.
Proof.
  unfold accepted, refused, finished. induction log as [|e log IH]; cbn [List.map]; rewrite ?list_sum_cons; [simpl; lia|].
  assert (ev_acc e v + ev_refused e v <= ev_fin e v)%nat.
  { destruct e as [| tid o r | |]; simpl; try lia. destruct r as [|b| | | |]; simpl; try lia.
    destruct b; destruct o; simpl; lia. }
  lia.
Qed.

(* every call of Set(v) is in flight or has returned, exactly once *)
Lemma step_calls c s l s' v :
  mstep c s l = Some s' ->
  (finished (s_log s') v + inflight (s_threads s') v + started (s_log s) v =
   finished (s_log s) v + inflight (s_threads s) v + started (s_log s') v)%nat.
Proof.
  intros H.
  step_cases H.
  all: unfold finished, started in *; simpl.
  all: try (match goal with |- context [inflight (<[?tid := ?t']> ?T) _] =>
              let HT := fresh "HT" in pose proof (inflight_insert T tid t' v) as HT;
              change (default idle_thread (T !! tid)) with (get_thread s tid) in HT; cbn [t_op] in HT end).
  all: repeat match goal with Hp : t_op (get_thread _ _) = _ |- _ => rewrite Hp in * end.
  all: simpl in *.
  all: try lia.
Qed.

Lemma step_started_le c s l s' v : mstep c s l = Some s' -> (started (s_log s') v <= started (s_log s) v + bonus l v)%nat.
Proof. intros H. step_cases H; unfold started; simpl; lia. Qed.

(* ---------- lifting to schedules ---------- *)
Definition lab_c (kc : N -> N) (l : label) : Prop := label_kc kc l /\ label_noclose l.
Record cons_inv (kc : N -> N) (v : N) (s : state) : Prop := {
  ki_cache : cache_inv kc s; ki_new : new_inv s; ki_opv : opv_inv s; ki_fresh : fresh_inv s; ki_proto : proto_invs s;
  ki_bal : (occ s v + refused (s_log s) v = started (s_log s) v)%nat;
  ki_calls : (finished (s_log s) v + inflight (s_threads s) v = started (s_log s) v)%nat }.

Lemma step_cons kc v c s l s' : v <> 0%N -> lab_c kc l -> cons_inv kc v s -> mstep c s l = Some s' -> cons_inv kc v s'.
Proof.
  intros Hv [Hk Hn] [Hc Hnew Ho Hf [Hclr Hp] Hb Hcalls] H.
  pose proof (step_bal c s l s' v Hv (cv_clr _ _ Hc) Hnew Ho Hf (proj1 (proj2 (pi_open _ Hp))) Hn H) as B1.
  pose proof (step_calls c s l s' v H) as B2.
  constructor.
  - destruct Hc as [H1 H2 H3 H4]. constructor; [eapply step_kc|eapply step_clr|eapply step_pol_ok|eapply step_sync]; eauto.
  - eapply step_new; eauto.
  - eapply step_opv; eauto.
  - eapply step_fresh; eauto.
  - constructor; [eapply step_clr|eapply step_proto]; eauto.
  - lia.
  - lia.
Qed.

Lemma init_cons kc v maxCost bdur now mon : cons_inv kc v (init_state maxCost bdur now mon).
Proof.
  constructor.
  - constructor; [apply init_kc|apply init_clr|apply pol_new_ok|apply init_sync].
  - apply init_new.
  - apply init_opv.
  - exact I.
  - constructor; [apply init_clr|apply init_proto].
  - rewrite init_occ. reflexivity.
  - unfold inflight. simpl. rewrite map_to_list_empty. reflexivity.
Qed.

Lemma run_started c sched : forall s v,
  (started (s_log (mrun c s sched)) v <= started (s_log s) v + count_occ N.eq_dec (set_vals sched) v)%nat.
Proof.
  induction sched as [|l sched IH]; intros s v; simpl; [lia|].
  unfold set_vals in *. simpl. rewrite count_occ_app.
  unfold step_skip. destruct (mstep c s l) as [s'|] eqn:E; simpl.
  - pose proof (step_started_le c s l s' v E) as H1. pose proof (IH s' v) as H2. rewrite bonus_count in H1. lia.
  - pose proof (IH s v). lia.
Qed.

(* C04, conservation: in every state reachable without Close, with one conflict hash per key hash and every Set
   carrying its own value: a value whose Set has returned true is held in exactly one place (map entry, buffered
   new-item record, applier, a pending OnExit) or has been passed to OnExit exactly once; a value whose Set has
   returned false is nowhere and has never been passed to OnExit. *)
Theorem conservation kc c maxCost bdur now mon sched v :
  v <> 0%N -> Forall (lab_c kc) sched -> NoDup (set_vals sched) ->
  let s := mrun c (init_state maxCost bdur now mon) sched in
  ((1 <= accepted (s_log s) v)%nat -> occ s v = 1%nat /\ refused (s_log s) v = 0%nat) /\
  ((1 <= refused (s_log s) v)%nat -> occ s v = 0%nat).
Proof.
  intros Hv HL Hnd s.
  assert (Hi : cons_inv kc v s).
  { apply (mrun_invariant_lab c (lab_c kc) (cons_inv kc v)); auto using init_cons.
    intros s0 l s' Hl Hs Hstep. eapply step_cons; eauto. }
  pose proof (run_started c sched (init_state maxCost bdur now mon) v) as Hst. fold s in Hst.
  assert (count_occ N.eq_dec (set_vals sched) v <= 1)%nat by (apply NoDup_count_occ; exact Hnd).
  change (started (s_log (init_state maxCost bdur now mon)) v) with 0%nat in Hst.
  pose proof (acc_ref_le_fin (s_log s) v) as Har.
  destruct Hi as [_ _ _ _ _ Hb Hc]. split; intros Ha; lia.
Qed.

Lemma cnt_threads_idle (T : gmap nat cthread) v :
  (forall tid t, T !! tid = Some t -> t_pc t = CIdle /\ t_pend t = []) -> cnt_threads T v = 0%nat.
Proof.
  intros H. unfold cnt_threads.
  assert (Hl : forall kt, In kt (map_to_list T) -> thr_holds kt.2 v = 0%nat).
  { intros [tid t] Hin. apply elem_of_list_In, elem_of_map_to_list in Hin. destruct (H _ _ Hin) as [H1 H2].
    unfold thr_holds. simpl. rewrite H1, H2. reflexivity. }
  induction (map_to_list T) as [|kt l IH]; simpl; auto. rewrite Hl by (now left). rewrite IH; auto.
  intros kt' Hin. apply Hl. now right.
Qed.

(* ... so once the cache is empty and quiet (as it is when Clear has returned and nothing else is running), every
   value whose Set returned true has been passed to OnExit exactly once *)
Theorem released_when_quiet kc c maxCost bdur now mon sched v :
  v <> 0%N -> Forall (lab_c kc) sched -> NoDup (set_vals sched) ->
  let s := mrun c (init_state maxCost bdur now mon) sched in
  (1 <= accepted (s_log s) v)%nat ->
  s_store s = ∅ -> s_buf s = [] -> s_apc s = AIdle -> s_apend s = [] ->
  (forall tid t, s_threads s !! tid = Some t -> t_pc t = CIdle /\ t_pend t = []) ->
  cnt_log (s_log s) v = 1%nat.
Proof.
  intros Hv HL Hnd s Ha Hst Hb Hap Hpe Hth.
  destruct (conservation kc c maxCost bdur now mon sched v Hv HL Hnd) as [H1 _]. destruct (H1 Ha) as [Ho _].
  unfold occ in Ho. fold s in Ho. rewrite Hst, Hb, Hap, Hpe, cnt_store_empty, (cnt_threads_idle _ v Hth) in Ho.
  simpl in Ho. exact Ho.
Qed.

(* ---------- OnEvict / OnReject are always followed by that value's OnExit ---------- *)
Fixpoint paired (l : list cb) : Prop :=
  match l with
  | [] => True
  | CbExit _ :: r => paired r
  | CbEvict _ _ v _ :: r | CbReject _ _ v _ :: r =>
      match r with CbExit v' :: r' => v' = v /\ paired r' | _ => False end
  end.
Lemma paired_tail cbk l : paired (cbk :: l) -> paired l.
Proof. destruct cbk; simpl; auto; destruct l as [|[] l]; simpl; tauto. Qed.
Lemma paired_clear (st : store) : paired (clear_cbs st).
Proof.
  unfold clear_cbs. induction (map_to_list st) as [|[k it] l IH]; simpl; auto.
Qed.
Definition pair_inv (s : state) : Prop :=
  paired (s_apend s) /\ forall tid t, s_threads s !! tid = Some t -> paired (t_pend t).
Lemma step_pair c s l s' : pair_inv s -> mstep c s l = Some s' -> pair_inv s'.
Proof.
  intros [Ha Ht] H.
  assert (Hg : forall tid, paired (t_pend (get_thread s tid))).
  { intros tid. unfold get_thread. destruct (s_threads s !! tid) eqn:E; simpl; eauto. }
  step_cases H.
  all: split; msimpl.
  all: try exact Ha.
  all: try exact Ht.
  all: try solve [ simpl; auto ].
  all: try solve [ intros tid0 t0 Hl; apply lookup_thread_insert in Hl as [[-> ->]|[_ Hl]]; [|exact (Ht _ _ Hl)]; simpl;
                   first [ exact I | (split; [reflexivity|exact I]) | apply paired_clear
                         | (match goal with Hp : t_pend (get_thread _ ?tid) = _ :: _ |- _ =>
                              pose proof (Hg tid) as Hq; rewrite Hp in Hq; eapply paired_tail; exact Hq end) ] ].
  all: try solve [ match goal with Hp : s_apend _ = _ :: _ |- _ => rewrite Hp in Ha; eapply paired_tail; exact Ha end ].
  all: try solve [ match goal with Hp : s_apend _ = [] |- _ => rewrite Hp; exact I end ].
  all: try solve [ eapply paired_tail; eassumption ].
Qed.

(* a delivered OnEvict / OnReject is followed, as the very next callback of that goroutine, by OnExit of the same value *)
Lemma evict_then_exit c s tid o k cf v cost rest s' :
  pair_inv s -> s_panic s = false -> t_op (get_thread s tid) = Some o ->
  (t_pend (get_thread s tid) = CbEvict k cf v cost :: rest \/ t_pend (get_thread s tid) = CbReject k cf v cost :: rest) ->
  mstep c s (LStep tid) = Some s' -> exists rest', t_pend (get_thread s' tid) = CbExit v :: rest'.
Proof.
  intros [_ Ht] Hp Hop Hpend H.
  assert (Hq : paired (t_pend (get_thread s tid))).
  { unfold get_thread. destruct (s_threads s !! tid) eqn:E; simpl; eauto. }
  unfold mstep, client_step in H. rewrite Hp, Hop in H.
  destruct Hpend as [Hpend|Hpend]; rewrite Hpend in H, Hq; inversion H; subst; clear H; simpl in Hq;
    destruct rest as [|[] rest]; try contradiction; destruct Hq as [-> _];
    unfold get_thread; msimpl; rewrite lookup_insert; simpl; eauto.
Qed.
Lemma evict_then_exit_app c s k cf v cost rest s' orders :
  pair_inv s -> s_panic s = false ->
  (s_apend s = CbEvict k cf v cost :: rest \/ s_apend s = CbReject k cf v cost :: rest) ->
  mstep c s (LApp false orders) = Some s' -> exists rest', s_apend s' = CbExit v :: rest'.
Proof.
  intros [Ha _] Hp Hpend H. unfold mstep, app_step in H. rewrite Hp in H.
  destruct Hpend as [Hpend|Hpend]; rewrite Hpend in H, Ha; inversion H; subst; clear H; simpl in Ha;
    destruct rest as [|[] rest]; try contradiction; destruct Ha as [-> _]; msimpl; eauto.
Qed.
Lemma init_pair maxCost bdur now mon : pair_inv (init_state maxCost bdur now mon).
Proof. split; simpl; auto. intros tid t H. rewrite lookup_empty in H. discriminate. Qed.
Theorem reachable_pair c maxCost bdur now mon sched : pair_inv (mrun c (init_state maxCost bdur now mon) sched).
Proof. apply (mrun_invariant c pair_inv); [intros; eapply step_pair; eauto|apply init_pair]. Qed.

