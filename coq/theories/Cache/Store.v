(* Model of store.go (shardedMap / lockedMap) and ttl.go (expirationMap).  Sharding only decides lock
   granularity: every store operation below is one critical section of one shard (plus, nested inside it, one
   of the expiration map), so it is modelled as one atomic function on a single finite map.
   Time is Z nanoseconds since the Unix epoch; expiration 0 = no expiration (time.Time zero value).
   Definitions only. *)
From stdpp Require Import gmap.
From Ristretto Require Import Base.Word.
Local Open Scope Z_scope.

Record sitem := { si_conf : N; si_val : N; si_exp : Z }.
Notation store := (gmap N sitem).

Record emap := { em_buckets : gmap Z (gmap N N); em_last : Z }.

Definition ns_per_s : Z := 1000000000.
(* storageBucket(t) = t.Unix()/bucketDurationSecs + 1; for the zero time.Time t.Unix() = -62135596800 *)
Definition unix_s (t : Z) : Z := if t =? 0 then -62135596800 else t / ns_per_s.
Definition storage_bucket (bdur : Z) (t : Z) : Z := Z.quot (unix_s t) bdur + 1.
Definition cleanup_bucket (bdur : Z) (t : Z) : Z := storage_bucket bdur t - 1.

Definition em_new (bdur now : Z) : emap := {| em_buckets := ∅; em_last := cleanup_bucket bdur now |}.

Definition bucket_put (bs : gmap Z (gmap N N)) (b : Z) (key conf : N) : gmap Z (gmap N N) :=
  <[b := <[key := conf]> (default ∅ (bs !! b))]> bs.
Definition bucket_del (bs : gmap Z (gmap N N)) (b : Z) (key : N) : gmap Z (gmap N N) :=
  match bs !! b with
  | Some bk => <[b := delete key bk]> bs
  | None => bs
  end.

(* entries added after their bucket was cleaned go to the next bucket to be cleaned (repair of C14) *)
Definition clamp_bucket (e : emap) (b : Z) : Z := if b <=? em_last e then em_last e + 1 else b.

Definition em_add (bdur : Z) (e : emap) (key conf : N) (exp : Z) : emap :=
  if exp =? 0 then e
  else {| em_buckets := bucket_put (em_buckets e) (clamp_bucket e (storage_bucket bdur exp)) key conf;
          em_last := em_last e |}.

Definition em_update (bdur : Z) (e : emap) (key conf : N) (old_exp new_exp : Z) : emap :=
  let bs1 := bucket_del (em_buckets e) (storage_bucket bdur old_exp) key in
  if new_exp =? 0 then {| em_buckets := bs1; em_last := em_last e |}
  else {| em_buckets := bucket_put bs1 (clamp_bucket e (storage_bucket bdur new_exp)) key conf;
          em_last := em_last e |}.

Definition em_del (bdur : Z) (e : emap) (key : N) (exp : Z) : emap :=
  {| em_buckets := bucket_del (em_buckets e) (storage_bucket bdur exp) key; em_last := em_last e |}.

Definition em_clear (bdur now : Z) : emap := em_new bdur now.

(* cleanup, first critical section: take the buckets (last, cleanupBucket(now)] out of the map.
   Returns the (key, conflict) pairs in bucket order; the order inside a bucket is Go's map order. *)
Fixpoint zrange (lo : Z) (n : nat) : list Z :=
  match n with O => [] | S n' => lo :: zrange (lo + 1) n' end.

Definition em_grab (bdur now : Z) (e : emap) : list (N * N) * emap :=
  let cur := cleanup_bucket bdur now in
  let nums := zrange (em_last e + 1) (Z.to_nat (cur - em_last e)) in
  let keys := flat_map (fun b => map_to_list (default ∅ (em_buckets e !! b))) nums in
  (keys, {| em_buckets := foldr (fun b bs => delete b bs) (em_buckets e) nums;
            em_last := cur |}).

(* ---------- lockedMap ---------- *)
Definition conf_ok (conflict stored : N) : bool := (conflict =? 0)%N || (conflict =? stored)%N.
Definition expired (now exp : Z) : bool := negb (exp =? 0) && (exp <? now).

(* get: (value, found) *)
Definition store_get (s : store) (now : Z) (key conf : N) : N * bool :=
  match s !! key with
  | None => (0%N, false)
  | Some it =>
      if negb (conf_ok conf (si_conf it)) then (0%N, false)
      else if expired now (si_exp it) then (0%N, false)
      else (si_val it, true)
  end.

Definition store_expiration (s : store) (key : N) : Z :=
  match s !! key with Some it => si_exp it | None => 0 end.

(* Set (applier): insert, or overwrite when the conflict matches and ShouldUpdate agrees *)
Definition store_set (bdur : Z) (should : N -> N -> bool) (s : store) (e : emap)
    (key conf val : N) (exp : Z) : store * emap :=
  match s !! key with
  | Some it =>
      if negb (conf_ok conf (si_conf it)) then (s, e)
      else if negb (should val (si_val it)) then (s, e)
      else (<[key := {| si_conf := conf; si_val := val; si_exp := exp |}]> s,
            em_update bdur e key conf (si_exp it) exp)
  | None =>
      (<[key := {| si_conf := conf; si_val := val; si_exp := exp |}]> s, em_add bdur e key conf exp)
  end.

(* Del: (conflict, value) of the removed entry, zero if nothing removed *)
Definition store_del (bdur : Z) (s : store) (e : emap) (key conf : N) : (N * N) * store * emap :=
  match s !! key with
  | None => ((0%N, 0%N), s, e)
  | Some it =>
      if negb (conf_ok conf (si_conf it)) then ((0%N, 0%N), s, e)
      else ((si_conf it, si_val it), delete key s,
            if si_exp it =? 0 then e else em_del bdur e key (si_exp it))
  end.

(* Update (client): (previous value, updated?) *)
Definition store_update (bdur : Z) (should : N -> N -> bool) (s : store) (e : emap)
    (key conf val : N) (exp : Z) : (N * bool) * store * emap :=
  match s !! key with
  | None => ((0%N, false), s, e)
  | Some it =>
      if negb (conf_ok conf (si_conf it)) then ((0%N, false), s, e)
      else if negb (should val (si_val it)) then ((si_val it, false), s, e)
      else ((si_val it, true),
            <[key := {| si_conf := conf; si_val := val; si_exp := exp |}]> s,
            em_update bdur e key conf (si_exp it) exp)
  end.

(* DelExpired (sweep): remove only if the entry's current expiration is set and not after [now] *)
Definition store_del_expired (bdur : Z) (s : store) (e : emap) (key conf : N) (now : Z)
  : option sitem * store * emap :=
  match s !! key with
  | None => (None, s, e)
  | Some it =>
      if negb (conf_ok conf (si_conf it)) then (None, s, e)
      else if (si_exp it =? 0) || (now <? si_exp it) then (None, s, e)
      else (Some it, delete key s, em_del bdur e key (si_exp it))
  end.

(* IterValues at one instant: the values of unexpired entries (in Go's map order) *)
Definition store_iter (s : store) (now : Z) : list N :=
  List.map (fun kv => si_val kv.2) (List.filter (fun kv => negb (expired now (si_exp kv.2))) (map_to_list s)).
