(* C06, first sentence: Wait() returns only after every write buffered before it has been applied.
   Generic FIFO argument: fix a set V of value identifiers ("the writes buffered before the Wait").  If from the step
   that sends the Wait's marker on no goroutine is about to send a record carrying a value of V and no new Set uses
   one, then, once that Wait has returned, no record carrying a value of V is in the write buffer or in the applier's
   hands any more: each has been taken out of the FIFO and processed by the applier (admitted, rejected, cost
   updated, deleted).  Without Clear / Close (Clear's drain also empties the buffer, without applying). *)
From stdpp Require Import gmap.
From Ristretto Require Import Base.Word Cache.Policy Cache.PolicyProofs Cache.Store Cache.StoreProofs Cache.Machine
  Cache.MachineProofs Cache.SyncProofs Cache.DelProofs.
Local Open Scope Z_scope.

Section WaitFifo.
Context (V : gset N) (tw : nat) (id : N).

Definition later (i : item) : Prop := it_wait i = None -> it_val i ∉ V.
Lemma later_set_cost i z : later (set_cost i z) <-> later i.
Proof. unfold later; simpl. tauto. Qed.

Fixpoint behindV (Q : list item) : Prop :=
  match Q with
  | [] => False
  | i :: Q' => if decide (it_wait i = Some id) then Forall later Q' else behindV Q'
  end.
Definition WcV (a : apc) (Bf : list item) (M : gset N) : Prop :=
  (id ∈ M -> Forall later (held a ++ Bf)) /\ (id ∉ M -> behindV (held a ++ Bf)).

Lemma behindV_app Q j : later j -> behindV Q -> behindV (Q ++ [j]).
Proof.
  induction Q as [|i Q IH]; simpl; intros Hj H; [destruct H|].
  destruct (decide (it_wait i = Some id)); auto. apply Forall_app; auto.
Qed.
Lemma behindV_snoc Q : Forall (fun i => it_wait i <> Some id) Q -> behindV (Q ++ [marker id]).
Proof.
  induction 1 as [|i Q Hi HQ IH]; simpl.
  - destruct (decide (Some id = Some id)); [constructor|congruence].
  - destruct (decide (it_wait i = Some id)); [contradiction|exact IH].
Qed.
Lemma WV_app a Bf M j : later j -> WcV a Bf M -> WcV a (Bf ++ [j]) M.
Proof.
  intros Hj [H1 H2]. split; intros Hm; rewrite app_assoc.
  - apply Forall_app; auto.
  - apply behindV_app; auto.
Qed.
Lemma WV_pop_got i l M z : it_wait i = None -> WcV AIdle (i :: l) M -> WcV (AGot (set_cost i z)) l M.
Proof.
  intros Hw [H1 H2]. split; intros Hm; simpl in *.
  - specialize (H1 Hm). inversion H1; subst. constructor; auto; now apply later_set_cost.
  - specialize (H2 Hm). rewrite Hw in *. destruct (decide (None = Some id)); [discriminate|exact H2].
Qed.
Lemma WV_pop_marker i l M n : it_wait i = Some n -> WcV AIdle (i :: l) M -> WcV AIdle l ({[n]} ∪ M).
Proof.
  intros Hw [H1 H2]. simpl in *. destruct (decide (id ∈ M)) as [Hm|Hm].
  - split; [|set_solver]. intros _. specialize (H1 Hm). now inversion H1.
  - specialize (H2 Hm). rewrite Hw in H2. destruct (decide (Some n = Some id)) as [E|E].
    + split; [|set_solver]. intros _. exact H2.
    + split; [set_solver|]. intros _. exact H2.
Qed.
Lemma WV_same a a' Bf M : held a = held a' -> WcV a Bf M -> WcV a' Bf M.
Proof. unfold WcV. now intros ->. Qed.
Lemma WV_drop a a' i Bf M : held a = [i] -> held a' = [] -> it_wait i = None -> WcV a Bf M -> WcV a' Bf M.
Proof.
  unfold WcV. intros -> -> Hw [H1 H2]. simpl in *. split; intros Hm.
  - specialize (H1 Hm). now inversion H1.
  - specialize (H2 Hm). rewrite Hw in H2. destruct (decide (None = Some id)); [discriminate|exact H2].
Qed.

Definition lab_v (l : label) : Prop :=
  match l with
  | LCall _ (OSet _ _ v _ _) => v ∉ V
  | LCall _ OClear | LCall _ OClose => False
  | _ => True
  end.
Lemma lab_v_nc l : lab_v l -> lab_nc l.
Proof. destruct l as [tid o| | | | |]; simpl; auto. destruct o; auto. Qed.

Definition thr_later (T : gmap nat cthread) : Prop :=
  forall tid t, T !! tid = Some t -> match t_pc t with CSetUpd i | CSetSend i => later i | _ => True end.

Record WV (s : state) : Prop := {
  wv_base : base_inv s; wv_thr : thr_later (s_threads s);
  wv_pc : (t_pc (get_thread s tw) = CWaitBlock id /\ t_op (get_thread s tw) <> None) \/ id ∈ s_markers s;
  wv_w : WcV (s_apc s) (s_buf s) (s_markers s) }.

Lemma step_WV c s l s' : 0%N ∉ V -> lab_v l -> WV s -> mstep c s l = Some s' -> WV s'.
Proof.
  intros H0V HL [Hb Hq Hpc Hw] H.
  pose proof (step_base c s l s' (lab_v_nc l HL) Hb H) as Hb'.
  pose proof (b_apc _ Hb) as Hwf.
  assert (Hg : forall tid, match t_pc (get_thread s tid) with CSetUpd i | CSetSend i => later i | _ => True end).
  { intros tid. unfold get_thread. destruct (s_threads s !! tid) eqn:E; simpl; [eapply Hq; eauto|exact I]. }
  assert (Hbt : forall tid, match t_pc (get_thread s tid) with
                            | CSetUpd i | CSetSend i => it_wait i = None | CClr _ _ => False | _ => True end).
  { intros tid. unfold get_thread. destruct (s_threads s !! tid) eqn:E; simpl; [eapply (b_thr _ Hb); eauto|exact I]. }
  clear Hb.
  step_cases H.
  all: try (match goal with Hpc : t_pc (get_thread _ ?tid) = _ |- _ =>
              let Hx := fresh "Hx" in pose proof (Hg tid) as Hx; rewrite Hpc in Hx; simpl in Hx;
              let Hy := fresh "Hy" in pose proof (Hbt tid) as Hy; rewrite Hpc in Hy; simpl in Hy end).
  all: try contradiction.
  all: try solve [ exfalso; exact HL ].
  all: try (simpl in Hwf).
  all: constructor; msimpl.
  all: try exact Hb'.
  all: clear Hb'.
  all: repeat match goal with Hb : s_apc _ = _ |- context [s_apc _] => rewrite Hb end.
  (* threads *)
  all: try exact Hq.
  all: try solve [ intros tid0 t0 Hl; apply lookup_thread_insert in Hl as [[-> ->]|[_ Hl]]; [|exact (Hq _ _ Hl)]; simpl;
                   first [ exact I | exact Hx | apply Hg | (intros _; simpl; exact HL) | (intros Hw0; apply Hx; exact Hw0) ] ].
  (* the waiting goroutine *)
  all: try exact Hpc.
  all: try solve [ unfold get_thread in *; msimpl;
                   destruct (decide (tid = tw)) as [->|Hne];
                   [ rewrite lookup_insert; simpl;
                     destruct Hpc as [[Hp1 Hp2]|Hp]; [|right; set_solver];
                     first [ congruence | (right; congruence) | (left; split; [assumption|discriminate]) ]
                   | rewrite lookup_insert_ne by congruence;
                     destruct Hpc as [Hp|Hp]; [left; exact Hp|right; set_solver] ] ].
  all: try solve [ destruct Hpc as [Hp|Hp]; [left; exact Hp|right; set_solver] ].
  (* the marker *)
  all: repeat match goal with Hb : s_buf _ = _ |- _ => rewrite Hb in Hw end.
  all: try exact Hw.
  all: try solve [ apply WV_app; [|exact Hw];
                   first [ exact Hx | (intros _; simpl; exact H0V) | (intros Hw0; simpl in Hw0; discriminate) ] ].
  all: try solve [ eapply WV_pop_marker; eassumption ].
  all: try solve [ eapply WV_pop_got; eassumption ].
  all: try solve [ eapply WV_same; [|exact Hw]; reflexivity ].
  all: try solve [ match type of Hw with WcV ?a _ _ =>
                     match goal with |- WcV ?a' _ _ =>
                     match a with
                     | AGot ?i => apply (WV_drop a a' i _ _ eq_refl eq_refl); [tauto|exact Hw]
                     | ANewSet ?i _ => apply (WV_drop a a' i _ _ eq_refl eq_refl); [tauto|exact Hw]
                     | ADelStore ?i => apply (WV_drop a a' i _ _ eq_refl eq_refl); [tauto|exact Hw]
                     end end end ].
Qed.

Lemma waitV_establishes c s o s' :
  base_inv s -> thr_later (s_threads s) ->
  t_op (get_thread s tw) = Some o -> t_pend (get_thread s tw) = [] -> t_pc (get_thread s tw) = CWaitSend ->
  id = s_next_marker s ->
  mstep c s (LStep tw) = Some s' -> WV s'.
Proof.
  intros Hb Hq Hop Hpend Hpc Hid H.
  pose proof (step_base c s (LStep tw) s' I Hb H) as Hb'.
  destruct (b_mk _ Hb) as [Hm1 Hm2]. pose proof (b_apc _ Hb) as Hwf.
  unfold mstep, client_step, try_send in H. rewrite Hop, Hpend, Hpc, (b_open _ Hb) in H.
  destruct (s_panic s); [discriminate|].
  destruct (length (s_buf s) <? c_cap c)%nat; [|discriminate]. inversion H; subst s'; clear H.
  constructor; [exact Hb'| | |]; msimpl; rewrite <- ?Hid.
  - intros tid t Hl. apply lookup_thread_insert in Hl as [[-> ->]|[_ Hl]]; [exact I|exact (Hq _ _ Hl)].
  - left. unfold get_thread. msimpl. rewrite lookup_insert. simpl. split; [reflexivity|discriminate].
  - split.
    + intros Hi. rewrite Hid in Hi. apply Hm1 in Hi. lia.
    + intros _. rewrite app_assoc. apply behindV_snoc. apply Forall_app. split.
      * destruct (s_apc s); simpl in *; repeat constructor; intuition congruence.
      * eapply List.Forall_impl; [|exact Hm2]. intros i Hi E. apply Hi in E. lia.
Qed.
End WaitFifo.

(* Wait() returns only after every write buffered before it has been applied *)
Theorem wait_drains c maxCost bdur now mon (V : gset N) sched0 tw o s1 sched :
  0%N ∉ V -> Forall lab_nc sched0 ->
  let s0 := mrun c (init_state maxCost bdur now mon) sched0 in
  thr_later V (s_threads s0) ->
  t_op (get_thread s0 tw) = Some o -> t_pend (get_thread s0 tw) = [] -> t_pc (get_thread s0 tw) = CWaitSend ->
  mstep c s0 (LStep tw) = Some s1 ->
  Forall (lab_v V) sched ->
  let s2 := mrun c s1 sched in
  t_op (get_thread s2 tw) = None ->
  Forall (later V) (held (s_apc s2) ++ s_buf s2).
Proof.
  intros H0 HL0 s0 Hq Hop Hpend Hpc H1 HL s2 Hret.
  assert (Hb0 : base_inv s0).
  { apply (mrun_invariant_lab c lab_nc base_inv); auto using init_base. intros; eapply step_base; eauto. }
  assert (HW1 : WV V tw (s_next_marker s0) s1) by (eapply waitV_establishes; eauto).
  assert (HW2 : WV V tw (s_next_marker s0) s2).
  { apply (mrun_invariant_lab c (lab_v V) (WV V tw (s_next_marker s0))); auto. intros; eapply step_WV; eauto. }
  destruct HW2 as [_ _ Hpc2 [Hw _]]. destruct Hpc2 as [[_ Hx]|Hm]; [congruence|]. exact (Hw Hm).
Qed.
