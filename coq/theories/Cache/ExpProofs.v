(* C14: the expiry index never loses a TTL entry.  Invariant over all schedules: every stored entry with an
   expiration is either indexed in a bucket the sweep has not taken yet (the bucket of its expiration, or the next
   bucket to be cleaned if that one was already behind the sweep when the entry was written), or it is waiting in
   the key list of the sweep in progress, whose time is past the entry's expiration. *)
From stdpp Require Import gmap.
From Ristretto Require Import Base.Word Cache.Policy Cache.PolicyProofs Cache.Store Cache.StoreProofs Cache.Machine Cache.MachineProofs.
Local Open Scope Z_scope.

(* ---------- bucket arithmetic ---------- *)
Lemma unix_s_pos t : 0 < t -> unix_s t = t / ns_per_s.
Proof. intros H. unfold unix_s. destruct (Z.eqb_spec t 0); [lia|reflexivity]. Qed.

Lemma sb_mono bdur x y : 0 < bdur -> 0 < x -> x <= y -> storage_bucket bdur x <= storage_bucket bdur y.
Proof.
  intros Hb Hx Hxy. unfold storage_bucket. rewrite !unix_s_pos by lia.
  assert (0 <= x / ns_per_s) by (apply Z.div_pos; unfold ns_per_s; lia).
  assert (x / ns_per_s <= y / ns_per_s) by (apply Z.div_le_mono; unfold ns_per_s; lia).
  rewrite !Z.quot_div_nonneg by lia.
  assert (x / ns_per_s / bdur <= y / ns_per_s / bdur) by (apply Z.div_le_mono; lia). lia.
Qed.

(* an expiration whose bucket is behind the cleanup bucket of t has passed at t *)
Lemma sb_behind bdur exp t : 0 < bdur -> 0 < exp -> 0 < t ->
  storage_bucket bdur exp <= cleanup_bucket bdur t -> exp < t.
Proof.
  intros Hb He Ht H. unfold cleanup_bucket in H.
  destruct (Z_lt_ge_dec exp t) as [|Hge]; auto. exfalso.
  pose proof (sb_mono bdur t exp Hb Ht ltac:(lia)). lia.
Qed.

(* ---------- bucket map operations touch one key only ---------- *)
Definition bucket_has (bs : gmap Z (gmap N N)) (b : Z) (k cf : N) : Prop :=
  exists bk, bs !! b = Some bk /\ bk !! k = Some cf.

Lemma bucket_put_has bs b k cf : bucket_has (bucket_put bs b k cf) b k cf.
Proof. unfold bucket_has, bucket_put. eexists. rewrite lookup_insert. split; [reflexivity|]. apply lookup_insert. Qed.

Lemma bucket_put_other bs b k cf b' k' cf' : k' <> k ->
  bucket_has bs b' k' cf' -> bucket_has (bucket_put bs b k cf) b' k' cf'.
Proof.
  intros Hne (bk & Hb & Hk). unfold bucket_has, bucket_put.
  destruct (decide (b' = b)) as [->|Hb'].
  - rewrite lookup_insert. eexists; split; [reflexivity|]. rewrite Hb; simpl. rewrite lookup_insert_ne; auto.
  - rewrite lookup_insert_ne by auto. eauto.
Qed.

Lemma bucket_del_other bs b k b' k' cf' : k' <> k ->
  bucket_has bs b' k' cf' -> bucket_has (bucket_del bs b k) b' k' cf'.
Proof.
  intros Hne (bk & Hb & Hk). unfold bucket_has, bucket_del.
  destruct (bs !! b) as [bk0|] eqn:E; [|eauto].
  destruct (decide (b' = b)) as [->|Hb'].
  - rewrite lookup_insert. eexists; split; [reflexivity|]. rewrite E in Hb. inversion Hb; subst.
    rewrite lookup_delete_ne; auto.
  - rewrite lookup_insert_ne by auto. eauto.
Qed.

(* ---------- the invariant ---------- *)
Definition indexed (c : cfg) (e : emap) (k : N) (it : sitem) : Prop :=
  exists b, bucket_has (em_buckets e) b k (si_conf it) /\ em_last e < b /\
            storage_bucket (c_bdur c) (si_exp it) <= b /\
            (b = storage_bucket (c_bdur c) (si_exp it) \/ b = em_last e + 1).

Definition pending (a : apc) (k : N) (it : sitem) : Prop :=
  match a with
  | ASweep keys t => In (k, si_conf it) keys /\ si_exp it <= t
  | ASweepPol _ _ keys t => In (k, si_conf it) keys /\ si_exp it <= t
  | _ => False
  end.

(* indexed is about one key: operations on another key preserve it *)
Lemma indexed_em_add_other c e k cf exp k' it :
  k' <> k -> indexed c e k' it -> indexed c (em_add (c_bdur c) e k cf exp) k' it.
Proof.
  intros Hne (b & Hb & H1 & H2 & H3). unfold em_add. destruct (exp =? 0); [exists b; auto|].
  exists b. simpl. split; [now apply bucket_put_other|auto].
Qed.

Lemma indexed_em_update_other c e k cf old new k' it :
  k' <> k -> indexed c e k' it -> indexed c (em_update (c_bdur c) e k cf old new) k' it.
Proof.
  intros Hne (b & Hb & H1 & H2 & H3). unfold em_update.
  destruct (new =? 0); exists b; simpl; (split; [|auto]).
  - now apply bucket_del_other.
  - apply bucket_put_other; auto. now apply bucket_del_other.
Qed.

Lemma indexed_em_del_other c e k exp k' it :
  k' <> k -> indexed c e k' it -> indexed c (em_del (c_bdur c) e k exp) k' it.
Proof.
  intros Hne (b & Hb & H1 & H2 & H3). exists b. simpl. split; [now apply bucket_del_other|auto].
Qed.

(* a freshly written entry is indexed *)
Lemma clamp_spec e b : em_last e < clamp_bucket e b /\ b <= clamp_bucket e b /\
  (clamp_bucket e b = b \/ clamp_bucket e b = em_last e + 1).
Proof. unfold clamp_bucket. destruct (Z.leb_spec b (em_last e)); lia. Qed.

Lemma indexed_em_add_new c e k cf exp :
  exp <> 0 -> indexed c (em_add (c_bdur c) e k cf exp) k {| si_conf := cf; si_val := 0; si_exp := exp |}.
Proof. Abort.

Lemma indexed_val_irrel c e k it it' :
  si_conf it = si_conf it' -> si_exp it = si_exp it' -> indexed c e k it -> indexed c e k it'.
Proof. unfold indexed. intros -> ->. auto. Qed.

Lemma indexed_add c e k cf v exp :
  exp <> 0 -> indexed c (em_add (c_bdur c) e k cf exp) k {| si_conf := cf; si_val := v; si_exp := exp |}.
Proof.
  intros Hne. unfold em_add. destruct (Z.eqb_spec exp 0); [lia|].
  destruct (clamp_spec e (storage_bucket (c_bdur c) exp)) as (H1 & H2 & H3).
  exists (clamp_bucket e (storage_bucket (c_bdur c) exp)). simpl.
  split; [apply bucket_put_has|]. auto.
Qed.

Lemma indexed_update c e k cf v old exp :
  exp <> 0 -> indexed c (em_update (c_bdur c) e k cf old exp) k {| si_conf := cf; si_val := v; si_exp := exp |}.
Proof.
  intros Hne. unfold em_update. destruct (Z.eqb_spec exp 0); [lia|].
  destruct (clamp_spec e (storage_bucket (c_bdur c) exp)) as (H1 & H2 & H3).
  exists (clamp_bucket e (storage_bucket (c_bdur c) exp)). simpl.
  split; [apply bucket_put_has|]. auto.
Qed.

Definition eok (c : cfg) (e : emap) (a : apc) (k : N) (it : sitem) : Prop :=
  si_exp it <> 0 -> indexed c e k it \/ pending a k it.

Lemma eok_update c e a st k cf v exp should r st' e' :
  store_update (c_bdur c) should st e k cf v exp = (r, st', e') ->
  store_all (eok c e a) st -> store_all (eok c e' a) st'.
Proof.
  unfold store_update. intros H Hall.
  destruct (st !! k) as [it0|] eqn:E; [|inversion H; subst; auto].
  destruct (negb (conf_ok cf (si_conf it0))); [inversion H; subst; auto|].
  destruct (negb (should v (si_val it0))); inversion H; subst; auto.
  intros k' it' Hl Hnz. destruct (decide (k' = k)) as [->|Hne].
  - rewrite lookup_insert in Hl. inversion Hl; subst. left. now apply indexed_update.
  - rewrite lookup_insert_ne in Hl by auto. destruct (Hall _ _ Hl Hnz) as [Hi|Hp]; [left|now right].
    now apply indexed_em_update_other.
Qed.

Lemma eok_set c e a st k cf v exp should st' e' :
  store_set (c_bdur c) should st e k cf v exp = (st', e') ->
  store_all (eok c e a) st -> store_all (eok c e' a) st'.
Proof.
  unfold store_set. intros H Hall.
  destruct (st !! k) as [it0|] eqn:E.
  - destruct (negb (conf_ok cf (si_conf it0))); [inversion H; subst; auto|].
    destruct (negb (should v (si_val it0))); inversion H; subst; auto.
    intros k' it' Hl Hnz. destruct (decide (k' = k)) as [->|Hne].
    + rewrite lookup_insert in Hl. inversion Hl; subst. left. now apply indexed_update.
    + rewrite lookup_insert_ne in Hl by auto. destruct (Hall _ _ Hl Hnz) as [Hi|Hp]; [left|now right].
      now apply indexed_em_update_other.
  - inversion H; subst; clear H.
    intros k' it' Hl Hnz. destruct (decide (k' = k)) as [->|Hne].
    + rewrite lookup_insert in Hl. inversion Hl; subst. left. now apply indexed_add.
    + rewrite lookup_insert_ne in Hl by auto. destruct (Hall _ _ Hl Hnz) as [Hi|Hp]; [left|now right].
      now apply indexed_em_add_other.
Qed.

Lemma eok_del c e a st k cf r st' e' :
  store_del (c_bdur c) st e k cf = (r, st', e') ->
  store_all (eok c e a) st -> store_all (eok c e' a) st'.
Proof.
  unfold store_del. intros H Hall.
  destruct (st !! k) as [it0|] eqn:E; [|inversion H; subst; auto].
  destruct (negb (conf_ok cf (si_conf it0))); inversion H; subst; auto.
  intros k' it' Hl Hnz. apply lookup_delete_Some in Hl. destruct Hl as [Hne Hl].
  destruct (Hall _ _ Hl Hnz) as [Hi|Hp]; [left|now right].
  destruct (si_exp it0 =? 0); auto. apply indexed_em_del_other; auto.
Qed.

Lemma eok_del_expired c e a st k cf t r st' e' :
  store_del_expired (c_bdur c) st e k cf t = (r, st', e') ->
  store_all (eok c e a) st -> store_all (eok c e' a) st'.
Proof.
  unfold store_del_expired. intros H Hall.
  destruct (st !! k) as [it0|] eqn:E; [|inversion H; subst; auto].
  destruct (negb (conf_ok cf (si_conf it0))); [inversion H; subst; auto|].
  destruct ((si_exp it0 =? 0) || (t <? si_exp it0)); inversion H; subst; auto.
  intros k' it' Hl Hnz. apply lookup_delete_Some in Hl. destruct Hl as [Hne Hl].
  destruct (Hall _ _ Hl Hnz) as [Hi|Hp]; [left|now right].
  apply indexed_em_del_other; auto.
Qed.

Lemma eok_apc_mono c e a a' st :
  (forall k it, pending a k it -> pending a' k it) -> store_all (eok c e a) st -> store_all (eok c e a') st.
Proof. intros Hm Hall k it Hl Hnz. destruct (Hall _ _ Hl Hnz); auto. Qed.

(* ---------- the sweep's bucket grab ---------- *)
Lemma in_zrange b lo n : In b (zrange lo n) <-> lo <= b < lo + Z.of_nat n.
Proof.
  revert lo; induction n as [|n IH]; intros lo; simpl; [lia|].
  rewrite IH. lia.
Qed.

Lemma lookup_foldr_delete (bs : gmap Z (gmap N N)) nums b :
  ~ In b nums -> foldr (fun b bs => delete b bs) bs nums !! b = bs !! b.
Proof.
  induction nums as [|x nums IH]; simpl; intros Hn; auto.
  rewrite lookup_delete_ne by (intros ->; apply Hn; now left). apply IH. intros H; apply Hn; now right.
Qed.

Lemma in_reorder pref keys x : In x keys -> In x (reorder pref keys).
Proof.
  intros H. unfold reorder. apply in_or_app.
  destruct (bool_decide (x.1 ∈ pref)) eqn:E.
  - left. apply filter_In. auto.
  - right. apply filter_In. rewrite E. auto.
Qed.

Lemma eok_grab c e st now pref keys e' :
  0 < c_bdur c -> 0 < now -> em_last e <= cleanup_bucket (c_bdur c) now ->
  store_all (fun k it => si_exp it <> 0 -> 0 < si_exp it) st ->
  em_grab (c_bdur c) now e = (keys, e') ->
  store_all (eok c e AIdle) st -> store_all (eok c e' (ASweep (reorder pref keys) now)) st.
Proof.
  intros Hb Hnow Hlast Hpos Hg Hall k it Hl Hnz.
  unfold em_grab in Hg. inversion Hg; subst; clear Hg.
  set (cur := cleanup_bucket (c_bdur c) now) in *.
  destruct (Hall _ _ Hl Hnz) as [(b & (bk & Hbk & Hk) & H1 & H2 & H3)|[]].
  destruct (Z_le_gt_dec b cur) as [Hle|Hgt].
  - right. simpl. split.
    + apply in_reorder. apply in_flat_map. exists b. split.
      * apply in_zrange. lia.
      * rewrite Hbk. simpl. apply elem_of_list_In. now apply elem_of_map_to_list.
    + assert (si_exp it < now); [|lia].
      apply (sb_behind (c_bdur c)); [exact Hb|exact (Hpos _ _ Hl Hnz)|exact Hnow|subst cur; lia].
  - left. exists b. simpl. split.
    + exists bk. split; [|exact Hk]. rewrite lookup_foldr_delete; auto.
      intros Hin. apply in_zrange in Hin. lia.
    + split; [lia|]. split; [exact H2|]. destruct H3 as [H3|H3]; [now left|right]. lia.
Qed.

(* em_last is only moved by the grab and by Clear *)
Lemma store_update_last bdur should st e k cf v exp r st' e' :
  store_update bdur should st e k cf v exp = (r, st', e') -> em_last e' = em_last e.
Proof.
  unfold store_update. destruct (st !! k) as [it0|]; [|intros [= <- <- <-]; auto].
  destruct (negb (conf_ok cf (si_conf it0))); [intros [= <- <- <-]; auto|].
  destruct (negb (should v (si_val it0))); intros [= <- <- <-]; auto.
  unfold em_update. destruct (exp =? 0); reflexivity.
Qed.
Lemma store_set_last bdur should st e k cf v exp st' e' :
  store_set bdur should st e k cf v exp = (st', e') -> em_last e' = em_last e.
Proof.
  unfold store_set. destruct (st !! k) as [it0|].
  - destruct (negb (conf_ok cf (si_conf it0))); [intros [= <- <-]; auto|].
    destruct (negb (should v (si_val it0))); intros [= <- <-]; auto.
    unfold em_update. destruct (exp =? 0); reflexivity.
  - intros [= <- <-]. unfold em_add. destruct (exp =? 0); reflexivity.
Qed.
Lemma store_del_last bdur st e k cf r st' e' :
  store_del bdur st e k cf = (r, st', e') -> em_last e' = em_last e.
Proof.
  unfold store_del. destruct (st !! k) as [it0|]; [|intros [= <- <- <-]; auto].
  destruct (negb (conf_ok cf (si_conf it0))); intros [= <- <- <-]; auto.
  destruct (si_exp it0 =? 0); reflexivity.
Qed.
Lemma store_del_expired_last bdur st e k cf t r st' e' :
  store_del_expired bdur st e k cf t = (r, st', e') -> em_last e' = em_last e.
Proof.
  unfold store_del_expired. destruct (st !! k) as [it0|]; [|intros [= <- <- <-]; auto].
  destruct (negb (conf_ok cf (si_conf it0))); [intros [= <- <- <-]; auto|].
  destruct ((si_exp it0 =? 0) || (t <? si_exp it0)); intros [= <- <- <-]; auto.
Qed.

Lemma cleanup_bucket_mono bdur x y : 0 < bdur -> 0 < x -> x <= y -> cleanup_bucket bdur x <= cleanup_bucket bdur y.
Proof. intros. unfold cleanup_bucket. pose proof (sb_mono bdur x y). lia. Qed.

(* the sweep's check-and-delete cannot skip an entry that is pending with its own conflict and a passed expiration *)
Lemma del_expired_takes bdur st e k it t r st' e' :
  st !! k = Some it -> si_exp it <> 0 -> si_exp it <= t ->
  store_del_expired bdur st e k (si_conf it) t = (r, st', e') -> r = Some it /\ st' = delete k st.
Proof.
  intros Hl Hnz Hle. unfold store_del_expired. rewrite Hl. unfold conf_ok.
  rewrite N.eqb_refl, orb_true_r. simpl.
  destruct (Z.eqb_spec (si_exp it) 0); [lia|]. destruct (Z.ltb_spec t (si_exp it)); [lia|]. simpl.
  intros [= <- <- <-]. auto.
Qed.

Record exp_inv (c : cfg) (s : state) : Prop := {
  ei_store : store_all (eok c (s_em s) (s_apc s)) (s_store s);
  ei_last : em_last (s_em s) <= cleanup_bucket (c_bdur c) (s_now s);
  ei_sweep_t : forall t, (exists keys, s_apc s = ASweep keys t) \/ (exists k it keys, s_apc s = ASweepPol k it keys t) ->
                         0 < t <= s_now s
}.

Lemma prov_exp_pos s : prov_inv s ->
  store_all (fun k it => si_exp it <> 0 -> 0 < si_exp it) (s_store s).
Proof.
  intros [Hst _ _ _ _ Htm _] k it Hl Hnz.
  destruct (Hst _ _ Hl) as (tid & cost & ttl & t & Hin & Httl & Hexp).
  destruct (Htm _ _ _ Hin). unfold exp_of in Hexp. destruct (Z.eqb_spec ttl 0); lia.
Qed.

Lemma eok_sweep_step c e st k cf ks t r st' e' a' :
  store_del_expired (c_bdur c) st e k cf t = (r, st', e') ->
  (a' = ASweep ks t \/ exists it, a' = ASweepPol k it ks t) ->
  store_all (eok c e (ASweep ((k, cf) :: ks) t)) st -> store_all (eok c e' a') st'.
Proof.
  intros Hd Ha Hall.
  pose proof (eok_del_expired _ _ _ _ _ _ _ _ _ _ Hd Hall) as Hall'.
  intros k' it' Hl Hnz. destruct (Hall' _ _ Hl Hnz) as [Hi|[Hin Hle]]; [now left|right].
  assert (Hin' : In (k', si_conf it') ks).
  { destruct Hin as [Heq|Hin]; [|exact Hin]. exfalso. inversion Heq; subst k cf; clear Heq.
    destruct r as [it0|].
    - apply store_del_expired_only in Hd. destruct Hd as (_ & _ & _ & ->).
      rewrite lookup_delete in Hl. discriminate.
    - pose proof (store_del_expired_none _ _ _ _ _ _ _ _ Hd) as [-> ->].
      destruct (del_expired_takes _ _ _ _ _ _ _ _ _ Hl Hnz Hle Hd) as [? _]. discriminate. }
  destruct Ha as [->|[it ->]]; simpl; auto.
Qed.

Lemma step_exp c s l s' : 0 < c_bdur c -> prov_inv s -> exp_inv c s -> mstep c s l = Some s' -> exp_inv c s'.
Proof.
  intros Hbd Hprov [Hst Hlast Hsw] H.
  pose proof (prov_exp_pos s Hprov) as Hpos.
  pose proof (pv_pos _ Hprov) as Hnow.
  step_cases H.
  all: constructor; msimpl.
  all: try assumption.
  (* sweep-time bound *)
  all: try solve [ intros t0 [[keys0 Hk]|(k0 & it0 & keys0 & Hk)]; try discriminate;
                   inversion Hk; subst;
                   first [ lia
                         | (assert (0 < t0 <= s_now s) by (apply Hsw; eauto 6); 
                            repeat match goal with Hd : (_ <? _) = false |- _ => apply Z.ltb_ge in Hd end; lia) ] ].
  all: try solve [ intros t0 Ht0; assert (0 < t0 <= s_now s) by (apply Hsw; exact Ht0);
                   repeat match goal with Hd : (_ <? _) = false |- _ => apply Z.ltb_ge in Hd end; lia ].
  (* em_last *)
  all: try solve [ match goal with
                   | E : store_update _ _ _ _ _ _ _ _ = _ |- _ => rewrite (store_update_last _ _ _ _ _ _ _ _ _ _ _ E); exact Hlast
                   | E : store_set _ _ _ _ _ _ _ _ = _ |- _ => rewrite (store_set_last _ _ _ _ _ _ _ _ _ _ E); exact Hlast
                   | E : store_del _ _ _ _ _ = _ |- _ => rewrite (store_del_last _ _ _ _ _ _ _ _ E); exact Hlast
                   | E : store_del_expired _ _ _ _ _ _ = _ |- _ => rewrite (store_del_expired_last _ _ _ _ _ _ _ _ _ E); exact Hlast
                   end ].
  (* entries *)
  all: try solve [ match goal with
                   | E : store_update _ _ _ _ _ _ _ _ = _ |- _ => eapply eok_update; [exact E|exact Hst]
                   | E : store_del _ _ _ _ _ = _ |- _ => eapply eok_apc_mono; [|eapply eok_del; [exact E|exact Hst]]; simpl; tauto
                   | E : store_set _ _ _ _ _ _ _ _ = _ |- _ => eapply eok_apc_mono; [|eapply eok_set; [exact E|exact Hst]]; simpl; tauto
                   end ].
  all: try solve [ eapply eok_apc_mono; [|exact Hst]; simpl; tauto ].
  all: try apply store_all_empty.
  all: try solve [ cbn; lia ].
  all: try solve [ etrans; [exact Hlast|]; apply cleanup_bucket_mono; auto;
                   repeat match goal with Hd : (_ <? _) = false |- _ => apply Z.ltb_ge in Hd end; lia ].
  all: try solve [ match goal with Ha : s_apc _ = _ |- _ => rewrite Ha end; exact Hsw ].
  all: try solve [ eapply eok_grab; eauto ].
  all: try solve [ match goal with E : em_grab _ _ _ = _ |- _ => unfold em_grab in E; inversion E; subst; simpl; lia end ].
  all: try solve [ eapply eok_sweep_step; [eassumption| |exact Hst]; eauto ].
Qed.

Lemma init_exp c maxCost now mon : exp_inv c (init_state maxCost (c_bdur c) now mon).
Proof.
  constructor; simpl.
  - apply store_all_empty.
  - lia.
  - intros t [[keys H]|(k & it & keys & H)]; discriminate.
Qed.

Theorem reachable_exp c maxCost now mon sched : 0 < c_bdur c -> 0 < now ->
  exp_inv c (mrun c (init_state maxCost (c_bdur c) now mon) sched).
Proof.
  intros Hb Hnow.
  assert (H : prov_inv (mrun c (init_state maxCost (c_bdur c) now mon) sched) /\
              exp_inv c (mrun c (init_state maxCost (c_bdur c) now mon) sched)); [|tauto].
  apply (mrun_invariant c (fun s => prov_inv s /\ exp_inv c s)).
  - intros s l s' [Hp He] H. split; [eapply step_prov; eauto|eapply step_exp; eauto].
  - split; [now apply init_prov|apply init_exp].
Qed.

(* what the sweep does to the key it visits: it removes the entry only if the expiration CURRENTLY attached to
   it is set and has passed at the sweep's time; otherwise the store is untouched *)
Lemma sweep_visit_step c s k cf ks t tick orders s' :
  s_apc s = ASweep ((k, cf) :: ks) t -> s_apend s = [] -> s_panic s = false ->
  mstep c s (LApp tick orders) = Some s' ->
  (s_store s' = s_store s /\ s_apc s' = ASweep ks t) \/
  (exists it, s_store s !! k = Some it /\ si_exp it <> 0 /\ si_exp it <= t /\
              s_store s' = delete k (s_store s) /\ s_apc s' = ASweepPol k it ks t).
Proof.
  intros Ha Hp Hpan H. unfold mstep in H. rewrite Hpan in H. unfold app_step in H. rewrite Hp, Ha in H.
  destruct (store_del_expired (c_bdur c) (s_store s) (s_em s) k cf t) as [[r st] e] eqn:E.
  destruct r as [it|]; inversion H; subst; clear H; msimpl.
  - right. apply store_del_expired_only in E. destruct E as (E1 & E2 & E3 & E4). exists it. auto.
  - left. apply store_del_expired_none in E. destruct E as [-> ->]. auto.
Qed.

(* and reporting it: the accounting is released and OnEvict + OnExit of exactly that value are queued *)
Lemma sweep_report_step c s k it ks t tick orders s' :
  s_apc s = ASweepPol k it ks t -> s_apend s = [] -> s_panic s = false ->
  mstep c s (LApp tick orders) = Some s' ->
  s_store s' = s_store s /\ p_costs (s_pol s') = delete k (p_costs (s_pol s)) /\
  s_apc s' = ASweep ks t /\
  s_apend s' = [CbEvict k (si_conf it) (si_val it) (pol_cost (s_pol s) k); CbExit (si_val it)].
Proof.
  intros Ha Hp Hpan H. unfold mstep in H. rewrite Hpan in H. unfold app_step in H. rewrite Hp, Ha in H.
  destruct (pol_del (s_pol s) (s_met s) k) as [p m] eqn:E.
  inversion H; subst; clear H; msimpl.
  repeat split; auto. pose proof (PolicyProofs.pol_del_costs (s_pol s) (s_met s) k) as Hc. now rewrite E in Hc.
Qed.
