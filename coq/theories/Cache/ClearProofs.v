(* C15: Close and Clear leave a consistent cache. *)
From stdpp Require Import gmap.
From Ristretto Require Import Base.Word Cache.Policy Cache.PolicyProofs Cache.Store Cache.StoreProofs Cache.Machine
  Cache.MachineProofs Cache.SyncProofs Cache.MetricsProofs.
Local Open Scope Z_scope.

(* ---------- inert after Close ---------- *)
Lemma closed_stable c s l s' : s_closed s = true -> mstep c s l = Some s' -> s_closed s' = true.
Proof.
  intros Hc H. step_cases H; auto; congruence.
Qed.

(* what a call on a closed cache does: it returns at once with the inert result and touches nothing but the log *)
Definition inert_result (o : op) : option result :=
  match o with
  | OGet _ _ => Some (RVal 0%N false)
  | OSet _ _ _ _ _ => Some (RBool false)
  | ODel _ _ | OWait | OClear | OClose => Some RUnit
  | OIter => Some (RList [])
  | _ => None
  end.

Lemma closed_inert c s tid o r s' : s_closed s = true -> inert_result o = Some r ->
  mstep c s (LCall tid o) = Some s' ->
  s_log s' = ERet tid o r :: ECall tid o (s_now s) :: s_log s /\
  s_store s' = s_store s /\ s_em s' = s_em s /\ s_pol s' = s_pol s /\ s_met s' = s_met s /\
  s_buf s' = s_buf s /\ s_apc s' = s_apc s /\ s_markers s' = s_markers s /\ s_closed s' = true /\
  t_op (get_thread s' tid) = None.
Proof.
  intros Hc Hr H. unfold mstep in H. destruct (s_panic s); [discriminate|].
  destruct (t_op (get_thread s tid)); [discriminate|]. destruct (t_pend (get_thread s tid)); [|discriminate].
  inversion H; subst; clear H. unfold start_call. msimpl. rewrite Hc.
  destruct o; simpl in Hr; inversion Hr; subst; msimpl; unfold get_thread; msimpl;
    rewrite lookup_insert; simpl; repeat split; auto.
Qed.

(* ---------- after the map has been cleared and until the applier is restarted, it stays empty ---------- *)
Definition stgS_inv (s : state) : Prop :=
  (exists tid, stage_S (th_pc (s_threads s) tid)) -> s_store s = ∅.

Lemma store_update_empty bdur should e k cf v exp : store_update bdur should ∅ e k cf v exp = ((0%N, false), ∅, e).
Proof. unfold store_update. now rewrite lookup_empty. Qed.
Lemma store_del_empty bdur e k cf : store_del bdur ∅ e k cf = ((0%N, 0%N), ∅, e).
Proof. unfold store_del. now rewrite lookup_empty. Qed.

Lemma step_stgS c s l s' : clr_inv s -> stgS_inv s -> mstep c s l = Some s' -> stgS_inv s'.
Proof.
  intros Hclr Hst H. unfold stgS_inv in *.
  assert (Hidle : forall tid, t_op (get_thread s tid) = None -> th_pc (s_threads s) tid = CIdle).
  { intros tid Hop. unfold th_pc, get_thread in *. destruct (s_threads s !! tid) eqn:E; simpl in *; auto.
    eapply (ci_idle _ Hclr); eauto. }
  pose proof (app_not_busy s Hclr) as Hnb.
  step_cases H.
  all: rewrite ?get_thread_th_pc in *.
  all: try (match goal with Hop : t_op (get_thread _ ?tid) = None |- _ =>
              let Hpc := fresh "Hpc" in pose proof (Hidle tid Hop) as Hpc end).
  all: try exact Hst.
  all: try solve [ intros Hex; apply Hst; eapply ex_pc_insert_bwd; [|exact Hex]; pcr; simpl; tauto ].
  all: try solve [ intros _; reflexivity ].
  all: try solve [ intros (tid0 & Hs0); exfalso; apply Hnb; [discriminate|]; exists tid0; now apply stage_S_in_clr ].
  all: try solve [ intros Hex;
                   assert (Hs : s_store s = ∅) by (apply Hst; eapply ex_pc_insert_bwd; [|exact Hex]; pcr; simpl; tauto);
                   match goal with
                   | E : store_update _ _ _ _ _ _ _ _ = _ |- _ => rewrite Hs, store_update_empty in E; inversion E; reflexivity
                   | E : store_del _ _ _ _ _ = _ |- _ => rewrite Hs, store_del_empty in E; inversion E; reflexivity
                   end ].
  all: try solve [ intros Hex; apply Hst; eapply ex_pc_insert_bwd; [|exact Hex]; simpl; tauto ].
Qed.

Record clear_invs (s : state) : Prop := { cl_clr : clr_inv s; cl_stgP : stg_inv s; cl_stgS : stgS_inv s }.

Theorem reachable_clear_invs c maxCost bdur now mon sched :
  clear_invs (mrun c (init_state maxCost bdur now mon) sched).
Proof.
  apply (mrun_invariant c clear_invs).
  - intros s l s' [H1 H2 H3] H. constructor; [eapply step_clr|eapply step_stg|eapply step_stgS]; eauto.
  - constructor; [apply init_clr| |]; intros (tid & H); unfold th_pc in H; simpl in H; destruct H.
Qed.

(* the step with which Clear returns *)
Lemma clear_return_step c s tid s' :
  clear_invs s -> t_op (get_thread s tid) = Some OClear -> t_pend (get_thread s tid) = [] ->
  t_pc (get_thread s tid) = CClr ClrRestart false -> mstep c s (LStep tid) = Some s' ->
  s_store s' = ∅ /\ p_costs (s_pol s') = ∅ /\ pol_cap (s_pol s') = p_max (s_pol s') /\
  s_apc s' = AIdle /\ s_apend s' = [] /\ s_closed s' = s_closed s /\
  s_log s' = ERet tid OClear RUnit :: s_log s /\ t_op (get_thread s' tid) = None.
Proof.
  intros [Hclr HP HS] Hop Hpend Hpc H.
  assert (Hw : exists t, stage_P (th_pc (s_threads s) t) /\ stage_S (th_pc (s_threads s) t)).
  { exists tid. rewrite <- get_thread_th_pc, Hpc. simpl. auto. }
  destruct Hw as (t & W1 & W2).
  destruct (HP (ex_intro _ t W1)) as [HP1 HP2]. pose proof (HS (ex_intro _ t W2)) as HS1.
  unfold mstep in H. destruct (s_panic s); [discriminate|]. unfold client_step in H.
  rewrite Hop, Hpend, Hpc in H. destruct (s_apc s) eqn:Ea; try discriminate.
  inversion H; subst; clear H. msimpl. unfold pol_cap. rewrite HP2.
  repeat split; auto; try lia.
  unfold get_thread; msimpl. rewrite lookup_insert. reflexivity.
Qed.

(* the step with which Close returns *)
Lemma close_return_step c s tid o cl s' :
  t_op (get_thread s tid) = Some o -> t_pend (get_thread s tid) = [] ->
  t_pc (get_thread s tid) = CClr ClsStop cl -> s_chan_closed s = false -> mstep c s (LStep tid) = Some s' ->
  s_closed s' = true /\ s_chan_closed s' = true /\ s_apc s' = AExited /\ s_apend s' = [] /\
  s_panic s' = false /\ s_log s' = ERet tid o RUnit :: s_log s.
Proof.
  intros Hop Hpend Hpc Hch H.
  unfold mstep in H. destruct (s_panic s) eqn:Hp; [discriminate|]. unfold client_step in H.
  rewrite Hop, Hpend, Hpc in H. destruct (s_apc s) eqn:Ea; try discriminate.
  destruct (s_apend s) eqn:Eb; try discriminate. rewrite Hch in H.
  inversion H; subst; clear H. msimpl. repeat split; auto.
Qed.

(* draining a Wait marker releases the waiting goroutine *)
Lemma drain_marker_step c s tid o cl i rest id s' :
  t_op (get_thread s tid) = Some o -> t_pend (get_thread s tid) = [] ->
  t_pc (get_thread s tid) = CClr ClrDrain cl -> s_buf s = i :: rest -> it_wait i = Some id ->
  s_panic s = false -> mstep c s (LStep tid) = Some s' ->
  id ∈ s_markers s' /\ s_buf s' = rest.
Proof.
  intros Hop Hpend Hpc Hb Hw Hp H.
  unfold mstep in H. rewrite Hp in H. unfold client_step in H.
  rewrite Hop, Hpend, Hpc, Hb, Hw in H. inversion H; subst; clear H. msimpl. split; [set_solver|reflexivity].
Qed.

Lemma wait_released_step c s tid o id :
  t_op (get_thread s tid) = Some o -> t_pend (get_thread s tid) = [] ->
  t_pc (get_thread s tid) = CWaitBlock id -> id ∈ s_markers s -> s_panic s = false ->
  exists s', mstep c s (LStep tid) = Some s' /\ s_log s' = ERet tid o RUnit :: s_log s.
Proof.
  intros Hop Hpend Hpc Hin Hp. unfold mstep. rewrite Hp. unfold client_step. rewrite Hop, Hpend, Hpc.
  rewrite decide_True by exact Hin. eexists. split; [reflexivity|]. reflexivity.
Qed.
