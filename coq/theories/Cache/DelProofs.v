(* C05: a completed Del wins over every earlier Set once writes have drained. *)
From stdpp Require Import gmap.
From Ristretto Require Import Base.Word Cache.Policy Cache.PolicyProofs Cache.Store Cache.StoreProofs Cache.Machine
  Cache.MachineProofs Cache.SyncProofs.
Local Open Scope Z_scope.

Section Del.
Context (k c : N).

(* Get(k,c) can hit only if [pres] *)
Definition pres (st : store) : bool :=
  match st !! k with Some it => conf_ok c (si_conf it) | None => false end.

(* effect of a buffered item on "k will be retrievable": an insert of k may make it so, the tombstone of Del(k,c)
   makes it not so, everything else leaves it as it is (or removes k) *)
Definition upd (b : bool) (i : item) : bool :=
  match it_wait i with
  | Some _ => b
  | None => if negb (it_key i =? k)%N then b
            else match it_flag i with
                 | FNew => true
                 | FDel => if (it_conf i =? c)%N then false else b
                 | FUpd => b
                 end
  end.
Definition eventual (b : bool) (Q : list item) : bool := fold_left upd Q b.
(* the item the applier goroutine holds *)
Definition held (a : apc) : list item := match a with AGot i | ANewSet i _ | ADelStore i => [i] | _ => [] end.
Definition Wf (st : store) (a : apc) (B : list item) : Prop := eventual (pres st) (held a ++ B) = false.

Lemma eventual_app b Q1 Q2 : eventual b (Q1 ++ Q2) = eventual (eventual b Q1) Q2.
Proof. unfold eventual. apply fold_left_app. Qed.
Lemma upd_mono b b' i : (b' = true -> b = true) -> upd b' i = true -> upd b i = true.
Proof. unfold upd. repeat case_match; auto. Qed.
Lemma ev_mono Q : forall b b', (b' = true -> b = true) -> eventual b Q = false -> eventual b' Q = false.
Proof.
  induction Q as [|i Q IH]; intros b b' Hb H; simpl in *.
  - destruct b'; auto. rewrite Hb in H; auto.
  - eapply IH; [|exact H]. now apply upd_mono.
Qed.
Lemma upd_set_cost b i z : upd b (set_cost i z) = upd b i.
Proof. reflexivity. Qed.
Lemma upd_marker b id : upd b (marker id) = b.
Proof. reflexivity. Qed.
Lemma upd_tomb_false k' c' : upd false (tombstone k' c') = false.
Proof. unfold upd, tombstone; simpl. repeat case_match; auto. Qed.
Lemma upd_other b i : it_key i <> k -> upd b i = b.
Proof. intros H. unfold upd. destruct (it_wait i); auto. destruct (N.eqb_spec (it_key i) k); simpl; congruence. Qed.

(* ---- the store operations and [pres] ---- *)
Lemma pres_delete k' st : pres (delete k' st) = true -> pres st = true.
Proof.
  unfold pres. destruct (decide (k' = k)) as [->|Hne]; [rewrite lookup_delete; discriminate|].
  now rewrite lookup_delete_ne by congruence.
Qed.
Lemma pres_insert_other k' it st : k' <> k -> pres (<[k' := it]> st) = pres st.
Proof. intros Hne. unfold pres. now rewrite lookup_insert_ne by congruence. Qed.
Lemma pres_del bdur st e k' cf r st' e' : store_del bdur st e k' cf = (r, st', e') -> pres st' = true -> pres st = true.
Proof.
  unfold store_del. intros H. destruct (st !! k') as [it|]; [|now inversion H].
  destruct (negb (conf_ok cf (si_conf it))); inversion H; subst; auto. apply pres_delete.
Qed.
Lemma pres_del_exact bdur st e r st' e' : store_del bdur st e k c = (r, st', e') -> pres st' = false.
Proof.
  unfold store_del. intros H. destruct (st !! k) as [it|] eqn:E.
  - destruct (conf_ok c (si_conf it)) eqn:Ec; simpl in H; inversion H; subst.
    + unfold pres. now rewrite lookup_delete.
    + unfold pres. now rewrite E.
  - inversion H; subst. unfold pres. now rewrite E.
Qed.
Lemma pres_delexp bdur st e k' cf t r st' e' :
  store_del_expired bdur st e k' cf t = (r, st', e') -> pres st' = true -> pres st = true.
Proof.
  unfold store_del_expired. intros H. destruct (st !! k') as [it|]; [|now inversion H].
  destruct (negb (conf_ok cf (si_conf it))); [now inversion H|].
  destruct ((si_exp it =? 0) || (t <? si_exp it)); inversion H; subst; auto. apply pres_delete.
Qed.
Lemma pres_update_other bdur should st e k' cf v exp r st' e' : k' <> k ->
  store_update bdur should st e k' cf v exp = (r, st', e') -> pres st' = pres st.
Proof.
  unfold store_update. intros Hne H. destruct (st !! k') as [it|]; [|now inversion H].
  destruct (negb (conf_ok cf (si_conf it))); [now inversion H|].
  destruct (negb (should v (si_val it))); inversion H; subst; auto. now apply pres_insert_other.
Qed.
Lemma pres_set_other bdur should st e k' cf v exp st' e' : k' <> k ->
  store_set bdur should st e k' cf v exp = (st', e') -> pres st' = pres st.
Proof.
  unfold store_set. intros Hne H. destruct (st !! k') as [it|].
  - destruct (negb (conf_ok cf (si_conf it))); [now inversion H|].
    destruct (negb (should v (si_val it))); inversion H; subst; auto. now apply pres_insert_other.
  - inversion H; subst. now apply pres_insert_other.
Qed.

Lemma get_miss st now : pres st = false -> store_get st now k c = (0%N, false).
Proof. unfold pres, store_get. destruct (st !! k); auto. intros ->. reflexivity. Qed.

(* ---- the invariant that holds from the moment Del(k,c) has sent its tombstone ---- *)
(* no goroutine is inside a Set of k, or inside Clear / Close *)
Definition quiet (T : gmap nat cthread) : Prop :=
  forall tid t, T !! tid = Some t ->
    match t_pc t with
    | CSetUpd i | CSetSend i => it_key i <> k /\ it_wait i = None
    | CClr _ _ => False
    | _ => True
    end.
(* Wait markers are numbered increasingly *)
Definition mlt (n : N) (i : item) : Prop := forall id, it_wait i = Some id -> (id < n)%N.
Definition mk_ok (s : state) : Prop :=
  (forall id, id ∈ s_markers s -> (id < s_next_marker s)%N) /\ Forall (mlt (s_next_marker s)) (s_buf s).

Definition apc_wf (a : apc) : Prop :=
  match a with
  | AGot i => it_wait i = None
  | ANewSet i _ => it_flag i = FNew /\ it_wait i = None
  | ADelStore i => it_wait i = None
  | _ => True
  end.
Record D (s : state) : Prop := {
  d_quiet : quiet (s_threads s); d_mk : mk_ok s; d_apc : apc_wf (s_apc s);
  d_w : Wf (s_store s) (s_apc s) (s_buf s) }.

Definition lab_ok (l : label) : Prop :=
  match l with
  | LCall _ (OSet k' _ _ _ _) => k' <> k
  | LCall _ OClear | LCall _ OClose => False
  | _ => True
  end.

Lemma quiet_insert T tid t' : quiet T ->
  match t_pc t' with
  | CSetUpd i | CSetSend i => it_key i <> k /\ it_wait i = None
  | CClr _ _ => False
  | _ => True
  end -> quiet (<[tid := t']> T).
Proof.
  intros Hq Ht tid0 t0 Hl. apply lookup_thread_insert in Hl as [[-> ->]|[_ Hl]]; [exact Ht|exact (Hq _ _ Hl)].
Qed.

Lemma quiet_get s tid : quiet (s_threads s) ->
  match t_pc (get_thread s tid) with
  | CSetUpd i | CSetSend i => it_key i <> k /\ it_wait i = None
  | CClr _ _ => False
  | _ => True
  end.
Proof. intros Hq. unfold get_thread. destruct (s_threads s !! tid) eqn:E; simpl; [eapply Hq; eauto|exact I]. Qed.

Lemma Wf_weaken st st' a B : (pres st' = true -> pres st = true) -> Wf st a B -> Wf st' a B.
Proof. unfold Wf. intros H. now apply ev_mono. Qed.

Lemma Wf_app st a B i : upd false i = false -> Wf st a B -> Wf st a (B ++ [i]).
Proof. unfold Wf. intros Hi H. rewrite app_assoc, eventual_app, H. exact Hi. Qed.
Lemma Wf_pop_marker st i l n : it_wait i = Some n -> Wf st AIdle (i :: l) -> Wf st AIdle l.
Proof. unfold Wf, eventual. simpl. unfold upd at 2. now intros ->. Qed.
Lemma upd_ge b i : it_flag i <> FDel -> b = true -> upd b i = true.
Proof. intros Hf ->. unfold upd. repeat case_match; auto; congruence. Qed.
Lemma Wf_drop st i B a' : held a' = [] -> it_flag i <> FDel -> Wf st (AGot i) B -> Wf st a' B.
Proof.
  unfold Wf. intros -> Hf H. simpl in *. eapply ev_mono; [|exact H]. now apply upd_ge.
Qed.
Lemma Wf_newset bdur should st e i vs v exp st' e' B a' : held a' = [] ->
  it_flag i = FNew -> it_wait i = None ->
  store_set bdur should st e (it_key i) (it_conf i) v exp = (st', e') ->
  Wf st (ANewSet i vs) B -> Wf st' a' B.
Proof.
  unfold Wf. intros -> Hf Hw E H. simpl in *. eapply ev_mono; [|exact H].
  intros Hp. unfold upd. rewrite Hw, Hf. destruct (N.eqb_spec (it_key i) k) as [Hk|Hk]; simpl; auto.
  erewrite <- pres_set_other; eauto.
Qed.
Lemma Wf_delstore bdur st e i r st' e' B a' : held a' = [] ->
  store_del bdur st e (it_key i) (it_conf i) = (r, st', e') ->
  Wf st (ADelStore i) B -> Wf st' a' B.
Proof.
  unfold Wf. intros -> E H. simpl in *. eapply ev_mono; [|exact H].
  intros Hp. unfold upd. destruct (it_wait i); [eapply pres_del; eauto|].
  destruct (N.eqb_spec (it_key i) k) as [Hk|Hk]; simpl; [|eapply pres_del; eauto].
  destruct (it_flag i); auto; try (eapply pres_del; eauto).
  destruct (N.eqb_spec (it_conf i) c) as [Hc|Hc]; [|eapply pres_del; eauto].
  rewrite Hk, Hc in E. apply pres_del_exact in E. congruence.
Qed.
Lemma pres_update_other_imp bdur should st e k' cf v exp r st' e' : k' <> k ->
  store_update bdur should st e k' cf v exp = (r, st', e') -> pres st' = true -> pres st = true.
Proof. intros Hne E. now rewrite (pres_update_other _ _ _ _ _ _ _ _ _ _ _ Hne E). Qed.

Lemma mlt_snoc n B i : Forall (mlt n) B -> mlt n i -> Forall (mlt n) (B ++ [i]).
Proof. induction 1; simpl; intros; repeat constructor; auto. Qed.
Lemma mlt_weaken n n' B : (n <= n')%N -> Forall (mlt n) B -> Forall (mlt n') B.
Proof. intros Hn. induction 1; constructor; auto. intros id Hid. specialize (H id Hid). lia. Qed.

Lemma step_D cf s l s' : lab_ok l -> D s -> mstep cf s l = Some s' -> D s'.
Proof.
  intros HL [Hq [Hm1 Hm2] Ha Hw] H.
  pose proof (fun tid => quiet_get s tid Hq) as Hg.
  step_cases H.
  all: try (match goal with Hpc : t_pc (get_thread _ ?tid) = _ |- _ =>
              let Hx := fresh "Hx" in pose proof (Hg tid) as Hx; rewrite Hpc in Hx; simpl in Hx end).
  all: try contradiction.
  all: try solve [ exfalso; exact HL ].
  all: simpl in Ha.
  all: constructor; msimpl.
  (* quiet *)
  all: try exact Hq.
  all: try solve [ apply quiet_insert; [exact Hq|]; simpl;
                   first [ exact I | tauto | (split; [exact HL|reflexivity]) | apply Hg ] ].
  (* markers *)
  all: try exact (conj Hm1 Hm2).
  all: unfold mk_ok; msimpl.
  all: repeat match goal with Hb : s_apc _ = _ |- context [s_apc _] => rewrite Hb end.
  all: try solve [ split; [exact Hm1|]; apply mlt_snoc; [exact Hm2|]; intros id Hid; simpl in Hid;
                   first [discriminate | (destruct Hx; congruence)] ].
  all: try solve [ split; [ intros id Hid; specialize (Hm1 id Hid); lia |];
                   apply mlt_snoc; [ eapply mlt_weaken; [|exact Hm2]; lia |];
                   intros id Hid; simpl in Hid; inversion Hid; subst; lia ].
  all: try solve [ inversion Hm2 as [|? ? Hhd Htl]; subst; split; [|exact Htl];
                   first [ exact Hm1
                         | (intros id Hid; apply elem_of_union in Hid as [Hid|Hid];
                            [apply elem_of_singleton in Hid; subst; now apply Hhd|now apply Hm1]) ] ].
  (* applier pc *)
  all: try exact Ha.
  all: try exact I.
  all: try solve [ simpl; auto ].
  (* the key of the story *)
  all: repeat match goal with Hb : s_buf _ = _ |- _ => rewrite Hb in Hw end.
  all: try exact Hw.
  all: try solve [ eapply Wf_weaken; [|exact Hw];
                   first [ (eapply pres_del; eassumption) | (eapply pres_delexp; eassumption)
                         | (eapply pres_update_other_imp; [|eassumption]; tauto) ] ].
  all: try solve [ apply Wf_app; [|exact Hw];
                   first [ apply upd_tomb_false | apply upd_marker | (apply upd_other; tauto) ] ].
  all: try solve [ eapply Wf_pop_marker; eassumption ].
  all: try solve [ eapply Wf_drop; [reflexivity| |exact Hw]; congruence ].
  all: try solve [ eapply Wf_newset; [reflexivity| | |eassumption|exact Hw]; tauto ].
  all: try solve [ eapply Wf_delstore; [reflexivity|eassumption|exact Hw] ].
Qed.

(* ---- after a Wait that was issued later: its marker [id] sits behind the tombstone ---- *)
Context (tw : nat) (id : N).

Definition rel_new (i : item) : Prop := it_wait i = None /\ it_key i = k /\ it_flag i = FNew.
Definition no_new (Q : list item) : Prop := Forall (fun i => ~ rel_new i) Q.
(* before the marker: the last word on k is the tombstone; behind it: no insert of k *)
Fixpoint chk1 (b : bool) (Q : list item) : Prop :=
  match Q with
  | [] => False
  | i :: Q' => if decide (it_wait i = Some id) then b = false /\ no_new Q' else chk1 (upd b i) Q'
  end.
Definition clean (st : store) (a : apc) (B : list item) : Prop := pres st = false /\ no_new (held a ++ B).
Definition Pf (st : store) (a : apc) (B : list item) (M : gset N) : Prop :=
  (id ∈ M -> clean st a B) /\ (id ∉ M -> chk1 (pres st) (held a ++ B)).

Lemma chk1_mono Q : forall b b', (b' = true -> b = true) -> chk1 b Q -> chk1 b' Q.
Proof.
  induction Q as [|i Q IH]; intros b b' Hb H; simpl in *; [exact H|].
  destruct (decide (it_wait i = Some id)).
  - destruct H as [-> H]. split; auto. destruct b'; auto. specialize (Hb eq_refl). discriminate.
  - eapply IH; [|exact H]. now apply upd_mono.
Qed.
Lemma chk1_app Q i : forall b, ~ rel_new i -> chk1 b Q -> chk1 b (Q ++ [i]).
Proof.
  induction Q as [|j Q IH]; intros b Hi H; simpl in *; [destruct H|].
  destruct (decide (it_wait j = Some id)); [|now apply IH].
  destruct H as [-> H]. split; auto. apply Forall_app. split; auto.
Qed.
Lemma chk1_of_W Q : forall b, Forall (fun i => it_wait i <> Some id) Q -> eventual b Q = false -> chk1 b (Q ++ [marker id]).
Proof.
  induction Q as [|j Q IH]; intros b HQ H; simpl in *.
  - destruct (decide (Some id = Some id)); [|congruence]. split; [exact H|constructor].
  - inversion HQ; subst. destruct (decide (it_wait j = Some id)); [contradiction|]. now apply IH.
Qed.

Lemma Pf_weaken st st' a B M : (pres st' = true -> pres st = true) -> Pf st a B M -> Pf st' a B M.
Proof.
  intros Hp [H1 H2]. split.
  - intros Hi. destruct (H1 Hi) as [Hf Hn]. split; auto. destruct (pres st'); auto. now rewrite Hp in Hf.
  - intros Hi. eapply chk1_mono; [|exact (H2 Hi)]. exact Hp.
Qed.
Lemma Pf_app st a B M i : ~ rel_new i -> Pf st a B M -> Pf st a (B ++ [i]) M.
Proof.
  intros Hi [H1 H2]. split.
  - intros Hm. destruct (H1 Hm) as [Hf Hn]. split; auto. unfold no_new in *. rewrite app_assoc.
    apply Forall_app. split; auto.
  - intros Hm. rewrite app_assoc. apply chk1_app; auto.
Qed.
Lemma Pf_pop_got st i l M z : it_wait i = None -> Pf st AIdle (i :: l) M -> Pf st (AGot (set_cost i z)) l M.
Proof.
  intros Hw [H1 H2]. split.
  - intros Hm. destruct (H1 Hm) as [Hf Hn]. split; auto. simpl in *. inversion Hn; subst. constructor; auto.
  - intros Hm. specialize (H2 Hm). simpl in *. rewrite Hw in *.
    destruct (decide (None = Some id)); [discriminate|]. exact H2.
Qed.
Lemma Pf_pop_marker st i l M n : it_wait i = Some n -> Pf st AIdle (i :: l) M -> Pf st AIdle l ({[n]} ∪ M).
Proof.
  intros Hw [H1 H2]. destruct (decide (id ∈ M)) as [Hm|Hm].
  - destruct (H1 Hm) as [Hf Hn]. split; [|set_solver]. intros _. split; auto. simpl in *. now inversion Hn.
  - specialize (H2 Hm). simpl in H2. rewrite Hw in H2. destruct (decide (Some n = Some id)) as [E|E].
    + destruct H2 as [Hb Hn]. split; [|set_solver]. intros _. split; auto.
    + split; [set_solver|]. intros _. simpl. unfold upd in H2. rewrite Hw in H2. exact H2.
Qed.
Lemma Pf_same st a a' B M : held a = held a' -> Pf st a B M -> Pf st a' B M.
Proof. unfold Pf, clean. now intros ->. Qed.
Lemma Pf_drop st i B M a' : held a' = [] -> it_flag i <> FDel -> it_wait i = None ->
  Pf st (AGot i) B M -> Pf st a' B M.
Proof.
  intros Ha Hf Hw [H1 H2]. unfold Pf, clean. rewrite Ha. simpl in *. split.
  - intros Hm. destruct (H1 Hm) as [Hp Hn]. split; auto. now inversion Hn.
  - intros Hm. specialize (H2 Hm). rewrite Hw in H2. destruct (decide (None = Some id)); [discriminate|].
    eapply chk1_mono; [|exact H2]. now apply upd_ge.
Qed.
Lemma Pf_newset bdur should st e i vs v exp st' e' B M a' : held a' = [] ->
  it_flag i = FNew -> it_wait i = None ->
  store_set bdur should st e (it_key i) (it_conf i) v exp = (st', e') ->
  Pf st (ANewSet i vs) B M -> Pf st' a' B M.
Proof.
  intros Ha Hf Hw E [H1 H2]. unfold Pf, clean. rewrite Ha. simpl in *. split.
  - intros Hm. destruct (H1 Hm) as [Hp Hn]. inversion Hn as [|? ? Hi Hn']; subst. split; auto.
    assert (Hk : it_key i <> k) by (intros Hk; apply Hi; repeat split; auto).
    now rewrite (pres_set_other _ _ _ _ _ _ _ _ _ _ Hk E).
  - intros Hm. specialize (H2 Hm). rewrite Hw in H2. destruct (decide (None = Some id)); [discriminate|].
    eapply chk1_mono; [|exact H2]. intros Hp. unfold upd. rewrite Hw, Hf.
    destruct (N.eqb_spec (it_key i) k) as [Hk|Hk]; simpl; auto. erewrite <- pres_set_other; eauto.
Qed.
Lemma Pf_delstore bdur st e i r st' e' B M a' : held a' = [] -> it_wait i = None ->
  store_del bdur st e (it_key i) (it_conf i) = (r, st', e') ->
  Pf st (ADelStore i) B M -> Pf st' a' B M.
Proof.
  intros Ha Hw E [H1 H2]. unfold Pf, clean. rewrite Ha. simpl in *. split.
  - intros Hm. destruct (H1 Hm) as [Hp Hn]. inversion Hn; subst. split; auto.
    destruct (pres st') eqn:E'; auto. apply (pres_del _ _ _ _ _ _ _ _ E) in E'. congruence.
  - intros Hm. specialize (H2 Hm). rewrite Hw in H2. destruct (decide (None = Some id)); [discriminate|].
    eapply chk1_mono; [|exact H2]. intros Hp. unfold upd. rewrite Hw.
    destruct (N.eqb_spec (it_key i) k) as [Hk|Hk]; simpl; [|eapply pres_del; eauto].
    destruct (it_flag i); auto; try (eapply pres_del; eauto).
    destruct (N.eqb_spec (it_conf i) c) as [Hc|Hc]; [|eapply pres_del; eauto].
    rewrite Hk, Hc in E. apply pres_del_exact in E. congruence.
Qed.

Record WP (s : state) : Prop := {
  w_quiet : quiet (s_threads s); w_apc : apc_wf (s_apc s);
  w_pc : (t_pc (get_thread s tw) = CWaitBlock id /\ t_op (get_thread s tw) <> None) \/ id ∈ s_markers s;
  w_p : Pf (s_store s) (s_apc s) (s_buf s) (s_markers s) }.

Lemma step_WP cf s l s' : lab_ok l -> WP s -> mstep cf s l = Some s' -> WP s'.
Proof.
  intros HL [Hq Ha Hpc Hw] H.
  pose proof (fun tid => quiet_get s tid Hq) as Hg.
  step_cases H.
  all: try (match goal with Hpc : t_pc (get_thread _ ?tid) = _ |- _ =>
              let Hx := fresh "Hx" in pose proof (Hg tid) as Hx; rewrite Hpc in Hx; simpl in Hx end).
  all: try contradiction.
  all: try solve [ exfalso; exact HL ].
  all: simpl in Ha.
  all: constructor; msimpl.
  (* quiet *)
  all: try exact Hq.
  all: try solve [ apply quiet_insert; [exact Hq|]; simpl;
                   first [ exact I | tauto | (split; [exact HL|reflexivity]) | apply Hg ] ].
  all: repeat match goal with Hb : s_apc _ = _ |- context [s_apc _] => rewrite Hb end.
  (* applier pc *)
  all: try exact Ha.
  all: try exact I.
  all: try solve [ simpl; auto ].
  (* the waiting goroutine *)
  all: try exact Hpc.
  all: try solve [ unfold get_thread in *; msimpl;
                   destruct (decide (tid = tw)) as [->|Hne];
                   [ rewrite lookup_insert; simpl;
                     destruct Hpc as [[Hp1 Hp2]|Hp]; [|right; set_solver];
                     first [ congruence | (right; congruence) | (left; split; [assumption|discriminate]) ]
                   | rewrite lookup_insert_ne by congruence;
                     destruct Hpc as [Hp|Hp]; [left; exact Hp|right; set_solver] ] ].
  all: try solve [ destruct Hpc as [Hp|Hp]; [left; exact Hp|right; set_solver] ].
  (* the key of the story *)
  all: repeat match goal with Hb : s_buf _ = _ |- _ => rewrite Hb in Hw end.
  all: try exact Hw.
  all: try solve [ eapply Pf_weaken; [|exact Hw];
                   first [ (eapply pres_del; eassumption) | (eapply pres_delexp; eassumption)
                         | (eapply pres_update_other_imp; [|eassumption]; tauto) ] ].
  all: try solve [ apply Pf_app; [|exact Hw]; unfold rel_new; simpl; intros (? & ? & ?); first [discriminate | tauto] ].
  all: try solve [ eapply Pf_pop_marker; eassumption ].
  all: try solve [ eapply Pf_pop_got; eassumption ].
  all: try solve [ eapply Pf_same; [|exact Hw]; reflexivity ].
  all: try solve [ eapply Pf_drop; [reflexivity| | |exact Hw]; first [congruence | tauto] ].
  all: try solve [ eapply Pf_newset; [reflexivity| | |eassumption|exact Hw]; tauto ].
  all: try solve [ eapply Pf_delstore; [reflexivity| |eassumption|exact Hw]; tauto ].
Qed.

(* ---- entering the two phases, and what the second one gives ---- *)
Lemma del_establishes cf s td o s' :
  quiet (s_threads s) -> mk_ok s -> apc_wf (s_apc s) -> s_chan_closed s = false ->
  t_op (get_thread s td) = Some o -> t_pend (get_thread s td) = [] -> t_pc (get_thread s td) = CDelSend k c ->
  mstep cf s (LStep td) = Some s' -> D s'.
Proof.
  intros Hq [Hm1 Hm2] Ha Hc Hop Hpend Hpc H.
  unfold mstep, client_step, try_send in H. rewrite Hop, Hpend, Hpc, Hc in H.
  destruct (s_panic s); [discriminate|].
  destruct (length (s_buf s) <? c_cap cf)%nat; [|discriminate]. inversion H; subst; clear H.
  constructor; msimpl.
  - apply quiet_insert; [exact Hq|exact I].
  - split; [exact Hm1|]. apply mlt_snoc; [exact Hm2|]. intros id0 Hid; discriminate.
  - exact Ha.
  - unfold Wf. rewrite app_assoc, eventual_app. simpl. unfold upd, tombstone; simpl.
    rewrite !N.eqb_refl. reflexivity.
Qed.

Lemma wait_establishes cf s o s' :
  D s -> s_chan_closed s = false ->
  t_op (get_thread s tw) = Some o -> t_pend (get_thread s tw) = [] -> t_pc (get_thread s tw) = CWaitSend ->
  id = s_next_marker s ->
  mstep cf s (LStep tw) = Some s' -> WP s'.
Proof.
  intros [Hq [Hm1 Hm2] Ha Hw] Hc Hop Hpend Hpc Hid H.
  unfold mstep, client_step, try_send in H. rewrite Hop, Hpend, Hpc, Hc in H.
  destruct (s_panic s); [discriminate|].
  destruct (length (s_buf s) <? c_cap cf)%nat; [|discriminate]. inversion H; subst s'; clear H.
  rewrite <- Hid. constructor; msimpl.
  - apply quiet_insert; [exact Hq|exact I].
  - exact Ha.
  - left. unfold get_thread. msimpl. rewrite lookup_insert. simpl. split; [reflexivity|discriminate].
  - split.
    + intros Hi. apply Hm1 in Hi. lia.
    + intros _. rewrite app_assoc. apply chk1_of_W; [|exact Hw].
      apply Forall_app. split.
      * destruct (s_apc s); simpl in *; repeat constructor; intuition congruence.
      * eapply List.Forall_impl; [|exact Hm2]. intros i Hi E. apply Hi in E. lia.
Qed.

Lemma get_misses cf s tg s' :
  WP s -> t_op (get_thread s tw) = None ->
  mstep cf s (LCall tg (OGet k c)) = Some s' ->
  s_log s' = ERet tg (OGet k c) (RVal 0%N false) :: ECall tg (OGet k c) (s_now s) :: s_log s.
Proof.
  intros [Hq Ha Hpc [Hp _]] Hnone H.
  destruct Hpc as [[_ Hx]|Hm]; [congruence|]. destruct (Hp Hm) as [Hf _].
  unfold mstep in H. destruct (s_panic s); [discriminate|].
  destruct (t_op (get_thread s tg)); [discriminate|]. destruct (t_pend (get_thread s tg)); [|discriminate].
  inversion H; subst; clear H. unfold start_call. msimpl.
  destruct (s_closed s); [reflexivity|]. rewrite (get_miss _ _ Hf). reflexivity.
Qed.
End Del.

(* ---- facts about every state reachable without Clear / Close ---- *)
Definition lab_nc (l : label) : Prop := match l with LCall _ OClear | LCall _ OClose => False | _ => True end.
Definition swt (a : apc) (now : Z) : Prop :=
  match a with ASweep _ t | ASweepPol _ _ _ t => t <= now | _ => True end.
Definition apc_fl (a : apc) : Prop := match a with ADelStore i => it_flag i = FDel | _ => True end.
Record base_inv (s : state) : Prop := {
  b_thr : forall tid t, s_threads s !! tid = Some t ->
          match t_pc t with CSetUpd i | CSetSend i => it_wait i = None | CClr _ _ => False | _ => True end;
  b_mk : mk_ok s; b_apc : apc_wf (s_apc s); b_open : s_chan_closed s = false;
  b_fl : apc_fl (s_apc s); b_swt : swt (s_apc s) (s_now s); b_nc : s_closed s = false }.

Lemma step_base cf s l s' : lab_nc l -> base_inv s -> mstep cf s l = Some s' -> base_inv s'.
Proof.
  intros HL [Hq [Hm1 Hm2] Ha Hc Hfl Hsw Hnc] H.
  assert (Hg : forall tid, match t_pc (get_thread s tid) with
                           | CSetUpd i | CSetSend i => it_wait i = None | CClr _ _ => False | _ => True end).
  { intros tid. unfold get_thread. destruct (s_threads s !! tid) eqn:E; simpl; [eapply Hq; eauto|exact I]. }
  step_cases H.
  all: try (match goal with Hpc : t_pc (get_thread _ ?tid) = _ |- _ =>
              let Hx := fresh "Hx" in pose proof (Hg tid) as Hx; rewrite Hpc in Hx; simpl in Hx end).
  all: try contradiction.
  all: try congruence.
  all: try solve [ exfalso; exact HL ].
  all: simpl in Ha; try (simpl in Hfl); try (simpl in Hsw).
  all: constructor; msimpl.
  all: try exact Hq.
  all: try exact Hnc.
  all: try exact Hfl.
  all: try exact Hsw.
  all: try solve [ intros tid0 t0 Hl; apply lookup_thread_insert in Hl as [[-> ->]|[_ Hl]]; [|exact (Hq _ _ Hl)];
                   simpl; first [ exact I | reflexivity | assumption | apply Hg ] ].
  all: try exact (conj Hm1 Hm2).
  all: unfold mk_ok; msimpl.
  all: repeat match goal with Hb : s_apc _ = _ |- context [s_apc _] => rewrite Hb end.
  all: try solve [ split; [exact Hm1|]; apply mlt_snoc; [exact Hm2|]; intros id Hid; simpl in Hid;
                   first [discriminate | congruence] ].
  all: try solve [ split; [ intros id Hid; specialize (Hm1 id Hid); lia |];
                   apply mlt_snoc; [ eapply mlt_weaken; [|exact Hm2]; lia |];
                   intros id Hid; simpl in Hid; inversion Hid; subst; lia ].
  all: try solve [ inversion Hm2 as [|? ? Hhd Htl]; subst; split; [|exact Htl];
                   first [ exact Hm1
                         | (intros id Hid; apply elem_of_union in Hid as [Hid|Hid];
                            [apply elem_of_singleton in Hid; subst; now apply Hhd|now apply Hm1]) ] ].
  all: try exact Ha.
  all: try exact I.
  all: try solve [ simpl; auto ].
  all: try assumption.
  all: try solve [ simpl; lia ].
  all: try solve [ simpl; match goal with Hd0 : (_ <? 0) = false |- _ => apply Z.ltb_ge in Hd0; lia end ].
  all: try solve [ match goal with Hd0 : (_ <? 0) = false |- _ => apply Z.ltb_ge in Hd0 end;
                   destruct (s_apc s); simpl in *; auto; lia ].
Qed.

Lemma init_base maxCost bdur now mon : base_inv (init_state maxCost bdur now mon).
Proof.
  constructor; simpl; auto.
  - intros tid t H. rewrite lookup_empty in H. discriminate.
  - split; [intros id H; set_solver|constructor].
Qed.

Lemma lab_ok_nc k l : lab_ok k l -> lab_nc l.
Proof. destruct l as [tid o| | | | |]; simpl; auto. destruct o; auto. Qed.

Lemma base_quiet k s :
  base_inv s ->
  (forall tid t i, s_threads s !! tid = Some t -> t_pc t = CSetUpd i \/ t_pc t = CSetSend i -> it_key i <> k) ->
  quiet k (s_threads s).
Proof.
  intros Hb Hk tid t Hl. pose proof (b_thr _ Hb _ _ Hl) as Hx.
  destruct (t_pc t) eqn:E; auto; split; eauto.
Qed.

(* C05, over all schedules: from the step with which Del(k,c) sends its tombstone (it returns right after), through
   any activity that is not a Set of k / Clear / Close, a Wait that sends its marker afterwards and has returned:
   Get(k,c) misses — whatever was buffered or applied for k before, whatever the applier's lag. *)
Theorem del_wins cf maxCost bdur now0 mon k c sched0 td o sched1 tw ow sched2 tg s1 s3 s5 :
  Forall lab_nc sched0 ->
  let s0 := mrun cf (init_state maxCost bdur now0 mon) sched0 in
  (forall tid t i, s_threads s0 !! tid = Some t -> t_pc t = CSetUpd i \/ t_pc t = CSetSend i -> it_key i <> k) ->
  t_op (get_thread s0 td) = Some o -> t_pend (get_thread s0 td) = [] -> t_pc (get_thread s0 td) = CDelSend k c ->
  mstep cf s0 (LStep td) = Some s1 ->
  Forall (lab_ok k) sched1 ->
  let s2 := mrun cf s1 sched1 in
  t_op (get_thread s2 tw) = Some ow -> t_pend (get_thread s2 tw) = [] -> t_pc (get_thread s2 tw) = CWaitSend ->
  mstep cf s2 (LStep tw) = Some s3 ->
  Forall (lab_ok k) sched2 ->
  let s4 := mrun cf s3 sched2 in
  t_op (get_thread s4 tw) = None ->
  mstep cf s4 (LCall tg (OGet k c)) = Some s5 ->
  s_log s5 = ERet tg (OGet k c) (RVal 0%N false) :: ECall tg (OGet k c) (s_now s4) :: s_log s4.
Proof.
  intros HL0 s0 Hk Hop Hpend Hpc H1 HL1 s2 Hopw Hpendw Hpcw H3 HL2 s4 Hret H5.
  assert (Hb0 : base_inv s0).
  { apply (mrun_invariant_lab cf lab_nc base_inv); auto using init_base. intros; eapply step_base; eauto. }
  assert (HD1 : D k c s1).
  { eapply del_establishes; eauto using base_quiet; apply Hb0. }
  assert (Hb1 : base_inv s1) by (eapply step_base; eauto; exact I).
  assert (HD2 : D k c s2).
  { apply (mrun_invariant_lab cf (lab_ok k) (D k c)); auto. intros; eapply step_D; eauto. }
  assert (Hb2 : base_inv s2).
  { apply (mrun_invariant_lab cf lab_nc base_inv); auto.
    - intros; eapply step_base; eauto.
    - eapply List.Forall_impl; [|exact HL1]. apply lab_ok_nc. }
  assert (HW3 : WP k c tw (s_next_marker s2) s3).
  { eapply wait_establishes; eauto. apply Hb2. }
  assert (HW4 : WP k c tw (s_next_marker s2) s4).
  { apply (mrun_invariant_lab cf (lab_ok k) (WP k c tw (s_next_marker s2))); auto. intros; eapply step_WP; eauto. }
  eapply get_misses; eauto.
Qed.

(* ... and the value Del removes is handed to OnExit by the deleting goroutine before it goes on *)
Lemma del_releases cf s td o k c it s' :
  s_panic s = false ->
  t_op (get_thread s td) = Some o -> t_pend (get_thread s td) = [] -> t_pc (get_thread s td) = CDelStore k c ->
  s_store s !! k = Some it -> conf_ok c (si_conf it) = true ->
  mstep cf s (LStep td) = Some s' ->
  s_store s' !! k = None /\ t_pc (get_thread s' td) = CDelSend k c /\ t_pend (get_thread s' td) = [CbExit (si_val it)].
Proof.
  intros Hp Hop Hpend Hpc Hl Hc H. unfold mstep, client_step in H. rewrite Hp, Hop, Hpend, Hpc in H.
  unfold store_del in H. rewrite Hl, Hc in H. simpl in H. inversion H; subst; clear H.
  unfold get_thread; msimpl. rewrite lookup_insert, lookup_delete. auto.
Qed.
Lemma pending_callback_first cf s tid o cbk rest s' :
  s_panic s = false -> t_op (get_thread s tid) = Some o -> t_pend (get_thread s tid) = cbk :: rest ->
  mstep cf s (LStep tid) = Some s' ->
  s_log s' = ECb (Some tid) cbk :: s_log s /\ t_pend (get_thread s' tid) = rest /\ t_pc (get_thread s' tid) = t_pc (get_thread s tid).
Proof.
  intros Hp Hop Hpend H. unfold mstep, client_step in H. rewrite Hp, Hop, Hpend in H. inversion H; subst; clear H.
  unfold get_thread; msimpl. rewrite lookup_insert. auto.
Qed.

