(* Drivers used by the correspondence runner: they only compose [step]s of the machine (Machine.v) into the
   coarser moves the Go harness can make deterministically (run a client call until it returns or blocks; let
   the applier run until it would have to receive a gated item; one applier token; one sweep). *)
From stdpp Require Import gmap.
From Ristretto Require Import Base.Word Cache.Policy Cache.Store Cache.Machine.
Local Open Scope Z_scope.

Definition thread_busy (s : state) (tid : nat) : bool :=
  match t_op (get_thread s tid) with Some _ => true | None => false end.

(* advance one client thread until it is idle or blocked *)
Fixpoint run_client (c : cfg) (fuel : nat) (s : state) (tid : nat) : state :=
  match fuel with
  | O => s
  | S f => match mstep c s (LStep tid) with
           | Some s' => run_client c f s' tid
           | None => s
           end
  end.

(* an item the harness gates: its cost is computed by the (blocking) Cost callback *)
Definition gated (c : cfg) (i : item) : bool :=
  match it_wait i, c_costfn c with
  | None, Some _ => (it_cost i =? 0) && negb (bool_decide (it_flag i = FDel))
  | _, _ => false
  end.

(* applier progress that needs no token: finish the current item / sweep, deliver callbacks, and receive
   ungated items (tombstones, Wait markers) *)
Definition app_free_step (c : cfg) (s : state) : option state :=
  match s_apend s, s_apc s with
  | [], AIdle => match s_buf s with
                 | i :: _ => if gated c i then None else mstep c s (LApp false [])
                 | [] => None
                 end
  | _, _ => mstep c s (LApp false [])
  end.

Fixpoint settle_app (c : cfg) (fuel : nat) (s : state) : state :=
  match fuel with
  | O => s
  | S f => match app_free_step c s with
           | Some s' => settle_app c f s'
           | None => s
           end
  end.

(* alternate applier progress and progress of blocked client threads until nothing moves: until neither the applier
   (without a token) nor any of the listed threads has an enabled step *)
Definition can_move (c : cfg) (s : state) (tids : list nat) : bool :=
  match app_free_step c s with
  | Some _ => true
  | None => existsb (fun tid => match mstep c s (LStep tid) with Some _ => true | None => false end) tids
  end.

Fixpoint settle (c : cfg) (rounds : nat) (s : state) (tids : list nat) : state :=
  match rounds with
  | O => s
  | S r =>
      let s1 := settle_app c 4000 s in
      let s2 := fold_left (fun st tid => run_client c 4000 st tid) tids s1 in
      if can_move c s2 tids then settle c r s2 tids else s2
  end.

Definition do_call (c : cfg) (s : state) (tid : nat) (o : op) (blocked : list nat) : state :=
  match mstep c s (LCall tid o) with
  | Some s1 => settle c 1000 (run_client c 4000 s1 tid) (tid :: blocked)
  | None => s
  end.

(* one token: the applier receives the gated head item and processes it completely *)
Definition do_tok (c : cfg) (s : state) (blocked : list nat) : state :=
  match s_apend s, s_apc s, s_buf s with
  | [], AIdle, _ :: _ =>
      match mstep c s (LApp false []) with
      | Some s1 => settle c 1000 s1 blocked
      | None => s
      end
  | _, _, _ => s
  end.

Definition do_sweep (c : cfg) (s : state) (blocked : list nat) : state :=
  match s_apend s, s_apc s with
  | [], AIdle => match mstep c s (LApp true []) with
                 | Some s1 => settle c 1000 s1 blocked
                 | None => s
                 end
  | _, _ => s
  end.

Definition do_time (c : cfg) (s : state) (d : Z) : state := default s (mstep c s (LTime d)).
Definition do_est (c : cfg) (s : state) (k : N) (v : Z) : state := default s (mstep c s (LEst k v)).

(* white-box dumps *)
Definition dump_store (s : state) : list (N * (N * N * Z)) :=
  List.map (fun kv => (kv.1, (si_conf kv.2, si_val kv.2, si_exp kv.2))) (map_to_list (s_store s)).
Definition dump_costs (s : state) : list (N * Z) := map_to_list (p_costs (s_pol s)).
Definition dump_buckets (s : state) : list (Z * list (N * N)) :=
  List.map (fun bk => (bk.1, map_to_list bk.2)) (map_to_list (em_buckets (s_em s))).

Definition mk_cfg (cap : nat) (bdur : Z) (ignore : bool) (item_size : Z) (should_mode : N)
    (costs : list (N * Z)) (use_costfn : bool) : cfg :=
  {| c_cap := cap; c_bdur := bdur; c_ignore_internal := ignore; c_item_size := item_size;
     (* ShouldUpdate variants used by the harness: 0 = always, 1 = only if the new value id is larger,
        2 = never *)
     c_should := fun cur prev => match should_mode with
                                 | 0%N => true
                                 | 1%N => (prev <? cur)%N
                                 | _ => false
                                 end;
     c_costfn := if use_costfn
                 then Some (fun v => default 0 ((list_to_map costs : gmap N Z) !! v))
                 else None |}.

Definition dump_pcosts (p : policy) : list (N * Z) := map_to_list (p_costs p).
