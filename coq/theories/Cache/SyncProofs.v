(* C13: the map and the capacity accounting agree on what is resident.
   Runs in which all operations on a primary hash use one conflict hash (no two live keys collide). *)
From stdpp Require Import gmap.
From Ristretto Require Import Base.Word Cache.Policy Cache.PolicyProofs Cache.Store Cache.StoreProofs Cache.Machine
  Cache.MachineProofs.
Local Open Scope Z_scope.

(* ---------- schedules restricted by a predicate on labels ---------- *)
Lemma mrun_invariant_lab (c : cfg) (L : label -> Prop) (P : state -> Prop) :
  (forall s l s', L l -> P s -> mstep c s l = Some s' -> P s') ->
  forall sched s, Forall L sched -> P s -> P (mrun c s sched).
Proof.
  intros Hstep sched. induction sched as [|l sched IH]; intros s HL Hs; [exact Hs|].
  inversion HL; subst. simpl. apply IH; auto. unfold step_skip. destruct (mstep c s l) eqn:E; simpl; eauto.
Qed.

(* every call names its key with the one conflict hash kc assigns to that primary hash *)
Definition label_kc (kc : N -> N) (l : label) : Prop :=
  match l with
  | LCall _ (OGet k c) | LCall _ (ODel k c) | LCall _ (OGetTTL k c) => c = kc k
  | LCall _ (OSet k c _ _ _) => c = kc k
  | _ => True
  end.

Definition item_kc (kc : N -> N) (i : item) : Prop := it_wait i = None -> it_conf i = kc (it_key i).

Definition cpc_kc (kc : N -> N) (pc : cpc) : Prop :=
  match pc with
  | CSetUpd i | CSetSend i => it_conf i = kc (it_key i)
  | CDelStore k c | CDelSend k c => c = kc k
  | _ => True
  end.
Definition apc_kc (kc : N -> N) (a : apc) : Prop :=
  match a with
  | AGot i | ANewSet i _ | ADelStore i => it_conf i = kc (it_key i)
  | _ => True
  end.

Record kc_inv (kc : N -> N) (s : state) : Prop := {
  kc_store : store_all (fun k it => si_conf it = kc k) (s_store s);
  kc_buf : Forall (item_kc kc) (s_buf s);
  kc_threads : forall tid t, s_threads s !! tid = Some t -> cpc_kc kc (t_pc t);
  kc_apc : apc_kc kc (s_apc s)
}.

Lemma kc_threads_insert kc (ths : gmap nat cthread) tid t :
  (forall tid' t', ths !! tid' = Some t' -> cpc_kc kc (t_pc t')) -> cpc_kc kc (t_pc t) ->
  forall tid' t', <[tid := t]> ths !! tid' = Some t' -> cpc_kc kc (t_pc t').
Proof.
  intros H Ht tid' t' Hl. destruct (decide (tid' = tid)) as [->|Hne].
  - rewrite lookup_insert in Hl. inversion Hl; subst. exact Ht.
  - rewrite lookup_insert_ne in Hl by auto. eauto.
Qed.

(* ---------- where a key can be while map and accounting disagree ---------- *)
Definition vict_keys (a : apc) : list N :=
  match a with ANewSet _ vs | AVict vs => vs.*1 | _ => [] end.
Definition deleting (a : apc) (k : N) : Prop := match a with ADelStore i => it_key i = k | _ => False end.
Definition adding (a : apc) (k : N) : Prop := match a with ANewSet i _ => it_key i = k | _ => False end.
Definition sweeping (a : apc) (k : N) : Prop := match a with ASweepPol k' _ _ _ => k' = k | _ => False end.
Definition is_tomb (i : item) (k : N) : Prop := it_wait i = None /\ it_flag i = FDel /\ it_key i = k.
Definition th_pc (T : gmap nat cthread) (tid : nat) : cpc := t_pc (default idle_thread (T !! tid)).
Definition tomb_pending (B : list item) (a : apc) (T : gmap nat cthread) (k : N) : Prop :=
  (exists i, In i B /\ is_tomb i k) \/
  (exists i, a = AGot i /\ is_tomb i k) \/
  (exists tid c, th_pc T tid = CDelSend k c).

(* in-clear = some thread is between stop and restart *)
Definition in_clr (pc : cpc) : Prop :=
  match pc with CClr st _ => st <> ClrStop /\ st <> ClsStop | _ => False end.
Definition clr_busy (T : gmap nat cthread) : Prop := exists tid, in_clr (th_pc T tid).
(* stages of a Clear after which the accounting / the map are empty *)
Definition stage_P (pc : cpc) : Prop :=
  match pc with CClr ClrStore _ | CClr ClrMetrics _ | CClr ClrRestart _ => True | _ => False end.
Definition stage_S (pc : cpc) : Prop :=
  match pc with CClr ClrMetrics _ | CClr ClrRestart _ => True | _ => False end.

Record sync_of (S : gmap N sitem) (P : gmap N Z) (a : apc) (B : list item) (T : gmap nat cthread) : Prop := {
  sy_SP : ~ clr_busy T -> forall k, is_Some (S !! k) -> is_Some (P !! k) \/ k ∈ vict_keys a \/ deleting a k;
  sy_PS : ~ clr_busy T -> forall k, is_Some (P !! k) ->
          is_Some (S !! k) \/ adding a k \/ sweeping a k \/ tomb_pending B a T k;
  sy_stageP : (exists tid, stage_P (th_pc T tid)) -> forall k, P !! k = None;
  sy_stageS : (exists tid, stage_S (th_pc T tid)) -> forall k, S !! k = None;
  sy_add : forall k, adding a k -> is_Some (P !! k);
  sy_vict : forall k, k ∈ vict_keys a -> P !! k = None;
  sy_del : forall k, deleting a k -> P !! k = None;
  sy_sweep : forall k, sweeping a k -> S !! k = None
}.
Definition sync_inv (s : state) : Prop :=
  sync_of (s_store s) (p_costs (s_pol s)) (s_apc s) (s_buf s) (s_threads s).

Definition quiescent (s : state) : Prop :=
  s_buf s = [] /\ s_apc s = AIdle /\ s_apend s = [] /\
  forall tid t, s_threads s !! tid = Some t -> t_pc t = CIdle.

Lemma quiescent_th_pc s tid : quiescent s -> th_pc (s_threads s) tid = CIdle.
Proof.
  intros (_ & _ & _ & H). unfold th_pc. destruct (s_threads s !! tid) eqn:E; simpl; eauto.
Qed.

Lemma quiescent_agree s : sync_inv s -> quiescent s ->
  forall k, is_Some (s_store s !! k) <-> is_Some (p_costs (s_pol s) !! k).
Proof.
  intros [H1 H2 _ _ _ _ _ _] Hq k. pose proof Hq as (Hb & Ha & _ & _).
  assert (Hnb : ~ clr_busy (s_threads s)).
  { intros (tid & Hin). rewrite quiescent_th_pc in Hin by auto. exact Hin. }
  split.
  - intros Hs. destruct (H1 Hnb k Hs) as [|[Hv|Hd]]; auto.
    + rewrite Ha in Hv. simpl in Hv. inversion Hv.
    + rewrite Ha in Hd. destruct Hd.
  - intros Hp. destruct (H2 Hnb k Hp) as [|[Hd|[Hd|Ht]]]; auto.
    + rewrite Ha in Hd. destruct Hd.
    + rewrite Ha in Hd. destruct Hd.
    + destruct Ht as [(i & Hin & _)|[(i & Hi & _)|(tid & c & Hpc)]].
      * rewrite Hb in Hin. destruct Hin.
      * rewrite Ha in Hi. discriminate.
      * rewrite quiescent_th_pc in Hpc by auto. discriminate.
Qed.

Lemma step_kc kc c s l s' : label_kc kc l -> kc_inv kc s -> mstep c s l = Some s' -> kc_inv kc s'.
Proof.
  intros HL [Hst Hbuf Hth Hapc] H.
  assert (Hgt : forall tid, cpc_kc kc (t_pc (get_thread s tid))).
  { intros tid. unfold get_thread. destruct (s_threads s !! tid) eqn:E; simpl; eauto. }
  step_cases H.
  all: try (match goal with
            | Hpc : t_pc (get_thread _ ?tid) = _ |- _ =>
                let Hx := fresh "Hx" in pose proof (Hgt tid) as Hx; rewrite Hpc in Hx; simpl in Hx
            end).
  all: try (match goal with Hb : Forall _ (_ :: _) |- _ => inversion Hb as [|? ? Hhd Htl]; subst end).
  all: simpl in HL, Hapc.
  all: constructor; msimpl.
  all: repeat match goal with Hb : s_buf _ = _ |- context [s_buf _] => rewrite Hb end.
  all: repeat match goal with Ha : s_apc _ = _ |- context [s_apc _] => rewrite Ha end.
  all: try assumption.
  all: try exact I.
  all: try apply store_all_empty.
  all: try solve [ match goal with
          | E : store_update _ _ _ _ _ _ _ _ = _ |- _ => eapply (store_update_all _ _ _ _ _ _ _ _ _ _ _ _ E); [exact Hst|]; simpl; assumption
          | E : store_set _ _ _ _ _ _ _ _ = _ |- _ => eapply (store_set_all _ _ _ _ _ _ _ _ _ _ _ E); [exact Hst|]; simpl; assumption
          | E : store_del _ _ _ _ _ = _ |- _ => eapply (store_del_all _ _ _ _ _ _ _ _ _ E); exact Hst
          | E : store_del_expired _ _ _ _ _ _ = _ |- _ => eapply (store_del_expired_all _ _ _ _ _ _ _ _ _ _ E); exact Hst
          end ].
  all: try solve [ apply kc_threads_insert; [exact Hth|]; simpl; first [exact I | assumption | congruence ] ].
  all: try solve [ apply List.Forall_app; split; [exact Hbuf|]; constructor; [|constructor];
                   unfold item_kc, tombstone, marker; simpl; first [ congruence | (intros; assumption) | auto ] ].
  all: try solve [ simpl; first [assumption | apply Hhd; assumption ] ].
  all: try solve [ apply kc_threads_insert; [exact Hth|]; simpl; apply Hgt ].
Qed.

(* ---------- key-set effects of the store and policy operations ---------- *)
Lemma store_update_dom bdur should st e k cf v exp r st' e' k' :
  store_update bdur should st e k cf v exp = (r, st', e') -> (is_Some (st' !! k') <-> is_Some (st !! k')).
Proof.
  unfold store_update. destruct (st !! k) as [it0|] eqn:E; [|intros [= <- <- <-]; tauto].
  destruct (negb (conf_ok cf (si_conf it0))); [intros [= <- <- <-]; tauto|].
  destruct (negb (should v (si_val it0))); intros [= <- <- <-]; [tauto|].
  destruct (decide (k' = k)) as [->|Hne].
  - rewrite lookup_insert, E. split; eauto.
  - rewrite lookup_insert_ne by auto. tauto.
Qed.

Lemma store_set_dom bdur should st e k cf v exp st' e' k' :
  store_set bdur should st e k cf v exp = (st', e') -> (is_Some (st' !! k') <-> is_Some (st !! k') \/ k' = k).
Proof.
  unfold store_set. destruct (st !! k) as [it0|] eqn:E.
  - assert (Hk : is_Some (st !! k') \/ k' = k <-> is_Some (st !! k')).
    { split; [intros [H| ->]; auto; rewrite E; eauto|auto]. }
    destruct (negb (conf_ok cf (si_conf it0))); [intros [= <- <-]; tauto|].
    destruct (negb (should v (si_val it0))); intros [= <- <-]; [tauto|].
    rewrite Hk. destruct (decide (k' = k)) as [->|Hne].
    + rewrite lookup_insert, E. split; eauto.
    + rewrite lookup_insert_ne by auto. tauto.
  - intros [= <- <-]. destruct (decide (k' = k)) as [->|Hne].
    + rewrite lookup_insert. split; eauto.
    + rewrite lookup_insert_ne by auto. split; [auto|intros [H|H]; [auto|contradiction]].
Qed.

Lemma store_del_dom bdur st e k cf r st' e' k' :
  store_del bdur st e k cf = (r, st', e') ->
  (is_Some (st' !! k') -> is_Some (st !! k')) /\ (k' <> k -> is_Some (st !! k') -> is_Some (st' !! k')).
Proof.
  unfold store_del. destruct (st !! k) as [it0|] eqn:E; [|intros [= <- <- <-]; tauto].
  destruct (negb (conf_ok cf (si_conf it0))); intros [= <- <- <-]; [tauto|]. split.
  - intros H. apply lookup_delete_is_Some in H. tauto.
  - intros Hne H. apply lookup_delete_is_Some. auto.
Qed.

(* with the matching (or zero) conflict the key is gone afterwards *)
Lemma store_del_gone bdur st e k cf r st' e' :
  store_del bdur st e k cf = (r, st', e') ->
  (forall it, st !! k = Some it -> cf = 0%N \/ cf = si_conf it) -> st' !! k = None.
Proof.
  unfold store_del. intros H Hc. destruct (st !! k) as [it0|] eqn:E; [|inversion H; subst; auto].
  assert (Hok : conf_ok cf (si_conf it0) = true).
  { unfold conf_ok. destruct (Hc _ eq_refl) as [->| ->]; [reflexivity|]. rewrite N.eqb_refl. apply orb_true_r. }
  rewrite Hok in H. simpl in H. inversion H; subst. apply lookup_delete.
Qed.

Lemma pol_update_dom p m k cost k' :
  is_Some (p_costs (pol_update p m k cost).1 !! k') <-> is_Some (p_costs p !! k').
Proof.
  unfold pol_update, pol_update_if_has. destruct (p_costs p !! k) eqn:E; simpl; [|tauto].
  destruct (decide (k' = k)) as [->|Hne].
  - rewrite lookup_insert, E. split; eauto.
  - rewrite lookup_insert_ne by auto. tauto.
Qed.

(* threads: replacing the record of thread tid *)
Lemma lookup_thread_insert (ths : gmap nat cthread) tid t' tid' t :
  <[tid := t']> ths !! tid' = Some t -> (tid' = tid /\ t = t') \/ (tid' <> tid /\ ths !! tid' = Some t).
Proof.
  destruct (decide (tid' = tid)) as [->|Hne].
  - rewrite lookup_insert. intros [= <-]. now left.
  - rewrite lookup_insert_ne by auto. now right.
Qed.

Lemma get_thread_lookup s tid t : s_threads s !! tid = Some t -> get_thread s tid = t.
Proof. unfold get_thread. now intros ->. Qed.

Record clr_inv (s : state) : Prop := {
  ci_exited : forall tid t, s_threads s !! tid = Some t -> in_clr (t_pc t) -> s_apc s = AExited /\ s_apend s = [];
  ci_unique : forall tid1 t1 tid2 t2, s_threads s !! tid1 = Some t1 -> s_threads s !! tid2 = Some t2 ->
              in_clr (t_pc t1) -> in_clr (t_pc t2) -> tid1 = tid2;
  (* a thread that is not inside a call is at CIdle *)
  ci_idle : forall tid t, s_threads s !! tid = Some t -> t_op t = None -> t_pc t = CIdle
}.

Lemma get_thread_in_map s tid : t_pc (get_thread s tid) <> CIdle -> s_threads s !! tid = Some (get_thread s tid).
Proof. unfold get_thread. destruct (s_threads s !! tid); simpl; auto. congruence. Qed.

Ltac thr_cases :=
  repeat match goal with
  | Hl : <[_ := _]> _ !! _ = Some _ |- _ => apply lookup_thread_insert in Hl as [[-> ->]|[? Hl]]
  end.

Lemma step_clr c s l s' : clr_inv s -> mstep c s l = Some s' -> clr_inv s'.
Proof.
  intros [Hex Hun Hid] H.
  step_cases H.
  all: try (match goal with
            | Hpc : t_pc (get_thread ?st ?tid) = _ |- _ =>
                let Hm := fresh "Hm" in
                assert (Hm : s_threads st !! tid = Some (get_thread st tid))
                  by (apply get_thread_in_map; rewrite Hpc; discriminate)
            end).
  all: constructor; msimpl.
  (* exited *)
  all: try solve [ exact Hex ].
  all: try solve [ intros tid0 t0 Hl Hin; thr_cases; simpl in Hin;
                   first [ tauto | (destruct Hin; congruence)
                         | (split; reflexivity)
                         | (destruct (Hex _ _ Hl Hin); split; congruence)
                         | (destruct (Hex _ _ Hm ltac:(match goal with Hpc : t_pc _ = _ |- _ => rewrite Hpc; simpl; split; discriminate end)); split; congruence) ] ].
  all: try solve [ intros tid0 t0 Hl Hin; destruct (Hex _ _ Hl Hin); congruence ].
  (* unique *)
  all: try solve [ exact Hun ].
  all: try solve [ intros tid1 t1 tid2 t2 Hl1 Hl2 Hin1 Hin2; thr_cases; simpl in Hin1, Hin2;
                   first [ reflexivity | tauto | (destruct Hin1; congruence) | (destruct Hin2; congruence)
                         | (eapply Hun; eassumption)
                         | (exfalso; destruct (Hex _ _ Hl1 Hin1); congruence)
                         | (exfalso; destruct (Hex _ _ Hl2 Hin2); congruence)
                         | (exfalso; match goal with Hne : _ <> _ |- _ => apply Hne end;
                            first [ (eapply (Hun _ _ _ _ Hl1 Hm Hin1); match goal with Hpc : t_pc _ = _ |- _ => rewrite Hpc; simpl; split; discriminate end)
                                  | (eapply (Hun _ _ _ _ Hl2 Hm Hin2); match goal with Hpc : t_pc _ = _ |- _ => rewrite Hpc; simpl; split; discriminate end) ]) ] ].
  (* idle *)
  all: try solve [ exact Hid ].
  all: try solve [ intros tid0 t0 Hl Hop; thr_cases; simpl in *; first [reflexivity | discriminate | eauto ] ].
  (* restart: no other thread can be inside a Clear *)
  all: try solve [ intros tid0 t0 Hl Hin; thr_cases; simpl in Hin; [destruct Hin; congruence|];
                   exfalso; match goal with Hne : _ <> _ |- _ => apply Hne end;
                   eapply (Hun _ _ _ _ Hl Hm Hin);
                   match goal with Hpc : t_pc _ = _ |- _ => rewrite Hpc; simpl; split; discriminate end ].
  (* delivering a pending callback keeps the pc *)
  - intros tid0 t0 Hl Hin. thr_cases; simpl in Hin; [|exact (Hex _ _ Hl Hin)].
    assert (Hm : s_threads s !! tid = Some (get_thread s tid)).
    { apply get_thread_in_map. intros E. rewrite E in Hin. exact Hin. }
    exact (Hex _ _ Hm Hin).
  - intros tid1 t1 tid2 t2 Hl1 Hl2 Hin1 Hin2.
    assert (Hm : in_clr (t_pc (get_thread s tid)) -> s_threads s !! tid = Some (get_thread s tid)).
    { intros Hin. apply get_thread_in_map. intros E. rewrite E in Hin. exact Hin. }
    thr_cases; simpl in Hin1, Hin2; auto;
      first [ (eapply Hun; eassumption)
            | (exfalso; match goal with Hne : _ <> _ |- _ => apply Hne end;
               first [ (symmetry; eapply (Hun _ _ _ _ (Hm Hin1)); eassumption)
                     | (eapply (Hun _ _ _ _ (Hm Hin1)); eassumption)
                     | (symmetry; eapply (Hun _ _ _ _ (Hm Hin2)); eassumption)
                     | (eapply (Hun _ _ _ _ (Hm Hin2)); eassumption) ]) ].
Qed.


(* ================================================================================================
   Frame lemmas for sync_of
   ================================================================================================ *)
Lemma th_pc_insert (T : gmap nat cthread) tid t' tid' :
  th_pc (<[tid := t']> T) tid' = if decide (tid' = tid) then t_pc t' else th_pc T tid'.
Proof.
  unfold th_pc. destruct (decide (tid' = tid)) as [->|Hne].
  - now rewrite lookup_insert.
  - now rewrite lookup_insert_ne by auto.
Qed.

Lemma get_thread_th_pc s tid : t_pc (get_thread s tid) = th_pc (s_threads s) tid.
Proof. reflexivity. Qed.

Lemma ex_pc_insert_fwd (Q : cpc -> Prop) (T : gmap nat cthread) tid t' :
  (Q (th_pc T tid) -> Q (t_pc t')) -> (exists x, Q (th_pc T x)) -> exists x, Q (th_pc (<[tid := t']> T) x).
Proof.
  intros H (x & Hx). destruct (decide (x = tid)) as [->|Hne].
  - exists tid. rewrite th_pc_insert, decide_True by auto. auto.
  - exists x. rewrite th_pc_insert, decide_False by auto. auto.
Qed.

Lemma ex_pc_insert_bwd (Q : cpc -> Prop) (T : gmap nat cthread) tid t' :
  (Q (t_pc t') -> Q (th_pc T tid)) -> (exists x, Q (th_pc (<[tid := t']> T) x)) -> exists x, Q (th_pc T x).
Proof.
  intros H (x & Hx). rewrite th_pc_insert in Hx. destruct (decide (x = tid)) as [->|Hne]; eauto.
Qed.

Lemma tomb_insert B a (T : gmap nat cthread) tid t' k :
  (forall k c, th_pc T tid = CDelSend k c -> exists c', t_pc t' = CDelSend k c') ->
  tomb_pending B a T k -> tomb_pending B a (<[tid := t']> T) k.
Proof.
  intros H [Hb|[Ha|(tid' & c & Hpc)]]; [now left|now right; left|]. right; right.
  destruct (decide (tid' = tid)) as [->|Hne].
  - destruct (H _ _ Hpc) as [c' H']. exists tid, c'. rewrite th_pc_insert. rewrite decide_True by auto. exact H'.
  - exists tid', c. rewrite th_pc_insert. rewrite decide_False by auto. exact Hpc.
Qed.

Lemma tomb_buf_mono B B' a T k : (forall i, In i B -> In i B') -> tomb_pending B a T k -> tomb_pending B' a T k.
Proof. intros H [(i & Hi & Ht)|[|]]; [left; eauto|right; now left|right; now right]. Qed.

(* the general frame rule: the key sets may shrink (map) or stay (accounting); a thread changes its pc *)
Lemma sync_frame S S' P P' a B B' T tid t' :
  (* map: only deletions, and a deleted key gets a pending tombstone through the thread *)
  (forall k, is_Some (S' !! k) -> is_Some (S !! k)) ->
  (forall k, is_Some (S !! k) -> is_Some (S' !! k) \/ exists c, t_pc t' = CDelSend k c) ->
  (forall k, is_Some (P' !! k) <-> is_Some (P !! k)) ->
  (forall i, In i B -> In i B') ->
  (in_clr (th_pc T tid) -> in_clr (t_pc t')) ->
  (stage_P (t_pc t') -> stage_P (th_pc T tid)) ->
  (stage_S (t_pc t') -> stage_S (th_pc T tid)) ->
  (forall k c, th_pc T tid = CDelSend k c ->
     (exists c', t_pc t' = CDelSend k c') \/ (exists i, In i B' /\ is_tomb i k)) ->
  sync_of S P a B T -> sync_of S' P' a B' (<[tid := t']> T).
Proof.
  intros HS1 HS2 HP HB Hclr HstP HstS Hds [Hsp Hps HsP HsS Hadd Hvict Hdel Hsw].
  assert (Hbusy : ~ clr_busy (<[tid := t']> T) -> ~ clr_busy T).
  { intros Hn Hb. apply Hn. unfold clr_busy in *. eapply ex_pc_insert_fwd; eauto. }
  assert (HP0 : forall k, P !! k = None -> P' !! k = None).
  { intros k Hk. destruct (P' !! k) eqn:E; auto. assert (is_Some (P !! k)) by (apply HP; rewrite E; eauto).
    rewrite Hk in H. destruct H; discriminate. }
  assert (HS0 : forall k, S !! k = None -> S' !! k = None).
  { intros k Hk. destruct (S' !! k) eqn:E; auto. assert (is_Some (S !! k)) by (apply HS1; rewrite E; eauto).
    rewrite Hk in H. destruct H; discriminate. }
  constructor.
  - intros Hnb k Hk. destruct (Hsp (Hbusy Hnb) k (HS1 _ Hk)) as [Hp|]; auto. left. now apply HP.
  - intros Hnb k Hk. apply HP in Hk. destruct (Hps (Hbusy Hnb) k Hk) as [Hs|[|[|Ht]]]; auto.
    + destruct (HS2 _ Hs) as [|[c Hc]]; auto. right; right; right. right; right.
      exists tid, c. rewrite th_pc_insert, decide_True by auto. exact Hc.
    + right; right; right.
      destruct Ht as [(i & Hi & Hti)|[Hg|(tid' & c & Hpc)]].
      * left. eauto.
      * right; now left.
      * destruct (decide (tid' = tid)) as [->|Hne].
        -- destruct (Hds _ _ Hpc) as [[c' Hc']|Hbuf]; [|now left].
           right; right. exists tid, c'. rewrite th_pc_insert, decide_True by auto. exact Hc'.
        -- right; right. exists tid', c. rewrite th_pc_insert, decide_False by auto. exact Hpc.
  - intros Hst k. apply HP0. apply HsP. eapply ex_pc_insert_bwd; eauto.
  - intros Hst k. apply HS0. apply HsS. eapply ex_pc_insert_bwd; eauto.
  - intros k Hk. apply HP. auto.
  - intros k Hk. apply HP0. auto.
  - intros k Hk. apply HP0. auto.
  - intros k Hk. apply HS0. auto.
Qed.

(* no thread changes: only the buffer grows or the key sets change as above *)
Lemma sync_thread S P a B T tid t' :
  (in_clr (th_pc T tid) -> in_clr (t_pc t')) ->
  (stage_P (t_pc t') -> stage_P (th_pc T tid)) ->
  (stage_S (t_pc t') -> stage_S (th_pc T tid)) ->
  (forall k c, th_pc T tid = CDelSend k c -> exists c', t_pc t' = CDelSend k c') ->
  sync_of S P a B T -> sync_of S P a B (<[tid := t']> T).
Proof.
  intros H1 H2 H3 H4. apply sync_frame; auto; try tauto. intros k c Hpc. left. eauto.
Qed.

(* everything is empty and the applier holds nothing *)
Definition plain (a : apc) : Prop :=
  vict_keys a = [] /\ (forall k, ~ deleting a k) /\ (forall k, ~ adding a k) /\ (forall k, ~ sweeping a k) /\
  (forall i, a <> AGot i).

Lemma sync_apc_plain S P a a' B T : plain a -> plain a' -> sync_of S P a B T -> sync_of S P a' B T.
Proof.
  intros (V & D & A & W & G) (V' & D' & A' & W' & G') [Hsp Hps HsP HsS Hadd Hvict Hdel Hsw]. constructor; auto.
  - intros Hnb k Hk. destruct (Hsp Hnb k Hk) as [|[Hv|Hd]]; auto.
    + rewrite V in Hv. inversion Hv.
    + destruct (D _ Hd).
  - intros Hnb k Hk. destruct (Hps Hnb k Hk) as [|[Ha|[Hw|Ht]]]; auto.
    + destruct (A _ Ha).
    + destruct (W _ Hw).
    + right; right; right. destruct Ht as [|[(i & Hi & _)|]]; [now left|destruct (G _ Hi)|now right; right].
  - intros k Hk. destruct (A' _ Hk).
  - intros k Hk. rewrite V' in Hk. inversion Hk.
  - intros k Hk. destruct (D' _ Hk).
  - intros k Hk. destruct (W' _ Hk).
Qed.

Lemma plain_idle : plain AIdle.
Proof. repeat split; simpl; auto; discriminate. Qed.
Lemma plain_exited : plain AExited.
Proof. repeat split; simpl; auto; discriminate. Qed.
Lemma plain_sweep keys t : plain (ASweep keys t).
Proof. repeat split; simpl; auto; discriminate. Qed.

(* while a Clear is between stop and restart only the stage facts matter *)
Lemma sync_busy S P a B T : clr_busy T -> plain a ->
  ((exists tid, stage_P (th_pc T tid)) -> forall k, P !! k = None) ->
  ((exists tid, stage_S (th_pc T tid)) -> forall k, S !! k = None) ->
  sync_of S P a B T.
Proof.
  intros Hb (V & D & A & W & G) HP HS. constructor; auto; try tauto.
  - intros k Hk. destruct (A _ Hk).
  - intros k Hk. rewrite V in Hk. inversion Hk.
  - intros k Hk. destruct (D _ Hk).
  - intros k Hk. destruct (W _ Hk).
Qed.

Lemma sync_empty S P a B T : plain a -> (forall k, S !! k = None) -> (forall k, P !! k = None) -> sync_of S P a B T.
Proof.
  intros (V & D & A & W & G) HS HP. constructor; auto.
  - intros _ k [x Hx]. rewrite HS in Hx. discriminate.
  - intros _ k [x Hx]. rewrite HP in Hx. discriminate.
  - intros k Hk. destruct (A _ Hk).
Qed.

(* ================================================================================================
   Applier steps (no Clear is in progress: the applier is running)
   ================================================================================================ *)
Lemma stage_P_in_clr pc : stage_P pc -> in_clr pc.
Proof. destruct pc as [| | | | | | | |st cl]; simpl; try tauto. destruct st; simpl; intros []; split; discriminate. Qed.
Lemma stage_S_in_clr pc : stage_S pc -> in_clr pc.
Proof. destruct pc as [| | | | | | | |st cl]; simpl; try tauto. destruct st; simpl; intros []; split; discriminate. Qed.

(* build sync_of when no Clear is in progress: the stage clauses are vacuous *)
Lemma sync_notbusy S P a B T : ~ clr_busy T ->
  (forall k, is_Some (S !! k) -> is_Some (P !! k) \/ k ∈ vict_keys a \/ deleting a k) ->
  (forall k, is_Some (P !! k) -> is_Some (S !! k) \/ adding a k \/ sweeping a k \/ tomb_pending B a T k) ->
  (forall k, adding a k -> is_Some (P !! k)) ->
  (forall k, k ∈ vict_keys a -> P !! k = None) ->
  (forall k, deleting a k -> P !! k = None) ->
  (forall k, sweeping a k -> S !! k = None) ->
  sync_of S P a B T.
Proof.
  intros Hnb H1 H2 H3 H4 H5 H6. constructor; auto.
  - intros (tid & Hst). exfalso. apply Hnb. exists tid. now apply stage_P_in_clr.
  - intros (tid & Hst). exfalso. apply Hnb. exists tid. now apply stage_S_in_clr.
Qed.

Lemma is_tomb_set_cost i z k : is_tomb (set_cost i z) k <-> is_tomb i k.
Proof. unfold is_tomb; simpl. tauto. Qed.

Ltac sp_trivial Hsp Hnb :=
  let k := fresh "k" in let Hk := fresh "Hk" in
  intros k Hk; destruct (Hsp Hnb k Hk) as [Hp|[Hv|Hd]];
    [left; exact Hp | simpl in Hv; inversion Hv | simpl in Hd; destruct Hd].
Ltac none_false := let k := fresh "k" in let Hk := fresh "Hk" in intros k Hk; simpl in Hk; solve [inversion Hk | destruct Hk].

(* receiving a Wait marker *)
Lemma sync_pop_marker S P i l T : ~ clr_busy T -> it_wait i <> None ->
  sync_of S P AIdle (i :: l) T -> sync_of S P AIdle l T.
Proof.
  intros Hnb Hw [Hsp Hps _ _ Hadd Hvict Hdel Hsw]. apply sync_notbusy; [exact Hnb| | | | | | ].
  - exact (Hsp Hnb).
  - intros k Hk. destruct (Hps Hnb k Hk) as [|[|[|Ht]]]; auto. right; right; right.
    destruct Ht as [(j & [<-|Hj] & Htj)|[|]]; [destruct Htj as [Hn _]; congruence|left; eauto|right; now left|right; now right].
  - exact Hadd.
  - exact Hvict.
  - exact Hdel.
  - exact Hsw.
Qed.

(* receiving an item *)
Lemma sync_pop_got S P i z l T : ~ clr_busy T ->
  sync_of S P AIdle (i :: l) T -> sync_of S P (AGot (set_cost i z)) l T.
Proof.
  intros Hnb [Hsp Hps _ _ Hadd Hvict Hdel Hsw]. apply sync_notbusy; [exact Hnb| | | | | | ].
  - sp_trivial Hsp Hnb.
  - intros k Hk. destruct (Hps Hnb k Hk) as [|[[]|[[]|Ht]]]; auto. right; right; right.
    destruct Ht as [(j & [<-|Hj] & Htj)|[(j & Hj & _)|Hth]].
    + right; left. exists (set_cost i z). split; [reflexivity|]. now apply is_tomb_set_cost.
    + left. eauto.
    + discriminate.
    + right; right. exact Hth.
  - none_false.
  - none_false.
  - none_false.
  - none_false.
Qed.

(* policy.Add for a new item *)
Lemma sync_add S P P' i vs (added : bool) cost B T : ~ clr_busy T -> it_flag i = FNew ->
  (forall k', is_Some (P !! k') -> k' <> it_key i -> is_Some (P' !! k') \/ k' ∈ vs.*1) ->
  (forall x, x ∈ vs.*1 -> x <> it_key i /\ P' !! x = None) ->
  (added = true -> P' !! it_key i = Some cost /\ forall k', is_Some (P' !! k') -> k' = it_key i \/ is_Some (P !! k')) ->
  (added = false -> (forall k', is_Some (P' !! k') -> is_Some (P !! k')) /\
                    (is_Some (P !! it_key i) -> is_Some (P' !! it_key i))) ->
  sync_of S P (AGot i) B T ->
  sync_of S P' (if added then ANewSet i vs else AVict vs) B T.
Proof.
  intros Hnb Hfl F1 F2 F3 F4 [Hsp Hps _ _ Hadd Hvict Hdel Hsw].
  assert (Hps' : forall k, is_Some (P !! k) -> is_Some (S !! k) \/ tomb_pending B (if added then ANewSet i vs else AVict vs) T k).
  { intros k Hk. destruct (Hps Hnb k Hk) as [|[[]|[[]|Ht]]]; auto. right.
    destruct Ht as [|[(j & Hj & Htj)|]]; [now left| |right; now right].
    inversion Hj; subst j. destruct Htj as (_ & Hf & _). congruence. }
  apply sync_notbusy; [exact Hnb| | | | | | ].
  - intros k Hk. destruct (Hsp Hnb k Hk) as [Hp|[Hv|[]]]; [|inversion Hv].
    destruct (decide (k = it_key i)) as [->|Hne].
    + left. destruct added.
      * destruct (F3 eq_refl) as [-> _]. eauto.
      * destruct (F4 eq_refl) as [_ H]. auto.
    + destruct (F1 _ Hp Hne) as [|Hv]; auto. right; left. destruct added; exact Hv.
  - intros k Hk. destruct added.
    + destruct (F3 eq_refl) as [_ H]. destruct (H _ Hk) as [->|Hp]; [right; left; reflexivity|].
      destruct (Hps' _ Hp) as [|Ht]; auto.
    + destruct (F4 eq_refl) as [H _]. destruct (Hps' _ (H _ Hk)) as [|Ht]; auto.
  - intros k Hk. destruct added; simpl in Hk; [|destruct Hk]. subst k. destruct (F3 eq_refl) as [-> _]. eauto.
  - intros k Hk. destruct added; simpl in Hk; apply F2; exact Hk.
  - intros k Hk. destruct added; destruct Hk.
  - intros k Hk. destruct added; destruct Hk.
Qed.

(* policy.Update for an overwrite item: the key set is unchanged *)
Lemma sync_upd S P P' i B T : ~ clr_busy T -> it_flag i = FUpd ->
  (forall k, is_Some (P' !! k) <-> is_Some (P !! k)) ->
  sync_of S P (AGot i) B T -> sync_of S P' AIdle B T.
Proof.
  intros Hnb Hfl HP [Hsp Hps _ _ Hadd Hvict Hdel Hsw]. apply sync_notbusy; [exact Hnb| | | | | | ].
  - intros k Hk. destruct (Hsp Hnb k Hk) as [Hp|[Hv|[]]]; [left; now apply HP|inversion Hv].
  - intros k Hk. apply HP in Hk. destruct (Hps Hnb k Hk) as [|[[]|[[]|Ht]]]; auto. right; right; right.
    destruct Ht as [|[(j & Hj & Htj)|]]; [now left| |right; now right].
    inversion Hj; subst j. destruct Htj as (_ & Hf & _). congruence.
  - none_false.
  - none_false.
  - none_false.
  - none_false.
Qed.

(* a tombstone: policy.Del, then store.Del *)
Lemma sync_delpol S P i B T : ~ clr_busy T ->
  sync_of S P (AGot i) B T -> sync_of S (delete (it_key i) P) (ADelStore i) B T.
Proof.
  intros Hnb [Hsp Hps _ _ Hadd Hvict Hdel Hsw]. apply sync_notbusy; [exact Hnb| | | | | | ].
  - intros k Hk. destruct (Hsp Hnb k Hk) as [Hp|[Hv|[]]]; [|inversion Hv].
    destruct (decide (k = it_key i)) as [->|Hne]; [right; right; reflexivity|].
    left. rewrite lookup_delete_ne by congruence. exact Hp.
  - intros k Hk. apply lookup_delete_is_Some in Hk. destruct Hk as [Hne Hk].
    destruct (Hps Hnb k Hk) as [|[[]|[[]|Ht]]]; auto. right; right; right.
    destruct Ht as [|[(j & Hj & Htj)|]]; [now left| |right; now right].
    inversion Hj; subst j. destruct Htj as (_ & _ & Hkk). congruence.
  - none_false.
  - none_false.
  - intros k Hk. simpl in Hk. subst k. apply lookup_delete.
  - none_false.
Qed.

Lemma sync_delstore_app S S' P i B T : ~ clr_busy T ->
  (forall k, is_Some (S' !! k) -> is_Some (S !! k)) ->
  (forall k, k <> it_key i -> is_Some (S !! k) -> is_Some (S' !! k)) ->
  S' !! it_key i = None ->
  sync_of S P (ADelStore i) B T -> sync_of S' P AIdle B T.
Proof.
  intros Hnb H1 H2 H3 [Hsp Hps _ _ Hadd Hvict Hdel Hsw]. apply sync_notbusy; [exact Hnb| | | | | | ].
  - intros k Hk. destruct (decide (k = it_key i)) as [->|Hne]; [rewrite H3 in Hk; destruct Hk; discriminate|].
    destruct (Hsp Hnb k (H1 _ Hk)) as [Hp|[Hv|Hd]]; [left; exact Hp|inversion Hv|simpl in Hd; congruence].
  - intros k Hk. destruct (decide (k = it_key i)) as [->|Hne].
    + rewrite (Hdel (it_key i) eq_refl) in Hk. destruct Hk; discriminate.
    + destruct (Hps Hnb k Hk) as [Hs|[[]|[[]|Ht]]]; auto. right; right; right.
      destruct Ht as [|[(j & Hj & _)|]]; [now left|discriminate|right; now right].
  - none_false.
  - none_false.
  - none_false.
  - none_false.
Qed.

(* store.Set of the admitted item *)
Lemma sync_newset S S' P i vs B T : ~ clr_busy T ->
  (forall k, is_Some (S' !! k) <-> is_Some (S !! k) \/ k = it_key i) ->
  sync_of S P (ANewSet i vs) B T -> sync_of S' P (AVict vs) B T.
Proof.
  intros Hnb HS [Hsp Hps _ _ Hadd Hvict Hdel Hsw]. apply sync_notbusy; [exact Hnb| | | | | | ].
  - intros k Hk. apply HS in Hk. destruct Hk as [Hk| ->].
    + destruct (Hsp Hnb k Hk) as [|[Hv|[]]]; auto.
    + left. apply Hadd. reflexivity.
  - intros k Hk. destruct (Hps Hnb k Hk) as [Hs|[Ha|[[]|Ht]]].
    + left. apply HS. now left.
    + left. apply HS. right. simpl in Ha. congruence.
    + right; right; right. destruct Ht as [|[(j & Hj & _)|]]; [now left|discriminate|right; now right].
  - none_false.
  - exact Hvict.
  - none_false.
  - none_false.
Qed.

(* removing one victim from the map *)
Lemma sync_vict_cons S S' P k c vs B T : ~ clr_busy T ->
  (forall k', is_Some (S' !! k') -> is_Some (S !! k')) ->
  (forall k', k' <> k -> is_Some (S !! k') -> is_Some (S' !! k')) ->
  S' !! k = None ->
  sync_of S P (AVict ((k, c) :: vs)) B T -> sync_of S' P (AVict vs) B T.
Proof.
  intros Hnb H1 H2 H3 [Hsp Hps _ _ Hadd Hvict Hdel Hsw]. apply sync_notbusy; [exact Hnb| | | | | | ].
  - intros k' Hk. destruct (decide (k' = k)) as [->|Hne]; [rewrite H3 in Hk; destruct Hk; discriminate|].
    destruct (Hsp Hnb k' (H1 _ Hk)) as [|[Hv|[]]]; auto. right; left. simpl in Hv.
    apply elem_of_cons in Hv. destruct Hv as [|Hv]; [congruence|exact Hv].
  - intros k' Hk. destruct (decide (k' = k)) as [->|Hne].
    + rewrite (Hvict k) in Hk by (simpl; left). destruct Hk; discriminate.
    + destruct (Hps Hnb k' Hk) as [Hs|[[]|[[]|Ht]]]; auto. right; right; right.
      destruct Ht as [|[(j & Hj & _)|]]; [now left|discriminate|right; now right].
  - none_false.
  - intros k' Hk. apply Hvict. simpl. now right.
  - none_false.
  - none_false.
Qed.

Lemma sync_vict_nil S P B T : sync_of S P (AVict []) B T -> sync_of S P AIdle B T.
Proof. apply sync_apc_plain; [repeat split; simpl; auto; discriminate|apply plain_idle]. Qed.

(* the sweep *)
Lemma sync_sweep_some S P k cf it ks t B T : ~ clr_busy T ->
  sync_of S P (ASweep ((k, cf) :: ks) t) B T -> sync_of (delete k S) P (ASweepPol k it ks t) B T.
Proof.
  intros Hnb [Hsp Hps _ _ Hadd Hvict Hdel Hsw]. apply sync_notbusy; [exact Hnb| | | | | | ].
  - intros k' Hk. apply lookup_delete_is_Some in Hk. destruct Hk as [Hne Hk].
    destruct (Hsp Hnb k' Hk) as [Hp|[Hv|[]]]; [left; exact Hp|inversion Hv].
  - intros k' Hk. destruct (decide (k' = k)) as [->|Hne]; [right; right; left; reflexivity|].
    destruct (Hps Hnb k' Hk) as [Hs|[[]|[[]|Ht]]].
    + left. apply lookup_delete_is_Some. auto.
    + right; right; right. destruct Ht as [|[(j & Hj & _)|]]; [now left|discriminate|right; now right].
  - none_false.
  - none_false.
  - none_false.
  - intros k' Hk. simpl in Hk. subst k'. apply lookup_delete.
Qed.

Lemma sync_sweep_pol S P k it ks t B T : ~ clr_busy T ->
  sync_of S P (ASweepPol k it ks t) B T -> sync_of S (delete k P) (ASweep ks t) B T.
Proof.
  intros Hnb [Hsp Hps _ _ Hadd Hvict Hdel Hsw]. apply sync_notbusy; [exact Hnb| | | | | | ].
  - intros k' Hk. destruct (decide (k' = k)) as [->|Hne].
    + rewrite (Hsw k eq_refl) in Hk. destruct Hk; discriminate.
    + destruct (Hsp Hnb k' Hk) as [Hp|[Hv|[]]]; [|inversion Hv]. left. rewrite lookup_delete_ne by congruence. exact Hp.
  - intros k' Hk. apply lookup_delete_is_Some in Hk. destruct Hk as [Hne Hk].
    destruct (Hps Hnb k' Hk) as [Hs|[[]|[Hw|Ht]]]; auto; [simpl in Hw; congruence|]. right; right; right.
    destruct Ht as [|[(j & Hj & _)|]]; [now left|discriminate|right; now right].
  - none_false.
  - none_false.
  - none_false.
  - none_false.
Qed.

(* ================================================================================================
   The step lemma and the reachability theorem
   ================================================================================================ *)
Lemma th_pc_in_map (T : gmap nat cthread) tid : th_pc T tid <> CIdle -> exists t, T !! tid = Some t /\ t_pc t = th_pc T tid.
Proof. unfold th_pc. destruct (T !! tid); simpl; eauto. congruence. Qed.

Lemma app_not_busy s : clr_inv s -> s_apc s <> AExited -> ~ clr_busy (s_threads s).
Proof.
  intros [Hex _ _] Hne (tid & Hin).
  destruct (th_pc_in_map (s_threads s) tid) as (t & Hl & Hpc).
  { intros E. rewrite E in Hin. exact Hin. }
  rewrite <- Hpc in Hin. destruct (Hex _ _ Hl Hin). congruence.
Qed.

Lemma sync_busy_buf S P a B B' T : clr_busy T -> sync_of S P a B T -> sync_of S P a B' T.
Proof. intros Hb [Hsp Hps HsP HsS Hadd Hvict Hdel Hsw]. constructor; auto; tauto. Qed.

Lemma th_lookup_pc (T : gmap nat cthread) tid pc : th_pc T tid = pc -> pc <> CIdle ->
  exists t, T !! tid = Some t /\ t_pc t = pc.
Proof. intros <- Hne. now apply th_pc_in_map. Qed.

Ltac pcr := match goal with Hpc : th_pc _ _ = _ |- _ => rewrite Hpc end.

Lemma step_sync kc c s l s' :
  label_kc kc l -> kc_inv kc s -> clr_inv s -> pol_ok (s_pol s) -> sync_inv s -> mstep c s l = Some s' -> sync_inv s'.
Proof.
  intros HL Hkc Hclr Hpok Hsy H. unfold sync_inv in *.
  assert (Hidle : forall tid, t_op (get_thread s tid) = None -> th_pc (s_threads s) tid = CIdle).
  { intros tid Hop. unfold th_pc, get_thread in *. destruct (s_threads s !! tid) eqn:E; simpl in *; auto.
    eapply (ci_idle _ Hclr); eauto. }
  pose proof (app_not_busy s Hclr) as Hnb.
  destruct Hkc as [Kst Kbuf Kth Kapc].
  step_cases H.
  all: rewrite ?get_thread_th_pc in *.
  all: try (match goal with Hop : t_op (get_thread _ ?tid) = None |- _ =>
              let Hpc := fresh "Hpc" in pose proof (Hidle tid Hop) as Hpc end).
  all: repeat match goal with Hb : s_buf _ = _ |- context [s_buf _] => rewrite Hb end.
  all: repeat match goal with Ha : s_apc _ = _ |- context [s_apc _] => rewrite Ha end.
  all: try solve [ exact Hsy ].
  (* pure thread / log changes *)
  all: try solve [ apply sync_thread; [ | | | | exact Hsy];
                   match goal with Hpc : th_pc _ _ = _ |- _ => rewrite Hpc end;
                   simpl; intros; first [tauto | discriminate | (repeat split; discriminate) | eauto] ].
  (* Set: Update *)
  all: try solve [ match goal with E : store_update _ _ _ _ _ _ _ _ = _ |- _ =>
                     eapply sync_frame; [ | | | | | | | | exact Hsy];
                     [ (intros k' Hk'; apply (store_update_dom _ _ _ _ _ _ _ _ _ _ _ k' E); exact Hk')
                     | (intros k' Hk'; left; apply (store_update_dom _ _ _ _ _ _ _ _ _ _ _ k' E); exact Hk')
                     | tauto | auto
                     | (rewrite H3; simpl; tauto) | (rewrite H3; simpl; tauto) | (rewrite H3; simpl; tauto)
                     | (rewrite H3; intros; discriminate) ] end ].
  (* buffer grows: Set's send, Wait's marker *)
  all: try solve [ eapply sync_frame; [ | | | | | | | | exact Hsy];
                   [ auto | (intros k' Hk'; now left) | tauto | (intros j Hj; apply in_or_app; now left)
                   | (pcr; simpl; tauto) | (pcr; simpl; tauto) | (pcr; simpl; tauto) | (pcr; intros; discriminate) ] ].
  (* Del: store.Del, then the tombstone *)
  all: try solve [ match goal with E : store_del _ _ _ ?k ?cf = _ |- _ =>
                     pose proof (store_del_dom _ _ _ _ _ _ _ _ k E) as _;
                     eapply sync_frame; [ | | | | | | | | exact Hsy];
                     [ (intros k' Hk'; exact (proj1 (store_del_dom _ _ _ _ _ _ _ _ k' E) Hk'))
                     | (intros k' Hk'; destruct (decide (k' = k)) as [->|Hne]; [right; eauto|left; exact (proj2 (store_del_dom _ _ _ _ _ _ _ _ k' E) Hne Hk')])
                     | tauto | auto
                     | (pcr; simpl; tauto) | (pcr; simpl; tauto) | (pcr; simpl; tauto) | (pcr; intros; discriminate) ] end ].
  all: try solve [ eapply sync_frame; [ | | | | | | | | exact Hsy];
                   [ auto | (intros k' Hk'; now left) | tauto | (intros j Hj; apply in_or_app; now left)
                   | (pcr; simpl; tauto) | (pcr; simpl; tauto) | (pcr; simpl; tauto)
                   | (pcr; intros k' c' [= <- <-]; right; eexists; split; [apply in_or_app; right; left; reflexivity|];
                      repeat split; reflexivity) ] ].
  (* Clear: stop *)
  all: try solve [ eapply sync_frame; [ | | | | | | | | exact (sync_apc_plain _ _ _ _ _ _ plain_idle plain_exited Hsy)];
                   [ auto | (intros k' Hk'; now left) | tauto | auto
                   | (pcr; simpl; tauto) | (pcr; simpl; tauto) | (pcr; simpl; tauto) | (pcr; intros; discriminate) ] ].
  (* Clear: drain *)
  all: try solve [ eapply sync_frame; [ | | | | | | | |
                     eapply sync_busy_buf; [|exact Hsy];
                     match goal with Hpc : th_pc _ ?tid = _ |- _ => exists tid; rewrite Hpc; simpl; split; discriminate end ];
                   [ auto | (intros k' Hk'; now left) | tauto | auto
                   | (pcr; simpl; intros _; split; discriminate) | (pcr; simpl; tauto) | (pcr; simpl; tauto)
                   | (pcr; intros; discriminate) ] ].
  (* Clear: policy, store *)
  all: try solve [
    match goal with Hpc : th_pc _ ?tid = CClr _ _ |- _ =>
      destruct (th_lookup_pc _ _ _ Hpc ltac:(discriminate)) as (t0 & Hl0 & Hpc0);
      destruct (ci_exited _ Hclr _ _ Hl0 ltac:(rewrite Hpc0; simpl; split; discriminate)) as [Hax _];
      rewrite Hax in *;
      destruct Hsy as [Hsp Hps HsP HsS Hadd Hvict Hdel Hsw];
      apply sync_busy; [ exists tid; rewrite th_pc_insert, decide_True by auto; simpl; split; discriminate
                       | apply plain_exited
                       | (intros Hst k'; first [ apply lookup_empty
                                               | (apply HsP; eapply ex_pc_insert_bwd; [|exact Hst]; rewrite Hpc; simpl; tauto)
                                               | (apply HsP; exists tid; rewrite Hpc; exact I) ])
                       | (intros Hst k'; first [ apply lookup_empty
                                               | (apply HsS; eapply ex_pc_insert_bwd; [|exact Hst]; rewrite Hpc; simpl; tauto) ]) ]
    end ].
  (* Clear: restart *)
  all: try solve [
    match goal with Hpc : th_pc _ ?tid = CClr ClrRestart _ |- _ =>
      destruct Hsy as [Hsp Hps HsP HsS Hadd Hvict Hdel Hsw];
      apply sync_empty; [apply plain_idle
                        | apply HsS; exists tid; rewrite Hpc; exact I
                        | apply HsP; exists tid; rewrite Hpc; exact I ]
    end ].
  (* Close: final stop *)
  all: try solve [ eapply sync_frame; [ | | | | | | | | exact (sync_apc_plain _ _ _ _ _ _ plain_idle plain_exited Hsy)];
                   [ auto | (intros k' Hk'; now left) | tauto | auto
                   | (pcr; simpl; tauto) | (pcr; simpl; tauto) | (pcr; simpl; tauto) | (pcr; intros; discriminate) ] ].
  (* delivering a callback *)
  all: try solve [ apply sync_thread; [ | | | | exact Hsy]; simpl; eauto ].
  (* ---- applier ---- *)
  all: assert (Hnb' : ~ clr_busy (s_threads s)) by (apply Hnb; discriminate).
  all: try solve [ eapply sync_apc_plain; [| |exact Hsy]; first [apply plain_idle | apply plain_sweep] ].
  all: try solve [ eapply sync_pop_marker; [exact Hnb'| |exact Hsy]; congruence ].
  all: try solve [ apply sync_pop_got; [exact Hnb'|exact Hsy] ].
  all: try solve [ apply sync_vict_nil; exact Hsy ].
  (* policy.Add *)
  all: try solve [
    match goal with E : pol_add _ _ _ _ _ _ = AddOk ?vs ?added _ _ _ _ |- _ =>
      pose proof (pol_add_spec _ _ _ _ _ _ _ _ _ _ _ _ E Hpok) as (_ & _ & _ & _ & Fa & Fr);
      eapply (sync_add _ _ _ i vs added (it_cost i)); [exact Hnb'|assumption| | | | |exact Hsy];
      [ (intros k' [c' Hk'] Hne; destruct (pol_add_removed _ _ _ _ _ _ _ _ _ _ _ _ _ _ E Hk' Hne) as [Hx|Hx]; [left; eauto|now right])
      | (intros x Hx; exact (pol_add_victims_gone _ _ _ _ _ _ _ _ _ _ _ _ _ E Hpok Hx))
      | (intros Ht; first [ discriminate |
         (destruct (Fa Ht) as (F1 & F2 & F3 & F4 & F5); split; [exact F4|];
          intros k' [c' Hk']; destruct (decide (k' = it_key i)) as [->|Hne]; [now left|right];
          assert (Hd : delete (it_key i) (p_costs p) !! k' = Some c') by (rewrite lookup_delete_ne; auto);
          eexists; eapply lookup_weaken; [exact Hd|exact F5]) ])
      | (intros Ht; first [ discriminate |
         (destruct (Fr Ht) as [(G1 & -> & G3)|[(G1 & G2 & G3)|(G1 & G2 & G3 & _)]];
          [ split; auto
          | split; [intros k' Hk'; rewrite G3 in Hk'; destruct (decide (k' = it_key i)) as [->|Hne]; [exact G1|rewrite lookup_insert_ne in Hk' by congruence; exact Hk']
                   | intros _; rewrite G3, lookup_insert; eauto ]
          | split; [intros k' [c' Hk']; eexists; eapply lookup_weaken; eauto | intros [c' Hc']; congruence ] ]) ]) ]
    end ].
  (* policy.Del of a tombstone / of a swept key *)
  all: try solve [ match goal with E : pol_del ?pp ?mm ?k = (?p, _) |- _ =>
                     let Hc := fresh "Hc" in
                     pose proof (pol_del_costs pp mm k) as Hc; rewrite E in Hc; simpl in Hc; rewrite Hc;
                     first [ (apply sync_delpol; [exact Hnb'|exact Hsy])
                           | (eapply sync_sweep_pol; [exact Hnb'|exact Hsy]) ] end ].
  (* policy.Update *)
  all: try solve [ match goal with E : pol_update ?pp ?mm ?k ?x = (?p, _) |- _ =>
                     eapply sync_upd; [exact Hnb'|eassumption| |exact Hsy];
                     intros k'; pose proof (pol_update_dom pp mm k x k') as Hd; rewrite E in Hd; exact Hd end ].
  (* store.Set *)
  all: try solve [ match goal with E : store_set _ _ _ _ _ _ _ _ = _ |- _ =>
                     eapply sync_newset; [exact Hnb'| |exact Hsy];
                     intros k'; exact (store_set_dom _ _ _ _ _ _ _ _ _ _ k' E) end ].
  (* store.Del of a victim (conflict 0) / of a tombstone (its own conflict) *)
  all: try solve [ match goal with E : store_del _ _ _ ?k ?cf = _ |- _ =>
                     first [ eapply sync_vict_cons | eapply sync_delstore_app ];
                     [ exact Hnb'
                     | (intros k' Hk'; exact (proj1 (store_del_dom _ _ _ _ _ _ _ _ k' E) Hk'))
                     | (intros k' Hne Hk'; exact (proj2 (store_del_dom _ _ _ _ _ _ _ _ k' E) Hne Hk'))
                     | (apply (store_del_gone _ _ _ _ _ _ _ _ E); intros it0 Hit0;
                        first [ now left | (right; rewrite (Kst _ _ Hit0); simpl in Kapc; congruence) ])
                     | exact Hsy ] end ].
  (* the sweep's visit *)
  all: try solve [ match goal with E : store_del_expired _ _ _ _ _ _ = (Some _, _, _) |- _ =>
                     apply store_del_expired_only in E; destruct E as (_ & _ & _ & ->);
                     eapply sync_sweep_some; [exact Hnb'|exact Hsy] end ].
  all: try solve [ match goal with E : store_del_expired _ _ _ _ _ _ = (None, _, _) |- _ =>
                     apply store_del_expired_none in E; destruct E as [-> ->];
                     eapply sync_apc_plain; [| |exact Hsy]; apply plain_sweep end ].
Qed.

Lemma init_kc kc maxCost bdur now mon : kc_inv kc (init_state maxCost bdur now mon).
Proof.
  constructor; simpl; auto using store_all_empty.
  intros tid t H. rewrite lookup_empty in H. discriminate.
Qed.

Lemma init_clr maxCost bdur now mon : clr_inv (init_state maxCost bdur now mon).
Proof.
  constructor; simpl; intros; try (rewrite lookup_empty in *; discriminate).
Qed.

Lemma init_sync maxCost bdur now mon : sync_inv (init_state maxCost bdur now mon).
Proof.
  unfold sync_inv; simpl. apply sync_empty; [apply plain_idle| |]; intros k; apply lookup_empty.
Qed.

Record cache_inv (kc : N -> N) (s : state) : Prop := {
  cv_kc : kc_inv kc s; cv_clr : clr_inv s; cv_pol : pol_ok (s_pol s); cv_sync : sync_inv s
}.

Theorem reachable_sync kc c maxCost bdur now mon sched : Forall (label_kc kc) sched ->
  cache_inv kc (mrun c (init_state maxCost bdur now mon) sched).
Proof.
  intros HL. apply (mrun_invariant_lab c (label_kc kc) (cache_inv kc)); auto.
  - intros s l s' Hl [H1 H2 H3 H4] H. constructor.
    + eapply step_kc; eauto.
    + eapply step_clr; eauto.
    + eapply step_pol_ok; eauto.
    + eapply step_sync; eauto.
  - constructor; [apply init_kc|apply init_clr|apply pol_new_ok|apply init_sync].
Qed.
