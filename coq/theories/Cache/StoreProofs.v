(* Facts about the store / expiry-index functions (Store.v): read sections test expiry (C07), the sweep's
   check-and-delete removes only currently-expired entries (C14), and generic "every entry satisfies P"
   preservation lemmas used by the machine invariants. *)
From stdpp Require Import gmap.
From Ristretto Require Import Base.Word Cache.Store.
Local Open Scope Z_scope.

Definition store_all (P : N -> sitem -> Prop) (st : store) : Prop := forall k it, st !! k = Some it -> P k it.

Lemma store_all_empty P : store_all P ∅.
Proof. intros k it H. rewrite lookup_empty in H. discriminate. Qed.

Lemma store_all_insert P st k it : store_all P st -> P k it -> store_all P (<[k := it]> st).
Proof.
  intros H Hp k' it' Hl. destruct (decide (k' = k)) as [->|Hne].
  - rewrite lookup_insert in Hl. now inversion Hl; subst.
  - rewrite lookup_insert_ne in Hl by auto. eauto.
Qed.

Lemma store_all_delete P st k : store_all P st -> store_all P (delete k st).
Proof. intros H k' it' Hl. apply lookup_delete_Some in Hl. destruct Hl; eauto. Qed.

Lemma store_all_impl (P Q : N -> sitem -> Prop) st :
  store_all P st -> (forall k it, P k it -> Q k it) -> store_all Q st.
Proof. intros H HPQ k it Hl. eauto. Qed.

Lemma store_update_all P bdur should st e k cf v exp r st' e' :
  store_update bdur should st e k cf v exp = (r, st', e') ->
  store_all P st -> P k {| si_conf := cf; si_val := v; si_exp := exp |} -> store_all P st'.
Proof.
  unfold store_update. intros H Hall Hp.
  destruct (st !! k) as [it|]; [|inversion H; subst; auto].
  destruct (negb (conf_ok cf (si_conf it))); [inversion H; subst; auto|].
  destruct (negb (should v (si_val it))); inversion H; subst; auto using store_all_insert.
Qed.

Lemma store_set_all P bdur should st e k cf v exp st' e' :
  store_set bdur should st e k cf v exp = (st', e') ->
  store_all P st -> P k {| si_conf := cf; si_val := v; si_exp := exp |} -> store_all P st'.
Proof.
  unfold store_set. intros H Hall Hp.
  destruct (st !! k) as [it|]; [|inversion H; subst; auto using store_all_insert].
  destruct (negb (conf_ok cf (si_conf it))); [inversion H; subst; auto|].
  destruct (negb (should v (si_val it))); inversion H; subst; auto using store_all_insert.
Qed.

Lemma store_del_all P bdur st e k cf r st' e' :
  store_del bdur st e k cf = (r, st', e') -> store_all P st -> store_all P st'.
Proof.
  unfold store_del. intros H Hall.
  destruct (st !! k) as [it|]; [|inversion H; subst; auto].
  destruct (negb (conf_ok cf (si_conf it))); inversion H; subst; auto using store_all_delete.
Qed.

Lemma store_del_expired_all P bdur st e k cf t r st' e' :
  store_del_expired bdur st e k cf t = (r, st', e') -> store_all P st -> store_all P st'.
Proof.
  unfold store_del_expired. intros H Hall.
  destruct (st !! k) as [it|]; [|inversion H; subst; auto].
  destruct (negb (conf_ok cf (si_conf it))); [inversion H; subst; auto|].
  destruct ((si_exp it =? 0) || (t <? si_exp it)); inversion H; subst; auto using store_all_delete.
Qed.

(* ---------- C07: the read section ---------- *)
(* a hit comes from the entry stored under that key, whose conflict matches and which is not expired *)
Lemma store_get_hit st now k cf v :
  store_get st now k cf = (v, true) ->
  exists it, st !! k = Some it /\ si_val it = v /\ (cf = 0%N \/ cf = si_conf it) /\
             (si_exp it = 0 \/ now <= si_exp it).
Proof.
  unfold store_get. destruct (st !! k) as [it|]; [|discriminate].
  unfold conf_ok, expired.
  destruct (N.eqb_spec cf 0); destruct (N.eqb_spec cf (si_conf it)); simpl;
    destruct (Z.eqb_spec (si_exp it) 0); destruct (Z.ltb_spec (si_exp it) now); simpl;
    intros [= <-]; exists it; repeat split; auto; lia.
Qed.

(* an entry whose expiration instant has passed is never yielded, whatever the sweep has done so far *)
Lemma store_get_no_stale st now k cf it :
  st !! k = Some it -> si_exp it <> 0 -> si_exp it < now -> store_get st now k cf = (0%N, false).
Proof.
  intros Hl Hnz Hlt. unfold store_get. rewrite Hl. unfold expired.
  destruct (negb (conf_ok cf (si_conf it))); auto.
  destruct (Z.eqb_spec (si_exp it) 0); [lia|]. destruct (Z.ltb_spec (si_exp it) now); [reflexivity|lia].
Qed.

(* and the TTL alone never hides an entry before that instant *)
Lemma store_get_not_early st now k cf it :
  st !! k = Some it -> (cf = 0%N \/ cf = si_conf it) -> (si_exp it = 0 \/ now <= si_exp it) ->
  store_get st now k cf = (si_val it, true).
Proof.
  intros Hl Hc He. unfold store_get. rewrite Hl. unfold conf_ok, expired.
  assert (Hc' : ((cf =? 0)%N || (cf =? si_conf it)%N) = true).
  { destruct Hc as [->| ->]; [reflexivity|]. rewrite N.eqb_refl. apply orb_true_r. }
  rewrite Hc'. simpl.
  destruct (Z.eqb_spec (si_exp it) 0); simpl; [reflexivity|].
  destruct (Z.ltb_spec (si_exp it) now); [lia|reflexivity].
Qed.

Lemma store_iter_unexpired st now v :
  In v (store_iter st now) ->
  exists k it, st !! k = Some it /\ si_val it = v /\ (si_exp it = 0 \/ now <= si_exp it).
Proof.
  unfold store_iter. rewrite in_map_iff. intros ([k it] & <- & Hin).
  apply filter_In in Hin. destruct Hin as [Hin Hf]. simpl in *.
  exists k, it. split; [|split; [reflexivity|]].
  - apply elem_of_map_to_list. now apply elem_of_list_In.
  - unfold expired in Hf. destruct (Z.eqb_spec (si_exp it) 0); [now left|].
    destruct (Z.ltb_spec (si_exp it) now); simpl in Hf; [discriminate|right; lia].
Qed.

(* ---------- C14: the sweep's check-and-delete ---------- *)
(* it removes an entry only if the expiration CURRENTLY attached to it is set and has passed at the sweep's time *)
Lemma store_del_expired_only bdur st e k cf t it st' e' :
  store_del_expired bdur st e k cf t = (Some it, st', e') ->
  st !! k = Some it /\ si_exp it <> 0 /\ si_exp it <= t /\ st' = delete k st.
Proof.
  unfold store_del_expired. destruct (st !! k) as [it0|]; [|discriminate].
  destruct (negb (conf_ok cf (si_conf it0))); [discriminate|].
  destruct (Z.eqb_spec (si_exp it0) 0); simpl; [discriminate|].
  destruct (Z.ltb_spec t (si_exp it0)); [discriminate|].
  intros [= <- <- <-]. repeat split; auto.
Qed.

Lemma store_del_expired_none bdur st e k cf t st' e' :
  store_del_expired bdur st e k cf t = (None, st', e') -> st' = st /\ e' = e.
Proof.
  unfold store_del_expired. destruct (st !! k) as [it0|]; [|intros [= <- <-]; auto].
  destruct (negb (conf_ok cf (si_conf it0))); [intros [= <- <-]; auto|].
  destruct ((si_exp it0 =? 0) || (t <? si_exp it0)); [intros [= <- <-]; auto|discriminate].
Qed.
