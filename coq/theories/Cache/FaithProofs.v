(* C06: with room to spare the cache is a faithful map; Wait makes writes visible. *)
From stdpp Require Import gmap.
From Ristretto Require Import Base.Word Cache.Policy Cache.PolicyProofs Cache.Store Cache.StoreProofs Cache.Machine
  Cache.MachineProofs Cache.SyncProofs Cache.DelProofs Cache.RoomProofs.
Local Open Scope Z_scope.

(* ---- store operations on another key ---- *)
Lemma store_update_other bdur should st e k' cf v exp r st' e' k : k' <> k ->
  store_update bdur should st e k' cf v exp = (r, st', e') -> st' !! k = st !! k.
Proof.
  unfold store_update. intros Hne H. destruct (st !! k') as [it|]; [|now inversion H].
  destruct (negb (conf_ok cf (si_conf it))); [now inversion H|].
  destruct (negb (should v (si_val it))); inversion H; subst; auto. now rewrite lookup_insert_ne.
Qed.
Lemma store_set_other bdur should st e k' cf v exp st' e' k : k' <> k ->
  store_set bdur should st e k' cf v exp = (st', e') -> st' !! k = st !! k.
Proof.
  unfold store_set. intros Hne H. destruct (st !! k') as [it|].
  - destruct (negb (conf_ok cf (si_conf it))); [now inversion H|].
    destruct (negb (should v (si_val it))); inversion H; subst; auto. now rewrite lookup_insert_ne.
  - inversion H; subst. now rewrite lookup_insert_ne.
Qed.
Lemma store_set_fresh bdur should st e k cf v exp st' e' : st !! k = None ->
  store_set bdur should st e k cf v exp = (st', e') -> st' !! k = Some {| si_conf := cf; si_val := v; si_exp := exp |}.
Proof. unfold store_set. intros Hn H. rewrite Hn in H. inversion H; subst. now rewrite lookup_insert. Qed.
Lemma store_del_other bdur st e k' cf r st' e' k : k' <> k ->
  store_del bdur st e k' cf = (r, st', e') -> st' !! k = st !! k.
Proof.
  unfold store_del. intros Hne H. destruct (st !! k') as [it|]; [|now inversion H].
  destruct (negb (conf_ok cf (si_conf it))); inversion H; subst; auto. now rewrite lookup_delete_ne.
Qed.
Lemma store_delexp_cases bdur st e k' cf t r st' e' k :
  store_del_expired bdur st e k' cf t = (r, st', e') ->
  (st' !! k = st !! k /\ (k' = k -> r = None)) \/
  (k' = k /\ st' !! k = None /\ exists it, r = Some it /\ st !! k = Some it /\ si_exp it <> 0 /\ si_exp it <= t).
Proof.
  unfold store_del_expired. intros H. destruct (st !! k') as [it|] eqn:E; [|inversion H; subst; left; auto].
  destruct (negb (conf_ok cf (si_conf it))); [inversion H; subst; left; auto|].
  destruct (Z.eqb_spec (si_exp it) 0) as [E0|E0]; simpl in H; [inversion H; subst; left; auto|].
  destruct (Z.ltb_spec t (si_exp it)); inversion H; subst; [left; auto|].
  destruct (decide (k' = k)) as [->|Hne].
  - right. split; auto. rewrite lookup_delete. split; auto. exists it. repeat split; auto.
  - left. rewrite lookup_delete_ne by auto. split; auto. congruence.
Qed.

Section Faith.
Context (k c v : N) (e : Z).

Definition is0 (i : item) : Prop :=
  it_wait i = None /\ it_key i = k /\ it_flag i = FNew /\ it_conf i = c /\ it_val i = v /\ it_exp i = e.
Definition kfree (i : item) : Prop := it_wait i = None -> it_key i <> k.
Lemma is0_not_kfree i : is0 i -> kfree i -> False.
Proof. intros (Hw & Hk & _) Hf. exact (Hf Hw Hk). Qed.

(* the inserted item is somewhere in the queue, nothing else in it concerns k *)
Inductive shapeN : list item -> Prop :=
| sN_here i Q : is0 i -> Forall kfree Q -> shapeN (i :: Q)
| sN_skip j Q : kfree j -> shapeN Q -> shapeN (j :: Q).

Lemma shapeN_app Q j : shapeN Q -> kfree j -> shapeN (Q ++ [j]).
Proof.
  induction 1; intros Hj; simpl.
  - apply sN_here; auto. apply Forall_app; auto.
  - apply sN_skip; auto.
Qed.
Lemma shapeN_not_free Q : shapeN Q -> Forall kfree Q -> False.
Proof. induction 1; intros HF; inversion HF; subst; eauto using is0_not_kfree. Qed.
Lemma shapeN_tail j Q : kfree j -> shapeN (j :: Q) -> shapeN Q.
Proof. intros Hj H. inversion H; subst; auto. exfalso; eauto using is0_not_kfree. Qed.
Lemma shapeN_head i Q : is0 i -> shapeN (i :: Q) -> Forall kfree Q.
Proof. intros Hi H. inversion H; subst; auto. exfalso; eauto using is0_not_kfree. Qed.
Lemma is0_set_cost i z : is0 (set_cost i z) <-> is0 i.
Proof. unfold is0; simpl. tauto. Qed.
Lemma kfree_set_cost i z : kfree (set_cost i z) <-> kfree i.
Proof. unfold kfree; simpl. tauto. Qed.
Lemma shapeN_set_cost i z Q : shapeN (i :: Q) -> shapeN (set_cost i z :: Q).
Proof.
  intros H. inversion H; subst; [apply sN_here|apply sN_skip]; auto;
    try (now apply is0_set_cost); try (now apply kfree_set_cost).
Qed.

Definition entry : sitem := {| si_conf := c; si_val := v; si_exp := e |}.

(* "in flight": queued, not resident, not accounted (or the accounting is being removed by a sweep) *)
Definition PN (st : store) (P : gmap N Z) (a : apc) (Bf : list item) : Prop :=
  shapeN (held a ++ Bf) /\ st !! k = None /\
  (P !! k = None \/ (exists i vs, a = ANewSet i vs /\ is0 i) \/ sweeping a k).
(* "resident": nothing queued concerns k and the entry is in the map — unless its TTL has elapsed *)
Definition PR (st : store) (a : apc) (Bf : list item) (now : Z) : Prop :=
  Forall kfree (held a ++ Bf) /\ (st !! k = Some entry \/ (e <> 0 /\ e <= now)).
Definition Pd st P a Bf now : Prop := PN st P a Bf \/ PR st a Bf now.

Definition plain (a : apc) : Prop :=
  match a with AIdle | AVict _ | ASweep _ _ | AExited => True | _ => False end.
Lemma plain_held a : plain a -> held a = [].
Proof. destruct a; simpl; tauto. Qed.

Lemma L_store_eq st st' P a Bf now : st' !! k = st !! k -> Pd st P a Bf now -> Pd st' P a Bf now.
Proof. intros E [(H1 & H2 & H3)|(H1 & H2)]; [left|right]; repeat split; auto; rewrite E; auto. Qed.
Lemma L_pol_eq st P P' a Bf now : P' !! k = P !! k -> Pd st P a Bf now -> Pd st P' a Bf now.
Proof. intros E [(H1 & H2 & H3)|H]; [left|right; exact H]. repeat split; auto. rewrite E. exact H3. Qed.
Lemma L_app st P a Bf now j : kfree j -> Pd st P a Bf now -> Pd st P a (Bf ++ [j]) now.
Proof.
  intros Hj [(H1 & H2 & H3)|(H1 & H2)]; [left|right]; repeat split; auto; rewrite app_assoc.
  - now apply shapeN_app.
  - apply Forall_app; auto.
Qed.
Lemma L_pop_got st P i l now z : it_wait i = None ->
  Pd st P AIdle (i :: l) now -> Pd st P (AGot (set_cost i z)) l now.
Proof.
  intros Hw [(H1 & H2 & H3)|(H1 & H2)]; [left|right]; simpl in *; repeat split; auto.
  - now apply shapeN_set_cost.
  - destruct H3 as [H3|[(i0 & vs & E & _)|[]]]; [now left|discriminate].
  - inversion H1; subst. constructor; auto; now apply kfree_set_cost.
Qed.
Lemma L_pop_marker st P i l now n : it_wait i = Some n ->
  Pd st P AIdle (i :: l) now -> Pd st P AIdle l now.
Proof.
  intros Hw [(H1 & H2 & H3)|(H1 & H2)]; [left|right]; simpl in *; repeat split; auto.
  - eapply shapeN_tail; [|exact H1]. intros E. congruence.
  - now inversion H1.
Qed.
Lemma L_time st P a Bf now now' : now <= now' -> Pd st P a Bf now -> Pd st P a Bf now'.
Proof. intros Hn [H|(H1 & [H2|[H2 H3]])]; [left; exact H|right; split; auto|right; split; auto]. right. split; auto. lia. Qed.
Lemma L_plain st P a a' Bf now : plain a -> plain a' -> Pd st P a Bf now -> Pd st P a' Bf now.
Proof.
  unfold Pd, PN, PR. intros Ha Ha' [(H1 & H2 & H3)|(H1 & H2)]; [left|right]; rewrite (plain_held _ Ha) in *; rewrite (plain_held _ Ha').
  - repeat split; auto. destruct H3 as [H3|[(i0 & vs & E & _)|Hs]]; [now left| |].
    + subst. destruct Ha.
    + destruct a; simpl in *; tauto.
  - split; auto.
Qed.
Lemma L_add_new st P a' i Bf now cost :
  it_wait i = None -> held a' = [i] -> (is0 i -> exists vs, a' = ANewSet i vs) ->
  Pd st P (AGot i) Bf now -> Pd st (<[it_key i := cost]> P) a' Bf now.
Proof.
  unfold Pd, PN, PR. intros Hw Ha' Hn [(H1 & H2 & H3)|(H1 & H2)]; [left|right]; simpl in *; rewrite Ha'; simpl; repeat split; auto.
  inversion H1; subst.
  - right; left. destruct (Hn ltac:(assumption)) as (vs & ->). exists i, vs. split; [reflexivity|assumption].
  - left. assert (Hk : it_key i <> k) by (match goal with Hf : kfree i |- _ => exact (Hf Hw) end).
    rewrite lookup_insert_ne by exact Hk. destruct H3 as [H3|[(i0 & vs & E & _)|[]]]; auto. discriminate.
Qed.
Lemma L_drop st P P' a' i Bf now :
  it_wait i = None -> plain a' -> (is0 i -> P !! k = None -> False) -> (it_key i <> k -> P' !! k = P !! k) ->
  Pd st P (AGot i) Bf now -> Pd st P' a' Bf now.
Proof.
  unfold Pd, PN, PR. intros Hw Ha' Hn HP [(H1 & H2 & H3)|(H1 & H2)]; [left|right]; simpl in *; rewrite (plain_held _ Ha'); simpl.
  - inversion H1; subst.
    { exfalso. destruct H3 as [H3|[(i0 & vs & E & _)|[]]]; [eauto|discriminate]. }
    repeat split; auto. left. rewrite HP by auto.
    destruct H3 as [H3|[(i0 & vs & E & _)|[]]]; auto. discriminate.
  - inversion H1; subst. split; auto.
Qed.
Lemma L_keep st P P' i Bf now :
  it_wait i = None -> (is0 i -> False) -> (it_key i <> k -> P' !! k = P !! k) ->
  Pd st P (AGot i) Bf now -> Pd st P' (ADelStore i) Bf now.
Proof.
  intros Hw Hn HP [(H1 & H2 & H3)|(H1 & H2)]; [left|right; exact (conj H1 H2)]; simpl in *.
  inversion H1; subst; [tauto|]. repeat split; auto. left. rewrite HP by auto.
  destruct H3 as [H3|[(i0 & vs & E & _)|[]]]; auto. discriminate.
Qed.
Lemma L_newset bdur should st e0 st' e' P i vs Bf now :
  it_flag i = FNew -> it_wait i = None ->
  store_set bdur should st e0 (it_key i) (it_conf i) (it_val i) (it_exp i) = (st', e') ->
  Pd st P (ANewSet i vs) Bf now -> Pd st' P (AVict vs) Bf now.
Proof.
  intros Hf Hw E [(H1 & H2 & H3)|(H1 & H2)]; simpl in *.
  - inversion H1; subst.
    + right. split; auto. left. destruct H4 as (_ & Hk & _ & Hc & Hv & He). rewrite Hk in E.
      rewrite (store_set_fresh _ _ _ _ _ _ _ _ _ _ H2 E). unfold entry. now rewrite Hc, Hv, He.
    + left. repeat split; auto.
      * rewrite (store_set_other _ _ _ _ _ _ _ _ _ _ k (H4 Hw) E). exact H2.
      * left. destruct H3 as [H3|[(i0 & vs0 & E0 & Hi0)|[]]]; auto. inversion E0; subst. exfalso; eauto using is0_not_kfree.
  - right. inversion H1; subst. split; auto. rewrite (store_set_other _ _ _ _ _ _ _ _ _ _ k (H3 Hw) E). exact H2.
Qed.
Lemma L_delstore bdur st e0 st' e' r P i Bf now :
  it_flag i = FDel -> it_wait i = None ->
  store_del bdur st e0 (it_key i) (it_conf i) = (r, st', e') ->
  Pd st P (ADelStore i) Bf now -> Pd st' P AIdle Bf now.
Proof.
  intros Hf Hw E [(H1 & H2 & H3)|(H1 & H2)]; simpl in *.
  - inversion H1; subst; [destruct H4 as (_ & _ & Hx & _); congruence|].
    left. repeat split; auto.
    + rewrite (store_del_other _ _ _ _ _ _ _ _ k (H4 Hw) E). exact H2.
    + left. destruct H3 as [H3|[(i0 & vs0 & E0 & _)|[]]]; auto. discriminate.
  - right. inversion H1; subst. split; auto. rewrite (store_del_other _ _ _ _ _ _ _ _ k (H3 Hw) E). exact H2.
Qed.
Lemma L_sweep bdur st e0 st' e' r P k' cf ks t Bf now : t <= now ->
  store_del_expired bdur st e0 k' cf t = (r, st', e') ->
  Pd st P (ASweep ((k', cf) :: ks) t) Bf now ->
  Pd st' P (match r with None => ASweep ks t | Some it => ASweepPol k' it ks t end) Bf now.
Proof.
  intros Ht E H. destruct (store_delexp_cases _ _ _ _ _ _ _ _ _ k E) as [[Hs Hr]|(-> & Hs & it & -> & Hl & He0 & Het)].
  - apply (L_store_eq st st') in H; [|exact Hs]. destruct r as [it|].
    + destruct H as [(H1 & H2 & H3)|(H1 & H2)]; [left|right]; simpl in *; repeat split; auto.
      destruct H3 as [H3|[(i0 & vs & E0 & _)|[]]]; [now left|discriminate].
    + eapply L_plain; [| |exact H]; exact I.
  - destruct H as [(H1 & H2 & H3)|(H1 & H2)]; [congruence|]. right. simpl in *. split; auto.
    destruct H2 as [H2|H2]; [|now right]. rewrite Hl in H2. inversion H2; subst. right. simpl in *. split; auto. lia.
Qed.
Lemma L_sweeppol st P P' k' it ks t Bf now :
  P' = delete k' P ->
  Pd st P (ASweepPol k' it ks t) Bf now -> Pd st P' (ASweep ks t) Bf now.
Proof.
  intros -> [(H1 & H2 & H3)|(H1 & H2)]; [left|right; exact (conj H1 H2)]; simpl in *. repeat split; auto. left.
  destruct (decide (k' = k)) as [->|Hne]; [apply lookup_delete|]. rewrite lookup_delete_ne by auto.
  destruct H3 as [H3|[(i0 & vs & E0 & _)|Hs]]; auto; [discriminate|contradiction].
Qed.
End Faith.

Lemma pol_update_other p m key cost p' m' k : key <> k -> pol_update p m key cost = (p', m') -> p_costs p' !! k = p_costs p !! k.
Proof.
  intros Hne E. unfold pol_update, pol_update_if_has in E. destruct (p_costs p !! key); inversion E; subst; simpl; auto.
  now rewrite lookup_insert_ne.
Qed.
Lemma pol_del_eq p m key p' m' : pol_del p m key = (p', m') -> p_costs p' = delete key (p_costs p).
Proof. intros E. rewrite <- (pol_del_costs p m key). now rewrite E. Qed.

Section Faith2.
Context (cf : cfg) (K : gset N) (B : Z) (k c v : N) (e : Z).

Definition quietk (T : gmap nat cthread) : Prop :=
  forall tid t, T !! tid = Some t ->
    match t_pc t with
    | CSetUpd i | CSetSend i => it_key i <> k
    | CDelStore k' _ | CDelSend k' _ => k' <> k
    | _ => True
    end.
Record F (s : state) : Prop := {
  f_quiet : quietk (s_threads s); f_base : base_inv s; f_room : Rinv cf K B s;
  f_p : Pd k c v e (s_store s) (p_costs (s_pol s)) (s_apc s) (s_buf s) (s_now s) }.

Definition lab_f (l : label) : Prop :=
  match l with
  | LCall _ (OSet k' _ _ _ _) | LCall _ (ODel k' _) => k' <> k
  | LCall _ OClear | LCall _ OClose => False
  | _ => True
  end.
Lemma lab_f_nc l : lab_f l -> lab_nc l.
Proof. destruct l as [tid o| | | | |]; simpl; auto. destruct o; auto. Qed.

Lemma quietk_insert T tid t' : quietk T ->
  match t_pc t' with
  | CSetUpd i | CSetSend i => it_key i <> k
  | CDelStore k' _ | CDelSend k' _ => k' <> k
  | _ => True
  end -> quietk (<[tid := t']> T).
Proof.
  intros Hq Ht tid0 t0 Hl. apply lookup_thread_insert in Hl as [[-> ->]|[_ Hl]]; [exact Ht|exact (Hq _ _ Hl)].
Qed.

Lemma step_F s l s' : lab_f l -> lab_room cf K B l -> F s -> mstep cf s l = Some s' -> F s'.
Proof.
  intros HL HR [Hq Hb Hr Hp] H.
  pose proof (b_swt _ Hb) as Hs. pose proof (b_fl _ Hb) as Hf.
  pose proof (step_base cf s l s' (lab_f_nc l HL) Hb H) as Hb'.
  pose proof (step_R cf K B s l s' (lab_f_nc l HL) HR Hb Hr H) as Hr'.
  assert (Hg : forall tid, match t_pc (get_thread s tid) with
                           | CSetUpd i | CSetSend i => it_key i <> k
                           | CDelStore k' _ | CDelSend k' _ => k' <> k
                           | _ => True end).
  { intros tid. unfold get_thread. destruct (s_threads s !! tid) eqn:E; simpl; [eapply Hq; eauto|exact I]. }
  pose proof (b_apc _ Hb) as Hwf. pose proof (r_apc _ _ _ _ Hr) as Hra.
  pose proof (r_dom _ _ _ _ Hr) as Hd. pose proof (r_max _ _ _ _ Hr) as Hm. pose proof (r_ok _ _ _ _ Hr) as Hok.
  assert (Hbt : forall tid, match t_pc (get_thread s tid) with
                            | CSetUpd i | CSetSend i => it_wait i = None | CClr _ _ => False | _ => True end).
  { intros tid. unfold get_thread. destruct (s_threads s !! tid) eqn:E; simpl; [eapply (b_thr _ Hb); eauto|exact I]. }
  clear Hb Hr.
  step_cases H.
  all: try (match goal with Hpc : t_pc (get_thread _ ?tid) = _ |- _ =>
              let Hx := fresh "Hx" in pose proof (Hg tid) as Hx; rewrite Hpc in Hx; simpl in Hx;
              let Hy := fresh "Hy" in pose proof (Hbt tid) as Hy; rewrite Hpc in Hy; simpl in Hy end).
  all: try contradiction.
  all: try solve [ exfalso; exact HL ].
  all: try (simpl in Hs); try (simpl in Hf); try (simpl in Hwf); try (simpl in Hra).
  all: constructor; msimpl.
  all: try exact Hb'.
  all: try exact Hr'.
  all: clear Hb' Hr'.
  (* quiet *)
  all: try exact Hq.
  all: try solve [ apply quietk_insert; [exact Hq|]; simpl; first [ exact I | exact HL | exact Hx | apply Hg ] ].
  all: repeat match goal with Hb : s_apc _ = _ |- context [s_apc _] => rewrite Hb end.
  (* the entry *)
  all: repeat match goal with Hb : s_buf _ = _ |- _ => rewrite Hb in Hp end.
  all: try exact Hp.
  all: try solve [ eapply L_store_eq; [|exact Hp];
                   first [ (eapply store_update_other; [|eassumption]; assumption)
                         | (eapply store_del_other; [|eassumption]; assumption) ] ].
  all: try solve [ apply L_app; [|exact Hp];
                   first [ (intros _; simpl; assumption) | (intros Hw0; simpl in Hw0; discriminate) ] ].
  all: try solve [ eapply L_time; [|exact Hp];
                   match goal with Hd0 : (_ <? 0) = false |- _ => apply Z.ltb_ge in Hd0; lia end ].
  all: try solve [ eapply L_plain; [| |exact Hp]; exact I ].
  all: try solve [ eapply L_pop_marker; eassumption ].
  all: try solve [ eapply L_pop_got; eassumption ].
  all: try solve [ match goal with E : pol_add _ _ _ _ _ _ = AddOk _ _ _ _ _ _ |- _ =>
                     destruct (R_add K B _ _ _ _ _ _ _ _ _ _ _ _ (conj Hd Hm) Hok
                                 (proj1 (Hra ltac:(congruence))) (proj2 (Hra ltac:(congruence))) E) as (J1 & _ & J4 & J5);
                     rewrite J4 end;
                   first [ (eapply L_add_new; [exact Hwf | reflexivity | eauto | exact Hp])
                         | (eapply L_drop; [exact Hwf | exact I | | | exact Hp];
                            [ (intros (_ & Hk0 & _) Hn0; rewrite <- Hk0 in Hn0; apply J5 in Hn0; discriminate)
                            | (intros Hne; apply lookup_insert_ne; auto) ]) ] ].
  all: try solve [ eapply L_drop; [exact Hwf | exact I | | | exact Hp];
                   [ (intros (_ & _ & Hfl & _); congruence)
                   | (intros Hne; eapply pol_update_other; eassumption) ] ].
  all: try solve [ eapply L_keep; [exact Hwf | | | exact Hp];
                   [ (intros (_ & _ & Hfl & _); congruence)
                   | (intros Hne; match goal with E : pol_del _ _ _ = _ |- _ => rewrite (pol_del_eq _ _ _ _ _ E) end;
                      apply lookup_delete_ne; auto) ] ].
  all: try solve [ eapply L_newset; [ | | eassumption | exact Hp]; tauto ].
  all: try solve [ eapply L_delstore; [exact Hf | exact Hwf | eassumption | exact Hp] ].
  all: try solve [ match goal with E : store_del_expired _ _ _ _ _ _ = (?r, _, _) |- _ =>
                     exact (L_sweep k c v e _ _ _ _ _ r _ _ _ _ _ _ _ Hs E Hp) end ].
  all: try solve [ eapply L_sweeppol; [|exact Hp]; eapply pol_del_eq; eassumption ].
Qed.

(* ---- the Wait marker sits behind the inserted item ---- *)
Context (tw : nat) (id : N).
Fixpoint behind (Q : list item) : Prop :=
  match Q with
  | [] => False
  | i :: Q' => if decide (it_wait i = Some id) then Forall (kfree k) Q' else behind Q'
  end.
Definition Wcf (a : apc) (Bf : list item) (M : gset N) : Prop :=
  (id ∈ M -> Forall (kfree k) (held a ++ Bf)) /\ (id ∉ M -> behind (held a ++ Bf)).

Lemma behind_app Q j : kfree k j -> behind Q -> behind (Q ++ [j]).
Proof.
  induction Q as [|i Q IH]; simpl; intros Hj H; [destruct H|].
  destruct (decide (it_wait i = Some id)); auto. apply Forall_app; auto.
Qed.
Lemma behind_snoc Q : Forall (fun i => it_wait i <> Some id) Q -> behind (Q ++ [marker id]).
Proof.
  induction 1 as [|i Q Hi HQ IH]; simpl.
  - destruct (decide (Some id = Some id)); [constructor|congruence].
  - destruct (decide (it_wait i = Some id)); [contradiction|exact IH].
Qed.
Lemma W_app a Bf M j : kfree k j -> Wcf a Bf M -> Wcf a (Bf ++ [j]) M.
Proof.
  intros Hj [H1 H2]. split; intros Hm; rewrite app_assoc.
  - apply Forall_app; auto.
  - apply behind_app; auto.
Qed.
Lemma W_pop_got i l M z : it_wait i = None -> Wcf AIdle (i :: l) M -> Wcf (AGot (set_cost i z)) l M.
Proof.
  intros Hw [H1 H2]. split; intros Hm; simpl in *.
  - specialize (H1 Hm). inversion H1; subst. constructor; auto; now apply kfree_set_cost.
  - specialize (H2 Hm). rewrite Hw in *. destruct (decide (None = Some id)); [discriminate|exact H2].
Qed.
Lemma W_pop_marker i l M n : it_wait i = Some n -> Wcf AIdle (i :: l) M -> Wcf AIdle l ({[n]} ∪ M).
Proof.
  intros Hw [H1 H2]. simpl in *. destruct (decide (id ∈ M)) as [Hm|Hm].
  - split; [|set_solver]. intros _. specialize (H1 Hm). now inversion H1.
  - specialize (H2 Hm). rewrite Hw in H2. destruct (decide (Some n = Some id)) as [E|E].
    + split; [|set_solver]. intros _. exact H2.
    + split; [set_solver|]. intros _. exact H2.
Qed.
Lemma W_same a a' Bf M : held a = held a' -> Wcf a Bf M -> Wcf a' Bf M.
Proof. unfold Wcf. now intros ->. Qed.
Lemma W_drop a a' i Bf M : held a = [i] -> held a' = [] -> it_wait i = None -> Wcf a Bf M -> Wcf a' Bf M.
Proof.
  unfold Wcf. intros -> -> Hw [H1 H2]. simpl in *. split; intros Hm.
  - specialize (H1 Hm). now inversion H1.
  - specialize (H2 Hm). rewrite Hw in H2. destruct (decide (None = Some id)); [discriminate|exact H2].
Qed.

Record FW (s : state) : Prop := {
  fw_F : F s;
  fw_pc : (t_pc (get_thread s tw) = CWaitBlock id /\ t_op (get_thread s tw) <> None) \/ id ∈ s_markers s;
  fw_w : Wcf (s_apc s) (s_buf s) (s_markers s) }.

Lemma step_FW s l s' : lab_f l -> lab_room cf K B l -> FW s -> mstep cf s l = Some s' -> FW s'.
Proof.
  intros HL HR [HF Hpc Hw] H.
  pose proof (step_F s l s' HL HR HF H) as HF'.
  destruct HF as [Hq Hb _ _]. pose proof (b_apc _ Hb) as Hwf.
  assert (Hg : forall tid, match t_pc (get_thread s tid) with
                           | CSetUpd i | CSetSend i => it_key i <> k
                           | CDelStore k' _ | CDelSend k' _ => k' <> k
                           | _ => True end).
  { intros tid. unfold get_thread. destruct (s_threads s !! tid) eqn:E; simpl; [eapply Hq; eauto|exact I]. }
  assert (Hbt : forall tid, match t_pc (get_thread s tid) with
                            | CSetUpd i | CSetSend i => it_wait i = None | CClr _ _ => False | _ => True end).
  { intros tid. unfold get_thread. destruct (s_threads s !! tid) eqn:E; simpl; [eapply (b_thr _ Hb); eauto|exact I]. }
  clear Hb Hq.
  step_cases H.
  all: try (match goal with Hpc : t_pc (get_thread _ ?tid) = _ |- _ =>
              let Hx := fresh "Hx" in pose proof (Hg tid) as Hx; rewrite Hpc in Hx; simpl in Hx;
              let Hy := fresh "Hy" in pose proof (Hbt tid) as Hy; rewrite Hpc in Hy; simpl in Hy end).
  all: try contradiction.
  all: try solve [ exfalso; exact HL ].
  all: try (simpl in Hwf).
  all: constructor; msimpl.
  all: try exact HF'.
  all: clear HF'.
  all: repeat match goal with Hb : s_apc _ = _ |- context [s_apc _] => rewrite Hb end.
  (* the waiting goroutine *)
  all: try exact Hpc.
  all: try solve [ unfold get_thread in *; msimpl;
                   destruct (decide (tid = tw)) as [->|Hne];
                   [ rewrite lookup_insert; simpl;
                     destruct Hpc as [[Hp1 Hp2]|Hp]; [|right; set_solver];
                     first [ congruence | (right; congruence) | (left; split; [assumption|discriminate]) ]
                   | rewrite lookup_insert_ne by congruence;
                     destruct Hpc as [Hp|Hp]; [left; exact Hp|right; set_solver] ] ].
  all: try solve [ destruct Hpc as [Hp|Hp]; [left; exact Hp|right; set_solver] ].
  (* the marker *)
  all: repeat match goal with Hb : s_buf _ = _ |- _ => rewrite Hb in Hw end.
  all: try exact Hw.
  all: try solve [ apply W_app; [|exact Hw];
                   first [ (intros _; simpl; assumption) | (intros Hw0; simpl in Hw0; discriminate) ] ].
  all: try solve [ eapply W_pop_marker; eassumption ].
  all: try solve [ eapply W_pop_got; eassumption ].
  all: try solve [ eapply W_same; [|exact Hw]; reflexivity ].
  all: try solve [ match type of Hw with Wcf ?a _ _ =>
                     match goal with |- Wcf ?a' _ _ =>
                     match a with
                     | AGot ?i => apply (W_drop a a' i _ _ eq_refl eq_refl); [tauto|exact Hw]
                     | ANewSet ?i _ => apply (W_drop a a' i _ _ eq_refl eq_refl); [tauto|exact Hw]
                     | ADelStore ?i => apply (W_drop a a' i _ _ eq_refl eq_refl); [tauto|exact Hw]
                     end end end ].
Qed.

(* ---- entering the phases ---- *)
Lemma shapeN_snoc Q i : Forall (kfree k) Q -> is0 k c v e i -> shapeN k c v e (Q ++ [i]).
Proof.
  induction 1 as [|j Q Hj HQ IH]; simpl; intros Hi.
  - apply sN_here; auto.
  - apply sN_skip; auto.
Qed.

Definition quiet_pc (pc : cpc) : Prop :=
  match pc with
  | CSetUpd i | CSetSend i => it_key i <> k
  | CDelStore k' _ | CDelSend k' _ => k' <> k
  | _ => True
  end.

Lemma set_establishes s ts o i0 s' :
  base_inv s -> Rinv cf K B s ->
  (forall tid t, s_threads s !! tid = Some t -> tid <> ts -> quiet_pc (t_pc t)) ->
  t_op (get_thread s ts) = Some o -> t_pend (get_thread s ts) = [] -> t_pc (get_thread s ts) = CSetSend i0 ->
  is0 k c v e i0 ->
  Forall (kfree k) (held (s_apc s) ++ s_buf s) -> s_store s !! k = None ->
  (p_costs (s_pol s) !! k = None \/ sweeping (s_apc s) k) ->
  (length (s_buf s) < c_cap cf)%nat ->
  mstep cf s (LStep ts) = Some s' ->
  F s' /\ s_log s' = ERet ts o (RBool true) :: s_log s.
Proof.
  intros Hb Hr Hq Hop Hpend Hpc Hi HQ Hst Hpol Hcap H.
  pose proof (step_base cf s (LStep ts) s' I Hb H) as Hb'.
  pose proof (step_R cf K B s (LStep ts) s' I I Hb Hr H) as Hr'.
  unfold mstep, client_step, try_send in H. rewrite Hop, Hpend, Hpc, (b_open _ Hb) in H.
  destruct (s_panic s); [discriminate|].
  destruct (Nat.ltb_spec (length (s_buf s)) (c_cap cf)); [|lia]. inversion H; subst s'; clear H.
  split; [|reflexivity]. constructor; msimpl; auto.
  - intros tid t Hl. apply lookup_thread_insert in Hl as [[-> ->]|[Hne Hl]]; [exact I|]. exact (Hq _ _ Hl Hne).
  - left. unfold PN. rewrite app_assoc. split; [now apply shapeN_snoc|]. split; [exact Hst|].
    destruct Hpol as [Hp|Hp]; auto.
Qed.

Lemma waitF_establishes s o s' :
  F s ->
  t_op (get_thread s tw) = Some o -> t_pend (get_thread s tw) = [] -> t_pc (get_thread s tw) = CWaitSend ->
  id = s_next_marker s ->
  mstep cf s (LStep tw) = Some s' -> FW s'.
Proof.
  intros HF Hop Hpend Hpc Hid H.
  pose proof (step_F s (LStep tw) s' I I HF H) as HF'.
  destruct HF as [_ Hb _ _]. destruct (b_mk _ Hb) as [Hm1 Hm2]. pose proof (b_apc _ Hb) as Hwf.
  unfold mstep, client_step, try_send in H. rewrite Hop, Hpend, Hpc, (b_open _ Hb) in H.
  destruct (s_panic s); [discriminate|].
  destruct (length (s_buf s) <? c_cap cf)%nat; [|discriminate]. inversion H; subst s'; clear H.
  constructor; [exact HF'| |]; msimpl; rewrite <- Hid.
  - left. unfold get_thread. msimpl. rewrite lookup_insert. simpl. split; [reflexivity|discriminate].
  - split.
    + intros Hi. rewrite Hid in Hi. apply Hm1 in Hi. lia.
    + intros _. rewrite app_assoc. apply behind_snoc. apply Forall_app. split.
      * destruct (s_apc s); simpl in *; repeat constructor; intuition congruence.
      * eapply List.Forall_impl; [|exact Hm2]. intros i Hi E. apply Hi in E. lia.
Qed.

Lemma get_hits s tg s' :
  FW s -> t_op (get_thread s tw) = None -> (e = 0 \/ s_now s < e) ->
  mstep cf s (LCall tg (OGet k c)) = Some s' ->
  s_log s' = ERet tg (OGet k c) (RVal v true) :: ECall tg (OGet k c) (s_now s) :: s_log s.
Proof.
  intros [[_ Hb _ Hp] Hpc [Hw _]] Hnone He H.
  destruct Hpc as [[_ Hx]|Hm]; [congruence|]. specialize (Hw Hm).
  destruct Hp as [(Hs & _)|(_ & Hs)]; [exfalso; eapply shapeN_not_free; eauto|].
  destruct Hs as [Hs|Hs]; [|lia].
  unfold mstep in H. destruct (s_panic s); [discriminate|].
  destruct (t_op (get_thread s tg)); [discriminate|]. destruct (t_pend (get_thread s tg)); [|discriminate].
  inversion H; subst; clear H. unfold start_call. msimpl. rewrite (b_nc _ Hb).
  unfold store_get. rewrite Hs. simpl. unfold conf_ok. rewrite N.eqb_refl, orb_true_r. simpl.
  unfold expired. destruct He as [->|He]; simpl.
  - reflexivity.
  - destruct (Z.ltb_spec e (s_now s)); [lia|]. rewrite andb_false_r. reflexivity.
Qed.
End Faith2.


(* ---- C06 over all schedules ---- *)
Definition lab0 (cf : cfg) (K : gset N) (B : Z) (kc : N -> N) (l : label) : Prop :=
  lab_nc l /\ lab_room cf K B l /\ label_kc kc l.
Definition lab1 (cf : cfg) (K : gset N) (B : Z) (k : N) (l : label) : Prop := lab_f k l /\ lab_room cf K B l.

Lemma polk_from_sync kc s k ts i0 :
  cache_inv kc s -> base_inv s ->
  t_pc (get_thread s ts) = CSetSend i0 ->
  (forall tid t, s_threads s !! tid = Some t -> tid <> ts -> quiet_pc k (t_pc t)) ->
  Forall (kfree k) (held (s_apc s) ++ s_buf s) -> s_store s !! k = None ->
  p_costs (s_pol s) !! k = None \/ sweeping (s_apc s) k.
Proof.
  intros [_ _ _ Hsy] Hb Hpc Hq HQ Hst.
  destruct (p_costs (s_pol s) !! k) as [x|] eqn:E; [|now left]. right.
  assert (Hnb : ~ clr_busy (s_threads s)).
  { intros (tid & Hin). unfold th_pc in Hin. destruct (s_threads s !! tid) as [t|] eqn:El; simpl in Hin; [|exact Hin].
    pose proof (b_thr _ Hb _ _ El) as Hx. destruct (t_pc t); simpl in Hin; try contradiction. }
  pose proof (b_apc _ Hb) as Hwf.
  apply Forall_app in HQ as [HQ1 HQ2].
  destruct (sy_PS _ _ _ _ _ Hsy Hnb k ltac:(rewrite E; eauto)) as [Hs|[Ha|[Hs|Ht]]].
  - rewrite Hst in Hs. destruct Hs; discriminate.
  - exfalso. destruct (s_apc s); simpl in *; try contradiction. inversion HQ1; subst. destruct Hwf as [_ Hw].
    match goal with Hf : kfree _ _ |- _ => exact (Hf Hw eq_refl) end.
  - exact Hs.
  - exfalso. destruct Ht as [(i & Hin & Hw & _ & Hk)|[(i & Ea & Hw & _ & Hk)|(tid & c0 & Hp)]].
    + rewrite List.Forall_forall in HQ2. exact (HQ2 i Hin Hw Hk).
    + rewrite Ea in HQ1. simpl in HQ1. inversion HQ1 as [|? ? Hf ?]. exact (Hf Hw Hk).
    + unfold th_pc in Hp. destruct (decide (tid = ts)) as [->|Hne].
      * unfold get_thread in Hpc. rewrite Hpc in Hp. discriminate.
      * destruct (s_threads s !! tid) as [t|] eqn:El; simpl in Hp; [|discriminate].
        pose proof (Hq _ _ El Hne) as Hx. rewrite Hp in Hx. simpl in Hx. congruence.
Qed.

Theorem faithful cf K B kc maxCost bdur now0 mon k c v e sched0 ts o i0 sched1 tw ow sched2 tg s1 s3 s5 :
  Z.of_nat (size K) * B <= maxCost ->
  Forall (lab0 cf K B kc) sched0 ->
  let s0 := mrun cf (init_state maxCost bdur now0 mon) sched0 in
  t_op (get_thread s0 ts) = Some o -> t_pend (get_thread s0 ts) = [] -> t_pc (get_thread s0 ts) = CSetSend i0 ->
  is0 k c v e i0 ->
  (forall tid t, s_threads s0 !! tid = Some t -> tid <> ts -> quiet_pc k (t_pc t)) ->
  Forall (kfree k) (held (s_apc s0) ++ s_buf s0) -> s_store s0 !! k = None ->
  (length (s_buf s0) < c_cap cf)%nat ->
  mstep cf s0 (LStep ts) = Some s1 ->
  Forall (lab1 cf K B k) sched1 ->
  let s2 := mrun cf s1 sched1 in
  t_op (get_thread s2 tw) = Some ow -> t_pend (get_thread s2 tw) = [] -> t_pc (get_thread s2 tw) = CWaitSend ->
  mstep cf s2 (LStep tw) = Some s3 ->
  Forall (lab1 cf K B k) sched2 ->
  let s4 := mrun cf s3 sched2 in
  t_op (get_thread s4 tw) = None -> (e = 0 \/ s_now s4 < e) ->
  mstep cf s4 (LCall tg (OGet k c)) = Some s5 ->
  s_log s1 = ERet ts o (RBool true) :: s_log s0 /\
  s_log s5 = ERet tg (OGet k c) (RVal v true) :: ECall tg (OGet k c) (s_now s4) :: s_log s4.
Proof.
  intros Hmax HL0 s0 Hop Hpend Hpc Hi Hq HQ Hst Hcap H1 HL1 s2 Hopw Hpendw Hpcw H3 HL2 s4 Hret He H5.
  assert (Hb0 : base_inv s0).
  { apply (mrun_invariant_lab cf (lab0 cf K B kc) base_inv); auto using init_base.
    intros s l s' (Hn & _) Hb Hs; eapply step_base; eauto. }
  assert (Hr0 : base_inv s0 /\ Rinv cf K B s0).
  { apply (mrun_invariant_lab cf (lab0 cf K B kc) (fun s => base_inv s /\ Rinv cf K B s)); auto.
    - intros s l s' (Hn & Hr & _) [Hb HR] Hs. split; [eapply step_base|eapply step_R]; eauto.
    - split; [apply init_base|now apply init_R]. }
  assert (Hc0 : cache_inv kc s0).
  { apply reachable_sync. eapply List.Forall_impl; [|exact HL0]. intros l (_ & _ & Hl). exact Hl. }
  pose proof (polk_from_sync kc s0 k ts i0 Hc0 Hb0 Hpc Hq HQ Hst) as Hpol.
  destruct (set_establishes cf K B k c v e s0 ts o i0 s1 Hb0 (proj2 Hr0) Hq Hop Hpend Hpc Hi HQ Hst Hpol Hcap H1)
    as [HF1 Hlog1].
  split; [exact Hlog1|].
  assert (HF2 : F cf K B k c v e s2).
  { apply (mrun_invariant_lab cf (lab1 cf K B k) (F cf K B k c v e)); auto.
    intros s l s' (Hf & Hr) HF Hs. eapply step_F; eauto. }
  assert (HW3 : FW cf K B k c v e tw (s_next_marker s2) s3) by (eapply waitF_establishes; eauto).
  assert (HW4 : FW cf K B k c v e tw (s_next_marker s2) s4).
  { apply (mrun_invariant_lab cf (lab1 cf K B k) (FW cf K B k c v e tw (s_next_marker s2))); auto.
    intros s l s' (Hf & Hr) HF Hs. eapply step_FW; eauto. }
  eapply get_hits; eauto.
Qed.

(* an overwrite of a resident key is visible to Get at once: the step of Set that finds the key in the map replaces
   the entry under the shard lock, before anything goes through the write buffer *)
Lemma overwrite_visible cf s ts o i it s' :
  s_panic s = false ->
  t_op (get_thread s ts) = Some o -> t_pend (get_thread s ts) = [] -> t_pc (get_thread s ts) = CSetUpd i ->
  s_store s !! it_key i = Some it -> conf_ok (it_conf i) (si_conf it) = true ->
  c_should cf (it_val i) (si_val it) = true ->
  (it_exp i = 0 \/ s_now s <= it_exp i) ->
  mstep cf s (LStep ts) = Some s' ->
  store_get (s_store s') (s_now s') (it_key i) (it_conf i) = (it_val i, true) /\
  t_pc (get_thread s' ts) = CSetSend (set_flag i FUpd) /\ t_pend (get_thread s' ts) = [CbExit (si_val it)].
Proof.
  intros Hp Hop Hpend Hpc Hl Hc Hsh He H. unfold mstep, client_step in H. rewrite Hp, Hop, Hpend, Hpc in H.
  unfold store_update in H. rewrite Hl, Hc, Hsh in H. simpl in H. inversion H; subst; clear H.
  unfold get_thread; msimpl. rewrite lookup_insert. simpl. split; [|auto].
  unfold store_get. rewrite lookup_insert. simpl. unfold conf_ok. rewrite N.eqb_refl, orb_true_r. simpl.
  unfold expired. destruct He as [->|He]; simpl; [reflexivity|].
  destruct (Z.ltb_spec (it_exp i) (s_now s)); [lia|]. now rewrite andb_false_r.
Qed.
