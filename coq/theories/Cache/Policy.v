(* Model of policy.go: sampledLFU (keyCosts / used / maxCost), defaultPolicy.Add / Update / Del / Cap / Cost /
   Clear, and the Metrics counters.  Definitions only.
   Cost arithmetic is in unbounded Z (int64 overflow, i.e. accounted costs summing to >= 2^63, is outside the
   model); metric counters are uint64 with the code's two's-complement deltas. *)
From stdpp Require Import gmap.
From Ristretto Require Import Base.Word.
Local Open Scope Z_scope.

(* ---------- metrics ---------- *)
Inductive mtype := MHit | MMiss | MKeyAdd | MKeyUpdate | MKeyEvict | MCostAdd | MCostEvict
                 | MDropSets | MRejectSets | MDropGets | MKeepGets.
Global Instance mtype_eq_dec : EqDecision mtype.
Proof. solve_decision. Defined.

Record metrics := { m_on : bool; m_get : mtype -> N }.
Definition m_zero (on : bool) : metrics := {| m_on := on; m_get := fun _ => 0%N |}.
Definition m_add (m : metrics) (t : mtype) (delta : N) : metrics :=
  if m_on m then
    {| m_on := true; m_get := fun t' => if decide (t' = t) then add64 (m_get m t') delta else m_get m t' |}
  else m.
Definition m_clear (m : metrics) : metrics := m_zero (m_on m).
Definition m_read (m : metrics) (t : mtype) : N := if m_on m then m_get m t else 0%N.

(* ---------- sampledLFU ---------- *)
Record policy := { p_costs : gmap N Z; p_used : Z; p_max : Z }.

Definition lfu_sample : nat := 5.

Definition pol_new (maxCost : Z) : policy := {| p_costs := ∅; p_used := 0; p_max := maxCost |}.
Definition room_left (p : policy) (cost : Z) : Z := p_max p - (p_used p + cost).

(* sampledLFU.del (with its metric updates) *)
Definition pol_del (p : policy) (m : metrics) (key : N) : policy * metrics :=
  match p_costs p !! key with
  | None => (p, m)
  | Some c =>
      ({| p_costs := delete key (p_costs p); p_used := p_used p - c; p_max := p_max p |},
       m_add (m_add m MCostEvict (z2u64 c)) MKeyEvict 1)
  end.

Definition pol_insert (p : policy) (key : N) (cost : Z) : policy :=
  {| p_costs := <[key := cost]> (p_costs p); p_used := p_used p + cost; p_max := p_max p |}.

(* sampledLFU.updateIfHas *)
Definition pol_update_if_has (p : policy) (m : metrics) (key : N) (cost : Z) : bool * policy * metrics :=
  match p_costs p !! key with
  | None => (false, p, m)
  | Some prev =>
      let m1 := m_add m MKeyUpdate 1 in
      let m2 := if cost <? prev then m_add m1 MCostAdd (z2u64 (- (prev - cost)))
                else if prev <? cost then m_add m1 MCostAdd (z2u64 (cost - prev)) else m1 in
      (true, {| p_costs := <[key := cost]> (p_costs p); p_used := p_used p + (cost - prev); p_max := p_max p |}, m2)
  end.

(* fillSample: append (key, cost) pairs following an enumeration [order] of the map until 5 are held *)
Fixpoint fill_sample (costs : gmap N Z) (order : list N) (sample : list (N * Z)) : list (N * Z) :=
  if (lfu_sample <=? length sample)%nat then sample
  else match order with
       | [] => sample
       | k :: rest =>
           match costs !! k with
           | Some c => fill_sample costs rest (sample ++ [(k, c)])
           | None => fill_sample costs rest sample
           end
       end.

(* first entry with the strictly smallest estimate: (index, key, cost, hits) *)
Fixpoint min_entry (est : N -> Z) (s : list (N * Z)) (i : nat) (best : option (nat * N * Z * Z))
  : option (nat * N * Z * Z) :=
  match s with
  | [] => best
  | (k, c) :: rest =>
      let h := est k in
      let best' := match best with
                   | Some (_, _, _, bh) => if h <? bh then Some (i, k, c, h) else best
                   | None => Some (i, k, c, h)
                   end in
      min_entry est rest (S i) best'
  end.

(* sample[minId] = sample[len-1]; sample = sample[:len-1] *)
Definition remove_swap {A} (s : list A) (i : nat) : list A :=
  match s !! (length s - 1)%nat with
  | None => s
  | Some l => take (length s - 1) (<[i := l]> s)
  end.

Record round := { rd_sample : list (N * Z); rd_victim : N * Z; rd_hits : Z }.

(* [rej]: when the newcomer is turned away by the admission test, the sample it lost against and that
   sample's smallest estimate (ghost, like [rounds]) *)
Inductive add_result :=
| AddOk (victims : list (N * Z)) (added : bool) (p : policy) (m : metrics) (rounds : list round)
        (rej : option (list (N * Z) * Z))
| AddOutOfFuel.

(* the eviction loop of defaultPolicy.Add.  [orders]: for every fillSample call an enumeration of the
   key-cost map (Go's map iteration order) *)
Fixpoint add_loop (fuel : nat) (orders : list (list N)) (est : N -> Z) (key : N) (cost inc : Z)
    (p : policy) (m : metrics) (sample : list (N * Z)) (victims : list (N * Z)) (rounds : list round)
  : add_result :=
  if 0 <=? room_left p cost then
    AddOk victims true (pol_insert p key cost) (m_add m MCostAdd (z2u64 cost)) rounds None
  else
    match fuel with
    | O => AddOutOfFuel
    | S f =>
        let order := match orders with o :: _ => o | [] => (map_to_list (p_costs p)).*1 end in
        let sample1 := fill_sample (p_costs p) order sample in
        match min_entry est sample1 0 None with
        | None => AddOk victims false p (m_add m MRejectSets 1) rounds (Some (sample1, 9223372036854775807))
        | Some (i, mk, mc, mh) =>
            if inc <? mh then AddOk victims false p (m_add m MRejectSets 1) rounds (Some (sample1, mh))
            else
              let '(p', m') := pol_del p m mk in
              add_loop f (tail orders) est key cost inc p' m' (remove_swap sample1 i)
                       (victims ++ [(mk, mc)])
                       (rounds ++ [{| rd_sample := sample1; rd_victim := (mk, mc); rd_hits := mh |}])
        end
    end.

Definition add_fuel (p : policy) : nat := 6 * (size (p_costs p) + 1).

(* defaultPolicy.Add *)
Definition pol_add (orders : list (list N)) (est : N -> Z) (p : policy) (m : metrics) (key : N) (cost : Z)
  : add_result :=
  if p_max p <? cost then AddOk [] false p m [] None
  else
    let '(has, p1, m1) := pol_update_if_has p m key cost in
    if has then AddOk [] false p1 m1 [] None
    else add_loop (add_fuel p) orders est key cost (est key) p m [] [] [].

Definition pol_update (p : policy) (m : metrics) (key : N) (cost : Z) : policy * metrics :=
  let '(_, p1, m1) := pol_update_if_has p m key cost in (p1, m1).
Definition pol_cap (p : policy) : Z := p_max p - p_used p.
Definition pol_cost (p : policy) (key : N) : Z := default (-1) (p_costs p !! key).
Definition pol_has (p : policy) (key : N) : bool := bool_decide (is_Some (p_costs p !! key)).
Definition pol_clear (p : policy) : policy := {| p_costs := ∅; p_used := 0; p_max := p_max p |}.
Definition pol_set_max (p : policy) (mx : Z) : policy :=
  {| p_costs := p_costs p; p_used := p_used p; p_max := mx |}.

Definition sum_costs (c : gmap N Z) : Z := map_fold (fun _ x acc => x + acc) 0 c.
