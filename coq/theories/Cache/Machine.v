(* The cache as a lock-grain interleaving machine (cache.go): client threads, the applier goroutine
   (processItems, including the expiry sweep it runs on ticker events), the write buffer, store, expiry index,
   policy, metrics, the clock and a ghost log of calls / returns / callbacks.
   One [step] is never larger than one critical section / one channel operation / one callback invocation of
   the code, so every interleaving of the code at that grain is a schedule (list of labels) of this machine.
   Keys are given as their (hash, conflict) pair: KeyToHash is outside the machine.  Values are N identifiers.
   Definitions only. *)
From stdpp Require Import gmap.
From Ristretto Require Import Base.Word Cache.Policy Cache.Store.
Local Open Scope Z_scope.

Inductive flag := FNew | FDel | FUpd.
Global Instance flag_eq_dec : EqDecision flag.
Proof. solve_decision. Defined.

Record item := { it_flag : flag; it_key : N; it_conf : N; it_val : N; it_cost : Z; it_exp : Z;
                 it_wait : option N }.

Definition set_flag (i : item) (f : flag) : item :=
  {| it_flag := f; it_key := it_key i; it_conf := it_conf i; it_val := it_val i; it_cost := it_cost i;
     it_exp := it_exp i; it_wait := it_wait i |}.
Definition set_cost (i : item) (c : Z) : item :=
  {| it_flag := it_flag i; it_key := it_key i; it_conf := it_conf i; it_val := it_val i; it_cost := c;
     it_exp := it_exp i; it_wait := it_wait i |}.
Definition marker (id : N) : item :=
  {| it_flag := FNew; it_key := 0; it_conf := 0; it_val := 0; it_cost := 0; it_exp := 0; it_wait := Some id |}.
Definition tombstone (k c : N) : item :=
  {| it_flag := FDel; it_key := k; it_conf := c; it_val := 0; it_cost := 0; it_exp := 0; it_wait := None |}.

(* user callbacks as ghost events: OnExit v | OnEvict item | OnReject item *)
Inductive cb :=
| CbExit (v : N)
| CbEvict (k conf v : N) (cost : Z)
| CbReject (k conf v : N) (cost : Z).

Inductive op :=
| OGet (k c : N) | OSet (k c v : N) (cost ttl : Z) | ODel (k c : N) | OWait | OGetTTL (k c : N)
| OIter | OClear | OClose | ORem | OMax | OUpdMax (mx : Z).

Inductive result :=
| RUnit | RBool (b : bool) | RVal (v : N) (found : bool) | RTtl (d : Z) (found : bool)
| RList (l : list N) | RZ (z : Z).

Inductive event :=
| ECall (tid : nat) (o : op) (now : Z)
| ERet (tid : nat) (o : op) (r : result)
| ECb (who : option nat) (c : cb)            (* None = the applier goroutine *)
| EMClear.                                   (* ghost: Metrics.Clear() ran (inside Clear) *)

Inductive clr_stage := ClrStop | ClrDrain | ClrPolicy | ClrStore | ClrMetrics | ClrRestart | ClsStop.

Inductive cpc :=
| CIdle
| CSetUpd (i : item) | CSetSend (i : item)
| CDelStore (k c : N) | CDelSend (k c : N)
| CWaitSend | CWaitBlock (id : N)
| CTtl2
| CClr (st : clr_stage) (closing : bool).

Inductive apc :=
| AIdle
| AGot (i : item)
| ANewSet (i : item) (victims : list (N * Z))
| AVict (victims : list (N * Z))
| ADelStore (i : item)
| ASweep (keys : list (N * N)) (t : Z)
| ASweepPol (k : N) (it : sitem) (keys : list (N * N)) (t : Z)
| AExited.

Record cthread := { t_pc : cpc; t_pend : list cb; t_op : option op }.

Record cfg := { c_cap : nat; c_bdur : Z; c_ignore_internal : bool; c_item_size : Z;
                c_should : N -> N -> bool;
                c_costfn : option (N -> Z) }.   (* Config.Cost: used when an item's cost is 0 *)

Record state := {
  s_store : store; s_em : emap; s_pol : policy; s_met : metrics;
  s_est : N -> Z;
  s_buf : list item;
  s_now : Z;
  s_closed : bool; s_chan_closed : bool;
  s_markers : gset N; s_next_marker : N;
  s_threads : gmap nat cthread;
  s_apc : apc; s_apend : list cb;
  s_gets : N;                       (* ghost: number of Get calls whose ring-buffer fate is not yet decided *)
  s_panic : bool;                   (* a modelled panic happened (send on / close of a closed channel) *)
  s_log : list event                (* ghost, newest first *)
}.

Definition init_state (maxCost bdur now : Z) (metrics_on : bool) : state :=
  {| s_store := ∅; s_em := em_new bdur now; s_pol := pol_new maxCost; s_met := m_zero metrics_on;
     s_est := fun _ => 0; s_buf := []; s_now := now; s_closed := false; s_chan_closed := false;
     s_markers := ∅; s_next_marker := 1%N; s_threads := ∅; s_apc := AIdle; s_apend := [];
     s_gets := 0%N; s_panic := false; s_log := [] |}.

Inductive label :=
| LCall (tid : nat) (o : op)        (* an idle client thread starts a call *)
| LStep (tid : nat)                 (* a client thread performs its next atomic action *)
| LApp (tick : bool) (orders : list (list N))
                                    (* the applier performs its next atomic action; when it is idle:
                                       tick=false receives the next buffered item, tick=true takes a ticker
                                       event and starts a sweep; [orders] = Go's map orders for policy.Add
                                       (for a sweep: its head lists the keys visited first) *)
| LTime (d : Z)                     (* the clock advances *)
| LEst (k : N) (v : Z)              (* the access-frequency estimate of a key changes *)
| LGets (kept : bool) (n : N).      (* a batch of n recorded Gets is kept / dropped by the ring buffer *)

(* ---- small state updaters ---- *)
Definition idle_thread : cthread := {| t_pc := CIdle; t_pend := []; t_op := None |}.
Definition get_thread (s : state) (tid : nat) : cthread := default idle_thread (s_threads s !! tid).

Definition with_log (s : state) (e : event) : state :=
  {| s_store := s_store s; s_em := s_em s; s_pol := s_pol s; s_met := s_met s; s_est := s_est s;
     s_buf := s_buf s; s_now := s_now s; s_closed := s_closed s; s_chan_closed := s_chan_closed s;
     s_markers := s_markers s; s_next_marker := s_next_marker s; s_threads := s_threads s;
     s_apc := s_apc s; s_apend := s_apend s; s_gets := s_gets s; s_panic := s_panic s;
     s_log := e :: s_log s |}.
Definition with_thread (s : state) (tid : nat) (t : cthread) : state :=
  {| s_store := s_store s; s_em := s_em s; s_pol := s_pol s; s_met := s_met s; s_est := s_est s;
     s_buf := s_buf s; s_now := s_now s; s_closed := s_closed s; s_chan_closed := s_chan_closed s;
     s_markers := s_markers s; s_next_marker := s_next_marker s; s_threads := <[tid := t]> (s_threads s);
     s_apc := s_apc s; s_apend := s_apend s; s_gets := s_gets s; s_panic := s_panic s; s_log := s_log s |}.
Definition with_store (s : state) (st : store) (e : emap) : state :=
  {| s_store := st; s_em := e; s_pol := s_pol s; s_met := s_met s; s_est := s_est s;
     s_buf := s_buf s; s_now := s_now s; s_closed := s_closed s; s_chan_closed := s_chan_closed s;
     s_markers := s_markers s; s_next_marker := s_next_marker s; s_threads := s_threads s;
     s_apc := s_apc s; s_apend := s_apend s; s_gets := s_gets s; s_panic := s_panic s; s_log := s_log s |}.
Definition with_pol (s : state) (p : policy) (m : metrics) : state :=
  {| s_store := s_store s; s_em := s_em s; s_pol := p; s_met := m; s_est := s_est s;
     s_buf := s_buf s; s_now := s_now s; s_closed := s_closed s; s_chan_closed := s_chan_closed s;
     s_markers := s_markers s; s_next_marker := s_next_marker s; s_threads := s_threads s;
     s_apc := s_apc s; s_apend := s_apend s; s_gets := s_gets s; s_panic := s_panic s; s_log := s_log s |}.
Definition with_buf (s : state) (b : list item) : state :=
  {| s_store := s_store s; s_em := s_em s; s_pol := s_pol s; s_met := s_met s; s_est := s_est s;
     s_buf := b; s_now := s_now s; s_closed := s_closed s; s_chan_closed := s_chan_closed s;
     s_markers := s_markers s; s_next_marker := s_next_marker s; s_threads := s_threads s;
     s_apc := s_apc s; s_apend := s_apend s; s_gets := s_gets s; s_panic := s_panic s; s_log := s_log s |}.
Definition with_app (s : state) (a : apc) (pend : list cb) : state :=
  {| s_store := s_store s; s_em := s_em s; s_pol := s_pol s; s_met := s_met s; s_est := s_est s;
     s_buf := s_buf s; s_now := s_now s; s_closed := s_closed s; s_chan_closed := s_chan_closed s;
     s_markers := s_markers s; s_next_marker := s_next_marker s; s_threads := s_threads s;
     s_apc := a; s_apend := pend; s_gets := s_gets s; s_panic := s_panic s; s_log := s_log s |}.
Definition with_markers (s : state) (ms : gset N) (nx : N) : state :=
  {| s_store := s_store s; s_em := s_em s; s_pol := s_pol s; s_met := s_met s; s_est := s_est s;
     s_buf := s_buf s; s_now := s_now s; s_closed := s_closed s; s_chan_closed := s_chan_closed s;
     s_markers := ms; s_next_marker := nx; s_threads := s_threads s;
     s_apc := s_apc s; s_apend := s_apend s; s_gets := s_gets s; s_panic := s_panic s; s_log := s_log s |}.
Definition with_misc (s : state) (now : Z) (est : N -> Z) (gets : N) : state :=
  {| s_store := s_store s; s_em := s_em s; s_pol := s_pol s; s_met := s_met s; s_est := est;
     s_buf := s_buf s; s_now := now; s_closed := s_closed s; s_chan_closed := s_chan_closed s;
     s_markers := s_markers s; s_next_marker := s_next_marker s; s_threads := s_threads s;
     s_apc := s_apc s; s_apend := s_apend s; s_gets := gets; s_panic := s_panic s; s_log := s_log s |}.
Definition with_closed (s : state) (closed chan_closed panic : bool) : state :=
  {| s_store := s_store s; s_em := s_em s; s_pol := s_pol s; s_met := s_met s; s_est := s_est s;
     s_buf := s_buf s; s_now := s_now s; s_closed := closed; s_chan_closed := chan_closed;
     s_markers := s_markers s; s_next_marker := s_next_marker s; s_threads := s_threads s;
     s_apc := s_apc s; s_apend := s_apend s; s_gets := s_gets s; s_panic := panic; s_log := s_log s |}.

(* finish a call: log the return, thread back to idle (keeping callbacks still to be delivered: none here) *)
Definition ret (s : state) (tid : nat) (o : op) (r : result) : state :=
  with_thread (with_log s (ERet tid o r)) tid {| t_pc := CIdle; t_pend := []; t_op := None |}.
Definition goto_pc (s : state) (tid : nat) (o : op) (pc : cpc) (pend : list cb) : state :=
  with_thread s tid {| t_pc := pc; t_pend := pend; t_op := Some o |}.

(* onEvict = user OnEvict then OnExit; onReject = user OnReject then OnExit *)
Definition evict_cbs (k conf v : N) (cost : Z) : list cb := [CbEvict k conf v cost; CbExit v].
Definition reject_cbs (k conf v : N) (cost : Z) : list cb := [CbReject k conf v cost; CbExit v].

(* send on setBuf: None = would block (buffer full) *)
Definition try_send (c : cfg) (s : state) (i : item) : option state :=
  if (length (s_buf s) <? c_cap c)%nat then Some (with_buf s (s_buf s ++ [i])) else None.

Definition start_call (c : cfg) (s : state) (tid : nat) (o : op) : state :=
  let s := with_log s (ECall tid o (s_now s)) in
  match o with
  | OGet k cf =>
      if s_closed s then ret s tid o (RVal 0%N false)
      else
        let '(v, ok) := store_get (s_store s) (s_now s) k cf in
        let s1 := with_pol s (s_pol s) (m_add (s_met s) (if ok then MHit else MMiss) 1) in
        ret (with_misc s1 (s_now s1) (s_est s1) (s_gets s1 + 1)%N) tid o (RVal v ok)
  | OSet k cf v cost ttl =>
      if s_closed s then ret s tid o (RBool false)
      else if ttl <? 0 then ret s tid o (RBool false)
      else
        let exp := if ttl =? 0 then 0 else s_now s + ttl in
        goto_pc s tid o (CSetUpd {| it_flag := FNew; it_key := k; it_conf := cf; it_val := v; it_cost := cost;
                                    it_exp := exp; it_wait := None |}) []
  | ODel k cf => if s_closed s then ret s tid o RUnit else goto_pc s tid o (CDelStore k cf) []
  | OWait => if s_closed s then ret s tid o RUnit else goto_pc s tid o CWaitSend []
  | OGetTTL k cf =>
      let '(_, ok) := store_get (s_store s) (s_now s) k cf in
      if ok then goto_pc s tid o CTtl2 [] else ret s tid o (RTtl 0 false)
  | OIter => if s_closed s then ret s tid o (RList []) else ret s tid o (RList (store_iter (s_store s) (s_now s)))
  | OClear => if s_closed s then ret s tid o RUnit else goto_pc s tid o (CClr ClrStop false) []
  | OClose => if s_closed s then ret s tid o RUnit else goto_pc s tid o (CClr ClrStop true) []
  | ORem => ret s tid o (RZ (pol_cap (s_pol s)))
  | OMax => ret s tid o (RZ (p_max (s_pol s)))
  | OUpdMax mx => ret (with_pol s (pol_set_max (s_pol s) mx) (s_met s)) tid o RUnit
  end.

Definition clear_cbs (st : store) : list cb :=
  flat_map (fun kv => evict_cbs kv.1 (si_conf kv.2) (si_val kv.2) 0) (map_to_list st).

Definition client_step (c : cfg) (s : state) (tid : nat) : option state :=
  let t := get_thread s tid in
  match t_op t with
  | None => None
  | Some o =>
    match t_pend t with
    | cbk :: rest =>
        Some (with_thread (with_log s (ECb (Some tid) cbk)) tid {| t_pc := t_pc t; t_pend := rest; t_op := t_op t |})
    | [] =>
      match t_pc t with
      | CIdle => None
      | CSetUpd i =>
          let '((prev, updated), st, e) :=
            store_update (c_bdur c) (c_should c) (s_store s) (s_em s) (it_key i) (it_conf i) (it_val i) (it_exp i) in
          let s1 := with_store s st e in
          if updated then Some (goto_pc s1 tid o (CSetSend (set_flag i FUpd)) [CbExit prev])
          else Some (goto_pc s1 tid o (CSetSend i) [])
      | CSetSend i =>
          if s_chan_closed s then Some (with_closed s (s_closed s) true true)
          else match try_send c s i with
               | Some s1 => Some (ret s1 tid o (RBool true))
               | None =>
                   if decide (it_flag i = FUpd) then Some (ret s tid o (RBool true))
                   else Some (ret (with_pol s (s_pol s) (m_add (s_met s) MDropSets 1)) tid o (RBool false))
               end
      | CDelStore k cf =>
          let '((_, v), st, e) := store_del (c_bdur c) (s_store s) (s_em s) k cf in
          Some (goto_pc (with_store s st e) tid o (CDelSend k cf) [CbExit v])
      | CDelSend k cf =>
          if s_chan_closed s then Some (with_closed s (s_closed s) true true)
          else match try_send c s (tombstone k cf) with
               | Some s1 => Some (ret s1 tid o RUnit)
               | None => None
               end
      | CWaitSend =>
          if s_chan_closed s then Some (with_closed s (s_closed s) true true)
          else let id := s_next_marker s in
               match try_send c s (marker id) with
               | Some s1 => Some (goto_pc (with_markers s1 (s_markers s1) (id + 1)%N) tid o (CWaitBlock id) [])
               | None => None
               end
      | CWaitBlock id => if decide (id ∈ s_markers s) then Some (ret s tid o RUnit) else None
      | CTtl2 =>
          match o with
          | OGetTTL k _ =>
              let exp := store_expiration (s_store s) k in
              if exp =? 0 then Some (ret s tid o (RTtl 0 true))
              else if exp <? s_now s then Some (ret s tid o (RTtl 0 false))
              else Some (ret s tid o (RTtl (exp - s_now s) true))
          | _ => None
          end
      | CClr ClrStop closing =>
          match s_apc s, s_apend s with
          | AIdle, [] => Some (goto_pc (with_app s AExited []) tid o (CClr ClrDrain closing) [])
          | _, _ => None
          end
      | CClr ClrDrain closing =>
          match s_buf s with
          | [] => Some (goto_pc s tid o (CClr ClrPolicy closing) [])
          | i :: rest =>
              let s1 := with_buf s rest in
              match it_wait i with
              | Some id => Some (goto_pc (with_markers s1 ({[id]} ∪ s_markers s1) (s_next_marker s1)) tid o
                                         (CClr ClrDrain closing) [])
              | None =>
                  if decide (it_flag i = FUpd) then Some (goto_pc s1 tid o (CClr ClrDrain closing) [])
                  else Some (goto_pc s1 tid o (CClr ClrDrain closing)
                                     (evict_cbs (it_key i) (it_conf i) (it_val i) (it_cost i)))
              end
          end
      | CClr ClrPolicy closing =>
          Some (goto_pc (with_misc (with_pol s (pol_clear (s_pol s)) (s_met s)) (s_now s) (fun _ => 0) (s_gets s))
                        tid o (CClr ClrStore closing) [])
      | CClr ClrStore closing =>
          Some (goto_pc (with_store s ∅ (em_clear (c_bdur c) (s_now s))) tid o (CClr ClrMetrics closing)
                        (clear_cbs (s_store s)))
      | CClr ClrMetrics closing =>
          Some (goto_pc (with_log (with_pol s (s_pol s) (m_clear (s_met s))) EMClear) tid o (CClr ClrRestart closing) [])
      | CClr ClrRestart closing =>
          (* go c.processItems(): the previous applier goroutine has exited (it was stopped by this Clear) *)
          match s_apc s with
          | AExited =>
              let s1 := with_app s AIdle [] in
              if closing then Some (goto_pc s1 tid o (CClr ClsStop true) []) else Some (ret s1 tid o RUnit)
          | _ => None
          end
      | CClr ClsStop _ =>
          match s_apc s, s_apend s with
          | AIdle, [] =>
              if s_chan_closed s then Some (with_closed s (s_closed s) true true)
              else Some (ret (with_closed (with_app s AExited []) true true (s_panic s)) tid o RUnit)
          | _, _ => None
          end
      end
    end
  end.

(* Go iterates the grabbed buckets (maps) in an arbitrary order: the keys named in [pref] are visited first *)
Definition reorder (pref : list N) (keys : list (N * N)) : list (N * N) :=
  List.filter (fun kc => bool_decide (kc.1 ∈ pref)) keys ++
  List.filter (fun kc => negb (bool_decide (kc.1 ∈ pref))) keys.

Definition item_cost (c : cfg) (i : item) : Z :=
  let c0 := match c_costfn c with
            | Some f => if (it_cost i =? 0) && negb (bool_decide (it_flag i = FDel)) then f (it_val i) else it_cost i
            | None => it_cost i
            end in
  if c_ignore_internal c then c0 else c0 + c_item_size c.

Definition app_step (c : cfg) (s : state) (tick : bool) (orders : list (list N)) : option state :=
  match s_apend s with
  | cbk :: rest => Some (with_app (with_log s (ECb None cbk)) (s_apc s) rest)
  | [] =>
    match s_apc s with
    | AExited => None
    | AIdle =>
        if tick then
          let '(keys, e) := em_grab (c_bdur c) (s_now s) (s_em s) in
          Some (with_app (with_store s (s_store s) e) (ASweep (reorder (hd [] orders) keys) (s_now s)) [])
        else
          match s_buf s with
          | [] => None
          | i :: rest =>
              let s1 := with_buf s rest in
              match it_wait i with
              | Some id => Some (with_markers s1 ({[id]} ∪ s_markers s1) (s_next_marker s1))
              | None => Some (with_app s1 (AGot (set_cost i (item_cost c i))) [])
              end
          end
    | AGot i =>
        match it_flag i with
        | FNew =>
            match pol_add orders (s_est s) (s_pol s) (s_met s) (it_key i) (it_cost i) with
            | AddOutOfFuel => None
            | AddOk victims added p m _ _ =>
                let s1 := with_pol s p m in
                if added then Some (with_app s1 (ANewSet i victims) [])
                else Some (with_app s1 (AVict victims) (reject_cbs (it_key i) (it_conf i) (it_val i) (it_cost i)))
            end
        | FUpd =>
            let '(p, m) := pol_update (s_pol s) (s_met s) (it_key i) (it_cost i) in
            Some (with_app (with_pol s p m) AIdle [])
        | FDel =>
            let '(p, m) := pol_del (s_pol s) (s_met s) (it_key i) in
            Some (with_app (with_pol s p m) (ADelStore i) [])
        end
    | ANewSet i victims =>
        let '(st, e) := store_set (c_bdur c) (c_should c) (s_store s) (s_em s) (it_key i) (it_conf i) (it_val i) (it_exp i) in
        let s1 := with_store s st e in
        Some (with_app (with_pol s1 (s_pol s1) (m_add (s_met s1) MKeyAdd 1)) (AVict victims) [])
    | AVict [] => Some (with_app s AIdle [])
    | AVict ((k, cost) :: vs) =>
        let '((conf, v), st, e) := store_del (c_bdur c) (s_store s) (s_em s) k 0%N in
        Some (with_app (with_store s st e) (AVict vs) (evict_cbs k conf v cost))
    | ADelStore i =>
        let '((_, v), st, e) := store_del (c_bdur c) (s_store s) (s_em s) (it_key i) (it_conf i) in
        Some (with_app (with_store s st e) AIdle [CbExit v])
    | ASweep [] _ => Some (with_app s AIdle [])
    | ASweep ((k, conf) :: ks) t =>
        let '(r, st, e) := store_del_expired (c_bdur c) (s_store s) (s_em s) k conf t in
        match r with
        | None => Some (with_app (with_store s st e) (ASweep ks t) [])
        | Some it => Some (with_app (with_store s st e) (ASweepPol k it ks t) [])
        end
    | ASweepPol k it ks t =>
        let cost := pol_cost (s_pol s) k in
        let '(p, m) := pol_del (s_pol s) (s_met s) k in
        Some (with_app (with_pol s p m) (ASweep ks t) (evict_cbs k (si_conf it) (si_val it) cost))
    end
  end.

Definition mstep (c : cfg) (s : state) (l : label) : option state :=
  if s_panic s then None else
  match l with
  | LCall tid o =>
      let t := get_thread s tid in
      match t_op t, t_pend t with
      | None, [] => Some (start_call c s tid o)
      | _, _ => None
      end
  | LStep tid => client_step c s tid
  | LApp tick orders => app_step c s tick orders
  | LTime d => if d <? 0 then None else Some (with_misc s (s_now s + d) (s_est s) (s_gets s))
  | LEst k v => Some (with_misc s (s_now s) (fun k' => if decide (k' = k) then v else s_est s k') (s_gets s))
  | LGets kept n =>
      if (s_gets s <? n)%N then None
      else Some (with_misc (with_pol s (s_pol s) (m_add (s_met s) (if kept then MKeepGets else MDropGets) n))
                           (s_now s) (s_est s) (s_gets s - n)%N)
  end.

(* a schedule is a list of labels; labels that are not enabled are skipped *)
Definition step_skip (c : cfg) (s : state) (l : label) : state := default s (mstep c s l).
Definition mrun (c : cfg) (s : state) (sched : list label) : state := fold_left (step_skip c) sched s.
