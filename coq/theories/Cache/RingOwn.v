(* Ownership of ring stripes and of their backing arrays (ring.go), for any number of goroutines.

   ringStripe is "not concurrent safe": what keeps two Gets from appending to the same stripe is that
   ringBuffer.Push takes the stripe OUT of the sync.Pool, pushes, and puts it back; and what keeps the policy goroutine
   (which ranges over a batch without any lock on the stripe) apart from the Gets is that a stripe whose batch was
   accepted continues on a FRESH backing array (s.data = make(...)), while it reuses the old one (s.data[:0]) only when
   the batch was refused and nobody else got it.  This file models exactly that hand-off, at the grain of
   pool.Get / stripe.Push (store | batch kept | batch refused) / pool.Put / channel receive / end of tinyLFU.Push / GC,
   with stripes and backing arrays as abstract identities, and proves that it is exclusive.  Definitions and proofs. *)
From Coq Require Import List Arith Lia Bool.
Import ListNotations.

Notation stripe := (nat * nat)%type.          (* (stripe id, id of the backing array of its data) *)

Record ostate := {
  o_pool : list stripe;                 (* stripes sitting in the sync.Pool *)
  o_held : list (nat * stripe);         (* (goroutine, stripe it took out of the pool) *)
  o_chan : list nat;                    (* backing arrays of the batches queued in itemsCh *)
  o_hand : list nat;                    (* the batch processItems is applying (at most one) *)
  o_next : nat                          (* fresh identities *)
}.

Definition o_init : ostate := {| o_pool := []; o_held := []; o_chan := []; o_hand := []; o_next := 0 |}.

Fixpoint remove_at {A} (i : nat) (l : list A) : list A :=
  match l, i with
  | [], _ => []
  | _ :: t, O => t
  | h :: t, S j => h :: remove_at j t
  end.

Fixpoint replace_at {A} (i : nat) (x : A) (l : list A) : list A :=
  match l, i with
  | [], _ => []
  | _ :: t, O => x :: t
  | h :: t, S j => h :: replace_at j x t
  end.

Inductive oop :=
| OGet (t : nat) (i : option nat)   (* goroutine t: pool.Get returns the i-th pooled stripe / None: pool.New *)
| OStore (j : nat)                  (* the j-th holder appends, stripe not full *)
| OKept (j : nat)                   (* the j-th holder drains, the policy accepted: batch goes to itemsCh, fresh array *)
| ORefused (j : nat)                (* the j-th holder drains, the policy refused: s.data[:0], same array *)
| OPut (j : nat)                    (* the j-th holder puts its stripe back *)
| ORecv                             (* processItems receives the oldest batch *)
| ODone                             (* tinyLFU.Push has returned: the batch is garbage *)
| OGc (i : nat).                    (* the GC drops the i-th pooled stripe *)

Definition holds (t : nat) (s : ostate) : bool := existsb (fun h => Nat.eqb (fst h) t) (o_held s).

(* None = the step is not enabled *)
Definition ostep (s : ostate) (o : oop) : option ostate :=
  match o with
  | OGet t None =>
      if holds t s then None
      else Some {| o_pool := o_pool s; o_held := (t, (o_next s, S (o_next s))) :: o_held s; o_chan := o_chan s;
                   o_hand := o_hand s; o_next := S (S (o_next s)) |}
  | OGet t (Some i) =>
      if holds t s then None
      else match nth_error (o_pool s) i with
           | Some st => Some {| o_pool := remove_at i (o_pool s); o_held := (t, st) :: o_held s; o_chan := o_chan s;
                                o_hand := o_hand s; o_next := o_next s |}
           | None => None
           end
  | OStore j | ORefused j =>
      match nth_error (o_held s) j with Some _ => Some s | None => None end
  | OKept j =>
      match nth_error (o_held s) j with
      | Some (t, (sid, bid)) =>
          Some {| o_pool := o_pool s; o_held := replace_at j (t, (sid, o_next s)) (o_held s);
                  o_chan := o_chan s ++ [bid]; o_hand := o_hand s; o_next := S (o_next s) |}
      | None => None
      end
  | OPut j =>
      match nth_error (o_held s) j with
      | Some (t, st) =>
          Some {| o_pool := st :: o_pool s; o_held := remove_at j (o_held s); o_chan := o_chan s;
                  o_hand := o_hand s; o_next := o_next s |}
      | None => None
      end
  | ORecv =>
      match o_hand s, o_chan s with
      | [], b :: rest => Some {| o_pool := o_pool s; o_held := o_held s; o_chan := rest; o_hand := [b];
                                 o_next := o_next s |}
      | _, _ => None
      end
  | ODone =>
      match o_hand s with
      | [] => None
      | _ => Some {| o_pool := o_pool s; o_held := o_held s; o_chan := o_chan s; o_hand := []; o_next := o_next s |}
      end
  | OGc i =>
      match nth_error (o_pool s) i with
      | Some _ => Some {| o_pool := remove_at i (o_pool s); o_held := o_held s; o_chan := o_chan s;
                          o_hand := o_hand s; o_next := o_next s |}
      | None => None
      end
  end.

(* a schedule: disabled steps are skipped *)
Definition orun (s : ostate) (ops : list oop) : ostate :=
  fold_left (fun s o => match ostep s o with Some s' => s' | None => s end) ops s.

Definition tids (s : ostate) : list nat := map fst (o_held s).
Definition sids (s : ostate) : list nat := map fst (o_pool s) ++ map (fun h => fst (snd h)) (o_held s).
(* who may WRITE an array: the stripes (pooled or held); who may READ one without the stripe: the channel, the policy *)
Definition writers (s : ostate) : list nat := map snd (o_pool s) ++ map (fun h => snd (snd h)) (o_held s).
Definition readers (s : ostate) : list nat := o_chan s ++ o_hand s.

(* ---------------- proofs ---------------- *)

Definition cnt (y : nat) (l : list nat) : nat := count_occ Nat.eq_dec l y.

Lemma cnt_app y a b : cnt y (a ++ b) = cnt y a + cnt y b.
Proof. apply count_occ_app. Qed.

Lemma cnt_cons y x l : cnt y (x :: l) = cnt y [x] + cnt y l.
Proof. change (x :: l) with ([x] ++ l). apply cnt_app. Qed.

Lemma cnt_single_neq y x : x <> y -> cnt y [x] = 0.
Proof. intros H. unfold cnt. cbn. destruct (Nat.eq_dec x y); [contradiction|reflexivity]. Qed.

Lemma cnt_single_le y x : cnt y [x] <= 1.
Proof. unfold cnt. cbn. destruct (Nat.eq_dec x y); lia. Qed.

Lemma cnt_map_remove_at {A} (f : A -> nat) y l : forall i x,
  nth_error l i = Some x -> cnt y (map f l) = cnt y (map f (remove_at i l)) + cnt y [f x].
Proof.
  induction l as [|h t IH]; intros i x Hn; [destruct i; discriminate|].
  destruct i as [|j]; cbn [nth_error remove_at map] in *.
  - injection Hn as ->. rewrite (cnt_cons y (f x) (map f t)). lia.
  - rewrite (cnt_cons y (f h) (map f t)), (cnt_cons y (f h) (map f (remove_at j t))). rewrite (IH j x Hn). lia.
Qed.

Lemma cnt_map_replace_at {A} (f : A -> nat) y l : forall i x x',
  nth_error l i = Some x -> cnt y (map f (replace_at i x' l)) + cnt y [f x] = cnt y (map f l) + cnt y [f x'].
Proof.
  induction l as [|h t IH]; intros i x x' Hn; [destruct i; discriminate|].
  destruct i as [|j]; cbn [nth_error replace_at map] in *.
  - injection Hn as ->. rewrite (cnt_cons y (f x') (map f t)), (cnt_cons y (f x) (map f t)). lia.
  - rewrite (cnt_cons y (f h) (map f t)), (cnt_cons y (f h) (map f (replace_at j x' t))).
    specialize (IH j x x' Hn). lia.
Qed.

Lemma holds_false_cnt t s : holds t s = false -> cnt t (tids s) = 0.
Proof.
  unfold holds, tids. induction (o_held s) as [|h l IH]; cbn; [reflexivity|].
  intros H. apply orb_false_iff in H as [H1 H2]. apply Nat.eqb_neq in H1.
  unfold cnt in *. cbn. destruct (Nat.eq_dec (fst h) t); [contradiction|]. apply IH, H2.
Qed.

Record oinv (s : ostate) : Prop := {
  oi_tids : forall y, cnt y (tids s) <= 1;
  oi_sids : forall y, cnt y (sids s) <= 1;
  oi_bids : forall y, cnt y (writers s ++ readers s) <= 1;
  oi_fresh : forall y, o_next s <= y -> cnt y (sids s) = 0 /\ cnt y (writers s ++ readers s) = 0;
  oi_hand : length (o_hand s) <= 1
}.

Lemma oinv_init : oinv o_init.
Proof. constructor; cbn; intros; auto. Qed.

Ltac unf := unfold tids, sids, writers, readers in *;
            cbn [o_pool o_held o_chan o_hand o_next map fst snd] in *.

Lemma oinv_step s o s' : oinv s -> ostep s o = Some s' -> oinv s'.
Proof.
  intros [Ht Hs Hb Hf Hh] Hstep.
  destruct o as [t [i|]|j|j|j|j| | |i]; cbn [ostep] in Hstep.
  - (* Get from the pool *)
    destruct (holds t s) eqn:Hho; [discriminate|]. destruct (nth_error (o_pool s) i) as [st|] eqn:Hn; [|discriminate].
    injection Hstep as <-. pose proof (holds_false_cnt t s Hho) as Hnt.
    constructor; unf; try assumption.
    + intros y. rewrite cnt_cons. specialize (Ht y). destruct (Nat.eq_dec t y) as [->|Hne].
      * pose proof (cnt_single_le y y). lia.
      * rewrite (cnt_single_neq y t Hne). lia.
    + intros y. specialize (Hs y). rewrite !cnt_app in *. rewrite (cnt_cons y (fst st)).
      rewrite (cnt_map_remove_at fst y _ _ _ Hn) in Hs. lia.
    + intros y. specialize (Hb y). rewrite !cnt_app in *. rewrite (cnt_cons y (snd st)).
      rewrite (cnt_map_remove_at snd y _ _ _ Hn) in Hb. lia.
    + intros y Hy. destruct (Hf y Hy) as [A B]. rewrite !cnt_app in *. rewrite (cnt_cons y (fst st)), (cnt_cons y (snd st)).
      rewrite (cnt_map_remove_at fst y _ _ _ Hn) in A. rewrite (cnt_map_remove_at snd y _ _ _ Hn) in B. lia.
  - (* Get: pool.New *)
    destruct (holds t s) eqn:Hho; [discriminate|]. injection Hstep as <-. pose proof (holds_false_cnt t s Hho) as Hnt.
    constructor; unf; try assumption.
    + intros y. rewrite cnt_cons. specialize (Ht y). destruct (Nat.eq_dec t y) as [->|Hne].
      * pose proof (cnt_single_le y y). lia.
      * rewrite (cnt_single_neq y t Hne). lia.
    + intros y. specialize (Hs y). rewrite !cnt_app in *. rewrite (cnt_cons y (o_next s)).
      destruct (Nat.eq_dec (o_next s) y) as [<-|Hne].
      * destruct (Hf (o_next s) (le_n _)) as [A _]. rewrite !cnt_app in A. pose proof (cnt_single_le (o_next s) (o_next s)). lia.
      * rewrite (cnt_single_neq _ _ Hne). lia.
    + intros y. specialize (Hb y). rewrite !cnt_app in *. rewrite (cnt_cons y (S (o_next s))).
      destruct (Nat.eq_dec (S (o_next s)) y) as [<-|Hne].
      * destruct (Hf (S (o_next s)) (le_S _ _ (le_n _))) as [_ B]. rewrite !cnt_app in B.
        pose proof (cnt_single_le (S (o_next s)) (S (o_next s))). lia.
      * rewrite (cnt_single_neq _ _ Hne). lia.
    + intros y Hy. destruct (Hf y ltac:(lia)) as [A B]. rewrite !cnt_app in *.
      rewrite (cnt_cons y (o_next s)), (cnt_cons y (S (o_next s))).
      rewrite (cnt_single_neq y (o_next s)) by lia. rewrite (cnt_single_neq y (S (o_next s))) by lia. lia.
  - destruct (nth_error (o_held s) j); [|discriminate]. injection Hstep as <-. constructor; assumption.
  - (* kept *)
    destruct (nth_error (o_held s) j) as [[t [sid bid]]|] eqn:Hn; [|discriminate]. injection Hstep as <-.
    constructor; unf; try assumption.
    + intros y. specialize (Ht y). pose proof (cnt_map_replace_at fst y _ j _ (t, (sid, o_next s)) Hn) as R.
      cbn [fst] in R. lia.
    + intros y. specialize (Hs y). rewrite !cnt_app in *.
      pose proof (cnt_map_replace_at (fun h => fst (snd h)) y _ j _ (t, (sid, o_next s)) Hn) as R. cbn [fst snd] in R. lia.
    + intros y. specialize (Hb y). rewrite !cnt_app in *.
      pose proof (cnt_map_replace_at (fun h => snd (snd h)) y _ j _ (t, (sid, o_next s)) Hn) as R. cbn [fst snd] in R.
      destruct (Nat.eq_dec (o_next s) y) as [<-|Hne].
      * destruct (Hf (o_next s) (le_n _)) as [_ B]. rewrite !cnt_app in B.
        pose proof (cnt_single_le (o_next s) (o_next s)). pose proof (cnt_single_le (o_next s) bid). lia.
      * rewrite (cnt_single_neq _ _ Hne) in R. lia.
    + intros y Hy. destruct (Hf y ltac:(lia)) as [A B]. rewrite !cnt_app in *.
      pose proof (cnt_map_replace_at (fun h => fst (snd h)) y _ j _ (t, (sid, o_next s)) Hn) as R1. cbn [fst snd] in R1.
      pose proof (cnt_map_replace_at (fun h => snd (snd h)) y _ j _ (t, (sid, o_next s)) Hn) as R2. cbn [fst snd] in R2.
      rewrite (cnt_single_neq y (o_next s)) in R2 by lia. lia.
  - destruct (nth_error (o_held s) j); [|discriminate]. injection Hstep as <-. constructor; assumption.
  - (* put *)
    destruct (nth_error (o_held s) j) as [[t st]|] eqn:Hn; [|discriminate]. injection Hstep as <-.
    constructor; unf; try assumption.
    + intros y. specialize (Ht y). rewrite (cnt_map_remove_at fst y _ _ _ Hn) in Ht. lia.
    + intros y. specialize (Hs y). rewrite !cnt_app in *. rewrite (cnt_cons y (fst st)).
      rewrite (cnt_map_remove_at (fun h => fst (snd h)) y _ _ _ Hn) in Hs. cbn [fst snd] in Hs. lia.
    + intros y. specialize (Hb y). rewrite !cnt_app in *. rewrite (cnt_cons y (snd st)).
      rewrite (cnt_map_remove_at (fun h => snd (snd h)) y _ _ _ Hn) in Hb. cbn [fst snd] in Hb. lia.
    + intros y Hy. destruct (Hf y Hy) as [A B]. rewrite !cnt_app in *. rewrite (cnt_cons y (fst st)), (cnt_cons y (snd st)).
      rewrite (cnt_map_remove_at (fun h => fst (snd h)) y _ _ _ Hn) in A.
      rewrite (cnt_map_remove_at (fun h => snd (snd h)) y _ _ _ Hn) in B. cbn [fst snd] in A, B. lia.
  - (* recv *)
    destruct (o_hand s) eqn:Hhd; [|discriminate]. destruct (o_chan s) as [|b rest] eqn:Hc; [discriminate|].
    injection Hstep as <-. constructor; unf; try assumption; rewrite ?Hhd, ?Hc in *.
    + intros y. specialize (Hb y). rewrite !cnt_app in *. rewrite (cnt_cons y b) in Hb. cbn in Hb |- *. lia.
    + intros y Hy. destruct (Hf y Hy) as [A B]. split; [exact A|]. rewrite !cnt_app in *. rewrite (cnt_cons y b) in B.
      cbn in B |- *. lia.
    + cbn. lia.
  - (* done *)
    destruct (o_hand s) as [|b l] eqn:Hhd; [discriminate|]. injection Hstep as <-.
    constructor; unf; try assumption; rewrite ?Hhd in *.
    + intros y. specialize (Hb y). rewrite !cnt_app in *. cbn [cnt count_occ] in *. lia.
    + intros y Hy. destruct (Hf y Hy) as [A B]. split; [exact A|]. rewrite !cnt_app in *. cbn [cnt count_occ] in *. lia.
    + cbn. lia.
  - (* gc *)
    destruct (nth_error (o_pool s) i) as [st|] eqn:Hn; [|discriminate]. injection Hstep as <-.
    constructor; unf; try assumption.
    + intros y. specialize (Hs y). rewrite !cnt_app in *. rewrite (cnt_map_remove_at fst y _ _ _ Hn) in Hs. lia.
    + intros y. specialize (Hb y). rewrite !cnt_app in *. rewrite (cnt_map_remove_at snd y _ _ _ Hn) in Hb. lia.
    + intros y Hy. destruct (Hf y Hy) as [A B]. rewrite !cnt_app in *.
      rewrite (cnt_map_remove_at fst y _ _ _ Hn) in A. rewrite (cnt_map_remove_at snd y _ _ _ Hn) in B. lia.
Qed.

Lemma oinv_run ops : forall s, oinv s -> oinv (orun s ops).
Proof.
  induction ops as [|o ops IH]; intros s Hs; [exact Hs|].
  unfold orun in *. cbn [fold_left]. destruct (ostep s o) as [s'|] eqn:E; apply IH; [eapply oinv_step; eauto|exact Hs].
Qed.

Lemma reachable_oinv ops : oinv (orun o_init ops).
Proof. apply oinv_run, oinv_init. Qed.

Lemma cnt_le1_NoDup l : (forall y, cnt y l <= 1) -> NoDup l.
Proof. intros H. apply (NoDup_count_occ Nat.eq_dec). exact H. Qed.

(* for every schedule of any number of goroutines *)
Lemma ring_exclusive ops :
  let s := orun o_init ops in
  NoDup (tids s) /\ NoDup (sids s) /\ NoDup (writers s ++ readers s).
Proof.
  intros s. destruct (reachable_oinv ops) as [Ht Hs Hb _ _]. fold s in Ht, Hs, Hb.
  repeat split; apply cnt_le1_NoDup; assumption.
Qed.

(* no array that the channel or the policy goroutine holds is the backing array of any stripe *)
Lemma ring_reader_not_writer ops b :
  let s := orun o_init ops in
  In b (readers s) -> ~ In b (writers s).
Proof.
  intros s Hr Hw. destruct (reachable_oinv ops) as [_ _ Hb _ _]. fold s in Hb. specialize (Hb b).
  rewrite cnt_app in Hb. unfold cnt in Hb.
  apply (count_occ_In Nat.eq_dec) in Hr. apply (count_occ_In Nat.eq_dec) in Hw. lia.
Qed.
