(* C08 (protocol level): without Close no modelled panic can happen, and whenever some goroutine is inside a call,
   some goroutine can make progress (no global deadlock of the channel / lock protocol). *)
From stdpp Require Import gmap.
From Ristretto Require Import Base.Word Cache.Policy Cache.PolicyProofs Cache.Store Cache.StoreProofs Cache.Machine
  Cache.MachineProofs Cache.SyncProofs.
Local Open Scope Z_scope.

Definition label_noclose (l : label) : Prop := match l with LCall _ OClose => False | _ => True end.

(* a Wait marker that somebody waits for is closed or still travelling through the write buffer *)
Definition marker_in (B : list item) (id : N) : Prop := exists i, In i B /\ it_wait i = Some id.

Record proto_inv (s : state) : Prop := {
  pi_open : s_closed s = false /\ s_chan_closed s = false /\ s_panic s = false;
  pi_noclosing : forall tid t st cl, s_threads s !! tid = Some t -> t_pc t = CClr st cl -> cl = false /\ st <> ClsStop;
  pi_wait : forall tid t id, s_threads s !! tid = Some t -> t_pc t = CWaitBlock id ->
            id ∈ s_markers s \/ marker_in (s_buf s) id;
  (* the applier goroutine is gone only while a Clear is between stop and restart *)
  pi_exited : s_apc s = AExited -> exists tid t, s_threads s !! tid = Some t /\ in_clr (t_pc t)
}.
