(* C08 (protocol level): without Close no modelled panic can happen, and whenever some goroutine is inside a call,
   some goroutine can make progress (no global deadlock of the channel / lock protocol). *)
From stdpp Require Import gmap.
From Ristretto Require Import Base.Word Cache.Policy Cache.PolicyProofs Cache.Store Cache.StoreProofs Cache.Machine
  Cache.MachineProofs Cache.SyncProofs.
Local Open Scope Z_scope.

Definition label_noclose (l : label) : Prop := match l with LCall _ OClose => False | _ => True end.

(* a Wait marker that somebody waits for is closed or still travelling through the write buffer *)
Definition marker_in (B : list item) (id : N) : Prop := exists i, In i B /\ it_wait i = Some id.

Lemma marker_in_app B i id : marker_in B id -> marker_in (B ++ [i]) id.
Proof. intros (j & Hj & Hw). exists j. split; [apply in_or_app; now left|exact Hw]. Qed.
Lemma marker_in_last B id : marker_in (B ++ [marker id]) id.
Proof. exists (marker id). split; [apply in_or_app; right; now left|reflexivity]. Qed.
Lemma marker_in_pop i B id (M : gset N) :
  id ∈ M \/ marker_in (i :: B) id ->
  match it_wait i with Some id' => id ∈ {[id']} ∪ M \/ marker_in B id | None => id ∈ M \/ marker_in B id end.
Proof.
  intros [H|(j & [<-|Hj] & Hw)].
  - destruct (it_wait i); [left; set_solver|now left].
  - rewrite Hw. left. set_solver.
  - destruct (it_wait i); right; exists j; auto.
Qed.

Record proto_inv (s : state) : Prop := {
  pi_open : s_closed s = false /\ s_chan_closed s = false /\ s_panic s = false;
  pi_noclosing : forall tid t st cl, s_threads s !! tid = Some t -> t_pc t = CClr st cl -> cl = false /\ st <> ClsStop;
  pi_wait : forall tid t id, s_threads s !! tid = Some t -> t_pc t = CWaitBlock id ->
            id ∈ s_markers s \/ marker_in (s_buf s) id;
  (* the applier goroutine is gone only while a Clear is between stop and restart *)
  pi_exited : s_apc s = AExited -> exists tid t, s_threads s !! tid = Some t /\ in_clr (t_pc t);
  pi_busy : forall tid t o, s_threads s !! tid = Some t -> t_op t = Some o -> t_pc t <> CIdle;
  pi_ttl : forall tid t o, s_threads s !! tid = Some t -> t_op t = Some o -> t_pc t = CTtl2 -> exists k c, o = OGetTTL k c
}.

Lemma init_proto maxCost bdur now mon : proto_inv (init_state maxCost bdur now mon).
Proof.
  constructor; simpl; auto; try (intros; rewrite lookup_empty in *; discriminate). discriminate.
Qed.

Lemma ex_thread_other (T : gmap nat cthread) tid t' (P : cpc -> Prop) :
  (exists tid0 t0, T !! tid0 = Some t0 /\ P (t_pc t0)) ->
  (forall t0, T !! tid = Some t0 -> P (t_pc t0) -> P (t_pc t')) ->
  exists tid0 t0, <[tid := t']> T !! tid0 = Some t0 /\ P (t_pc t0).
Proof.
  intros (tid0 & t0 & Hl & HP) Hsame. destruct (decide (tid0 = tid)) as [->|Hne].
  - exists tid, t'. rewrite lookup_insert. split; [reflexivity|]. eapply Hsame; eauto.
  - exists tid0, t0. rewrite lookup_insert_ne by congruence. auto.
Qed.

Lemma step_proto c s l s' : label_noclose l -> clr_inv s -> proto_inv s -> mstep c s l = Some s' -> proto_inv s'.
Proof.
  intros HL [Hex Hun Hid] [(Hc & Hcc & Hp) Hnc Hw Hx Hb Ht] H.
  assert (Hgt : forall tid, t_pc (get_thread s tid) <> CIdle -> s_threads s !! tid = Some (get_thread s tid))
    by (intros; now apply get_thread_in_map).
  step_cases H.
  all: try (match goal with
            | Hpc : t_pc (get_thread ?st ?tid) = _ |- _ =>
                let Hm := fresh "Hm" in
                assert (Hm : s_threads st !! tid = Some (get_thread st tid))
                  by (apply get_thread_in_map; rewrite Hpc; discriminate)
            end).
  all: try congruence.
  all: try solve [ exfalso; exact HL ].
  all: try solve [ match goal with Hm : s_threads _ !! _ = Some _, Hpc : t_pc _ = CClr _ _ |- _ =>
                     destruct (Hnc _ _ _ _ Hm Hpc); congruence end ].
  all: constructor; msimpl.
  (* open *)
  all: try solve [ repeat split; assumption ].
  (* noclosing *)
  all: try exact Hnc.
  all: try solve [ intros tid0 t0 st0 cl0 Hl Hpc0; thr_cases; simpl in Hpc0;
                   first [ discriminate | (eapply Hnc; eassumption)
                         | (inversion Hpc0; subst; split; [reflexivity|discriminate])
                         | (inversion Hpc0; subst;
                            match goal with Hm : s_threads _ !! _ = Some _, Hpc : t_pc _ = CClr _ _ |- _ =>
                              destruct (Hnc _ _ _ _ Hm Hpc) as [-> _]; split; [reflexivity|discriminate] end) ] ].
  (* wait *)
  all: repeat match goal with Hb : s_buf _ = _ |- _ => rewrite Hb in * end.
  all: try exact Hw.
  all: try solve [ intros tid0 t0 id0 Hl Hpc0; thr_cases; simpl in Hpc0;
                   first [ discriminate
                         | (eapply Hw; eassumption)
                         | (destruct (Hw _ _ _ Hl Hpc0) as [?|?]; [now left|right; now apply marker_in_app])
                         | (inversion Hpc0; subst; right; apply marker_in_last) ] ].
  all: try solve [ intros tid0 t0 id0 Hl Hpc0; thr_cases; simpl in Hpc0; try discriminate;
                   match goal with Hwt : it_wait ?i = _ |- _ =>
                     pose proof (marker_in_pop i _ id0 (s_markers s) (Hw _ _ _ Hl Hpc0)) as Hq; rewrite Hwt in Hq; exact Hq end ].
  (* exited *)
  all: try exact Hx.
  all: try solve [ intros; discriminate ].
  all: try solve [ intros Ha; apply ex_thread_other; [exact (Hx Ha)|];
                   intros t0 Hl0 Hin; simpl;
                   match goal with Hm : s_threads _ !! _ = Some _ |- _ => rewrite Hm in Hl0; inversion Hl0; subst end;
                   match goal with Hpc : t_pc _ = _ |- _ => rewrite Hpc in Hin; simpl in Hin end;
                   first [ tauto | (split; discriminate) ] ].
  all: try solve [ intros Ha; apply ex_thread_other; [exact (Hx Ha)|];
                   intros t0 Hl0 Hin; exfalso;
                   assert (Hl1 := Hl0); apply get_thread_lookup in Hl1; subst t0;
                   first [ (apply Hid in Hl0; [|assumption]; rewrite Hl0 in Hin; exact Hin)
                         | (match goal with Hpc : t_pc _ = _ |- _ => rewrite Hpc in Hin; simpl in Hin; tauto end) ] ].
  all: try solve [ intros _; eexists _, _; rewrite lookup_insert; split; [reflexivity|]; simpl; split; discriminate ].
  (* busy *)
  all: try exact Hb.
  all: try solve [ intros tid0 t0 o0 Hl Hop0; thr_cases; simpl in Hop0 |- *;
                   first [ discriminate | (eapply Hb; eassumption) ] ].
  (* ttl *)
  all: try exact Ht.
  all: try solve [ intros tid0 t0 o0 Hl Hop0 Hpc0; thr_cases; simpl in Hpc0, Hop0;
                   first [ discriminate | (eapply Ht; eassumption) | (inversion Hop0; subst; eauto) ] ].
  all: try (assert (Hm : s_threads s !! tid = Some (get_thread s tid))
              by (unfold get_thread in *; destruct (s_threads s !! tid); simpl in *; [reflexivity|discriminate])).
  all: try solve [ intros tid0 t0 st0 cl0 Hl Hpc0; thr_cases; simpl in Hpc0; eapply Hnc; eassumption ].
  all: try solve [ intros tid0 t0 id0 Hl Hpc0; thr_cases; simpl in Hpc0; eapply Hw; eassumption ].
  all: try solve [ intros Ha; apply ex_thread_other; [exact (Hx Ha)|];
                   intros t0 Hl0 Hin; simpl; rewrite Hm in Hl0; inversion Hl0; subst; exact Hin ].
  all: try solve [ intros tid0 t0 o0 Hl Hop0 Hpc0; thr_cases; simpl in Hpc0, Hop0;
                   [ inversion Hop0; subst; eapply Ht; eassumption | eapply Ht; eassumption ] ].
  all: try solve [ intros tid0 t0 o0 Hl Hop0; thr_cases; simpl in Hop0 |- *;
                   [ eapply Hb; eassumption | eapply Hb; eassumption ] ].
  all: try solve [ intros Ha; congruence ].
Qed.

Record proto_invs (s : state) : Prop := { pv_clr : clr_inv s; pv_proto : proto_inv s }.

Theorem reachable_proto c maxCost bdur now mon sched : Forall label_noclose sched ->
  proto_invs (mrun c (init_state maxCost bdur now mon) sched).
Proof.
  intros HL. apply (mrun_invariant_lab c label_noclose proto_invs); auto.
  - intros s l s' Hl [H1 H2] H. constructor; [eapply step_clr|eapply step_proto]; eauto.
  - constructor; [apply init_clr|apply init_proto].
Qed.


(* ---------- progress ---------- *)
Definition progress_label (l : label) : Prop :=
  match l with LStep _ => True | LApp false _ => True | _ => False end.
Definition enabled (c : cfg) (s : state) (l : label) : Prop := exists s', mstep c s l = Some s'.

(* the applier goroutine never blocks while it has anything to do: in particular the eviction loop of policy.Add
   always terminates and the applier never waits for a lock held across a blocking operation *)
Lemma app_progress c s orders :
  s_panic s = false ->
  s_apend s <> [] \/ (s_apc s <> AIdle /\ s_apc s <> AExited) \/ (s_apc s = AIdle /\ s_buf s <> []) ->
  enabled c s (LApp false orders).
Proof.
  intros Hp Hw. unfold enabled, mstep, app_step. rewrite Hp.
  repeat case_match; eauto; try (exfalso; intuition congruence).
  exfalso. eapply pol_add_terminates; eauto.
Qed.

Definition busy (s : state) : Prop := exists tid t, s_threads s !! tid = Some t /\ t_op t <> None.

Lemma client_enabled c s tid t :
  (1 <= c_cap c)%nat -> clr_inv s -> proto_inv s ->
  s_threads s !! tid = Some t -> t_op t <> None ->
  s_apend s = [] ->
  (s_apc s = AIdle /\ s_buf s = []) \/ in_clr (t_pc t) ->
  enabled c s (LStep tid).
Proof.
  intros Hcap [Hex Hun Hid] [(Hc & Hcc & Hp) Hnc Hw Hx Hb Ht] Hl Hop Hpend Hcase.
  unfold enabled, mstep, client_step, try_send. rewrite Hp. rewrite (get_thread_lookup _ _ _ Hl).
  destruct (t_op t) as [o|] eqn:Eo; [|congruence].
  destruct (t_pend t); [|eauto].
  specialize (Hb _ _ _ Hl Eo). specialize (Ht _ _ _ Hl Eo). specialize (Hw tid t).
  destruct Hcase as [(Ha & Hbuf)|Hin].
  - rewrite Hcc, Hbuf, Ha, Hpend in *. simpl. destruct (t_pc t) eqn:Epc; try congruence.
    all: repeat case_match; eauto; try congruence; try lia.
    all: try solve [ match goal with Hlt : (0 <? _)%nat = false |- _ => apply Nat.ltb_ge in Hlt; lia end ].
    all: try solve [ destruct (Hw _ Hl eq_refl) as [?|(j & [] & _)]; contradiction ].
    all: try solve [ destruct Ht as (k0 & cc & ?); [reflexivity|congruence] ].
    all: try solve [ destruct (Hnc _ _ _ _ Hl Epc); congruence ].
    all: try solve [ exfalso; destruct (Hex _ _ Hl ltac:(rewrite Epc; simpl; split; discriminate)); discriminate ].
  - destruct (t_pc t) eqn:Epc; simpl in Hin; try contradiction.
    destruct (Hex _ _ Hl ltac:(rewrite Epc; exact Hin)) as [Ha _].
    destruct (Hnc _ _ _ _ Hl Epc) as [-> _]. rewrite Ha.
    destruct st; try (destruct Hin; congruence); repeat case_match; eauto.
Qed.

(* No global deadlock: in every state reachable without Close in which some goroutine is inside a call (or the
   applier has work), some goroutine can take a step.  [c_cap >= 1]: NewCache uses a buffered setBuf. *)
Theorem no_deadlock c s :
  (1 <= c_cap c)%nat -> clr_inv s -> proto_inv s ->
  busy s \/ s_buf s <> [] \/ s_apend s <> [] \/ (s_apc s <> AIdle /\ s_apc s <> AExited) ->
  exists l, progress_label l /\ enabled c s l.
Proof.
  intros Hcap Hclr Hpi Hwork.
  pose proof (pi_open _ Hpi) as (_ & _ & Hp).
  destruct (s_apend s) eqn:Epend.
  2: { exists (LApp false []). split; [exact I|]. apply app_progress; auto. left. congruence. }
  assert (Happ : s_apc s <> AIdle -> s_apc s <> AExited -> exists l, progress_label l /\ enabled c s l).
  { intros. exists (LApp false []). split; [exact I|]. apply app_progress; auto. }
  destruct (s_apc s) eqn:Ea; try (apply Happ; discriminate).
  - destruct (s_buf s) eqn:Ebuf.
    2: { exists (LApp false []). split; [exact I|]. apply app_progress; auto. right; right. split; congruence. }
    destruct Hwork as [(tid & t & Hl & Hop)|[?|[?|[? _]]]]; try congruence.
    exists (LStep tid). split; [exact I|]. eapply client_enabled; eauto.
  - destruct (pi_exited _ Hpi Ea) as (tid & t & Hl & Hin).
    exists (LStep tid). split; [exact I|]. eapply client_enabled; eauto.
    intros Hn. apply (ci_idle _ Hclr) in Hl; auto. rewrite Hl in Hin. exact Hin.
Qed.
