(* C08, "every call returns in bounded time" at the grain of the machine: a potential that every step of a client
   goroutine or of the applier strictly decreases.  Without new calls and ticker events the system therefore comes
   to rest after at most [phi s] steps, and (ProtoProofs.no_deadlock) it cannot rest while a call is unfinished. *)
From stdpp Require Import gmap.
From Ristretto Require Import Base.Word Cache.Policy Cache.PolicyProofs Cache.Store Cache.StoreProofs Cache.Machine
  Cache.MachineProofs Cache.SyncProofs Cache.ProtoProofs.
Local Open Scope nat_scope.

Definition wa_got (i : item) : nat := match it_flag i with FNew => 23 | FUpd => 1 | FDel => 3 end.
Definition wi (i : item) : nat := match it_wait i with Some _ => 1 | None => S (wa_got i) end.
Definition wa (a : apc) : nat :=
  match a with
  | AIdle | AExited => 0
  | AGot i => wa_got i
  | ANewSet _ vs => 4 + 3 * length vs
  | AVict vs => 3 * length vs + 1
  | ADelStore _ => 2
  | ASweep ks _ => 4 * length ks + 1
  | ASweepPol _ _ ks _ => 4 * length ks + 4
  end.
Definition wc (pc : cpc) : nat :=
  match pc with
  | CIdle => 0
  | CSetUpd _ => 27 | CSetSend _ => 25
  | CDelStore _ _ => 7 | CDelSend _ _ => 5
  | CWaitSend => 3 | CWaitBlock _ => 1
  | CTtl2 => 1
  | CClr ClrStop _ => 7 | CClr ClrDrain _ => 6 | CClr ClrPolicy _ => 5 | CClr ClrStore _ => 4
  | CClr ClrMetrics _ => 3 | CClr ClrRestart _ => 2 | CClr ClsStop _ => 1
  end.
Definition wt (t : cthread) : nat := wc (t_pc t) + length (t_pend t).
Definition wthreads (T : gmap nat cthread) : nat := list_sum (List.map (fun kt => wt kt.2) (map_to_list T)).
Definition wbuf (B : list item) : nat := list_sum (List.map wi B).

Definition phi (s : state) : nat :=
  wthreads (s_threads s) + wbuf (s_buf s) + wa (s_apc s) + length (s_apend s) +
  18 * size (p_costs (s_pol s)) + 2 * size (s_store s) + (if s_panic s then 0 else 1).

Lemma list_sum_cons' a l : list_sum (a :: l) = a + list_sum l.
Proof. reflexivity. Qed.

Lemma wthreads_insert (T : gmap nat cthread) tid t' :
  wthreads (<[tid := t']> T) + wt (default idle_thread (T !! tid)) = wthreads T + wt t'.
Proof.
  unfold wthreads. destruct (T !! tid) as [t0|] eqn:E; simpl.
  - rewrite <- insert_delete_insert.
    assert (P1 : map_to_list (<[tid:=t']> (delete tid T)) ≡ₚ (tid, t') :: map_to_list (delete tid T))
      by (apply map_to_list_insert, lookup_delete).
    assert (P2 : map_to_list T ≡ₚ (tid, t0) :: map_to_list (delete tid T)) by (symmetry; now apply map_to_list_delete).
    assert (S : forall l1 l2 : list (nat * cthread), l1 ≡ₚ l2 ->
                list_sum (List.map (fun kt => wt kt.2) l1) = list_sum (List.map (fun kt => wt kt.2) l2)).
    { induction 1; simpl; lia. }
    rewrite (S _ _ P1), (S _ _ P2). cbn [List.map snd]. rewrite !list_sum_cons'. lia.
  - assert (P1 : map_to_list (<[tid:=t']> T) ≡ₚ (tid, t') :: map_to_list T) by (now apply map_to_list_insert).
    assert (S : forall l1 l2 : list (nat * cthread), l1 ≡ₚ l2 ->
                list_sum (List.map (fun kt => wt kt.2) l1) = list_sum (List.map (fun kt => wt kt.2) l2)).
    { induction 1; simpl; lia. }
    rewrite (S _ _ P1). cbn [List.map snd]. rewrite !list_sum_cons'. change (wt idle_thread) with 0. lia.
Qed.

Lemma wbuf_app B i : wbuf (B ++ [i]) = wbuf B + wi i.
Proof. unfold wbuf. rewrite map_app, list_sum_app. simpl. lia. Qed.
Lemma wbuf_cons B i : wbuf (i :: B) = wi i + wbuf B.
Proof. reflexivity. Qed.
Lemma wi_le i : wi i <= 24.
Proof. unfold wi, wa_got. destruct (it_wait i), (it_flag i); lia. Qed.
Lemma wi_set_cost i z : wa_got (set_cost i z) = wa_got i.
Proof. reflexivity. Qed.

(* sizes under the store / policy operations *)
Lemma size_store_update bdur should st e k cf v exp r st' e' :
  store_update bdur should st e k cf v exp = (r, st', e') -> size st' = size st.
Proof.
  unfold store_update. intros H. destruct (st !! k) as [it|] eqn:E; [|now inversion H].
  destruct (negb (conf_ok cf (si_conf it))); [now inversion H|].
  destruct (negb (should v (si_val it))); inversion H; subst; auto. now rewrite map_size_insert_Some by eauto.
Qed.
Lemma size_store_set bdur should st e k cf v exp st' e' :
  store_set bdur should st e k cf v exp = (st', e') -> size st' <= S (size st).
Proof.
  unfold store_set. intros H. destruct (st !! k) as [it|] eqn:E.
  - destruct (negb (conf_ok cf (si_conf it))); [inversion H; lia|].
    destruct (negb (should v (si_val it))); inversion H; subst; [lia|]. rewrite map_size_insert_Some by eauto. lia.
  - inversion H; subst. rewrite map_size_insert_None by auto. lia.
Qed.
Lemma size_store_del bdur st e k cf r st' e' : store_del bdur st e k cf = (r, st', e') -> size st' <= size st.
Proof.
  unfold store_del. intros H. destruct (st !! k) as [it|] eqn:E; [|inversion H; lia].
  destruct (negb (conf_ok cf (si_conf it))); inversion H; subst; [lia|]. rewrite map_size_delete, E. lia.
Qed.
Lemma size_store_delexp bdur st e k cf t r st' e' :
  store_del_expired bdur st e k cf t = (r, st', e') -> size st' <= size st.
Proof.
  unfold store_del_expired. intros H. destruct (st !! k) as [it|] eqn:E; [|inversion H; lia].
  destruct (negb (conf_ok cf (si_conf it))); [inversion H; lia|].
  destruct ((si_exp it =? 0)%Z || (t <? si_exp it)%Z); inversion H; subst; [lia|]. rewrite map_size_delete, E. lia.
Qed.
Lemma size_pol_update p m k c p' m' : pol_update p m k c = (p', m') -> size (p_costs p') = size (p_costs p).
Proof.
  unfold pol_update, pol_update_if_has. destruct (p_costs p !! k) eqn:E; intros [= <- <-]; simpl; auto.
  now rewrite map_size_insert_Some by eauto.
Qed.
Lemma size_pol_del p m k p' m' : pol_del p m k = (p', m') -> size (p_costs p') <= size (p_costs p).
Proof.
  unfold pol_del. destruct (p_costs p !! k) eqn:E; intros [= <- <-]; simpl; [|lia]. rewrite map_size_delete, E. lia.
Qed.
Lemma length_clear_cbs (st : store) : length (clear_cbs st) = 2 * size st.
Proof.
  unfold clear_cbs, size, map_size.
  induction (map_to_list st) as [|x l IH]; simpl; lia.
Qed.

Theorem progress_decreases c s l s' : progress_label l -> mstep c s l = Some s' -> phi s' < phi s.
Proof.
  intros HL H.
  step_cases H.
  all: try solve [ exfalso; exact HL ].
  all: try (match goal with E : store_update _ _ _ _ _ _ _ _ = _ |- _ => pose proof (size_store_update _ _ _ _ _ _ _ _ _ _ _ E) end).
  all: try (match goal with E : store_set _ _ _ _ _ _ _ _ = _ |- _ => pose proof (size_store_set _ _ _ _ _ _ _ _ _ _ E) end).
  all: try (match goal with E : store_del _ _ _ _ _ = _ |- _ => pose proof (size_store_del _ _ _ _ _ _ _ _ E) end).
  all: try (match goal with E : store_del_expired _ _ _ _ _ _ = _ |- _ => pose proof (size_store_delexp _ _ _ _ _ _ _ _ _ E) end).
  all: try (match goal with E : pol_update _ _ _ _ = _ |- _ => pose proof (size_pol_update _ _ _ _ _ _ E) end).
  all: try (match goal with E : pol_del _ _ _ = _ |- _ => pose proof (size_pol_del _ _ _ _ _ E) end).
  all: try (match goal with E : pol_add _ _ _ _ _ _ = AddOk _ _ _ _ _ _ |- _ => pose proof (pol_add_bound _ _ _ _ _ _ _ _ _ _ _ _ E) end).
  all: unfold phi; msimpl.
  all: repeat match goal with Hb : s_buf _ = _ |- context [s_buf _] => rewrite Hb end.
  all: repeat match goal with Ha : s_apc _ = _ |- context [s_apc _] => rewrite Ha end.
  all: repeat match goal with Ha : s_apend _ = _ |- context [s_apend _] => rewrite Ha end.
  all: repeat match goal with Ha : s_panic _ = _ |- context [s_panic _] => rewrite Ha end.
  all: try (match goal with |- context [wthreads (<[?tid := ?t']> ?T)] =>
              let HT := fresh "HT" in pose proof (wthreads_insert T tid t') as HT;
              change (default idle_thread (T !! tid)) with (get_thread s tid) in HT;
              unfold wt in HT; cbn [t_pc t_pend] in HT end).
  all: repeat match goal with Hp : t_pc (get_thread _ _) = _ |- _ => rewrite Hp in * end.
  all: repeat match goal with Hp : t_pend (get_thread _ _) = _ |- _ => rewrite Hp in * end.
  all: rewrite ?wbuf_app, ?wbuf_cons, ?length_clear_cbs in *.
  all: cbn [wc wa wi wa_got length evict_cbs reject_cbs it_wait it_flag tombstone marker set_cost set_flag] in *.
  all: rewrite ?map_size_empty in *.
  all: try (match goal with |- context [wi ?i] => pose proof (wi_le i) end).
  all: try lia.
  all: repeat match goal with Hd : decide _ = _ |- _ => clear Hd end.
  all: unfold pol_clear in *; cbn [p_costs] in *; rewrite ?map_size_empty in *.
  all: try lia.
  all: unfold wi, wa_got in *; cbn [it_wait it_flag set_cost] in *.
  all: repeat match goal with Hw : it_wait _ = _ |- _ => rewrite Hw in * end.
  all: repeat match goal with Hf : it_flag _ = _ |- _ => rewrite Hf in * end.
  all: try lia.
  all: try solve [ match goal with |- context [it_flag ?i] => destruct (it_flag i) eqn:?; try congruence; simpl in *; lia end ].
Qed.

(* number of labels of a schedule that are enabled when their turn comes *)
Fixpoint executed (c : cfg) (s : state) (sched : list label) : nat :=
  match sched with
  | [] => 0
  | l :: rest => match mstep c s l with
                 | Some s' => S (executed c s' rest)
                 | None => executed c s rest
                 end
  end.

Theorem bounded_progress c sched : forall s, Forall progress_label sched -> executed c s sched <= phi s.
Proof.
  induction sched as [|l rest IH]; intros s HL; simpl; [lia|]. inversion HL; subst.
  destruct (mstep c s l) as [s'|] eqn:E.
  - pose proof (progress_decreases c s l s' ltac:(assumption) E). pose proof (IH s' ltac:(assumption)). lia.
  - apply IH. assumption.
Qed.

Lemma progress_noclose l : progress_label l -> label_noclose l.
Proof. destruct l; simpl; auto. contradiction. Qed.

(* when neither a client goroutine nor the applier can step, every call has returned and nothing is pending *)
Theorem rest_means_done c maxCost bdur now mon sched0 sched :
  (1 <= c_cap c)%nat -> Forall label_noclose sched0 -> Forall progress_label sched ->
  let s := mrun c (mrun c (init_state maxCost bdur now mon) sched0) sched in
  (forall l, progress_label l -> mstep c s l = None) ->
  ~ busy s /\ s_buf s = [] /\ s_apend s = [] /\ (s_apc s = AIdle \/ s_apc s = AExited).
Proof.
  intros Hcap H0 H1 s Hrest.
  assert (Hp : proto_invs s).
  { unfold s. unfold mrun. rewrite <- fold_left_app. apply reachable_proto.
    apply Forall_app. split; auto. eapply List.Forall_impl; [|exact H1]. apply progress_noclose. }
  destruct Hp as [Hclr Hpi].
  assert (Hno : ~ (busy s \/ s_buf s <> [] \/ s_apend s <> [] \/ (s_apc s <> AIdle /\ s_apc s <> AExited))).
  { intros Hw. destruct (no_deadlock c s Hcap Hclr Hpi Hw) as (l & Hl & s' & Hs'). rewrite (Hrest l Hl) in Hs'. discriminate. }
  split; [tauto|]. split; [destruct (s_buf s); [reflexivity|exfalso; apply Hno; right; left; discriminate]|].
  split; [destruct (s_apend s); [reflexivity|exfalso; apply Hno; right; right; left; discriminate]|].
  destruct (s_apc s); auto; exfalso; apply Hno; right; right; right; split; discriminate.
Qed.
